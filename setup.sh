#!/bin/bash
# Build everything the checks need, offline, from files on disk.
set -e
cd "$(dirname "$0")"
export CARGO_NET_OFFLINE=true CARGO_TARGET_DIR=/verif/target
mkdir -p work target/tmp evidence replays
# 1. harness + fst binary against /repo's working tree, hooks on
( cd harness && RUSTFLAGS="--cfg burntsushi_fst_verif" cargo build --offline 2>&1 | tail -2 )
( cd /repo && RUSTFLAGS="--cfg burntsushi_fst_verif" cargo build --offline -p fst-bin --target-dir /verif/target 2>&1 | tail -2 )
# 2. constants regenerated from the compiled crate
./target/debug/harness dump-gen > work/Tables.lean.new
if ! cmp -s work/Tables.lean.new lean/FstVerif/Gen/Tables.lean; then cp work/Tables.lean.new lean/FstVerif/Gen/Tables.lean; fi
# 3. model driver and every theorem module
cd lean
lake build fstmodel $(ls FstVerif/Props/*.lean | sed 's#/#.#g; s#\.lean$##') 2>&1 | grep -v '^✔' | tail -5
echo "setup done"
