//! Generators for C01–C04.
use crate::auts::{sound_hint_sets, Table};
use crate::gen::*;
use crate::run::Call;
use crate::util::*;

const MAP_FES: [&str; 8] = ["raw", "map", "map_iter", "map_stream", "map_from_iter", "raw_iter", "raw_stream", "raw_from_iter_map"];
const SET_FES: [&str; 7] = ["raw", "set", "set_iter", "set_stream", "set_from_iter", "raw_from_iter_set", "set_union_stream"];

fn geom_for(fe: &str, i: usize) -> &'static str {
    if fe == "raw" || fe == "raw_iter" || fe == "raw_stream" {
        GEOMS[i % GEOMS.len()]
    } else {
        "default"
    }
}
fn mode_for(fe: &str) -> &'static str {
    if fe == "raw" || fe == "map" || fe == "set" { "seq" } else { "stop" }
}

pub fn c01(g: &mut G) {
    let sets = key_sets(g);
    let mut i = 0usize;
    for (label, keys) in &sets {
        g.emit(format!("# set {}", label));
        // two value patterns through map-like front ends
        for p in 0..2 {
            let pat = (i + p * 3) % VALUE_PATTERNS;
            let kv = values(keys, pat, &mut g.rng);
            let fe = MAP_FES[(i + p) % MAP_FES.len()];
            let ty = if fe.starts_with("raw") && !fe.contains("from") { (i % 3) as u64 } else { 0 };
            g.emit(build_line(fe, ty, geom_for(fe, i + p), mode_for(fe), &ins_calls(&kv)));
            i += 1;
        }
        if label.starts_with("widerec") || label.starts_with("fan33") || label.starts_with("stale") || label.starts_with("dense") {
            // every cache geometry
            for (gi, geom) in GEOMS.iter().enumerate() {
                let kv = values(keys, (i + gi) % VALUE_PATTERNS, &mut g.rng);
                g.emit(build_line("raw", 0, geom, "seq", &ins_calls(&kv)));
                g.emit(build_line("raw", 0, geom, "seq", &add_calls(keys)));
            }
        }
        // set-like
        let fe = SET_FES[i % SET_FES.len()];
        g.emit(build_line(fe, 0, geom_for(fe, i), mode_for(fe), &add_calls(keys)));
        // repeated keys through the set-like front ends that accept them
        if fe != "set_union_stream" && i % 2 == 0 {
            g.emit(build_line(fe, 0, geom_for(fe, i), mode_for(fe), &add_calls_rep(keys)));
        }
        i += 1;
    }
    // the same round trip when the bytes travel through a sink that takes them piecewise
    // (short writes, Interrupted), under every front end
    for (j, (label, keys)) in sets.iter().enumerate() {
        if !(j % 9 == 0 || label.starts_with("fan33") || label.starts_with("dense-bin")) {
            continue;
        }
        let kv = values(keys, (j * 5 + 2) % VALUE_PATTERNS, &mut g.rng);
        let ops = if kv.is_empty() { "-".to_string() } else { crate::run::show_calls(&ins_calls(&kv)) };
        let fes = ["raw", "map", "set", "map_iter", "set_iter", "map_stream", "set_stream", "raw_iter", "raw_stream"];
        let caps = [1usize, 2, 3, 5, 7, 64, 4096];
        let cap = caps[j % caps.len()];
        let script: Vec<String> = (0..(if keys.len() > 300 { 60000 } else { 6000 })).map(|x| if x % 11 == 10 { "I".to_string() } else { format!("T{}", cap) }).collect();
        g.emit(format!("# sink-built {}", label));
        g.emit(format!("sink 0 default {} - _ {} {}", script.join(","), ops, fes[j % fes.len()]));
        g.emit("stream always - -".into());
        g.emit("verify".into());
    }
    g.emit("!reuse 3".into());
    g.emit("!conc 3".into());
    // sizes the model cannot afford (implementation against an independent oracle, in a child process)
    g.emit("!scale bigfile set 21".into());
    g.emit(format!("!scale deepkeys{}", if g.thorough { "" } else { " quick" }));
    if g.thorough {
        g.emit("!scale bigfile map 33".into());
    }
    // large inputs: shipped corpora and long random sets (digest comparison)
    let n = if g.thorough { 100_000 } else { 10_000 };
    let mut keys: Vec<Vec<u8>> = vec![];
    if let Ok(text) = std::fs::read("/repo/data/words-10000") {
        keys = text.split(|&b| b == b'\n').filter(|l| !l.is_empty()).map(|l| l.to_vec()).collect();
        keys.sort();
        keys.dedup();
        keys.truncate(n);
    }
    if !keys.is_empty() {
        g.emit("# corpus words".into());
        g.emit(build_line("set", 0, "default", "seq", &add_calls(&keys)));
        let kv = values(&keys, 1, &mut g.rng);
        g.emit(build_line("map", 0, "default", "seq", &ins_calls(&kv)));
        let kv = values(&keys, 7, &mut g.rng);
        g.emit(build_line("raw", 5, "7x2", "seq", &ins_calls(&kv)));
    }
    let mut rng = Rng::new(g.rng.next());
    let big = random_words(&mut rng, n, b"abcdefgh", 14);
    g.emit("# random big".into());
    let kv = values(&big, 7, &mut g.rng);
    g.emit(build_line("raw", 0, "3x3", "seq", &ins_calls(&kv)));
}

fn probes(g: &mut G, keys: &[Vec<u8>]) -> Vec<Vec<u8>> {
    let mut ps: Vec<Vec<u8>> = vec![vec![]];
    let exts: Vec<u8> = if g.thorough { (0..=255u8).collect() } else { vec![0, 0x60, 0x61, 0x62, 0x63, 0x7f, 0x80, 0xff] };
    let cap = if g.thorough { 4000 } else { 400 };
    for k in keys.iter().take(60) {
        ps.push(k.clone());
        for i in 0..k.len() {
            ps.push(k[..i].to_vec());
        }
        for &e in &exts {
            let mut x = k.clone();
            x.push(e);
            ps.push(x);
        }
        for i in 0..k.len() {
            for &b in &[0x00u8, 0x60, 0x61, 0x62, 0x63, 0xff] {
                let mut x = k.clone();
                x[i] = b;
                ps.push(x);
            }
            let mut x = k.clone();
            x[i] = g.rng.below(256) as u8;
            ps.push(x);
        }
    }
    for _ in 0..20 {
        let l = g.rng.below(6) as usize;
        ps.push((0..l).map(|_| g.rng.below(256) as u8).collect());
    }
    ps.sort();
    ps.dedup();
    if ps.len() > cap {
        // keep a deterministic spread
        let step = ps.len() / cap + 1;
        ps = ps.into_iter().enumerate().filter(|(i, _)| i % step == 0).map(|(_, p)| p).collect();
    }
    ps
}

pub fn c02(g: &mut G) {
    // history and sharing: buffers that held another FST before, one FST used by many threads
    g.emit("!reuse 1".into());
    g.emit("!conc 1".into());
    g.emit("!scale bigfile map 21".into());
    g.emit(format!("!scale deepkeys{}", if g.thorough { "" } else { " quick" }));
    let sets = key_sets(g);
    let stride = if g.thorough { 1 } else { 3 };
    for (i, (label, keys)) in sets.iter().enumerate() {
        if i % stride != 0 && !label.starts_with("fan") {
            continue;
        }
        g.emit(format!("# set {}", label));
        let kv = values(keys, (i * 5 + 1) % VALUE_PATTERNS, &mut g.rng);
        g.emit(build_line("raw", 0, GEOMS[i % GEOMS.len()], "seq", &ins_calls(&kv)));
        for p in probes(g, keys) {
            g.emit(format!("get {}", hex(&p)));
            g.emit(format!("has {}", hex(&p)));
        }
        // the same FST written through a short-writing sink by a wrapper builder
        if i % (3 * stride) == 0 && keys.len() <= 400 {
            let ops = if kv.is_empty() { "-".to_string() } else { crate::run::show_calls(&ins_calls(&kv)) };
            let cap = 1 + i % 7;
            let script: Vec<String> = (0..8000).map(|x| if x % 13 == 12 { "I".to_string() } else { format!("T{}", cap) }).collect();
            g.emit(format!("sink 0 default {} - _ {} {}", script.join(","), ops, ["map", "map_iter", "map_stream", "raw"][i % 4]));
            for p in probes(g, keys).into_iter().take(150) {
                g.emit(format!("get {}", hex(&p)));
                g.emit(format!("has {}", hex(&p)));
            }
        }
    }
}

fn bound_tokens(bkeys: &[Vec<u8>]) -> (Vec<String>, Vec<String>) {
    let mut lo = vec!["-".to_string()];
    let mut hi = vec!["-".to_string()];
    for k in bkeys {
        lo.push(format!("ge:{}", hex(k)));
        lo.push(format!("gt:{}", hex(k)));
        hi.push(format!("le:{}", hex(k)));
        hi.push(format!("lt:{}", hex(k)));
    }
    (lo, hi)
}

pub fn c03(g: &mut G) {
    g.emit("!reuse 2".into());
    g.emit("!conc 2".into());
    g.emit(format!("!scale deepkeys{}", if g.thorough { "" } else { " quick" }));
    if g.thorough {
        g.emit("!scale bigfile set 21".into());
    }
    // small scopes with the full bound universe one level deeper than the keys
    let deep = if g.thorough { 4 } else { 3 };
    let u = universe(b"ab", deep - 1);
    let bu = universe(b"ab", deep);
    let (lo, hi) = bound_tokens(&bu);
    let nsets = if g.thorough { 300 } else { 60 };
    let per = if g.thorough { lo.len() * hi.len() } else { 250 };
    for s in 0..nsets {
        let mask = if s == 0 { 0 } else if s == 1 { (1u64 << u.len()) - 1 } else { g.rng.below(1 << u.len()) };
        let keys = subset(&u, mask);
        let kv = values(&keys, s % VALUE_PATTERNS, &mut g.rng);
        g.emit(format!("# ab set {}", mask));
        g.emit(build_line("raw", 0, GEOMS[s % GEOMS.len()], "seq", &ins_calls(&kv)));
        if per >= lo.len() * hi.len() {
            for l in &lo {
                for h in &hi {
                    g.emit(format!("stream always {} {}", l, h));
                }
            }
        } else {
            for _ in 0..per {
                let l = g.rng.pick(&lo).clone();
                let h = g.rng.pick(&hi).clone();
                g.emit(format!("stream always {} {}", l, h));
            }
        }
        // setter sequences: the last of a kind wins
        for _ in 0..10 {
            let l = format!("{}+{}", g.rng.pick(&lo[1..]), g.rng.pick(&lo[1..]));
            let h = format!("{}+{}", g.rng.pick(&hi[1..]), g.rng.pick(&hi[1..]));
            g.emit(format!("stream always {} {}", l, h));
        }
    }
    // {00, 61, ff} universe
    let u2 = universe(&[0x00, 0x61, 0xff], 2);
    let bu2 = universe(&[0x00, 0x61, 0xff], 3);
    let (lo2, hi2) = bound_tokens(&bu2);
    for s in 0..(if g.thorough { 60 } else { 15 }) {
        let keys = subset(&u2, g.rng.below(1 << u2.len()));
        let kv = values(&keys, (s + 3) % VALUE_PATTERNS, &mut g.rng);
        g.emit("# x set".into());
        g.emit(build_line("map", 0, "default", "seq", &ins_calls(&kv)));
        for _ in 0..200 {
            let l = g.rng.pick(&lo2).clone();
            let h = g.rng.pick(&hi2).clone();
            g.emit(format!("stream always {} {}", l, h));
        }
    }
    // long keys and long bounds: bounds that are keys, prefixes cut at 63..129 bytes, and keys
    // with one byte changed early or late (two bounds sharing their first 64 / 128 bytes)
    for (label, keys) in key_sets(g).iter().filter(|(l, _)| l.starts_with("long")) {
        let kv = values(keys, 1, &mut g.rng);
        g.emit(format!("# set {}", label));
        g.emit(build_line("map", 0, "default", "seq", &ins_calls(&kv)));
        let mut bs: Vec<Vec<u8>> = vec![];
        for k in keys.iter().step_by(if g.thorough { 1 } else { 3 }) {
            bs.push(k.clone());
            for cut in [63usize, 64, 65, 127, 128, 129] {
                if k.len() > cut {
                    bs.push(k[..cut].to_vec());
                }
            }
            let mut x = k.clone();
            let m = x.len() - 1;
            x[m] = x[m].wrapping_add(1);
            bs.push(x);
            if k.len() > 70 {
                let mut y = k.clone();
                y[66] = b'0';
                bs.push(y);
            }
        }
        bs.sort();
        bs.dedup();
        let big = label.starts_with("long4");
        let n = if g.thorough { if big { 300 } else { 1500 } } else if big { 30 } else { 250 };
        for _ in 0..n {
            let a = g.rng.pick(&bs).clone();
            let b = g.rng.pick(&bs).clone();
            let lk = ["ge", "gt"][g.rng.below(2) as usize];
            let hk = ["le", "lt"][g.rng.below(2) as usize];
            g.emit(format!("stream always {}:{} {}:{}", lk, hex(&a), hk, hex(&b)));
        }
        for b in bs.iter().take(if big { 6 } else { 40 }) {
            g.emit(format!("stream always ge:{} -", hex(b)));
            g.emit(format!("stream always - lt:{}", hex(b)));
        }
    }
    // fan-out ladder and random words with bounds around the keys
    let sets = key_sets(g);
    for (i, (label, keys)) in sets.iter().enumerate() {
        if !(label.starts_with("fan") || label.starts_with("rnd")) {
            continue;
        }
        let kv = values(keys, i % VALUE_PATTERNS, &mut g.rng);
        g.emit(format!("# set {}", label));
        g.emit(build_line("raw", 0, GEOMS[i % GEOMS.len()], "seq", &ins_calls(&kv)));
        let ps = probes(g, keys);
        let (lo3, hi3) = bound_tokens(&ps);
        for _ in 0..(if g.thorough { 150 } else { 25 }) {
            let l = g.rng.pick(&lo3).clone();
            let h = g.rng.pick(&hi3).clone();
            g.emit(format!("stream always {} {}", l, h));
        }
    }
}

/// every DFA with `n` states over classes {other, 'a'} with every sound hint assignment
pub fn small_dfas(n: usize, sample: Option<(&mut Rng, usize)>) -> Vec<Table> {
    let k = 2;
    let mut out = vec![];
    let ndelta = (n as u64).pow((n * k) as u32);
    let mut all = vec![];
    for d in 0..ndelta {
        for m in 0..(1u64 << n) {
            for start in 0..n {
                all.push((d, m, start));
            }
        }
    }
    let chosen: Vec<(u64, u64, usize)> = match sample {
        Some((rng, cnt)) => (0..cnt).map(|_| *rng.pick(&all)).collect(),
        None => all,
    };
    for (d, m, start) in chosen {
        let mut delta = vec![vec![0usize; k]; n];
        let mut dd = d;
        for s in 0..n {
            for c in 0..k {
                delta[s][c] = (dd % n as u64) as usize;
                dd /= n as u64;
            }
        }
        let matching: Vec<bool> = (0..n).map(|s| m >> s & 1 == 1).collect();
        let base = Table { nstates: n, start, classes: vec![b'a'], delta, matching, can: vec![true; n], will: vec![false; n] };
        let (can_reach, all_match) = sound_hint_sets(&base);
        let free_can: Vec<usize> = (0..n).filter(|&s| !can_reach[s]).collect();
        let free_will: Vec<usize> = (0..n).filter(|&s| all_match[s]).collect();
        for cm in 0..(1u64 << free_can.len()) {
            for wm in 0..(1u64 << free_will.len()) {
                let mut t = base.clone();
                for (j, &s) in free_can.iter().enumerate() {
                    t.can[s] = cm >> j & 1 == 0; // bit set = use the precise `false`
                }
                for (j, &s) in free_will.iter().enumerate() {
                    t.will[s] = wm >> j & 1 == 1;
                }
                out.push(t);
            }
        }
    }
    out
}

pub fn random_dfa(rng: &mut Rng, n: usize, classes: &[u8]) -> Table {
    let k = classes.len() + 1;
    let delta: Vec<Vec<usize>> = (0..n).map(|_| (0..k).map(|_| rng.below(n as u64) as usize).collect()).collect();
    let matching: Vec<bool> = (0..n).map(|_| rng.chance(1, 3)).collect();
    let base = Table { nstates: n, start: rng.below(n as u64) as usize, classes: classes.to_vec(), delta, matching, can: vec![true; n], will: vec![false; n] };
    let (cr, am) = sound_hint_sets(&base);
    let mut t = base;
    for s in 0..n {
        // randomly weakened hints: precise value or the trivially sound one
        t.can[s] = cr[s] || rng.chance(1, 2);
        t.will[s] = am[s] && rng.chance(1, 2);
    }
    t
}

pub fn c04(g: &mut G) {
    g.emit(format!("!scale deepkeys{}", if g.thorough { "" } else { " quick" }));
    let u = universe(b"ab", 3);
    let bu = universe(b"ab", 3);
    let (lo, hi) = bound_tokens(&bu);
    let mut dfas = small_dfas(1, None);
    dfas.extend(small_dfas(2, None));
    let n3 = if g.thorough { 3000 } else { 150 };
    let mut r2 = Rng::new(g.rng.next());
    dfas.extend(small_dfas(3, Some((&mut r2, n3))));
    for _ in 0..(if g.thorough { 400 } else { 60 }) {
        let n = 2 + g.rng.below(7) as usize;
        let mut r3 = Rng::new(g.rng.next());
        dfas.push(random_dfa(&mut r3, n, &[b'a', b'b']));
    }
    let nfst = if g.thorough { 24 } else { 6 };
    let per = if g.thorough { 40 } else { 8 };
    for s in 0..nfst {
        let mask = if s == 0 { (1u64 << u.len()) - 1 } else { g.rng.below(1 << u.len()) };
        let keys = subset(&u, mask);
        let kv = values(&keys, (s + 1) % VALUE_PATTERNS, &mut g.rng);
        g.emit(format!("# ab set {}", mask));
        g.emit(build_line("raw", 0, GEOMS[s % GEOMS.len()], "seq", &ins_calls(&kv)));
        // user automata that implement only start / is_match / accept (trait defaults for the hints)
        for t in dfas.iter().step_by(if g.thorough { 2 } else { 6 }) {
            let d = t.spec().replacen("dfa:", "dfd:", 1);
            g.emit(format!("streamst {} - -", d));
            let l = g.rng.pick(&lo).clone();
            let h = g.rng.pick(&hi).clone();
            g.emit(format!("stream {} {} {}", d, l, h));
        }
        // user automata that override `accept_eof`: the hook moves the end-of-key decision to another
        // state for some states; hints sound with respect to matches with AND without the hook
        for t in dfas.iter().skip(s % 3).step_by(if g.thorough { 2 } else { 5 }) {
            let n = t.nstates;
            let eof: Vec<Option<usize>> =
                (0..n).map(|_| if g.rng.chance(1, 2) { Some(g.rng.below(n as u64) as usize) } else { None }).collect();
            let mut probe = t.clone();
            for x in 0..n {
                probe.matching[x] = t.matching[x] || eof[x].map_or(false, |e| t.matching[e]);
            }
            let (cr, _) = crate::auts::sound_hint_sets(&probe);
            let mut te = t.clone();
            for x in 0..n {
                te.can[x] = cr[x] || g.rng.chance(1, 2);
                te.will[x] = false;
            }
            let d = crate::auts::eof_spec(&te, &eof);
            g.emit(format!("streamst {} - -", d));
            for _ in 0..2 {
                let l = g.rng.pick(&lo).clone();
                let h = g.rng.pick(&hi).clone();
                g.emit(format!("streamst {} {} {}", d, l, h));
            }
            // inside a combinator the hook is NOT forwarded by the crate: plain language again
            if g.rng.chance(1, 4) {
                g.emit(format!("stream co({}) - -", d));
                g.emit(format!("stream un({},str:6162) - -", d));
            }
        }
        for t in &dfas {
            g.emit(format!("streamst {} - -", t.spec()));
            for _ in 0..per {
                let l = g.rng.pick(&lo).clone();
                let h = g.rng.pick(&hi).clone();
                g.emit(format!("streamst {} {} {}", t.spec(), l, h));
            }
        }
        // shipped automata and compositions
        for a in crate::gen_d::composed_auts(g, 2, 30) {
            let l = g.rng.pick(&lo).clone();
            let h = g.rng.pick(&hi).clone();
            g.emit(format!("stream {} - -", a.show()));
            g.emit(format!("stream {} {} {}", a.show(), l, h));
        }
        // the same kind of bound set twice (the last setting wins), with and without states
        for t in dfas.iter().take(if g.thorough { 40 } else { 10 }) {
            for _ in 0..3 {
                let l = format!("{}+{}", g.rng.pick(&lo[1..]), g.rng.pick(&lo[1..]));
                let h = format!("{}+{}", g.rng.pick(&hi[1..]), g.rng.pick(&hi[1..]));
                g.emit(format!("stream {} {} {}", t.spec(), l, h));
                g.emit(format!("streamst {} {} {}", t.spec(), l, h));
            }
        }
        for a in ["str:6162", "str:_", "subseq:61", "subseq:6261", "always", "lev:6162:1"] {
            let l = g.rng.pick(&lo).clone();
            let h = g.rng.pick(&hi).clone();
            g.emit(format!("streamst {} - -", a));
            g.emit(format!("streamst {} {} {}", a, l, h));
        }
    }
    // long keys (several longer than 128 / 4096 bytes that differ early and late): searches with
    // and without states, with long bounds
    for (label, keys) in key_sets(g).iter().filter(|(l, _)| l.starts_with("long")) {
        let kv = values(keys, 2, &mut g.rng);
        g.emit(format!("# set {}", label));
        g.emit(build_line("map", 0, "default", "seq", &ins_calls(&kv)));
        let auts = ["subseq:7a", "subseq:6162", "sw(str:61)", "sw(str:6163)", "co(subseq:7a)", "always", "un(subseq:79,subseq:7a)", "in(sw(str:61),co(subseq:71))"];
        for a in auts.iter() {
            g.emit(format!("stream {} - -", a));
            for _ in 0..(if g.thorough { 12 } else if label.starts_with("long4") { 1 } else { 3 }) {
                let x = g.rng.pick(keys).clone();
                let mut y = g.rng.pick(keys).clone();
                let m = y.len() - 1;
                y[m] = y[m].wrapping_add(g.rng.below(2) as u8);
                let cut = [64usize, 128, 129, x.len()][g.rng.below(4) as usize].min(x.len());
                let (lk, hk) = (["ge", "gt"][g.rng.below(2) as usize], ["le", "lt"][g.rng.below(2) as usize]);
                g.emit(format!("stream {} {}:{} {}:{}", a, lk, hex(&x[..cut]), hk, hex(&y)));
            }
        }
        for t in dfas.iter().take(if g.thorough { 60 } else { 12 }) {
            let x = g.rng.pick(keys).clone();
            g.emit(format!("streamst {} - -", t.spec()));
            g.emit(format!("streamst {} ge:{} -", t.spec(), hex(&x[..x.len().min(130)])));
        }
    }
    let _ = Call::Add(vec![]);
}
