//! The `Map` / `Set` wrapper layer (src/map.rs, src/set.rs): every stream,
//! range, search and set-operation query that the harness runs through
//! `raw::Fst` is run again through the wrappers a user actually calls, and the
//! answers must be the same items (the properties speak of maps and sets).
use fst::automaton::AlwaysMatch;
use fst::raw;
use fst::{IntoStreamer, Streamer};

use crate::auts::{self, BoxAut};
use crate::run::{Kv, VecStream, VecStreamMap, VecStreamSet};

pub type Items = Vec<(Vec<u8>, u64, String)>;

macro_rules! bounds {
    ($sb:expr, $setters:expr) => {{
        let mut sb = $sb;
        for (k, b) in $setters {
            sb = match &k[..] {
                "ge" => sb.ge(b),
                "gt" => sb.gt(b),
                "le" => sb.le(b),
                _ => sb.lt(b),
            };
        }
        sb
    }};
}

/// the query through every wrapper path that can express it:
/// `(label, items)`; set paths report value 0
pub fn stream_paths(
    f: &raw::Fst<Vec<u8>>,
    aut: &BoxAut,
    always: bool,
    setters: &[(String, Vec<u8>)],
    with_state: bool,
) -> Vec<(&'static str, bool, Items)> {
    let mut out: Vec<(&'static str, bool, Items)> = vec![];
    let m = match fst::Map::new(f.as_bytes()) {
        Ok(m) => m,
        Err(_) => return out,
    };
    let s = match fst::Set::new(f.as_bytes()) {
        Ok(s) => s,
        Err(_) => return out,
    };
    if with_state {
        let mut items = vec![];
        let mut st = bounds!(m.search_with_state(aut), setters).into_stream();
        while let Some((k, v, a)) = st.next() {
            items.push((k.to_vec(), v, auts::show_state(aut, &a)));
        }
        out.push(("Map::search_with_state", true, items));
        let mut items = vec![];
        let mut st = bounds!(s.search_with_state(aut), setters).into_stream();
        while let Some((k, a)) = st.next() {
            items.push((k.to_vec(), 0, auts::show_state(aut, &a)));
        }
        out.push(("Set::search_with_state", false, items));
        return out;
    }
    let mut items = vec![];
    let mut st = bounds!(m.search(aut), setters).into_stream();
    while let Some((k, v)) = st.next() {
        items.push((k.to_vec(), v, String::new()));
    }
    out.push(("Map::search", true, items));
    let mut items = vec![];
    let mut st = bounds!(s.search(aut), setters).into_stream();
    while let Some(k) = st.next() {
        items.push((k.to_vec(), 0, String::new()));
    }
    out.push(("Set::search", false, items));
    // the with-state builders answer the same query (states dropped here)
    let mut items = vec![];
    let mut st = bounds!(m.search_with_state(aut), setters).into_stream();
    while let Some((k, v, _)) = st.next() {
        items.push((k.to_vec(), v, String::new()));
    }
    out.push(("Map::search_with_state (keys, values)", true, items));
    let mut items = vec![];
    let mut st = bounds!(s.search_with_state(aut), setters).into_stream();
    while let Some((k, _)) = st.next() {
        items.push((k.to_vec(), 0, String::new()));
    }
    out.push(("Set::search_with_state (keys)", false, items));
    let mut items = vec![];
    let mut st = bounds!(f.search_with_state(aut), setters).into_stream();
    while let Some((k, v, _)) = st.next() {
        items.push((k.to_vec(), v.value(), String::new()));
    }
    out.push(("raw::Fst::search_with_state (keys, values)", true, items));
    // collectors
    let v = bounds!(m.search(aut), setters).into_stream().into_byte_vec();
    out.push(("Map search into_byte_vec", true, v.into_iter().map(|(k, v)| (k, v, String::new())).collect()));
    let v = bounds!(s.search(aut), setters).into_stream().into_bytes();
    out.push(("Set search into_bytes", false, v.into_iter().map(|k| (k, 0, String::new())).collect()));
    if always {
        let v = bounds!(m.range(), setters).into_stream().into_byte_vec();
        out.push(("Map::range", true, v.into_iter().map(|(k, v)| (k, v, String::new())).collect()));
        let ks = bounds!(m.range(), setters).into_stream().into_byte_keys();
        let vs = bounds!(m.range(), setters).into_stream().into_values();
        if ks.len() == vs.len() {
            out.push((
                "Map::range into_byte_keys/into_values",
                true,
                ks.into_iter().zip(vs).map(|(k, v)| (k, v, String::new())).collect(),
            ));
        } else {
            out.push(("Map::range into_byte_keys/into_values (lengths differ)", true, vec![]));
        }
        let v = bounds!(s.range(), setters).into_stream().into_bytes();
        out.push(("Set::range", false, v.into_iter().map(|k| (k, 0, String::new())).collect()));
        if setters.is_empty() {
            let v = m.stream().into_byte_vec();
            out.push(("Map::stream", true, v.into_iter().map(|(k, v)| (k, v, String::new())).collect()));
            let v = (&m).into_stream().into_byte_vec();
            out.push(("&Map into_stream", true, v.into_iter().map(|(k, v)| (k, v, String::new())).collect()));
            let mut ks = vec![];
            let mut st = m.keys();
            while let Some(k) = st.next() {
                ks.push(k.to_vec());
            }
            let mut vs = vec![];
            let mut st = m.values();
            while let Some(v) = st.next() {
                vs.push(v);
            }
            if ks.len() == vs.len() {
                out.push(("Map::keys/values", true, ks.into_iter().zip(vs).map(|(k, v)| (k, v, String::new())).collect()));
            } else {
                out.push(("Map::keys/values (lengths differ)", true, vec![]));
            }
            let v = s.stream().into_bytes();
            out.push(("Set::stream", false, v.into_iter().map(|k| (k, 0, String::new())).collect()));
            let v = (&s).into_stream().into_bytes();
            out.push(("&Set into_stream", false, v.into_iter().map(|k| (k, 0, String::new())).collect()));
        }
    }
    out
}

/// the four set operations through `map::OpBuilder` and `set::OpBuilder`,
/// with the same choice of stream kinds as the raw run
pub fn ops_paths(
    kind: &str,
    streams: &[Kv],
    fsts: &[raw::Fst<Vec<u8>>],
    sentinel: &[u8],
    sel: &dyn Fn(usize) -> u64,
) -> Vec<(&'static str, bool, Vec<(Vec<u8>, Vec<(usize, u64)>)>)> {
    // the wrappers over the very bytes of the raw run (no rebuild: a default
    // builder allocates a 20 000-cell cache)
    let maps: Vec<fst::Map<&[u8]>> = fsts.iter().map(|f| fst::Map::new(f.as_bytes()).unwrap()).collect();
    let sets: Vec<fst::Set<&[u8]>> = fsts.iter().map(|f| fst::Set::new(f.as_bytes()).unwrap()).collect();
    let mut out = vec![];
    {
        let mut ob = fst::map::OpBuilder::new();
        for (i, m) in maps.iter().enumerate() {
            match sel(i) {
                0 => ob.push(m),
                1 => ob.push(m.range()),
                2 => ob.push(m.search(AlwaysMatch)),
                3 => ob.push(VecStreamMap(VecStream { items: streams[i].clone(), i: 0 })),
                _ => ob.push(m.range().lt(sentinel)),
            }
        }
        macro_rules! drain {
            ($s:expr) => {{
                let mut s = $s;
                let mut v = vec![];
                while let Some((k, outs)) = s.next() {
                    v.push((k.to_vec(), outs.iter().map(|iv| (iv.index, iv.value)).collect::<Vec<_>>()));
                }
                v
            }};
        }
        let items = match kind {
            "union" => drain!(ob.union()),
            "inter" => drain!(ob.intersection()),
            "symdiff" => drain!(ob.symmetric_difference()),
            _ => drain!(ob.difference()),
        };
        out.push(("map::OpBuilder", true, items));
    }
    {
        let mut ob = fst::set::OpBuilder::new();
        for (i, s) in sets.iter().enumerate() {
            match sel(i) {
                0 => ob.push(s),
                1 => ob.push(s.range()),
                2 => ob.push(s.search(AlwaysMatch)),
                3 => ob.push(VecStreamSet(VecStream { items: streams[i].clone(), i: 0 })),
                _ => ob.push(s.range().lt(sentinel)),
            }
        }
        macro_rules! drain {
            ($s:expr) => {{
                let mut s = $s;
                let mut v = vec![];
                while let Some(k) = s.next() {
                    v.push((k.to_vec(), vec![]));
                }
                v
            }};
        }
        let items = match kind {
            "union" => drain!(ob.union()),
            "inter" => drain!(ob.intersection()),
            "symdiff" => drain!(ob.symmetric_difference()),
            _ => drain!(ob.difference()),
        };
        out.push(("set::OpBuilder", false, items));
    }
    // the chaining style and the collecting impls
    {
        let ob: fst::set::OpBuilder = sets.iter().collect();
        let mut s = match kind {
            "union" => Box::new(ob.union()) as Box<dyn for<'a> Streamer<'a, Item = &'a [u8]>>,
            "inter" => Box::new(ob.intersection()),
            "symdiff" => Box::new(ob.symmetric_difference()),
            _ => Box::new(ob.difference()),
        };
        let mut v = vec![];
        while let Some(k) = s.next() {
            v.push((k.to_vec(), vec![]));
        }
        // whole sets only: keys of the sentinel variant are dropped for comparison
        let v: Vec<_> = v.into_iter().filter(|(k, _)| &k[..] != sentinel).collect();
        out.push(("set::OpBuilder from_iter(&Set)", false, v));
    }
    out
}

/// `Set::is_disjoint / is_subset / is_superset`
pub fn pred_paths(
    kind: &str,
    streams: &[Kv],
    fsts: &[raw::Fst<Vec<u8>>],
    sel1: u64,
    sentinel: &[u8],
) -> Vec<(&'static str, bool)> {
    let a = fst::Set::new(fsts[0].as_bytes()).unwrap();
    let b = fst::Set::new(fsts[1].as_bytes()).unwrap();
    let got = match (sel1, kind) {
        (3, "disjoint") => a.is_disjoint(VecStreamSet(VecStream { items: streams[1].clone(), i: 0 })),
        (3, "subset") => a.is_subset(VecStreamSet(VecStream { items: streams[1].clone(), i: 0 })),
        (3, _) => a.is_superset(VecStreamSet(VecStream { items: streams[1].clone(), i: 0 })),
        (4, "disjoint") => a.is_disjoint(b.range().lt(sentinel)),
        (4, "subset") => a.is_subset(b.range().lt(sentinel)),
        (4, _) => a.is_superset(b.range().lt(sentinel)),
        (_, "disjoint") => a.is_disjoint(&b),
        (_, "subset") => a.is_subset(&b),
        (_, _) => a.is_superset(&b),
    };
    vec![("Set predicate", got)]
}
