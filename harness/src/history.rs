//! History, reuse and interleaving: what was done before — on this thread, with this buffer, by
//! another thread at the same time — must not change any answer.
//!  * `!reuse <seed>`: different FSTs of the SAME LENGTH are written, one after the other, into
//!    the SAME buffer (same address) and queried through borrowed slices; after a successful
//!    `verify()` the buffer is damaged in place and must no longer verify.
//!  * `!conc <seed>`: one `Fst`/`Map`/`Set` shared by many threads that all start at the same
//!    moment and do lookups, streams, `get_key` and `verify()` concurrently.
//!  * `!interleave <seed>`: several builders alive on one thread and fed in alternation; a builder
//!    created on one thread and finished on another.
use std::sync::{Arc, Barrier};

use fst::raw;
use fst::{IntoStreamer, Streamer};

use crate::run::{Kv, Runner};
use crate::util::*;

fn words(rng: &mut Rng, n: usize, alpha: &[u8], maxlen: usize) -> Vec<Vec<u8>> {
    let mut v: Vec<Vec<u8>> = (0..n).map(|_| (0..(1 + rng.below(maxlen as u64))).map(|_| *rng.pick(alpha)).collect()).collect();
    v.sort();
    v.dedup();
    v
}

/// every query the harness knows against `f`, compared with `kv`
fn query_all(r: &mut Runner, f: &raw::Fst<&[u8]>, kv: &Kv, monotone: bool, what: &str) {
    let got = f.stream().into_byte_vec();
    r.check(&got == kv, || format!("C01 C03 C10 {}: stream yields {} want {}", what, show_kvs(&got), show_kvs(kv)));
    r.check(f.len() == kv.len(), || format!("C01 {}: len() = {} want {}", what, f.len(), kv.len()));
    for (i, (k, v)) in kv.iter().enumerate() {
        let g = f.get(k).map(|o| o.value());
        r.check(g == Some(*v) && f.contains_key(k), || format!("C02 C10 {}: get({}) = {:?} (contains_key {}), inserted {}", what, hex(k), g, f.contains_key(k), v));
        let mut ext = k.clone();
        ext.push(b'~');
        let absent = !kv.iter().any(|(k2, _)| k2 == &ext);
        r.check(!absent || (f.get(&ext).is_none() && !f.contains_key(&ext)), || format!("C02 {}: get({}) = {:?} for a key that was not inserted", what, hex(&ext), f.get(&ext).map(|o| o.value())));
        if monotone {
            let gk = f.get_key(*v);
            r.check(gk.as_ref() == Some(k), || format!("C16 {}: get_key({}) = {:?} want {}", what, v, gk.as_ref().map(|x| hex(x)), hex(k)));
            r.check(f.get_key(v + 1).is_none() || kv.iter().any(|(_, v2)| *v2 == v + 1), || format!("C16 {}: get_key({}) finds a key", what, v + 1));
        }
        if i % 3 == 0 {
            let want: Kv = kv.iter().filter(|(k2, _)| k2 >= k).cloned().collect();
            let g = f.range().ge(k).into_stream().into_byte_vec();
            r.check(g == want, || format!("C03 {}: range ge {} yields {} want {}", what, hex(k), show_kvs(&g), show_kvs(&want)));
            let mut b = k.clone();
            b.push(b'x');
            let want: Kv = kv.iter().filter(|(k2, _)| k2 >= &b).cloned().collect();
            let g = f.range().ge(&b).into_stream().into_byte_vec();
            r.check(g == want, || format!("C03 {}: range ge {} yields {} want {}", what, hex(&b), show_kvs(&g), show_kvs(&want)));
        }
    }
}

pub fn bang_reuse(r: &mut Runner, t: &[&str]) {
    let seed: u64 = t.get(1).and_then(|x| x.parse().ok()).unwrap_or(1);
    let mut rng = Rng::new(seed);
    let mut pairs = 0;
    for round in 0..40 {
        // a family of maps over similar keys with strictly increasing values of the same widths:
        // many of them have the same length
        let alpha: &[u8] = if round % 2 == 0 { b"ab" } else { b"abcx" };
        let mut fam: Vec<(Kv, Vec<u8>, u64)> = vec![];
        for _ in 0..12 {
            let nk = 2 + rng.below(5) as usize;
            let ks = words(&mut rng, nk, alpha, 3);
            let mut v = 10 + rng.below(80);
            let kv: Kv = ks
                .into_iter()
                .map(|k| {
                    v += 1 + rng.below(9);
                    (k, v)
                })
                .collect();
            for version in [3u64, 1, 2] {
                let bytes = if version == 3 {
                    raw::Fst::from_iter_map(kv.iter().cloned()).unwrap().into_inner()
                } else {
                    crate::refenc::encode(version, 0, &kv, 0, false)
                };
                fam.push((kv.clone(), bytes, version));
            }
        }
        // group by length; reuse one buffer per group
        fam.sort_by_key(|x| x.1.len());
        let mut i = 0;
        while i < fam.len() {
            let mut j = i;
            while j < fam.len() && fam[j].1.len() == fam[i].1.len() {
                j += 1;
            }
            if j - i >= 2 {
                let mut buf: Vec<u8> = fam[i].1.clone();
                // visit the group twice, in alternating order (stale entries of either kind)
                let order: Vec<usize> = (i..j).chain((i..j).rev()).collect();
                for &x in &order {
                    buf.copy_from_slice(&fam[x].1);
                    let (kv, _, version) = &fam[x];
                    match raw::Fst::new(&buf[..]) {
                        Err(e) => r.fail(format!("C10 C20 a well-formed version-{} file does not open when its buffer held another FST before: {:?}", version, e)),
                        Ok(f) => {
                            pairs += 1;
                            let what = format!("a version-{} FST of {} bytes written into a buffer that held a different FST of the same length", version, buf.len());
                            // (get_key needs the builder's output placement: only for files the crate's builder wrote)
                            query_all(r, &f, kv, *version == 3, &what);
                            let v = f.verify();
                            let ok = if *version >= 3 { v.is_ok() } else { matches!(v, Err(fst::Error::Fst(raw::Error::ChecksumMissing))) };
                            r.check(ok, || format!("C08 C10 {}: verify() = {:?}", what, v));
                        }
                    }
                }
            }
            i = j;
        }
    }
    r.notes.push(format!("reuse: {} FSTs queried in reused buffers", pairs));
    // verified, then damaged IN PLACE (small and 64 KiB+ buffers)
    for (n, klen) in [(40usize, 6usize), (300, 8), (9000, 12), (60_000, 14)] {
        let ks = words(&mut rng, n, b"abcdefgh", klen);
        let kv: Kv = ks.iter().enumerate().map(|(i, k)| (k.clone(), i as u64 * 3 + 1)).collect();
        let mut buf = raw::Fst::from_iter_map(kv.iter().cloned()).unwrap().into_inner();
        let len = buf.len();
        for step in 0..24usize {
            {
                let f = raw::Fst::new(&buf[..]).unwrap();
                r.check(f.verify().is_ok() && f.verify().is_ok(), || format!("C08 verify() of an intact {}-byte FST fails", len));
            }
            let pos = 17 + (step * 7919 + rng.below(len as u64) as usize) % (len - 17 - 21).max(1);
            let old = buf[pos];
            buf[pos] ^= 1 << (step % 8);
            let certified = std::panic::catch_unwind(|| match raw::Fst::new(&buf[..]) {
                Ok(f) => f.verify().is_ok(),
                Err(_) => false,
            });
            r.check(certified.as_ref().ok() == Some(&false), || {
                format!("C08 C20 a {}-byte FST that verified is damaged in place (byte {}): open+verify = {:?} (must be a clean rejection)", len, pos, certified.as_ref().map_err(|_| "panic"))
            });
            buf[pos] = old;
        }
    }
}

pub fn bang_conc(r: &mut Runner, t: &[&str]) {
    let seed: u64 = t.get(1).and_then(|x| x.parse().ok()).unwrap_or(1);
    let mut rng = Rng::new(seed);
    // the very first verify() of a shared FST, by all threads at the same moment (several sizes:
    // the longer verify() runs, the more the calls overlap)
    for nkeys in [50usize, 5_000, 60_000, 60_000, 60_000] {
        let ks = words(&mut rng, nkeys, b"abcdefgh", 12);
        let bytes = raw::Fst::from_iter_set(ks.iter()).unwrap().into_inner();
        for as_map in [false, true] {
            let f = Arc::new(raw::Fst::new(bytes.clone()).unwrap());
            let m = Arc::new(fst::Map::new(bytes.clone()).unwrap());
            let barrier = Arc::new(Barrier::new(16));
            let hs: Vec<_> = (0..16)
                .map(|_| {
                    let (f, m, barrier) = (f.clone(), m.clone(), barrier.clone());
                    std::thread::spawn(move || {
                        barrier.wait();
                        let a = if as_map { m.as_fst().verify().is_ok() } else { f.verify().is_ok() };
                        let b = f.verify().is_ok();
                        a && b
                    })
                })
                .collect();
            let mut panicked = 0;
            let mut wrong = 0;
            for h in hs {
                match h.join() {
                    Ok(true) => {}
                    Ok(false) => wrong += 1,
                    Err(_) => panicked += 1,
                }
            }
            r.check(panicked == 0 && wrong == 0, || format!("C20 C08 16 threads calling verify() on one shared {}-byte FST for the first time at the same moment: {} panicked, {} got an error", bytes.len(), panicked, wrong));
        }
    }
    for round in 0..6 {
        // keys starting with many different bytes, values that put non-zero outputs on the root's transitions
        let mut ks: Vec<Vec<u8>> = vec![];
        for c in b"abcdefghijklmnopqrstuvwxyz".iter().take(4 + round * 4) {
            for i in 0..(20 + round * 10) {
                ks.push(format!("{}{:03}", *c as char, i * 7 % 1000).into_bytes());
            }
        }
        ks.sort();
        ks.dedup();
        let kv: Kv = ks.iter().enumerate().map(|(i, k)| (k.clone(), 1000 * (1 + k[0] as u64 - b'a' as u64) + i as u64)).collect();
        let bytes = raw::Fst::from_iter_map(kv.iter().cloned()).unwrap().into_inner();
        let shared = Arc::new(raw::Fst::new(bytes.clone()).unwrap());
        let map = Arc::new(fst::Map::new(bytes).unwrap());
        let kv = Arc::new(kv);
        let nthreads = 12;
        let barrier = Arc::new(Barrier::new(nthreads));
        let mut hs = vec![];
        for th in 0..nthreads {
            let (f, m, kv, barrier) = (shared.clone(), map.clone(), kv.clone(), barrier.clone());
            let s0 = rng.next();
            hs.push(std::thread::spawn(move || -> Vec<String> {
                let mut bad: Vec<String> = vec![];
                let mut rng = Rng::new(s0);
                barrier.wait();
                // the FIRST call of every thread at the same moment
                match th % 4 {
                    0 => {
                        if f.verify().is_err() {
                            bad.push("C20 C08 verify() of a shared FST fails when several threads call it first at the same time".into());
                        }
                    }
                    1 => {
                        let (k, v) = &kv[th % kv.len()];
                        if f.get(k).map(|o| o.value()) != Some(*v) {
                            bad.push(format!("C02 first concurrent get({}) wrong", hex(k)));
                        }
                    }
                    2 => {
                        let (k, v) = &kv[(th * 37) % kv.len()];
                        if f.get_key(*v).as_ref() != Some(k) {
                            bad.push(format!("C16 first concurrent get_key({}) wrong", v));
                        }
                    }
                    _ => {
                        if f.stream().into_byte_vec() != **kv {
                            bad.push("C01 C03 first concurrent stream wrong".into());
                        }
                    }
                }
                for it in 0..4000 {
                    let (k, v) = &kv[rng.below(kv.len() as u64) as usize];
                    match it % 7 {
                        0 | 1 | 2 => {
                            let g = if it % 2 == 0 { f.get(k).map(|o| o.value()) } else { m.get(k) };
                            if g != Some(*v) {
                                bad.push(format!("C02 concurrent get({}) = {:?}, inserted {} (one FST shared by {} threads)", hex(k), g, v, 12));
                            }
                        }
                        3 => {
                            let mut x = k.clone();
                            x.push(b'!');
                            if f.contains_key(&x) || !f.contains_key(k) {
                                bad.push(format!("C02 concurrent contains_key around {} wrong", hex(k)));
                            }
                        }
                        4 => {
                            let g = f.get_key(*v);
                            if g.as_ref() != Some(k) {
                                bad.push(format!("C16 concurrent get_key({}) = {:?} want {} (one FST shared by 12 threads)", v, g.as_ref().map(|x| hex(x)), hex(k)));
                            }
                        }
                        5 => {
                            let want: Kv = kv.iter().filter(|(k2, _)| k2 >= k).take(5).cloned().collect();
                            let mut s = f.range().ge(k).into_stream();
                            let mut got: Kv = vec![];
                            while got.len() < 5 {
                                match s.next() {
                                    Some((a, b)) => got.push((a.to_vec(), b.value())),
                                    None => break,
                                }
                            }
                            if got != want {
                                bad.push(format!("C03 concurrent range ge {} wrong", hex(k)));
                            }
                        }
                        _ => {
                            if it % 700 == 6 && f.verify().is_err() {
                                bad.push("C20 C08 concurrent verify() fails".into());
                            }
                        }
                    }
                    if bad.len() > 5 {
                        break;
                    }
                }
                bad
            }));
        }
        for h in hs {
            match h.join() {
                Ok(bad) => {
                    for b in bad.into_iter().take(3) {
                        r.fail(b);
                    }
                    r.checks += 1;
                }
                Err(_) => r.fail("C20 C02 C16 a thread using a shared FST panicked (lookups / verify() from several threads at once)".into()),
            }
        }
    }
}

pub fn bang_interleave(r: &mut Runner, t: &[&str]) {
    let seed: u64 = t.get(1).and_then(|x| x.parse().ok()).unwrap_or(1);
    let mut rng = Rng::new(seed);
    for round in 0..8 {
        let n = 3 + round % 3;
        let inputs: Vec<Kv> = (0..n)
            .map(|_| {
                let nk = 200 + rng.below(400) as usize;
                let ks = words(&mut rng, nk, b"abcde", 6);
                ks.into_iter().enumerate().map(|(i, k)| (k, (i as u64 * 13) % 97)).collect()
            })
            .collect();
        let solo: Vec<Vec<u8>> = inputs
            .iter()
            .map(|kv| {
                let kv = kv.clone();
                std::thread::spawn(move || raw::Fst::from_iter_map(kv.into_iter()).unwrap().into_inner()).join().unwrap()
            })
            .collect();
        // all builders alive on this thread, fed in alternation
        let mut bs: Vec<raw::Builder<Vec<u8>>> = (0..n).map(|_| raw::Builder::memory()).collect();
        let maxlen = inputs.iter().map(|x| x.len()).max().unwrap();
        for i in 0..maxlen {
            for (j, b) in bs.iter_mut().enumerate() {
                if let Some((k, v)) = inputs[j].get(i) {
                    b.insert(k, *v).unwrap();
                }
            }
        }
        for (j, b) in bs.into_iter().enumerate() {
            let bytes = b.into_inner().unwrap();
            r.check(bytes == solo[j], || format!("C15 C12 builder #{} of {} fed in alternation on one thread wrote {} bytes, alone {} bytes", j, n, bytes.len(), solo[j].len()));
        }
        // created here, half fed here, finished on another thread
        let kv = inputs[0].clone();
        let mut b = raw::Builder::memory();
        let half = kv.len() / 2;
        for (k, v) in &kv[..half] {
            b.insert(k, *v).unwrap();
        }
        let rest: Kv = kv[half..].to_vec();
        let bytes = std::thread::spawn(move || {
            for (k, v) in &rest {
                b.insert(k, *v).unwrap();
            }
            b.into_inner().unwrap()
        })
        .join()
        .unwrap();
        r.check(bytes == solo[0], || format!("C15 C12 a builder moved to another thread half-way wrote {} bytes, alone {} bytes", bytes.len(), solo[0].len()));
    }
}

/// built-in automata built one after the other over patterns that live in the SAME String
/// buffer (same address, same length), and a shared automaton started from several threads at once
pub fn bang_authistory(r: &mut Runner, t: &[&str]) {
    use fst::automaton::{Automaton, Str, Subsequence};
    let seed: u64 = t.get(1).and_then(|x| x.parse().ok()).unwrap_or(1);
    let mut rng = Rng::new(seed);
    fn subseq(p: &[u8], w: &[u8]) -> bool {
        let mut i = 0;
        for &b in w {
            if i < p.len() && p[i] == b {
                i += 1;
            }
        }
        i == p.len()
    }
    let mut buf = String::with_capacity(64);
    let ws: Vec<Vec<u8>> = (0..200).map(|_| (0..rng.below(9)).map(|_| b'a' + rng.below(4) as u8).collect()).collect();
    for len in 1..=5usize {
        let pats: Vec<String> = (0..12).map(|_| (0..len).map(|_| (b'a' + rng.below(4) as u8) as char).collect()).collect();
        for p in &pats {
            buf.clear();
            buf.push_str(p);
            let a = Subsequence::new(&buf);
            let s = Str::new(&buf);
            let sw = Str::new(&buf).starts_with();
            for w in &ws {
                let run = |aut: &dyn Fn(&[u8]) -> bool| aut(w);
                let m_sub = {
                    let mut st = a.start();
                    for &b in w.iter() {
                        st = a.accept(&st, b);
                    }
                    a.is_match(&st)
                };
                let m_str = {
                    let mut st = s.start();
                    for &b in w.iter() {
                        st = s.accept(&st, b);
                    }
                    s.is_match(&st)
                };
                let m_sw = {
                    let mut st = sw.start();
                    for &b in w.iter() {
                        st = sw.accept(&st, b);
                    }
                    sw.is_match(&st)
                };
                let _ = run;
                r.check(m_sub == subseq(p.as_bytes(), w), || format!("C18 Subsequence({}) on {}: {} (pattern built in a String buffer that held another pattern of the same length before)", p, hex(w), m_sub));
                r.check(m_str == (w == p.as_bytes()), || format!("C18 Str({}) on {}: {} (reused pattern buffer)", p, hex(w), m_str));
                r.check(m_sw == w.starts_with(p.as_bytes()), || format!("C18 Str({}).starts_with() on {}: {} (reused pattern buffer)", p, hex(w), m_sw));
            }
        }
    }
    // one automaton value, many searches, many threads starting at the same moment
    struct Slow;
    impl Automaton for Slow {
        type State = bool;
        fn start(&self) -> bool {
            true
        }
        fn is_match(&self, s: &bool) -> bool {
            std::thread::sleep(std::time::Duration::from_millis(3));
            *s
        }
        fn accept(&self, _: &bool, b: u8) -> bool {
            b == b'a'
        }
    }
    for _ in 0..6 {
        let sw = Arc::new(Slow.starts_with());
        let barrier = Arc::new(Barrier::new(8));
        let hs: Vec<_> = (0..8)
            .map(|i| {
                let (sw, barrier) = (sw.clone(), barrier.clone());
                std::thread::spawn(move || {
                    barrier.wait();
                    std::thread::sleep(std::time::Duration::from_micros(300 * i));
                    let s0 = sw.start();
                    let m0 = sw.is_match(&s0);
                    let s1 = sw.accept(&s0, b'z');
                    (m0, sw.is_match(&s1), sw.will_always_match(&s0))
                })
            })
            .collect();
        for h in hs {
            match h.join() {
                Ok((m0, m1, wa)) => r.check(m0 && m1 && wa, || format!("C18 StartsWith(A) with A matching the empty string, started from 8 threads at once: is_match(start)={} after a byte={} will_always_match={}", m0, m1, wa)),
                Err(_) => r.fail("C18 a thread using a shared StartsWith automaton panicked".into()),
            }
        }
    }
}
