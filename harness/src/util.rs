//! SplitMix64, hex, digests: shared by generators, runner and oracles.

pub struct Rng(pub u64);

impl Rng {
    pub fn new(seed: u64) -> Rng {
        Rng(seed ^ 0x5DEECE66D)
    }
    pub fn next(&mut self) -> u64 {
        self.0 = self.0.wrapping_add(0x9E3779B97F4A7C15);
        let mut z = self.0;
        z = (z ^ (z >> 30)).wrapping_mul(0xBF58476D1CE4E5B9);
        z = (z ^ (z >> 27)).wrapping_mul(0x94D049BB133111EB);
        z ^ (z >> 31)
    }
    pub fn below(&mut self, n: u64) -> u64 {
        if n == 0 {
            0
        } else {
            self.next() % n
        }
    }
    pub fn chance(&mut self, num: u64, den: u64) -> bool {
        self.below(den) < num
    }
    pub fn pick<'a, T>(&mut self, xs: &'a [T]) -> &'a T {
        &xs[self.below(xs.len() as u64) as usize]
    }
}

pub fn hex(bs: &[u8]) -> String {
    if bs.is_empty() {
        return "_".to_string();
    }
    let mut s = String::with_capacity(bs.len() * 2);
    for b in bs {
        s.push_str(&format!("{:02x}", b));
    }
    s
}

pub fn unhex(s: &str) -> Vec<u8> {
    if s == "_" {
        return vec![];
    }
    let b = s.as_bytes();
    let mut out = Vec::with_capacity(b.len() / 2);
    let v = |c: u8| -> u8 {
        match c {
            b'0'..=b'9' => c - b'0',
            b'a'..=b'f' => c - b'a' + 10,
            b'A'..=b'F' => c - b'A' + 10,
            _ => panic!("bad hex"),
        }
    };
    let mut i = 0;
    while i + 1 < b.len() {
        out.push(v(b[i]) * 16 + v(b[i + 1]));
        i += 2;
    }
    out
}

pub fn fnv64(bs: &[u8]) -> u64 {
    let mut h: u64 = 14695981039346656037;
    for &b in bs {
        h = (h ^ b as u64).wrapping_mul(1099511628211);
    }
    h
}

pub fn show_bytes(bs: &[u8]) -> String {
    let d = format!("n={} h={:016x}", bs.len(), fnv64(bs));
    if bs.len() <= 2048 {
        format!("{} hex={}", d, hex(bs))
    } else {
        d
    }
}

/// Independent bitwise CRC-32C (Castagnoli, reflected), and the Snappy mask.
pub fn crc32c_bitwise(data: &[u8]) -> u32 {
    let mut crc: u32 = !0;
    for &b in data {
        crc ^= b as u32;
        for _ in 0..8 {
            crc = if crc & 1 == 1 { (crc >> 1) ^ 0x82F63B78 } else { crc >> 1 };
        }
    }
    !crc
}

pub fn mask(sum: u32) -> u32 {
    ((sum >> 15) | (sum << 17)).wrapping_add(0xA282EAD8)
}

pub fn show_kvs(kvs: &[(Vec<u8>, u64)]) -> String {
    let items: Vec<String> =
        kvs.iter().map(|(k, v)| format!("{}:{}", hex(k), v)).collect();
    format!("kv {} {}", kvs.len(), items.join(","))
}

pub fn parse_kvs(s: &str) -> Vec<(Vec<u8>, u64)> {
    if s.is_empty() || s == "." {
        return vec![];
    }
    s.split(',')
        .filter(|t| !t.is_empty())
        .map(|t| {
            let mut it = t.split(':');
            let k = unhex(it.next().unwrap());
            let v: u64 = it.next().unwrap().parse().unwrap();
            (k, v)
        })
        .collect()
}
