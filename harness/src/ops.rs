//! `ops` command: the four set operations and the three predicates over
//! streams of different kinds, with the set-algebra oracle.
use fst::raw::{self, IndexedValue, OpBuilder};
use fst::automaton::AlwaysMatch;
use fst::{IntoStreamer, Streamer};
use std::collections::BTreeMap;

use crate::run::{Kv, Runner, VecStream};
use crate::util::*;

fn fst_of(kv: &Kv) -> raw::Fst<Vec<u8>> {
    raw::Fst::from_iter_map(kv.iter().map(|(k, v)| (k.clone(), *v))).unwrap()
}

pub fn show_items(items: &[(Vec<u8>, Vec<(usize, u64)>)]) -> String {
    let strs: Vec<String> = items
        .iter()
        .map(|(k, outs)| {
            let mut o = outs.clone();
            o.sort();
            format!(
                "{}={}",
                hex(k),
                o.iter().map(|(i, v)| format!("{}:{}", i, v)).collect::<Vec<_>>().join(",")
            )
        })
        .collect();
    format!("items {} {}", items.len(), strs.join(";"))
}

fn drain<'a, S>(mut s: S) -> Vec<(Vec<u8>, Vec<(usize, u64)>)>
where
    S: for<'b> Streamer<'b, Item = (&'b [u8], &'b [IndexedValue])>,
{
    let mut v = vec![];
    while let Some((k, outs)) = s.next() {
        v.push((k.to_vec(), outs.iter().map(|iv| (iv.index, iv.value)).collect()));
    }
    v
}

pub fn cmd_ops(r: &mut Runner, t: &[&str]) -> String {
    let kind = t[1];
    let streams: Vec<Kv> = t[2].split('|').map(parse_kvs).collect();
    let k = streams.len();
    // stream kinds are derived from the case text so that both runs agree
    let salt = fnv64(t[2].as_bytes());
    let sentinel: Vec<u8> = vec![0xff; 9];
    let pred = matches!(kind, "disjoint" | "subset" | "superset");
    let sel = |i: usize| -> u64 {
        if pred && i == 0 {
            0
        } else {
            (salt >> (3 * i)) % 5
        }
    };
    let fsts: Vec<raw::Fst<Vec<u8>>> = streams
        .iter()
        .enumerate()
        .map(|(i, s)| {
            if sel(i) == 4 {
                let mut s2 = s.clone();
                s2.push((sentinel.clone(), 1));
                fst_of(&s2)
            } else {
                fst_of(s)
            }
        })
        .collect();
    fn mk<'f>(
        fsts: &'f [raw::Fst<Vec<u8>>],
        streams: &[Kv],
        sentinel: &[u8],
        sel: &dyn Fn(usize) -> u64,
    ) -> OpBuilder<'f> {
        let mut ob = OpBuilder::new();
        for (i, f) in fsts.iter().enumerate() {
            match sel(i) {
                0 => ob.push(f),
                1 => ob.push(f.range()),
                2 => ob.push(f.search(AlwaysMatch)),
                3 => ob.push(VecStream { items: streams[i].clone(), i: 0 }),
                _ => ob.push(f.range().lt(sentinel)),
            }
        }
        ob
    }
    // membership counts for the oracle
    let mut occ: BTreeMap<Vec<u8>, Vec<(usize, u64)>> = BTreeMap::new();
    for (i, s) in streams.iter().enumerate() {
        for (key, v) in s {
            occ.entry(key.clone()).or_default().push((i, *v));
        }
    }
    let in_first = |key: &Vec<u8>| streams[0].iter().any(|(k2, _)| k2 == key);
    match kind {
        "union" | "inter" | "symdiff" | "diff" => {
            let items = match kind {
                "union" => drain(mk(&fsts, &streams, &sentinel, &sel).union()),
                "inter" => drain(mk(&fsts, &streams, &sentinel, &sel).intersection()),
                "symdiff" => drain(mk(&fsts, &streams, &sentinel, &sel).symmetric_difference()),
                _ => drain(mk(&fsts, &streams, &sentinel, &sel).difference()),
            };
            let want: Vec<(Vec<u8>, Vec<(usize, u64)>)> = occ
                .iter()
                .filter(|(key, o)| match kind {
                    "union" => true,
                    "inter" => o.len() == k,
                    "symdiff" => o.len() % 2 == 1,
                    _ => in_first(key) && o.len() == 1,
                })
                .map(|(key, o)| {
                    if kind == "diff" {
                        (key.clone(), vec![o[0]])
                    } else {
                        (key.clone(), o.clone())
                    }
                })
                .collect();
            let got_s = show_items(&items);
            let want_s = show_items(&want);
            r.check(got_s == want_s, || format!("C05 {} over {}: got {} want {}", kind, t[2], got_s, want_s));
            // the same operation through map::OpBuilder and set::OpBuilder
            for (label, has_values, got) in crate::wrap::ops_paths(kind, &streams, &fsts, &sentinel, &sel) {
                let same = if has_values {
                    show_items(&got) == got_s
                } else {
                    got.iter().map(|x| &x.0).collect::<Vec<_>>() == items.iter().map(|x| &x.0).collect::<Vec<_>>()
                };
                r.check(same, || format!("C05 {} over {} through {}: got {} but raw::OpBuilder yields {}", kind, t[2], label, show_items(&got), got_s));
            }
            got_s
        }
        "disjoint" | "subset" | "superset" => {
            let a = &fsts[0];
            let got = match (sel(1), kind) {
                (3, "disjoint") => a.is_disjoint(VecStream { items: streams[1].clone(), i: 0 }),
                (3, "subset") => a.is_subset(VecStream { items: streams[1].clone(), i: 0 }),
                (3, _) => a.is_superset(VecStream { items: streams[1].clone(), i: 0 }),
                (4, "disjoint") => a.is_disjoint(fsts[1].range().lt(&sentinel)),
                (4, "subset") => a.is_subset(fsts[1].range().lt(&sentinel)),
                (4, _) => a.is_superset(fsts[1].range().lt(&sentinel)),
                (_, "disjoint") => a.is_disjoint(&fsts[1]),
                (_, "subset") => a.is_subset(&fsts[1]),
                (_, _) => a.is_superset(&fsts[1]),
            };
            let ka: Vec<&Vec<u8>> = streams[0].iter().map(|(k, _)| k).collect();
            let kb: Vec<&Vec<u8>> = streams[1].iter().map(|(k, _)| k).collect();
            let want = match kind {
                "disjoint" => ka.iter().all(|x| !kb.contains(x)),
                "subset" => ka.iter().all(|x| kb.contains(x)),
                _ => kb.iter().all(|x| ka.contains(x)),
            };
            r.check(got == want, || format!("C05 is_{} on {}: got {} want {}", kind, t[2], got, want));
            for (label, g2) in crate::wrap::pred_paths(kind, &streams, &fsts, sel(1), &sentinel) {
                r.check(g2 == want, || format!("C05 is_{} on {} through {}: got {} want {}", kind, t[2], label, g2, want));
            }
            format!("bool {}", got)
        }
        _ => "badop".into(),
    }
}
