//! Implementation-only measurements and structural checks (`!` lines), and
//! the `stats` command (hook counters).
use std::alloc::{GlobalAlloc, Layout, System};
use std::borrow::Cow;
use std::collections::{BTreeMap, BTreeSet, HashMap};
use std::io;
use std::sync::atomic::{AtomicUsize, Ordering};

use fst::raw;
use fst::{IntoStreamer, Streamer};

use crate::run::{parse_calls, parse_geom, Call, Runner};
use crate::util::*;

pub struct Counting;
static LIVE: AtomicUsize = AtomicUsize::new(0);
static PEAK: AtomicUsize = AtomicUsize::new(0);
static ALLOCS: AtomicUsize = AtomicUsize::new(0);

unsafe impl GlobalAlloc for Counting {
    unsafe fn alloc(&self, l: Layout) -> *mut u8 {
        let p = System.alloc(l);
        if !p.is_null() {
            let live = LIVE.fetch_add(l.size(), Ordering::Relaxed) + l.size();
            PEAK.fetch_max(live, Ordering::Relaxed);
            ALLOCS.fetch_add(1, Ordering::Relaxed);
        }
        p
    }
    unsafe fn dealloc(&self, p: *mut u8, l: Layout) {
        System.dealloc(p, l);
        LIVE.fetch_sub(l.size(), Ordering::Relaxed);
    }
    unsafe fn realloc(&self, p: *mut u8, l: Layout, new: usize) -> *mut u8 {
        let q = System.realloc(p, l, new);
        if !q.is_null() {
            if new >= l.size() {
                let live = LIVE.fetch_add(new - l.size(), Ordering::Relaxed) + (new - l.size());
                PEAK.fetch_max(live, Ordering::Relaxed);
            } else {
                LIVE.fetch_sub(l.size() - new, Ordering::Relaxed);
            }
            ALLOCS.fetch_add(1, Ordering::Relaxed);
        }
        q
    }
}

pub fn live() -> usize {
    LIVE.load(Ordering::Relaxed)
}
pub fn reset_peak() -> usize {
    let l = live();
    PEAK.store(l, Ordering::Relaxed);
    l
}
pub fn peak() -> usize {
    PEAK.load(Ordering::Relaxed)
}
pub fn allocs() -> usize {
    ALLOCS.load(Ordering::Relaxed)
}

/// reachable nodes (address → content), excluding the address-0 sentinel
pub fn reachable(f: &raw::Fst<Vec<u8>>) -> BTreeMap<usize, (bool, u64, Vec<(u8, u64, usize)>)> {
    let mut seen = BTreeMap::new();
    let mut stack = vec![f.root().addr()];
    while let Some(a) = stack.pop() {
        if a == 0 || seen.contains_key(&a) {
            continue;
        }
        let n = f.node(a);
        let ts: Vec<(u8, u64, usize)> =
            n.transitions().map(|t| (t.inp, t.out.value(), t.addr)).collect();
        for t in &ts {
            stack.push(t.2);
        }
        seen.insert(a, (n.is_final(), n.final_output().value(), ts));
    }
    seen
}

/// number of states of the minimal acyclic DFA of a key set (Myhill–Nerode:
/// distinct non-empty right languages of prefixes), excluding the state whose
/// right language is {""} (the address-0 sentinel), plus 0 or 1 for the root.
pub fn nerode_states(keys: &[Vec<u8>]) -> usize {
    // right language of prefix p = sorted set of suffixes
    let mut langs: BTreeSet<Vec<Vec<u8>>> = BTreeSet::new();
    let mut prefixes: BTreeSet<Vec<u8>> = BTreeSet::new();
    prefixes.insert(vec![]); // the root is a state even of the empty language
    for k in keys {
        for i in 0..=k.len() {
            prefixes.insert(k[..i].to_vec());
        }
    }
    for p in &prefixes {
        let mut l: Vec<Vec<u8>> = keys
            .iter()
            .filter(|k| k.starts_with(p))
            .map(|k| k[p.len()..].to_vec())
            .collect();
        l.sort();
        if l == vec![Vec::<u8>::new()] {
            continue; // the shared empty final node
        }
        langs.insert(l);
    }
    langs.len()
}

#[cfg(feature = "hooks")]
pub fn cmd_stats(r: &mut Runner, t: &[&str]) -> String {
    // stats <ty> <geom> <ops>
    let ty: u64 = t[1].parse().unwrap();
    let geom = parse_geom(t[2]);
    let calls = parse_calls(t.get(3).copied().unwrap_or(""));
    let mut b = match geom {
        Some((rw, c)) => raw::Builder::verif_new_with_cache(vec![], ty, rw, c).unwrap(),
        None => raw::Builder::new_type(vec![], ty).unwrap(),
    };
    let mut accepted: BTreeMap<Vec<u8>, u64> = BTreeMap::new();
    for c in &calls {
        match c {
            Call::Ins(k, v) => {
                if b.insert(k, *v).is_ok() {
                    accepted.insert(k.clone(), *v);
                }
            }
            Call::Add(k) => {
                if b.add(k).is_ok() {
                    accepted.entry(k.clone()).or_insert(0);
                }
            }
        }
    }
    let ev0 = raw::verif::evictions_total();
    let ev_builder = b.verif_evictions();
    let bytes = b.into_inner().unwrap();
    // evictions during into_inner are visible only in the process-wide counter
    let ev = ev_builder + (raw::verif::evictions_total() - ev0);
    let f = raw::Fst::new(bytes).unwrap();
    let nodes = reachable(&f);
    let line = t.join(" ");
    let keys: Vec<Vec<u8>> = accepted.keys().cloned().collect();
    // trie bound (all inputs)
    let mut prefixes: BTreeSet<Vec<u8>> = BTreeSet::new();
    for k in &keys {
        for i in 1..=k.len() {
            prefixes.insert(k[..i].to_vec());
        }
    }
    r.check(nodes.len() <= prefixes.len() + 1, || format!("C12 {} nodes > trie size {}: {}", nodes.len(), prefixes.len() + 1, line));
    format!("stats ty={} ev={} nodes={}", ty, ev, nodes.len())
}

#[cfg(not(feature = "hooks"))]
pub fn cmd_stats(_r: &mut Runner, _t: &[&str]) -> String {
    "nohook".into()
}

#[cfg(feature = "hooks")]
pub fn cmd_foot(_r: &mut Runner, t: &[&str]) -> String {
    // foot <geom> <ops>: builder footprint (lengths) before finish
    let geom = parse_geom(t[1]);
    let calls = parse_calls(t.get(2).copied().unwrap_or(""));
    let mut b = match geom {
        Some((rw, c)) => raw::Builder::verif_new_with_cache(vec![], 0, rw, c).unwrap(),
        None => raw::Builder::new_type(vec![], 0).unwrap(),
    };
    for c in &calls {
        let _ = match c {
            Call::Ins(k, v) => b.insert(k, *v),
            Call::Add(k) => b.add(k),
        };
    }
    let (sl, tl, _tc, _sc, cells, rl, _rc, _lc) = b.verif_footprint();
    format!("foot stack={} strans={} cells={} ctrans={}", sl, tl, cells, rl)
}

#[cfg(not(feature = "hooks"))]
pub fn cmd_foot(_r: &mut Runner, _t: &[&str]) -> String {
    "nohook".into()
}

struct Discard {
    n: u64,
    cap: usize, // 0 = accept everything; otherwise at most `cap` bytes per call
}
impl io::Write for Discard {
    fn write(&mut self, b: &[u8]) -> io::Result<usize> {
        let k = if self.cap == 0 { b.len() } else { b.len().min(self.cap) };
        self.n += k as u64;
        Ok(k)
    }
    fn flush(&mut self) -> io::Result<()> {
        Ok(())
    }
}

fn mem_key(i: u64) -> Vec<u8> {
    let mut z = i.wrapping_mul(0x9E3779B97F4A7C15);
    z ^= z >> 29;
    format!("{:010x}{:06x}", i, z & 0xffffff).into_bytes()
}

/// key `i` of a sequence in which every second key extends its predecessor
/// (k, k+"a", k', k'+"a", ...): proper-prefix pairs
fn mem_key_prefix(i: u64) -> Vec<u8> {
    let mut k = mem_key(i / 2);
    if i % 2 == 1 {
        k.push(b'a');
    }
    k
}

/// key sequence with UNBOUNDEDLY MANY DISTINCT WIDE last-level nodes: group `c` has the
/// keys hex(c) ++ b for b in a pseudo-random subset (33..64 members) of 64 bytes
fn wide_group(c: u64) -> Vec<Vec<u8>> {
    let mut z = c.wrapping_mul(0x9E3779B97F4A7C15) ^ 0xD1B54A32D192ED03;
    z ^= z >> 31;
    let mask = z | 0x0000_0001_FFFF_FFFF; // at least 33 of the 64 bits set
    let pre = format!("{:09x}", c).into_bytes();
    (0..64u8)
        .filter(|b| mask >> b & 1 == 1)
        .map(|b| {
            let mut k = pre.clone();
            k.push(b'0' + b);
            k
        })
        .collect()
}

/// peak heap held while building about `n` keys into a discarding sink
fn build_peak(n: u64, map: bool, shape: &str, cap: usize) -> (usize, usize) {
    let base = reset_peak();
    let mut b = raw::Builder::new_type(Discard { n: 0, cap }, 0).unwrap();
    let after_new = live() - base;
    let mut put = |b: &mut raw::Builder<Discard>, k: &[u8], i: u64| {
        if map {
            b.insert(k, i * 3 + 1).unwrap();
        } else {
            b.add(k).unwrap();
        }
    };
    if shape == "wide" {
        let mut i = 0u64;
        let mut c = 0u64;
        while i < n {
            for k in wide_group(c) {
                put(&mut b, &k, i);
                i += 1;
            }
            c += 1;
        }
    } else {
        for i in 0..n {
            let k = if shape == "prefix" { mem_key_prefix(i) } else { mem_key(i) };
            put(&mut b, &k, i);
        }
    }
    let p = peak() - base;
    b.finish().unwrap();
    (p, after_new)
}

/// keys generated on the fly for `extend_stream`
struct GenStream {
    i: u64,
    n: u64,
    buf: Vec<u8>,
}
impl<'a> fst::Streamer<'a> for GenStream {
    type Item = (&'a [u8], u64);
    fn next(&'a mut self) -> Option<(&'a [u8], u64)> {
        if self.i >= self.n {
            return None;
        }
        self.buf = mem_key(self.i);
        self.i += 1;
        Some((&self.buf, self.i * 3))
    }
}
struct GenStreamSet(GenStream);
impl<'a> fst::Streamer<'a> for GenStreamSet {
    type Item = &'a [u8];
    fn next(&'a mut self) -> Option<&'a [u8]> {
        self.0.next().map(|(k, _)| k)
    }
}

/// peak heap of a build of `n` generated keys through a batch front end over a discarding sink
fn fe_peak(fe: &str, n: u64) -> usize {
    let base = reset_peak();
    let sink = Discard { n: 0, cap: 0 };
    match fe {
        // iterator with an exact size hint (a mapped range)
        "map_iter_exact" => {
            let mut b = fst::MapBuilder::new(sink).unwrap();
            b.extend_iter((0..n).map(|i| (mem_key(i), i * 3 + 1))).unwrap();
            let p = peak() - base;
            b.finish().unwrap();
            p
        }
        "raw_iter_exact" => {
            let mut b = raw::Builder::new_type(sink, 0).unwrap();
            b.extend_iter((0..n).map(|i| (mem_key(i), raw::Output::new(i * 3 + 1)))).unwrap();
            let p = peak() - base;
            b.finish().unwrap();
            p
        }
        "set_iter_exact" => {
            let mut b = fst::SetBuilder::new(sink).unwrap();
            b.extend_iter((0..n).map(mem_key)).unwrap();
            let p = peak() - base;
            b.finish().unwrap();
            p
        }
        // iterators that cannot tell their length (lower bound 0, no upper bound)
        "map_iter_unknown" => {
            let mut b = fst::MapBuilder::new(sink).unwrap();
            let mut i = 0u64;
            b.extend_iter(std::iter::from_fn(move || {
                if i >= n {
                    None
                } else {
                    i += 1;
                    Some((mem_key(i - 1), i * 3))
                }
            }))
            .unwrap();
            let p = peak() - base;
            b.finish().unwrap();
            p
        }
        "set_iter_unknown" => {
            let mut b = fst::SetBuilder::new(sink).unwrap();
            let mut i = 0u64;
            b.extend_iter(std::iter::from_fn(move || {
                if i >= n {
                    None
                } else {
                    i += 1;
                    Some(mem_key(i - 1))
                }
            }))
            .unwrap();
            let p = peak() - base;
            b.finish().unwrap();
            p
        }
        // a filtered iterator: lower bound 0, upper bound n
        "set_iter_filter" => {
            let mut b = fst::SetBuilder::new(sink).unwrap();
            b.extend_iter((0..n).filter(|i| i % 7 != 3).map(mem_key)).unwrap();
            let p = peak() - base;
            b.finish().unwrap();
            p
        }
        "map_stream" => {
            let mut b = fst::MapBuilder::new(sink).unwrap();
            b.extend_stream(GenStream { i: 0, n, buf: vec![] }).unwrap();
            let p = peak() - base;
            b.finish().unwrap();
            p
        }
        _ => {
            let mut b = fst::SetBuilder::new(sink).unwrap();
            b.extend_stream(GenStreamSet(GenStream { i: 0, n, buf: vec![] })).unwrap();
            let p = peak() - base;
            b.finish().unwrap();
            p
        }
    }
}

/// run a command with a deadline (the child is killed afterwards); None = did not finish
pub fn output_deadline(cmd: &mut std::process::Command, secs: u64) -> Option<std::process::Output> {
    use std::io::Read;
    let mut child = cmd.stdout(std::process::Stdio::piped()).stderr(std::process::Stdio::piped()).spawn().ok()?;
    let t0 = std::time::Instant::now();
    loop {
        match child.try_wait() {
            Ok(Some(status)) => {
                let (mut o, mut e) = (vec![], vec![]);
                if let Some(mut x) = child.stdout.take() {
                    let _ = x.read_to_end(&mut o);
                }
                if let Some(mut x) = child.stderr.take() {
                    let _ = x.read_to_end(&mut e);
                }
                return Some(std::process::Output { status, stdout: o, stderr: e });
            }
            Ok(None) => {
                if t0.elapsed().as_secs() > secs {
                    let _ = child.kill();
                    let _ = child.wait();
                    return None;
                }
                std::thread::sleep(std::time::Duration::from_millis(5));
            }
            Err(_) => return None,
        }
    }
}

pub fn bang(r: &mut Runner, line: &str) {
    let t: Vec<&str> = line.split(' ').filter(|x| !x.is_empty()).collect();
    match t[0] {
        "!membuild" => {
            // !membuild <set|map> <n1> <n2> [fixed|prefix] [cap]
            let map = t[1] == "map";
            let n1: u64 = t[2].parse().unwrap();
            let n2: u64 = t[3].parse().unwrap();
            let shape = t.get(4).copied().unwrap_or("fixed");
            let cap: usize = t.get(5).map(|x| x.parse().unwrap()).unwrap_or(0);
            let (p1, new1) = build_peak(n1, map, shape, cap);
            let (p2, _) = build_peak(n2, map, shape, cap);
            r.notes.push(format!("membuild {} keys={} cap={} n1={} peak1={} n2={} peak2={} after_new={}", t[1], shape, cap, n1, p1, n2, p2, new1));
            r.check(p2 as f64 <= 1.25 * p1 as f64 + 65536.0, || {
                format!("C13 builder heap grows with the number of keys ({} keys, sink cap {}): peak({})={} peak({})={}", shape, cap, n1, p1, n2, p2)
            });
        }
        "!scale" => crate::scale::bang_scale(r, &t),
        "!reuse" => crate::history::bang_reuse(r, &t),
        "!conc" => crate::history::bang_conc(r, &t),
        "!interleave" => crate::history::bang_interleave(r, &t),
        "!authistory" => crate::history::bang_authistory(r, &t),
        "!cli" => {
            // !cli <set|map|union> <prev> <rows>: the sorted CLI paths (`fst set --sorted`,
            // `fst map --sorted`, `fst union`) write the same bytes as an in-memory library
            // build, also with `--force` onto an output path that already holds `prev` bytes
            // of other data (longer than the result when prev is large)
            let what = t[1];
            let prev: usize = t[2].parse().unwrap();
            let rows = crate::util::parse_kvs(t.get(3).copied().unwrap_or(""));
            let mut sorted = rows.clone();
            sorted.sort();
            sorted.dedup_by(|a, b| a.0 == b.0);
            let bin = std::env::var("FST_BIN").expect("FST_BIN");
            let dir = std::env::var("FST_TMP").unwrap_or_else(|_| "/verif/target/tmp".into());
            std::fs::create_dir_all(&dir).unwrap();
            let tag = format!("{}-{}", std::process::id(), r.line_no);
            let outp = format!("{}/cli-out-{}.fst", dir, tag);
            let _ = std::fs::remove_file(&outp);
            if prev > 0 {
                // a previous, longer, valid FST at the output path
                let old: Vec<Vec<u8>> = (0..prev).map(|i| format!("old{:06}", i).into_bytes()).collect();
                let f = raw::Fst::from_iter_set(old.iter()).unwrap();
                std::fs::write(&outp, f.as_bytes()).unwrap();
            }
            let mut cmd = std::process::Command::new(&bin);
            let mut tmp_inputs: Vec<String> = vec![];
            let want: Vec<u8> = match what {
                "union" => {
                    // two input sets: even and odd rows
                    let (a, b): (Vec<_>, Vec<_>) = sorted.iter().enumerate().partition(|(i, _)| i % 2 == 0);
                    let fa = raw::Fst::from_iter_set(a.iter().map(|(_, (k, _))| k.clone())).unwrap();
                    let fb = raw::Fst::from_iter_set(b.iter().map(|(_, (k, _))| k.clone())).unwrap();
                    let pa = format!("{}/cli-a-{}.fst", dir, tag);
                    let pb = format!("{}/cli-b-{}.fst", dir, tag);
                    std::fs::write(&pa, fa.as_bytes()).unwrap();
                    std::fs::write(&pb, fb.as_bytes()).unwrap();
                    cmd.arg("union").arg(&pa).arg(&pb).arg(&outp);
                    tmp_inputs.push(pa);
                    tmp_inputs.push(pb);
                    raw::Fst::from_iter_set(sorted.iter().map(|(k, _)| k.clone())).unwrap().into_inner()
                }
                _ => {
                    let inp = format!("{}/cli-in-{}.txt", dir, tag);
                    let mut text: Vec<u8> = vec![];
                    for (k, v) in &sorted {
                        text.extend_from_slice(k);
                        if what == "map" {
                            text.extend_from_slice(format!(",{}", v).as_bytes());
                        }
                        text.push(b'\n');
                    }
                    std::fs::write(&inp, text).unwrap();
                    cmd.arg(what).arg("--sorted").arg(&inp).arg(&outp);
                    tmp_inputs.push(inp);
                    if what == "map" {
                        raw::Fst::from_iter_map(sorted.iter().map(|(k, v)| (k.clone(), *v))).unwrap().into_inner()
                    } else {
                        raw::Fst::from_iter_set(sorted.iter().map(|(k, _)| k.clone())).unwrap().into_inner()
                    }
                }
            };
            if prev > 0 {
                cmd.arg("--force");
            }
            let out = match output_deadline(&mut cmd, 60) {
                Some(o) => o,
                None => {
                    r.fail(format!("C07 C15 C08 C19 `fst {}` did not terminate within 60 s", what));
                    return;
                }
            };
            for p in &tmp_inputs {
                let _ = std::fs::remove_file(p);
            }
            let got = std::fs::read(&outp).unwrap_or_default();
            let _ = std::fs::remove_file(&outp);
            r.check(out.status.success(), || format!("C07 C15 C08 `fst {}` exited with {:?}: {}", what, out.status.code(), String::from_utf8_lossy(&out.stderr)));
            r.check(got == want, || {
                format!(
                    "C07 C15 C08 `fst {}`{} left {} bytes at the output path, the in-memory build of the same data has {} bytes (equal prefix: {})",
                    what,
                    if prev > 0 { " --force over an existing file" } else { "" },
                    got.len(),
                    want.len(),
                    got.len() >= want.len() && got[..want.len()] == want[..]
                )
            });
        }
        "!memfe" => {
            // !memfe <front end> <n1> <n2>: the batch entry points feed the builder key by key
            let (fe, n1, n2): (&str, u64, u64) = (t[1], t[2].parse().unwrap(), t[3].parse().unwrap());
            let p1 = fe_peak(fe, n1);
            let p2 = fe_peak(fe, n2);
            r.notes.push(format!("memfe {} n1={} peak1={} n2={} peak2={}", fe, n1, p1, n2, p2));
            r.check(p2 as f64 <= 1.25 * p1 as f64 + 65536.0, || {
                format!("C13 builder heap grows with the number of keys through {}: peak({})={} peak({})={}", fe, n1, p1, n2, p2)
            });
        }
        "!clirerun" => {
            // !clirerun <set|map>: the unsorted command run again and again in the same temp
            // directory with --keep-tmp-dir and --force, on a large and then on a smaller input:
            // nothing of an earlier run may show in a later result
            let what = t[1];
            let bin = std::env::var("FST_BIN").expect("FST_BIN");
            let base = std::env::var("FST_TMP").unwrap_or_else(|_| "/verif/target/tmp".into());
            let dir = format!("{}/rerun-{}-{}", base, std::process::id(), r.line_no);
            let _ = std::fs::remove_dir_all(&dir);
            std::fs::create_dir_all(&dir).unwrap();
            let inp = format!("{}/in.txt", dir);
            let outp = format!("{}/out.fst", dir);
            let mut rng = Rng::new(r.line_no as u64 + 5);
            let inputs: Vec<Vec<(Vec<u8>, u64)>> = vec![
                (0..400).map(|_| (format!("key{:04}", rng.below(300)).into_bytes(), 1 + rng.below(9))).collect(),
                (0..30).map(|_| (format!("key{:04}", rng.below(40)).into_bytes(), 1 + rng.below(9))).collect(),
                (0..30).map(|_| (format!("k{:02}", rng.below(40)).into_bytes(), 1 + rng.below(9))).collect(),
                (0..400).map(|_| (format!("key{:04}", rng.below(300)).into_bytes(), 1 + rng.below(9))).collect(),
                vec![(b"z".to_vec(), 3)],
            ];
            for (round, rows) in inputs.iter().enumerate() {
                let mut text: Vec<u8> = vec![];
                for (k, v) in rows {
                    text.extend_from_slice(k);
                    if what == "map" {
                        text.extend_from_slice(format!(",{}", v).as_bytes());
                    }
                    text.push(b'\n');
                }
                std::fs::write(&inp, &text).unwrap();
                for again in 0..2 {
                    let mut c = std::process::Command::new(&bin);
                    c.arg(what)
                        .arg(&inp)
                        .arg(&outp)
                        .args(&["--force", "--keep-tmp-dir", "--batch-size", "7", "--fd-limit", "3", "--threads", "2"])
                        .env("TMPDIR", &dir);
                    let out = match output_deadline(&mut c, 60) {
                        Some(o) => o,
                        None => {
                            r.fail(format!("C19 `fst {}` unsorted (run #{}) did not terminate within 60 s", what, round + 1));
                            let _ = std::fs::remove_dir_all(&dir);
                            return;
                        }
                    };
                    let label = format!("`fst {}` unsorted, run #{}{} in the same temp directory with --keep-tmp-dir --force", what, round + 1, if again == 1 { " (repeated)" } else { "" });
                    if !out.status.success() {
                        r.fail(format!("C19 {} exited with {:?}: {}", label, out.status.code(), String::from_utf8_lossy(&out.stderr).chars().take(300).collect::<String>()));
                        continue;
                    }
                    let mut want: BTreeMap<Vec<u8>, u64> = BTreeMap::new();
                    for (k, v) in rows {
                        *want.entry(k.clone()).or_insert(0) += if what == "map" { *v } else { 0 };
                    }
                    let wantv: Vec<(Vec<u8>, u64)> = want.into_iter().collect();
                    match std::fs::read(&outp).ok().and_then(|b| raw::Fst::new(b).ok()) {
                        None => r.fail(format!("C19 {}: the output does not open", label)),
                        Some(f) => {
                            let got = f.stream().into_byte_vec();
                            r.check(got == wantv, || format!("C19 {}: {} keys, want {} ({})", label, got.len(), wantv.len(), if got.len() == wantv.len() { "values or keys differ" } else { "counts differ" }));
                            r.check(f.verify().is_ok(), || format!("C19 {}: output fails verify()", label));
                        }
                    }
                }
            }
            let _ = std::fs::remove_dir_all(&dir);
        }
        "!memhistory" => {
            // !memhistory <n>: what earlier traversals leave behind. (1) a finished stream polled
            // again and again, two streams in alternation with one ending early: the live heap
            // afterwards is what it was before; (2) many small range queries first: the peak of a
            // full traversal (and of a union) afterwards is what it was before them
            let n: u64 = t[1].parse().unwrap();
            let f = raw::Fst::from_iter_map((0..n).map(|i| (mem_key(i), i))).unwrap();
            let g = raw::Fst::from_iter_map((0..n).filter(|i| i % 3 != 1).map(|i| (mem_key(i), i))).unwrap();
            let full_peak = |f: &raw::Fst<Vec<u8>>, g: &raw::Fst<Vec<u8>>| -> (usize, usize) {
                let base = reset_peak();
                let mut s = f.stream();
                let mut c = 0u64;
                while let Some(_) = s.next() {
                    c += 1;
                }
                drop(s);
                let p1 = peak() - base;
                let base = reset_peak();
                let mut u = raw::OpBuilder::new().add(f).add(g).union();
                while let Some(_) = u.next() {
                    c += 1;
                }
                drop(u);
                let _ = c;
                (p1, peak() - base)
            };
            let (s0, u0) = full_peak(&f, &g);
            let live0 = live();
            {
                // polls after the end; alternation with an early end
                let mut a = f.range().lt(mem_key(5)).into_stream();
                let mut b = f.stream();
                let mut i = 0u64;
                while b.next().is_some() {
                    let _ = a.next(); // finished after 5 items, polled n more times
                    i += 1;
                }
                for _ in 0..(10 * n).min(2_000_000) {
                    let _ = b.next();
                }
                let _ = i;
            }
            let live1 = live();
            r.check(live1 <= live0 + 16384, || format!("C14 live heap after polling finished streams of a {}-key FST grew from {} to {} bytes", n, live0, live1));
            // many point ranges
            for i in 0..(n / 10) {
                let k = mem_key(i * 10);
                let mut s = f.range().ge(&k).le(&k).into_stream();
                let _ = s.next();
                let _ = s.next();
            }
            let (s1, u1) = full_peak(&f, &g);
            r.notes.push(format!("memhistory n={} stream peak {}→{} union peak {}→{} live {}→{}", n, s0, s1, u0, u1, live0, live1));
            r.check(s1 as f64 <= 1.25 * s0 as f64 + 16384.0, || format!("C14 the peak heap of a full stream over {} keys is {} bytes after {} small range queries, {} before them", n, s1, n / 10, s0));
            r.check(u1 as f64 <= 1.25 * u0 as f64 + 16384.0, || format!("C14 the peak heap of a union over {} keys is {} bytes after {} small range queries, {} before them", n, u1, n / 10, u0));
            let live2 = live();
            r.check(live2 <= live0 + 16384, || format!("C14 live heap after {} small range queries grew from {} to {} bytes", n / 10, live0, live2));
        }
        "!meminterleave" => {
            // !meminterleave <n1> <n2>: two builders alive on one thread and fed in alternation; a builder
            // created after a big one has finished in this process
            let (n1, n2): (u64, u64) = (t[1].parse().unwrap(), t[2].parse().unwrap());
            let two = |n: u64| -> usize {
                let base = reset_peak();
                let mut a = raw::Builder::new_type(Discard { n: 0, cap: 0 }, 0).unwrap();
                let mut b = raw::Builder::new_type(Discard { n: 0, cap: 0 }, 0).unwrap();
                for i in 0..n {
                    a.insert(mem_key(i), i).unwrap();
                    b.add(mem_key_prefix(i)).unwrap();
                }
                let p = peak() - base;
                a.finish().unwrap();
                b.finish().unwrap();
                p
            };
            let (p1, p2) = (two(n1), two(n2));
            r.notes.push(format!("meminterleave n1={} peak1={} n2={} peak2={}", n1, p1, n2, p2));
            r.check(p2 as f64 <= 1.25 * p1 as f64 + 65536.0, || format!("C13 two builders fed in alternation: heap grows with the number of keys: peak({})={} peak({})={}", n1, p1, n2, p2));
            // a small build before and after a big one
            let (small0, _) = build_peak(200_000, true, "fixed", 0);
            let _ = build_peak(n2, true, "fixed", 0);
            let (small1, _) = build_peak(200_000, true, "fixed", 0);
            r.notes.push(format!("meminterleave small build before a {}-key build: {} bytes, after it: {} bytes", n2, small0, small1));
            r.check(small1 as f64 <= 1.25 * small0 as f64 + 65536.0, || format!("C13 the same 200 000-key build needs {} bytes before and {} bytes after a {}-key build in the same process", small0, small1, n2));
            // created here, fed and finished on another thread
            let base = reset_peak();
            let mut b = raw::Builder::new_type(Discard { n: 0, cap: 0 }, 0).unwrap();
            b.insert(mem_key(0), 0).unwrap();
            let h = std::thread::spawn(move || {
                for i in 1..n1 {
                    b.insert(mem_key(i), i).unwrap();
                }
                let p = peak();
                b.finish().unwrap();
                p
            });
            let pm = h.join().unwrap() - base;
            let (alone, _) = build_peak(n1, true, "fixed", 0);
            r.check(pm as f64 <= 1.25 * alone as f64 + 65536.0, || format!("C13 a builder created on one thread and fed on another holds {} bytes for {} keys, {} when it stays on its thread", pm, n1, alone));
            let mut c = raw::Builder::new_type(Discard { n: 0, cap: 0 }, 0).unwrap();
            let base = reset_peak();
            for i in 0..n1 {
                c.insert(mem_key(i), i).unwrap();
            }
            let after_move = peak() - base;
            c.finish().unwrap();
            r.check(after_move as f64 <= 1.25 * alone as f64 + 65536.0, || format!("C13 a builder created after another one was moved to a different thread holds {} bytes for {} keys, normally {}", after_move, n1, alone));
        }
        "!memstream" => {
            // !memstream <n1> <n2> <k>
            let n1: u64 = t[1].parse().unwrap();
            let n2: u64 = t[2].parse().unwrap();
            let k: usize = t[3].parse().unwrap();
            let m1 = stream_peaks(n1, k);
            let m2 = stream_peaks(n2, k);
            r.notes.push(format!("memstream n1={} {:?} n2={} {:?}", n1, m1, n2, m2));
            for (i, name) in ["stream", "range", "search", "union", "intersection", "difference", "symmetric_difference"].iter().enumerate() {
                r.check(m2[i] as f64 <= 1.25 * m1[i] as f64 + 16384.0, || {
                    format!("C14 {} heap grows with FST size: peak({})={} peak({})={}", name, n1, m1[i], n2, m2[i])
                });
            }
            r.check(m1[7] == 0 && m2[7] == 0, || format!("C14 open/get/contains_key allocate: {} / {} allocations", m1[7], m2[7]));
        }
        "!par" => {
            // !par <ty> <ops>: same sequence in 8 threads and 2 processes
            let ty: u64 = t[1].parse().unwrap();
            let ops = t.get(2).copied().unwrap_or("").to_string();
            let calls = parse_calls(&ops);
            let base = crate::sink::vec_build(ty, &calls).map(|b| fnv64(&b));
            let mut hs = vec![];
            for _ in 0..8 {
                let c2 = calls.clone();
                hs.push(std::thread::spawn(move || crate::sink::vec_build(ty, &c2).map(|b| fnv64(&b))));
            }
            for h in hs {
                let d = h.join().unwrap();
                r.check(d == base, || format!("C15 thread build digest {:?} != {:?}", d, base));
            }
            let exe = std::env::current_exe().unwrap();
            for _ in 0..2 {
                // the call sequence goes through a file: it can exceed the argv limit
                let dir = std::env::var("FST_TMP").unwrap_or_else(|_| "/verif/target/tmp".into());
                std::fs::create_dir_all(&dir).unwrap();
                let path = format!("{}/par-{}-{}.ops", dir, std::process::id(), r.line_no);
                std::fs::write(&path, &ops).unwrap();
                let out = std::process::Command::new(&exe).arg("digest").arg(ty.to_string()).arg(format!("@{}", path)).output().unwrap();
                let _ = std::fs::remove_file(&path);
                let s = String::from_utf8_lossy(&out.stdout).trim().to_string();
                let want = format!("{:?}", base);
                r.check(s == want, || format!("C15 process build digest {} != {}", s, want));
            }
            // three repetitions in-process
            for _ in 0..3 {
                let d = crate::sink::vec_build(ty, &calls).map(|b| fnv64(&b));
                r.check(d == base, || "C15 repeated build differs".to_string());
            }
        }
        "!containers" => {
            // !containers <hex>: the same bytes behind Vec, &[u8], Cow, Mmap, map_data
            let bytes = unhex(t[1]);
            let v = raw::Fst::new(bytes.clone());
            let s = raw::Fst::new(&bytes[..]);
            let c = raw::Fst::new(Cow::Borrowed(&bytes[..]));
            let dir = std::env::var("FST_TMP").unwrap_or_else(|_| "/verif/target/tmp".into());
            std::fs::create_dir_all(&dir).unwrap();
            let path = format!("{}/mm-{}-{}.fst", dir, std::process::id(), r.line_no);
            std::fs::write(&path, &bytes).unwrap();
            let file = std::fs::File::open(&path).unwrap();
            let mm = if bytes.is_empty() { None } else { Some(unsafe { memmap2::Mmap::map(&file).unwrap() }) };
            let m = mm.map(raw::Fst::new);
            let _ = std::fs::remove_file(&path);
            let sig = |x: Result<Vec<(Vec<u8>, u64)>, String>| x;
            let a = sig(v.as_ref().map(|f| f.stream().into_byte_vec()).map_err(|e| format!("{:?}", e)));
            let b = sig(s.as_ref().map(|f| f.stream().into_byte_vec()).map_err(|e| format!("{:?}", e)));
            let cc = sig(c.as_ref().map(|f| f.stream().into_byte_vec()).map_err(|e| format!("{:?}", e)));
            r.check(a == b && a == cc, || "C10 containers Vec/&[u8]/Cow disagree".to_string());
            if let Some(m) = m {
                let d = sig(m.as_ref().map(|f| f.stream().into_byte_vec()).map_err(|e| format!("{:?}", e)));
                r.check(a == d, || "C10 container Mmap disagrees".to_string());
            }
            if let Ok(f) = v {
                let g = f.map_data(|d| Cow::Owned(d)).map(|f| f.stream().into_byte_vec()).map_err(|e| format!("{:?}", e));
                r.check(a == g, || "C10 map_data disagrees".to_string());
            }
        }
        "!minimal" => {
            // !minimal <set|map> <ops>: default cache; if nothing was evicted,
            // no two emitted nodes are equal and a set is the minimal DFA
            #[cfg(feature = "hooks")]
            {
                let calls = parse_calls(t.get(2).copied().unwrap_or(""));
                let mut b = raw::Builder::new_type(vec![], 0).unwrap();
                let mut keys = vec![];
                for c in &calls {
                    match c {
                        Call::Ins(k, v) => {
                            if b.insert(k, *v).is_ok() {
                                keys.push(k.clone());
                            }
                        }
                        Call::Add(k) => {
                            if b.add(k).is_ok() && keys.last() != Some(k) {
                                keys.push(k.clone());
                            }
                        }
                    }
                }
                let ev0 = raw::verif::evictions_total();
                let evb = b.verif_evictions();
                let f = raw::Fst::new(b.into_inner().unwrap()).unwrap();
                let ev = evb + (raw::verif::evictions_total() - ev0);
                let nodes = reachable(&f);
                if ev == 0 {
                    let mut seen: HashMap<(bool, u64, Vec<(u8, u64, usize)>), usize> = HashMap::new();
                    for (a, n) in &nodes {
                        if let Some(a0) = seen.insert(n.clone(), *a) {
                            r.check(false, || format!("C12 nodes at {} and {} are equal with no eviction", a0, a));
                        }
                    }
                    r.checks += 1;
                    if t[1] == "set" {
                        let want = nerode_states(&keys);
                        r.check(nodes.len() == want, || format!("C12 set has {} nodes, minimal DFA has {} (no eviction): {} keys", nodes.len(), want, keys.len()));
                    }
                }
                r.notes.push(format!("minimal {} keys={} nodes={} ev={}", t[1], keys.len(), nodes.len(), ev));
            }
        }
        "!oldops" => {
            // !oldops <version> <kv>: set operations over files of an old format version
            let v: u64 = t[1].parse().unwrap();
            let kv = parse_kvs(t[2]);
            let a: Vec<_> = kv.iter().enumerate().filter(|(i, _)| i % 3 != 0).map(|(_, x)| x.clone()).collect();
            let b: Vec<_> = kv.iter().enumerate().filter(|(i, _)| i % 2 == 0).map(|(_, x)| x.clone()).collect();
            let fa = raw::Fst::new(crate::refenc::encode(v, 0, &a, 1, true)).unwrap();
            let fb = raw::Fst::new(crate::refenc::encode(v, 0, &b, 0, false)).unwrap();
            let mut u = fa.op().add(&fb).union();
            let mut got = vec![];
            while let Some((k, _)) = u.next() {
                got.push(k.to_vec());
            }
            let mut want: Vec<Vec<u8>> = a.iter().chain(b.iter()).map(|x| x.0.clone()).collect();
            want.sort();
            want.dedup();
            r.check(got == want, || format!("C10 union over v{} files differs", v));
            let mut it = fa.op().add(&fb).intersection();
            let mut got = vec![];
            while let Some((k, _)) = it.next() {
                got.push(k.to_vec());
            }
            let want: Vec<Vec<u8>> = a.iter().filter(|x| b.iter().any(|y| y.0 == x.0)).map(|x| x.0.clone()).collect();
            r.check(got == want, || format!("C10 intersection over v{} files differs", v));
            r.check(matches!(fa.verify(), Err(fst::Error::Fst(raw::Error::ChecksumMissing))) == (v <= 2), || format!("C10 verify() on v{}: ChecksumMissing expected iff v<=2", v));
        }
        "!bufwriter" => {
            let calls = parse_calls(t.get(1).copied().unwrap_or(""));
            let want = crate::sink::vec_build(0, &calls).unwrap();
            for cap in [1usize, 5, 7, 8192] {
                let script: Vec<crate::sink::Resp> = (0..100000).map(|i| crate::sink::Resp::Take(1 + (i * 5) % 11)).collect();
                let sink = crate::sink::new_sink(&[], script, None);
                let h = sink.clone();
                let w = io::BufWriter::with_capacity(cap, sink);
                let mut b = raw::Builder::new_type(w, 0).unwrap();
                for c in &calls {
                    let _ = match c {
                        Call::Ins(k, v) => b.insert(k, *v),
                        Call::Add(k) => b.add(k),
                    };
                }
                // into_inner hands the BufWriter back WITHOUT dropping it: whatever is
                // still staged in it has not been flushed by the builder
                let res = b.into_inner();
                let (ok, staged) = match &res {
                    Ok(bw) => (true, bw.buffer().len()),
                    Err(_) => (false, 0),
                };
                let held = h.0.borrow().held.clone();
                r.check(ok && staged == 0 && held == want, || format!("C07 C11 BufWriter(cap {}) over a chunky sink: ok={} staged-after-finish={} sink holds {} of {} bytes", cap, ok, staged, held.len(), want.len()));
                drop(res);
            }
        }
        "!freshopen" => {
            // a process that never built an FST opens one over borrowed bytes and looks keys up
            let keys: Vec<Vec<u8>> = vec![b"apr".to_vec(), b"aug".to_vec(), b"dec".to_vec(), b"feb".to_vec(), b"jan".to_vec(), b"jul".to_vec(), b"jun".to_vec(), b"mar".to_vec(), b"may".to_vec(), b"nov".to_vec(), b"oct".to_vec(), b"sep".to_vec(), b"tea".to_vec(), b"ten".to_vec()];
            let bytes = raw::Fst::from_iter_map(keys.iter().enumerate().map(|(i, k)| (k.clone(), i as u64))).unwrap().as_bytes().to_vec();
            let dir = std::env::var("FST_TMP").unwrap_or_else(|_| "/verif/target/tmp".into());
            std::fs::create_dir_all(&dir).unwrap();
            let path = format!("{}/fresh-{}-{}.fst", dir, std::process::id(), r.line_no);
            std::fs::write(&path, &bytes).unwrap();
            let exe = std::env::current_exe().unwrap();
            let out = std::process::Command::new(&exe).arg("openonly").arg(&path).output().unwrap();
            let _ = std::fs::remove_file(&path);
            let s = String::from_utf8_lossy(&out.stdout).trim().to_string();
            r.notes.push(format!("freshopen: {}", s));
            r.check(s == "allocs 0", || format!("C14 a fresh process opening a {}-byte FST over borrowed bytes and doing lookups: {}", bytes.len(), s));
        }
        "!levbig" => {
            // !levbig <len> <d>: an automaton with far more than 2^16 states, checked on keys near the query
            let n: usize = t[1].parse().unwrap();
            let d: u32 = t[2].parse().unwrap();
            let q: String = (0..n).map(|i| (b'a' + ((i * 7 + i / 5) % 23) as u8) as char).collect();
            match fst::automaton::Levenshtein::new_with_limit(&q, d, 10_000_000) {
                Err(e) => r.fail(format!("C17 Levenshtein::new_with_limit(.., {}, 10_000_000) for a {}-character query refused: {:?}", d, n, e)),
                Ok(lev) => {
                    use fst::automaton::Automaton;
                    let qa: Vec<char> = q.chars().collect();
                    let mut bad = 0;
                    for j in 0..450usize {
                        let mut k = qa.clone();
                        let p1 = (j * 37) % k.len();
                        match j % 4 {
                            0 => {}
                            1 => k[p1] = 'Z',
                            2 => {
                                k.remove(p1);
                                let p2 = (j * 91) % k.len();
                                k.insert(p2, 'Y');
                            }
                            _ => {
                                k[p1] = 'Z';
                                let p2 = (j * 53 + 11) % k.len();
                                k[p2] = 'X';
                                if j % 8 == 7 {
                                    k.push('W');
                                }
                            }
                        }
                        let ks: String = k.iter().collect();
                        let mut s = lev.start();
                        for b in ks.bytes() {
                            s = lev.accept(&s, b);
                        }
                        let want = crate::auts::edit_distance(&qa, &k) <= d as usize;
                        if lev.is_match(&s) != want {
                            bad += 1;
                        }
                    }
                    r.check(bad == 0, || format!("C17 {} of 450 keys near a {}-character query decided wrongly (d={})", bad, n, d));
                }
            }
        }
        "!levlimit" => {
            // !levlimit <hexq> <d>: the caller's state limit is the one that applies, also above
            // the default: Ok iff the automaton has at most `limit` states, else
            // TooManyStates(limit) with the caller's number
            #[cfg(feature = "hooks")]
            {
                use fst::automaton::{Levenshtein, LevenshteinError};
                let q = String::from_utf8(unhex(t[1])).unwrap();
                let d: u32 = t[2].parse().unwrap();
                match Levenshtein::new_with_limit(&q, d, 1 << 40) {
                    Err(e) => r.fail(format!("C17 new_with_limit({:?}, {}, 2^40) refused: {:?}", q, d, e)),
                    Ok(big) => {
                        let n = big.verif_num_states();
                        r.notes.push(format!("levlimit: {:?} d={} has {} states", q, d, n));
                        let dflt = Levenshtein::verif_default_state_limit();
                        for limit in [1usize, n.saturating_sub(1), n, n + 1, dflt, dflt + 1, 10 * dflt, 100 * dflt] {
                            let got = Levenshtein::new_with_limit(&q, d, limit);
                            let ok = match &got {
                                Ok(l) => n <= limit && l.verif_num_states() == n,
                                // (the number carried by TooManyStates is not part of the statement)
                                Err(LevenshteinError::TooManyStates(_)) => n > limit,
                            };
                            r.check(ok, || {
                                format!(
                                    "C17 new_with_limit({:?}, {}, {}) = {} but the automaton has {} states",
                                    q,
                                    d,
                                    limit,
                                    match &got {
                                        Ok(l) => format!("Ok({} states)", l.verif_num_states()),
                                        Err(e) => format!("Err({:?})", e),
                                    },
                                    n
                                )
                            });
                        }
                        // `new` = the default limit
                        let viadefault = Levenshtein::new(&q, d);
                        r.check(viadefault.is_ok() == (n <= dflt), || format!("C17 Levenshtein::new({:?}, {}) ok={} with {} states (default limit {})", q, d, viadefault.is_ok(), n, dflt));
                    }
                }
            }
        }
        "!corpus" => {
            // !corpus <path>: sharing ratio on a shipped corpus (measurement)
            let text = std::fs::read(t[1]).unwrap_or_default();
            let mut keys: Vec<Vec<u8>> = text.split(|&b| b == b'\n').filter(|l| !l.is_empty()).map(|l| l.to_vec()).collect();
            keys.sort();
            keys.dedup();
            if keys.is_empty() {
                r.notes.push(format!("corpus {} empty: skipped", t[1]));
                return;
            }
            let f = raw::Fst::from_iter_set(keys.iter()).unwrap();
            let nodes = reachable(&f).len();
            let mut trie = BTreeSet::new();
            for k in &keys {
                for i in 1..=k.len() {
                    trie.insert(&k[..i]);
                }
            }
            let trie_n = trie.len() + 1;
            // minimal DFA size through an unbounded-cache build: hash-cons bottom-up
            let minimal = minimal_size(&keys);
            let ratio = (trie_n - nodes) as f64 / (trie_n - minimal).max(1) as f64;
            r.notes.push(format!("corpus {} keys={} trie={} emitted={} minimal={} ratio={:.4}", t[1], keys.len(), trie_n, nodes, minimal, ratio));
            r.check(ratio >= 0.6, || format!("C12 sharing ratio {:.3} < 0.6 on {}", ratio, t[1]));
            r.check(nodes <= trie_n, || "C12 trie bound on corpus".to_string());
        }
        _ => {}
    }
}

/// states of the minimal DFA of a sorted key set, excluding the {""} state,
/// by hash-consing the trie bottom-up.
fn minimal_size(keys: &[Vec<u8>]) -> usize {
    fn go(keys: &[&[u8]], depth: usize, table: &mut HashMap<(bool, Vec<(u8, usize)>), usize>) -> usize {
        let fin = !keys.is_empty() && keys[0].len() == depth;
        let rest = if fin { &keys[1..] } else { keys };
        let mut ts = vec![];
        let mut i = 0;
        while i < rest.len() {
            let b = rest[i][depth];
            let mut j = i;
            while j < rest.len() && rest[j][depth] == b {
                j += 1;
            }
            ts.push((b, go(&rest[i..j], depth + 1, table)));
            i = j;
        }
        if fin && ts.is_empty() {
            return 0;
        }
        let n = table.len() + 1;
        *table.entry((fin, ts)).or_insert(n)
    }
    let ks: Vec<&[u8]> = keys.iter().map(|k| &k[..]).collect();
    let mut table = HashMap::new();
    go(&ks, 0, &mut table);
    table.len()
}

fn stream_peaks(n: u64, k: usize) -> [usize; 8] {
    // k FSTs over overlapping key ranges
    let fsts: Vec<raw::Fst<Vec<u8>>> = (0..k)
        .map(|j| {
            raw::Fst::from_iter_map((0..n).filter(|i| (i + j as u64) % 3 != 0).map(|i| (mem_key(i), i))).unwrap()
        })
        .collect();
    let f = &fsts[0];
    let mut out = [0usize; 8];
    let measure = |g: &mut dyn FnMut()| -> usize {
        let base = reset_peak();
        g();
        peak() - base
    };
    out[0] = measure(&mut || {
        let mut s = f.stream();
        let mut c = 0u64;
        while let Some((k, _)) = s.next() {
            c += k.len() as u64;
        }
        std::hint::black_box(c);
    });
    out[1] = measure(&mut || {
        let mut s = f.range().ge(mem_key(n / 4)).lt(mem_key(3 * n / 4)).into_stream();
        let mut c = 0u64;
        while let Some((k, _)) = s.next() {
            c += k.len() as u64;
        }
        std::hint::black_box(c);
    });
    out[2] = measure(&mut || {
        let a = fst::automaton::Subsequence::new("00a");
        let mut s = f.search(&a).into_stream();
        let mut c = 0u64;
        while let Some((k, _)) = s.next() {
            c += k.len() as u64;
        }
        std::hint::black_box(c);
    });
    macro_rules! op {
        ($idx:expr, $m:ident) => {
            out[$idx] = measure(&mut || {
                let ob: raw::OpBuilder = fsts.iter().collect();
                let mut s = ob.$m();
                let mut c = 0u64;
                while let Some((k, o)) = s.next() {
                    c += (k.len() + o.len()) as u64;
                }
                std::hint::black_box(c);
            });
        };
    }
    op!(3, union);
    op!(4, intersection);
    op!(5, difference);
    op!(6, symmetric_difference);
    // zero allocations: open over borrowed bytes and point lookups
    let bytes = f.as_bytes();
    let a0 = allocs();
    let g = raw::Fst::new(bytes).unwrap();
    let mut c = 0u64;
    for i in (0..n).step_by((n / 64).max(1) as usize) {
        let k = mem_key(i);
        let kk: &[u8] = &k;
        let a1 = allocs();
        if g.get(kk).is_some() {
            c += 1;
        }
        if g.contains_key(kk) {
            c += 1;
        }
        out[7] += allocs() - a1;
    }
    std::hint::black_box(c);
    // lookups through nodes with more than 32 / exactly 256 transitions (index path)
    for &fan in &[40usize, 256] {
        let wide: Vec<Vec<u8>> = {
            let mut v: Vec<Vec<u8>> = (0..fan).map(|b| vec![b'w', b as u8, b'z']).collect();
            v.sort();
            v
        };
        let wf = raw::Fst::from_iter_set(wide.iter()).unwrap();
        let wb = wf.as_bytes();
        let wg = raw::Fst::new(wb).unwrap();
        let a1 = allocs();
        for k in &wide {
            let kk: &[u8] = k;
            if wg.get(kk).is_some() && wg.contains_key(kk) {
                c += 1;
            }
        }
        out[7] += allocs() - a1;
    }
    std::hint::black_box(c);
    // opening itself (excluding the key construction above)
    let a2 = allocs();
    let g2 = raw::Fst::new(bytes).unwrap();
    std::hint::black_box(g2.len());
    out[7] += allocs() - a2;
    let _ = a0;
    out
}

/// `harness openonly <file>`: nothing of the crate has run in this process before
pub fn open_only(path: &str) {
    let bytes = std::fs::read(path).unwrap();
    let probes: Vec<&[u8]> = vec![b"apr", b"jan", b"sep", b"tea", b"zzz", b"", b"ja"];
    let a0 = allocs();
    let f = raw::Fst::new(&bytes[..]).unwrap();
    let mut c = 0u64;
    for p in &probes {
        if f.get(p).is_some() {
            c += 1;
        }
        if f.contains_key(p) {
            c += 1;
        }
    }
    let n = allocs() - a0;
    std::hint::black_box(c);
    println!("allocs {}", n);
}
