//! Executes protocol lines against the real implementation and, where an
//! independent oracle exists, checks the property on the implementation.
use std::collections::BTreeMap;
use std::io::Write;
use std::panic::{catch_unwind, AssertUnwindSafe};

use fst::automaton::Automaton;
use fst::raw::{self, Output};
use fst::{IntoStreamer, Streamer};

use crate::auts::{self, AutSpec};
use crate::util::*;

pub type Kv = Vec<(Vec<u8>, u64)>;

#[derive(Clone, Debug)]
pub enum Call {
    Ins(Vec<u8>, u64),
    Add(Vec<u8>),
}

pub fn parse_calls(s: &str) -> Vec<Call> {
    s.split(',')
        .filter(|t| !t.is_empty())
        .map(|t| {
            let p: Vec<&str> = t.split(':').collect();
            match p[0] {
                "i" => Call::Ins(unhex(p[1]), p[2].parse().unwrap()),
                "a" => Call::Add(unhex(p[1])),
                _ => panic!("bad call {}", t),
            }
        })
        .collect()
}

pub fn show_calls(cs: &[Call]) -> String {
    cs.iter()
        .map(|c| match c {
            Call::Ins(k, v) => format!("i:{}:{}", hex(k), v),
            Call::Add(k) => format!("a:{}", hex(k)),
        })
        .collect::<Vec<_>>()
        .join(",")
}

pub fn show_err(e: &fst::Error) -> String {
    match e {
        fst::Error::Fst(raw::Error::DuplicateKey { got }) => {
            format!("dup:{}", hex(got))
        }
        fst::Error::Fst(raw::Error::OutOfOrder { previous, got }) => {
            format!("ooo:{}:{}", hex(previous), hex(got))
        }
        fst::Error::Io(_) => "io".to_string(),
        e => format!("other:{:?}", e).replace(' ', "_"),
    }
}

fn show_res(r: &Result<(), fst::Error>) -> String {
    match r {
        Ok(()) => "ok".into(),
        Err(e) => show_err(e),
    }
}

/// A plain user streamer over a vector of items.
pub struct VecStream {
    pub items: Kv,
    pub i: usize,
}
impl<'a> Streamer<'a> for VecStream {
    type Item = (&'a [u8], Output);
    fn next(&'a mut self) -> Option<(&'a [u8], Output)> {
        if self.i >= self.items.len() {
            return None;
        }
        self.i += 1;
        let (k, v) = &self.items[self.i - 1];
        Some((&k[..], Output::new(*v)))
    }
}
pub struct VecStreamMap(pub VecStream);
impl<'a> Streamer<'a> for VecStreamMap {
    type Item = (&'a [u8], u64);
    fn next(&'a mut self) -> Option<(&'a [u8], u64)> {
        self.0.next().map(|(k, o)| (k, o.value()))
    }
}
pub struct VecStreamSet(pub VecStream);
impl<'a> Streamer<'a> for VecStreamSet {
    type Item = &'a [u8];
    fn next(&'a mut self) -> Option<&'a [u8]> {
        self.0.next().map(|(k, _)| k)
    }
}

pub fn parse_geom(s: &str) -> Option<(usize, usize)> {
    if s == "default" {
        return None;
    }
    let mut it = s.split('x');
    Some((it.next()?.parse().ok()?, it.next()?.parse().ok()?))
}

#[cfg(feature = "hooks")]
fn raw_builder(
    ty: u64,
    geom: Option<(usize, usize)>,
) -> raw::Builder<Vec<u8>> {
    match geom {
        Some((r, c)) => {
            raw::Builder::verif_new_with_cache(vec![], ty, r, c).unwrap()
        }
        None => raw::Builder::new_type(vec![], ty).unwrap(),
    }
}
#[cfg(not(feature = "hooks"))]
fn raw_builder(
    ty: u64,
    _geom: Option<(usize, usize)>,
) -> raw::Builder<Vec<u8>> {
    raw::Builder::new_type(vec![], ty).unwrap()
}

/// Result of running a front end: per-call results and the bytes (if the
/// build was finished).
pub struct BuildOut {
    pub results: Vec<String>,
    pub fin: String,
    pub bytes: Option<Vec<u8>>,
}

fn only_kv(calls: &[Call]) -> Kv {
    calls
        .iter()
        .map(|c| match c {
            Call::Ins(k, v) => (k.clone(), *v),
            Call::Add(k) => (k.clone(), 0),
        })
        .collect()
}

/// Run a front end of the real library.
pub fn run_frontend(
    fe: &str,
    ty: u64,
    geom: Option<(usize, usize)>,
    calls: &[Call],
) -> BuildOut {
    let kv = only_kv(calls);
    let fin = |r: Result<Vec<u8>, fst::Error>, results: Vec<String>| match r {
        Ok(b) => BuildOut { results, fin: "ok".into(), bytes: Some(b) },
        Err(e) => BuildOut { results, fin: show_err(&e), bytes: None },
    };
    let stop = |r: Result<(), fst::Error>| -> Option<BuildOut> {
        if let Err(e) = r {
            Some(BuildOut {
                results: vec![show_err(&e)],
                fin: "skipped".into(),
                bytes: None,
            })
        } else {
            None
        }
    };
    match fe {
        "raw" => {
            let mut b = raw_builder(ty, geom);
            let mut results = vec![];
            for c in calls {
                let r = match c {
                    Call::Ins(k, v) => b.insert(k, *v),
                    Call::Add(k) => b.add(k),
                };
                results.push(show_res(&r));
            }
            fin(b.into_inner(), results)
        }
        "map" => {
            let mut b = fst::MapBuilder::new(vec![]).unwrap();
            let mut results = vec![];
            for (k, v) in &kv {
                results.push(show_res(&b.insert(k, *v)));
            }
            fin(b.into_inner(), results)
        }
        "set" => {
            let mut b = fst::SetBuilder::new(vec![]).unwrap();
            let mut results = vec![];
            for (k, _) in &kv {
                results.push(show_res(&b.insert(k)));
            }
            fin(b.into_inner(), results)
        }
        "raw_iter" => {
            let mut b = raw_builder(ty, geom);
            let r = b.extend_iter(
                kv.iter().map(|(k, v)| (k.clone(), Output::new(*v))),
            );
            if let Some(o) = stop(r) {
                return o;
            }
            fin(b.into_inner(), vec!["ok".into()])
        }
        "raw_stream" => {
            let mut b = raw_builder(ty, geom);
            let r = b.extend_stream(VecStream { items: kv.clone(), i: 0 });
            if let Some(o) = stop(r) {
                return o;
            }
            fin(b.into_inner(), vec!["ok".into()])
        }
        "map_iter" => {
            let mut b = fst::MapBuilder::new(vec![]).unwrap();
            let r = b.extend_iter(kv.iter().map(|(k, v)| (k.clone(), *v)));
            if let Some(o) = stop(r) {
                return o;
            }
            fin(b.into_inner(), vec!["ok".into()])
        }
        "map_stream" => {
            let mut b = fst::MapBuilder::new(vec![]).unwrap();
            let r = b.extend_stream(VecStreamMap(VecStream {
                items: kv.clone(),
                i: 0,
            }));
            if let Some(o) = stop(r) {
                return o;
            }
            fin(b.into_inner(), vec!["ok".into()])
        }
        "set_iter" => {
            let mut b = fst::SetBuilder::new(vec![]).unwrap();
            let r = b.extend_iter(kv.iter().map(|(k, _)| k.clone()));
            if let Some(o) = stop(r) {
                return o;
            }
            fin(b.into_inner(), vec!["ok".into()])
        }
        "set_stream" => {
            let mut b = fst::SetBuilder::new(vec![]).unwrap();
            let r = b.extend_stream(VecStreamSet(VecStream {
                items: kv.clone(),
                i: 0,
            }));
            if let Some(o) = stop(r) {
                return o;
            }
            fin(b.into_inner(), vec!["ok".into()])
        }
        "map_from_iter" => {
            match fst::Map::from_iter(kv.iter().map(|(k, v)| (k.clone(), *v)))
            {
                Ok(m) => BuildOut {
                    results: vec!["ok".into()],
                    fin: "ok".into(),
                    bytes: Some(m.as_fst().as_bytes().to_vec()),
                },
                Err(e) => stop(Err(e)).unwrap(),
            }
        }
        "set_from_iter" => {
            match fst::Set::from_iter(kv.iter().map(|(k, _)| k.clone())) {
                Ok(m) => BuildOut {
                    results: vec!["ok".into()],
                    fin: "ok".into(),
                    bytes: Some(m.as_fst().as_bytes().to_vec()),
                },
                Err(e) => stop(Err(e)).unwrap(),
            }
        }
        "raw_from_iter_map" => {
            match raw::Fst::from_iter_map(
                kv.iter().map(|(k, v)| (k.clone(), *v)),
            ) {
                Ok(m) => BuildOut {
                    results: vec!["ok".into()],
                    fin: "ok".into(),
                    bytes: Some(m.as_bytes().to_vec()),
                },
                Err(e) => stop(Err(e)).unwrap(),
            }
        }
        "raw_from_iter_set" => {
            match raw::Fst::from_iter_set(kv.iter().map(|(k, _)| k.clone())) {
                Ok(m) => BuildOut {
                    results: vec!["ok".into()],
                    fin: "ok".into(),
                    bytes: Some(m.as_bytes().to_vec()),
                },
                Err(e) => stop(Err(e)).unwrap(),
            }
        }
        // by-reference iterators: `extend_iter(&mut it)` again and again on the same iterator
        "set_iter_resume" | "map_iter_resume" | "raw_iter_resume" => {
            enum B3 {
                S(fst::SetBuilder<Vec<u8>>),
                M(fst::MapBuilder<Vec<u8>>),
                R(raw::Builder<Vec<u8>>),
            }
            let mut b = match fe {
                "set_iter_resume" => B3::S(fst::SetBuilder::new(vec![]).unwrap()),
                "map_iter_resume" => B3::M(fst::MapBuilder::new(vec![]).unwrap()),
                _ => B3::R(raw_builder(ty, geom)),
            };
            let mut it = kv.iter();
            let mut results = vec![];
            for _ in 0..kv.len() + 2 {
                let r = match &mut b {
                    B3::S(b) => b.extend_iter((&mut it).map(|(k, _)| k.clone())),
                    B3::M(b) => b.extend_iter((&mut it).map(|(k, v)| (k.clone(), *v))),
                    B3::R(b) => b.extend_iter((&mut it).map(|(k, v)| (k.clone(), Output::new(*v)))),
                };
                let done = r.is_ok();
                results.push(show_res(&r));
                if done {
                    break;
                }
            }
            match b {
                B3::S(b) => fin(b.into_inner(), results),
                B3::M(b) => fin(b.into_inner(), results),
                B3::R(b) => fin(b.into_inner(), results),
            }
        }
        // stream a union of two sets / maps (split of the keys) into a builder
        "set_union_stream" => {
            let (a, b2): (Vec<_>, Vec<_>) =
                kv.iter().enumerate().partition(|(i, _)| i % 2 == 0);
            let sa = fst::Set::from_iter(a.iter().map(|(_, (k, _))| k.clone()));
            let sb =
                fst::Set::from_iter(b2.iter().map(|(_, (k, _))| k.clone()));
            match (sa, sb) {
                (Ok(sa), Ok(sb)) => {
                    let mut b = fst::SetBuilder::new(vec![]).unwrap();
                    let r = b.extend_stream(sa.op().add(&sb).union());
                    if let Some(o) = stop(r) {
                        return o;
                    }
                    fin(b.into_inner(), vec!["ok".into()])
                }
                (Err(e), _) | (_, Err(e)) => stop(Err(e)).unwrap(),
            }
        }
        _ => panic!("unknown front end {}", fe),
    }
}

/// Independent statement of the ordering contract (C06): which calls are
/// accepted, with which error payload, and the accepted map.
pub fn contract(calls: &[Call], stop: bool) -> (Vec<String>, Kv, bool, bool) {
    let mut ambiguous = false;
    let mut last: Option<Vec<u8>> = None;
    let mut acc: BTreeMap<Vec<u8>, u64> = BTreeMap::new();
    let mut res = vec![];
    let mut stopped = false;
    for c in calls {
        let (k, v, dupe) = match c {
            Call::Ins(k, v) => (k, *v, true),
            Call::Add(k) => (k, 0, false),
        };
        let r = match &last {
            Some(l) if dupe && k == l => format!("dup:{}", hex(k)),
            Some(l) if k < l => format!("ooo:{}:{}", hex(l), hex(k)),
            _ => {
                // `add` repeating a key that was `insert`ed with a value: the
                // properties speak of map builders and set builders, not of
                // this mixture on a raw builder; its content is not judged
                if !dupe && last.as_ref() == Some(k) && acc.get(k).map(|x| *x != 0).unwrap_or(false) {
                    ambiguous = true;
                }
                last = Some(k.clone());
                acc.entry(k.clone()).or_insert(v);
                "ok".to_string()
            }
        };
        let bad = r != "ok";
        res.push(r);
        if bad && stop {
            stopped = true;
            break;
        }
    }
    if stop {
        // front ends in stop mode report one result
        let last_r = res.last().cloned().unwrap_or_else(|| "ok".into());
        let one = if stopped { last_r } else { "ok".to_string() };
        res = vec![one];
    }
    (res, acc.into_iter().collect(), stopped, ambiguous)
}

pub struct Runner {
    pub cur: Option<raw::Fst<Vec<u8>>>,
    pub expect: Option<Kv>,
    pub fails: Vec<String>,
    pub line_no: usize,
    pub checks: u64,
    pub utf8_full: String,
    pub notes: Vec<String>,
    pub groupings: std::collections::BTreeSet<String>,
    /// the current FST came out of the shipped builder (set by `build`)
    pub cur_built: bool,
    /// the real run does not have the structure the MODEL assumes (not by itself a failure of a property)
    pub mismatches: Vec<String>,
    /// what `verify()` has to answer on the current (loaded) file: set by `expectverify`
    pub expect_verify: Option<String>,
    /// how many runs of the command-line tool hit their deadline so far
    pub cli_hangs: u32,
}


/// the observable outcome of opening `bytes`: error class, or version / type / len /
/// verify() result / a digest of the full stream
fn open_outcome(r: fst::Result<raw::Fst<Vec<u8>>>, with_stream: bool) -> String {
    match r {
        Ok(f) => {
            let v = match f.verify() {
                Ok(()) => "verify ok".to_string(),
                Err(fst::Error::Fst(raw::Error::ChecksumMissing)) => "verify missing".to_string(),
                Err(fst::Error::Fst(raw::Error::ChecksumMismatch { expected, got })) => {
                    format!("verify mismatch {} {}", expected, got)
                }
                Err(e) => format!("verify other {:?}", e),
            };
            let st = if with_stream {
                let items = f.stream().into_byte_vec();
                format!(" n={} {:016x}", items.len(), fnv64(show_kvs(&items).as_bytes()))
            } else {
                String::new()
            };
            format!("ok v={} ty={} len={} empty={} size={} | {}{}", version_of(f.as_bytes()), f.fst_type(), f.len(), f.is_empty(), f.size(), v, st)
        }
        Err(fst::Error::Fst(raw::Error::Format { size })) => format!("err format {}", size),
        Err(fst::Error::Fst(raw::Error::Version { got, .. })) => format!("err version {}", got),
        Err(e) => format!("err other {:?}", e),
    }
}

/// Every way a user can turn `bytes` into an FST must behave like `Fst::new(bytes)`:
/// `Map::new` / `Set::new` (+ `into_fst`, `as_fst`, `From<Fst>`), and `map_data` from an
/// FST that was opened over OTHER bytes (a valid small one, and `other` if given).
/// Returns the list of paths that differ. `with_stream` only for bytes known to be well-formed.
pub fn open_paths_differ(bytes: &[u8], other: Option<&[u8]>, with_stream: bool) -> Vec<String> {
    let want = open_outcome(raw::Fst::new(bytes.to_vec()), with_stream);
    let mut bad = vec![];
    let mut cmp = |label: &str, got: String| {
        if got != want {
            bad.push(format!("{} gives [{}] but Fst::new gives [{}]", label, got, want));
        }
    };
    cmp("Fst::new(..).clone()", open_outcome(raw::Fst::new(bytes.to_vec()).map(|f| f.clone()), with_stream));
    cmp(
        "Fst::new(..) verified twice, then cloned",
        open_outcome(
            raw::Fst::new(bytes.to_vec()).map(|f| {
                let _ = f.verify();
                let _ = f.verify();
                f.clone()
            }),
            with_stream,
        ),
    );
    cmp("Map::new(..).into_fst()", open_outcome(fst::Map::new(bytes.to_vec()).map(|m| m.into_fst()), with_stream));
    cmp("Set::new(..).into_fst()", open_outcome(fst::Set::new(bytes.to_vec()).map(|m| m.into_fst()), with_stream));
    if let Ok(m) = fst::Map::new(bytes.to_vec()) {
        let direct = raw::Fst::new(bytes.to_vec()).unwrap();
        if m.len() != direct.len() || m.is_empty() != direct.is_empty() || m.as_fst().as_bytes() != direct.as_bytes() {
            cmp("Map::len/is_empty/as_fst", format!("len={} empty={}", m.len(), m.is_empty()));
        }
        let m2: fst::Map<Vec<u8>> = fst::Map::from(raw::Fst::new(bytes.to_vec()).unwrap());
        if m2.len() != direct.len() || m2.is_empty() != direct.is_empty() {
            cmp("Map::from(Fst)", format!("len={} empty={}", m2.len(), m2.is_empty()));
        }
    }
    if let Ok(m) = fst::Set::new(bytes.to_vec()) {
        let direct = raw::Fst::new(bytes.to_vec()).unwrap();
        if m.len() != direct.len() || m.is_empty() != direct.is_empty() || m.as_fst().as_bytes() != direct.as_bytes() {
            cmp("Set::len/is_empty/as_fst", format!("len={} empty={}", m.len(), m.is_empty()));
        }
        let m2: fst::Set<Vec<u8>> = fst::Set::from(raw::Fst::new(bytes.to_vec()).unwrap());
        if m2.len() != direct.len() || m2.is_empty() != direct.is_empty() {
            cmp("Set::from(Fst)", format!("len={} empty={}", m2.len(), m2.is_empty()));
        }
    }
    // map_data: the closure's result is what gets opened
    let seed_fst = raw::Fst::from_iter_map(vec![("a", 1u64), ("b", 2)]).unwrap().into_inner();
    let mut starts: Vec<(&str, Vec<u8>)> = vec![("a valid 2-key FST", seed_fst)];
    if let Some(o) = other {
        if o != bytes {
            starts.push(("the current FST", o.to_vec()));
        }
    }
    for (label, start) in starts {
        if let Ok(f) = raw::Fst::new(start.clone()) {
            let b2 = bytes.to_vec();
            cmp(&format!("Fst::map_data from {}", label), open_outcome(f.map_data(move |_| b2.clone()), with_stream));
        }
        if let Ok(f) = fst::Map::new(start.clone()) {
            let b2 = bytes.to_vec();
            cmp(&format!("Map::map_data from {}", label), open_outcome(f.map_data(move |_| b2.clone()).map(|m| m.into_fst()), with_stream));
        }
        if let Ok(f) = fst::Set::new(start) {
            let b2 = bytes.to_vec();
            cmp(&format!("Set::map_data from {}", label), open_outcome(f.map_data(move |_| b2.clone()).map(|m| m.into_fst()), with_stream));
        }
    }
    bad
}

fn lo_ok(lo: &(u8, Vec<u8>), k: &[u8]) -> bool {
    match lo.0 {
        1 => k >= &lo.1[..],
        2 => k > &lo.1[..],
        _ => true,
    }
}
fn hi_ok(hi: &(u8, Vec<u8>), k: &[u8]) -> bool {
    match hi.0 {
        1 => k <= &hi.1[..],
        2 => k < &hi.1[..],
        _ => true,
    }
}

/// parse a setter sequence ("ge:61+gt:62", "-"); the last of a kind wins.
fn parse_setters(lo: &str, hi: &str) -> Vec<(String, Vec<u8>)> {
    let mut v = vec![];
    for t in lo.split('+').chain(hi.split('+')) {
        if t == "-" || t.is_empty() {
            continue;
        }
        let (k, h) = t.split_at(3);
        v.push((k[..2].to_string(), unhex(h)));
    }
    v
}

impl Runner {
    pub fn new() -> Runner {
        Runner {
            cur: None,
            expect: None,
            fails: vec![],
            line_no: 0,
            checks: 0,
            utf8_full: String::new(),
            notes: vec![],
            groupings: Default::default(),
            cur_built: false,
            mismatches: vec![],
            expect_verify: None,
            cli_hangs: 0,
        }
    }

    pub fn fail(&mut self, what: String) {
        self.fails.push(format!("line={} {}", self.line_no, what));
    }

    pub fn check(&mut self, ok: bool, what: impl FnOnce() -> String) {
        self.checks += 1;
        if !ok {
            let w = what();
            self.fail(w);
        }
    }

    pub fn exec(&mut self, line: &str) -> String {
        self.line_no += 1;
        let line = line.trim();
        if line.is_empty() {
            return String::new();
        }
        if line.starts_with('#') {
            return line.to_string();
        }
        if line.starts_with('!') {
            let l = line.to_string();
            let r = catch_unwind(AssertUnwindSafe(|| crate::extra::bang(self, &l)));
            if r.is_err() {
                self.fail(format!("PANIC in implementation on: {}", &l[..l.len().min(200)]));
            }
            return "-".to_string();
        }
        let r = catch_unwind(AssertUnwindSafe(|| self.exec_inner(line)));
        match r {
            Ok(s) => s,
            Err(_) => {
                self.fail(format!("PANIC in implementation on: {}", &line[..line.len().min(200)]));
                "panic".to_string()
            }
        }
    }

    fn open(&mut self, bytes: Vec<u8>) -> String {
        match raw::Fst::new(bytes) {
            Ok(f) => {
                // the root address is read from the footer, not through
                // `root()` (which decodes a node and may panic on garbage)
                let b = f.as_bytes();
                let v = version_of(b);
                let end = if v >= 3 { b.len() - 4 } else { b.len() };
                let mut ra = [0u8; 8];
                ra.copy_from_slice(&b[end - 8..end]);
                let s = format!(
                    "ok v={} ty={} len={} root={}",
                    v,
                    f.fst_type(),
                    f.len(),
                    u64::from_le_bytes(ra)
                );
                self.cur = Some(f);
                s
            }
            Err(fst::Error::Fst(raw::Error::Format { size })) => {
                self.cur = None;
                format!("err format {}", size)
            }
            Err(fst::Error::Fst(raw::Error::Version { got, .. })) => {
                self.cur = None;
                format!("err version {}", got)
            }
            Err(e) => {
                self.cur = None;
                format!("err other {:?}", e)
            }
        }
    }

    fn exec_inner(&mut self, line: &str) -> String {
        let t: Vec<&str> = line.split(' ').filter(|x| !x.is_empty()).collect();
        match t[0] {
            "build" => self.cmd_build(&t),
            "load" => {
                let bytes = unhex(t[1]);
                // optional expectation: `expect=<kv>` / `expect=err`
                self.expect = None;
                self.cur_built = false;
                let cur_bytes: Option<Vec<u8>> = self.cur.as_ref().map(|f| f.as_bytes().to_vec());
                for d in open_paths_differ(&bytes, cur_bytes.as_deref(), true) {
                    self.fail(format!("C10 C20 C01 {}: load {}", d, &t[1][..t[1].len().min(120)]));
                }
                self.checks += 1;
                let o = self.open(bytes);
                format!("load {}", o)
            }
            "expect" => {
                // sets the reference content for the following queries
                self.expect = Some(parse_kvs(t.get(1).copied().unwrap_or("")));
                if let (Some(f), Some(e)) = (&self.cur, &self.expect) {
                    let got = f.stream().into_byte_vec();
                    let ok = &got == e && f.len() == e.len();
                    let e2 = show_kvs(e);
                    self.check(ok, || format!("C10 content of loaded FST differs: got {} want {}", show_kvs(&got), e2));
                }
                "expect ok".into()
            }
            "verify" => self.cmd_verify(),
            "expectverify" => {
                // files whose checksum status is known independently (golden files of earlier
                // builds, reference-encoder output): `ok` or `missing`
                self.expect_verify = Some(t[1].to_string());
                format!("expectverify {}", t[1])
            }
            "get" => self.cmd_get(&t),
            "has" => self.cmd_has(&t),
            "getkey" => self.cmd_getkey(&t),
            "stream" => self.cmd_stream(&t, false),
            "streamst" => self.cmd_stream(&t, true),
            "ops" => self.cmd_ops(&t),
            "aut" => self.cmd_aut(&t),
            "sink" => crate::sink::cmd_sink(self, &t),
            "crc" => self.cmd_crc(&t),
            "node" => crate::misc::cmd_node(self, &t),
            "utf8full" => {
                let real = crate::misc::utf8_full();
                self.check(real == t[1], || format!("utf8-ranges (0,10FFFF) changed: {}", real));
                "utf8full ok".into()
            }
            "lev" => crate::misc::cmd_lev(self, &t),
            "spec" => crate::misc::cmd_spec(self, &t),
            "merge" => crate::misc::cmd_merge(self, &t),
            "sched" => crate::misc::cmd_sched(&t),
            "corrupt" => self.cmd_corrupt(&t),
            "hdr" => self.cmd_hdr(&t),
            "enc" => {
                // reference encoder of the harness; the model side prints Spec.encodeFst
                let v: u64 = t[1].parse().unwrap();
                let ty: u64 = t[2].parse().unwrap();
                let style: u8 = t[3].parse().unwrap();
                let share = t[4] == "1";
                let kv = parse_kvs(t.get(5).copied().unwrap_or("."));
                format!("enc {}", show_bytes(&crate::refenc::encode(v, ty, &kv, style, share)))
            }
            "open" => self.cmd_open(&t),
            "foot" => crate::extra::cmd_foot(self, &t),
            "stats" => crate::extra::cmd_stats(self, &t),
            _ => "bad-op".into(),
        }
    }

    fn cmd_build(&mut self, t: &[&str]) -> String {
        // build <fe> <ty> <geom> <mode> <ops>
        let fe = t[1];
        let ty: u64 = t[2].parse().unwrap();
        let geom = parse_geom(t[3]);
        let stop = t[4] == "stop";
        let resume = t[4] == "resume";
        let calls = parse_calls(t.get(5).copied().unwrap_or(""));
        let out = run_frontend(fe, ty, geom, &calls);
        let (mut want_res, accepted, stopped, ambiguous) = contract(&calls, stop);
        if resume {
            // one result per `extend_iter` call: the error of each rejected item, then `ok`
            want_res.retain(|x| x != "ok");
            want_res.push("ok".into());
        }
        let res_s = out.results.join(",");
        let want_s = want_res.join(",");
        // a batch entry point that answers differently from the single-call one is also an
        // API-path dependence (C15)
        let tag = if stop || resume { "C06 C15" } else { "C06" };
        self.check(res_s == want_s, || {
            format!("{} call results differ from the ordering contract: fe={} got {} want {}", tag, fe, res_s, want_s)
        });
        // C06/C15: rejected calls leave no trace — the bytes equal those of a builder that
        // only ever saw the accepted calls
        if !stop && !resume && want_res.iter().any(|x| x != "ok") && !ambiguous {
            let accepted_calls: Vec<Call> = calls
                .iter()
                .zip(want_res.iter())
                .filter(|(_, r)| *r == "ok")
                .map(|(c, _)| c.clone())
                .collect();
            let clean = run_frontend(fe, ty, geom, &accepted_calls);
            let same = clean.bytes == out.bytes;
            self.check(same, || format!("C06 C15 rejected calls left a trace in the emitted bytes: fe={} calls={}", fe, show_calls(&calls)));
        }
        self.expect = None;
        self.cur = None;
        self.cur_built = false;
        if stop && stopped {
            return format!("build {} | fin=skipped", res_s);
        }
        match out.bytes {
            None => format!("build {} | fin={}", res_s, out.fin),
            Some(bytes) => {
                let sb = show_bytes(&bytes);
                for d in open_paths_differ(&bytes, None, true) {
                    self.fail(format!("C01 C10 {}: after {}", d, &line_of(t)[..line_of(t).len().min(160)]));
                }
                self.checks += 1;
                let o = self.open(bytes);
                self.cur_built = true;
                if let Some(f) = &self.cur {
                    let got = f.stream().into_byte_vec();
                    let keys: Vec<Vec<u8>> = {
                        let mut s = f.stream();
                        let mut ks = vec![];
                        while let Some((k, _)) = s.next() {
                            ks.push(k.to_vec());
                        }
                        ks
                    };
                    let len = f.len();
                    let is_empty = f.is_empty();
                    let okc = got == accepted || ambiguous;
                    let acc_s = show_kvs(&accepted);
                    self.check(okc, || format!("C01 stream differs from accepted map: fe={} got {} want {}", fe, show_kvs(&got), acc_s));
                    self.check(keys.len() == got.len(), || "C01 key stream length".into());
                    self.check(len == accepted.len(), || format!("C01 C06 len() = {} but {} accepted distinct keys (a rejected or repeated call must be a no-op)", len, accepted.len()));
                    self.check(is_empty == accepted.is_empty(), || "C01 is_empty()".into());
                    self.expect = if ambiguous { None } else { Some(accepted) };
                } else {
                    self.fail(format!("C01 C08 built bytes do not open (so they cannot pass verify()): {}", o));
                }
                format!("build {} | fin=ok | {} | open {}", res_s, sb, o)
            }
        }
    }

    fn cmd_verify(&mut self) -> String {
        let f = match &self.cur {
            Some(f) => f,
            None => return "nofst".into(),
        };
        // C08: `verify` lines follow a build by the shipped builder — it must verify
        let r = f.verify();
        let built_v3 = self.cur_built;
        let shown = format!("{:?}", r.as_ref().err());
        self.check(r.is_ok() || !built_v3, || format!("C08 a built FST does not pass verify(): {}", shown));
        if let Some(want) = self.expect_verify.take() {
            let got = match &r {
                Ok(()) => "ok",
                Err(fst::Error::Fst(raw::Error::ChecksumMissing)) => "missing",
                _ => "mismatch",
            };
            self.check(got == want, || format!("C10 C08 verify() on a file written by an earlier build / the reference encoder answers {} (want {}): {}", got, want, shown));
        }
        match r {
            Ok(()) => "verify ok".into(),
            Err(fst::Error::Fst(raw::Error::ChecksumMissing)) => {
                "verify missing".into()
            }
            Err(fst::Error::Fst(raw::Error::ChecksumMismatch {
                expected,
                got,
            })) => format!("verify mismatch {} {}", expected, got),
            Err(e) => format!("verify other {:?}", e),
        }
    }

    fn cmd_hdr(&mut self, t: &[&str]) -> String {
        // version / length gate (C10)
        let bytes = unhex(t[1]);
        let n = bytes.len();
        let version = if n >= 8 { Some(version_of(&bytes)) } else { None };
        self.expect = None;
        let o = self.open(bytes);
        let l = line_of(t);
        match version {
            None => self.check(o.starts_with("err format"), || format!("C10 {} bytes: {} (want Format): {}", n, o, l)),
            Some(v) if v == 0 || v > 3 => {
                if n >= 36 {
                    self.check(o.starts_with("err version"), || format!("C10 version {}: {} (want Version): {}", v, o, l));
                } else {
                    self.check(o.starts_with("err"), || format!("C10 version {} short: {}: {}", v, o, l));
                }
            }
            Some(v) => {
                let min = if v <= 2 { 32 } else { 36 };
                if n < min {
                    self.check(o.starts_with("err format"), || format!("C10 v{} with {} bytes: {} (want Format): {}", v, n, o, l));
                }
            }
        }
        format!("load {}", o)
    }

    fn cmd_open(&mut self, t: &[&str]) -> String {
        // open, then every metadata accessor and verify(): total (C20)
        let bytes = unhex(t[1]);
        let n = bytes.len();
        // every other way of opening these bytes (wrappers, map_data) behaves like Fst::new
        let cur_bytes: Option<Vec<u8>> = self.cur.as_ref().map(|f| f.as_bytes().to_vec());
        for d in open_paths_differ(&bytes, cur_bytes.as_deref(), false) {
            self.fail(format!("C20 C10 C08 {}: open {}", d, &t[1][..t[1].len().min(120)]));
        }
        self.checks += 1;
        match raw::Fst::new(bytes) {
            Ok(f) => {
                let _ = (f.len(), f.is_empty(), f.fst_type(), f.size(), f.as_bytes().len());
                let m = fst::Map::new(f.as_bytes()).map(|m| m.len());
                let s2 = fst::Set::new(f.as_bytes()).map(|m| m.len());
                self.check(m.is_ok() && s2.is_ok(), || "C20 Map::new/Set::new disagree with Fst::new".to_string());
                self.check(f.size() == n, || "C20 size()".to_string());
                let v = match f.verify() {
                    Ok(()) => "verify ok".to_string(),
                    Err(fst::Error::Fst(raw::Error::ChecksumMissing)) => "verify missing".to_string(),
                    Err(fst::Error::Fst(raw::Error::ChecksumMismatch { expected, got })) => {
                        format!("verify mismatch {} {}", expected, got)
                    }
                    Err(e) => format!("verify other {:?}", e),
                };
                format!("open ok v={} ty={} len={} | {}", version_of(f.as_bytes()), f.fst_type(), f.len(), v)
            }
            Err(fst::Error::Fst(raw::Error::Format { size })) => format!("open err format {}", size),
            Err(fst::Error::Fst(raw::Error::Version { got, .. })) => format!("open err version {}", got),
            Err(e) => format!("open err other {:?}", e),
        }
    }

    fn cmd_corrupt(&mut self, t: &[&str]) -> String {
        // a built FST with one or more bytes altered: never certified as valid (C08)
        let bytes = unhex(t[1]);
        // the damaged copy may also reach the user through map_data on the intact FST
        // (`self.cur` is the FST these bytes were derived from) or through the wrappers
        let cur_bytes: Option<Vec<u8>> = self.cur.as_ref().map(|f| f.as_bytes().to_vec());
        for d in open_paths_differ(&bytes, cur_bytes.as_deref(), false) {
            self.fail(format!("C08 C20 C10 {}: corrupt {}", d, &t[1][..t[1].len().min(120)]));
        }
        self.checks += 1;
        match raw::Fst::new(bytes) {
            Ok(f) => {
                let v = match f.verify() {
                    Ok(()) => "verify ok".to_string(),
                    Err(fst::Error::Fst(raw::Error::ChecksumMissing)) => "verify missing".to_string(),
                    Err(fst::Error::Fst(raw::Error::ChecksumMismatch { expected, got })) => {
                        format!("verify mismatch {} {}", expected, got)
                    }
                    Err(e) => format!("verify other {:?}", e),
                };
                let l = line_of(t);
                self.check(v != "verify ok", || format!("C08 corrupted FST certified as valid: {}", l));
                format!("corrupt open ok | {}", v)
            }
            Err(fst::Error::Fst(raw::Error::Format { size })) => format!("corrupt open err format {}", size),
            Err(fst::Error::Fst(raw::Error::Version { got, .. })) => format!("corrupt open err version {}", got),
            Err(e) => format!("corrupt open err other {:?}", e),
        }
    }

    fn cmd_get(&mut self, t: &[&str]) -> String {
        let k = unhex(t[1]);
        let (r, r2) = match &self.cur {
            Some(f) => (f.get(&k).map(|o| o.value()), {
                // the Map/Set wrappers answer identically
                let m = fst::Map::new(f.as_bytes()).unwrap();
                m.get(&k)
            }),
            None => return "nofst".into(),
        };
        if let Some(e) = &self.expect {
            let want = e.iter().find(|(k2, _)| k2 == &k).map(|(_, v)| *v);
            self.check(r == want && r2 == want, || {
                format!("C02 get({}) = {:?} / Map::get = {:?}, inserted {:?}", hex(&k), r, r2, want)
            });
        }
        match r {
            Some(v) => format!("get some {}", v),
            None => "get none".into(),
        }
    }

    fn cmd_has(&mut self, t: &[&str]) -> String {
        let k = unhex(t[1]);
        let (r, r2, r3) = match &self.cur {
            Some(f) => (
                f.contains_key(&k),
                fst::Set::new(f.as_bytes()).unwrap().contains(&k),
                fst::Map::new(f.as_bytes()).unwrap().contains_key(&k),
            ),
            None => return "nofst".into(),
        };
        if let Some(e) = &self.expect {
            let want = e.iter().any(|(k2, _)| k2 == &k);
            self.check(r == want && r2 == want && r3 == want, || {
                format!("C02 C11 contains_key({}) = {}/{}/{}, inserted: {}", hex(&k), r, r2, r3, want)
            });
        }
        format!("has {}", r)
    }

    fn cmd_getkey(&mut self, t: &[&str]) -> String {
        let v: u64 = t[1].parse().unwrap();
        let buf0 = unhex(t[2]);
        let f = match &self.cur {
            Some(f) => f,
            None => return "nofst".into(),
        };
        let mut buf = buf0.clone();
        let found = f.get_key_into(v, &mut buf);
        let gk = f.get_key(v);
        let mono = self
            .expect
            .as_ref()
            .map(|e| e.windows(2).all(|w| w[0].1 < w[1].1))
            .unwrap_or(false);
        if mono {
            let e = self.expect.clone().unwrap();
            let want = e.iter().find(|(_, v2)| *v2 == v).map(|(k, _)| k.clone());
            let ok = match &want {
                Some(k) => {
                    found && buf[..buf0.len()] == buf0[..] && &buf[buf0.len()..] == &k[..] && gk.as_ref() == Some(k)
                }
                None => !found && gk.is_none(),
            };
            self.check(ok, || {
                format!("C16 get_key({}) = {:?} (into: {} {}), monotone map has {:?}", v, gk.as_ref().map(|k| hex(k)), found, hex(&buf), want.as_ref().map(|k| hex(k)))
            });
        }
        if found {
            format!("getkey true {}", hex(&buf))
        } else {
            "getkey false".into()
        }
    }

    fn cmd_stream(&mut self, t: &[&str], with_state: bool) -> String {
        // stream <aut> <lo> <hi>
        let spec = match auts::parse(t[1]) {
            Some(s) => s,
            None => return "badaut".into(),
        };
        let aut = match auts::build(&spec) {
            Some(a) => a,
            None => return "badaut".into(),
        };
        let setters = parse_setters(t[2], t[3]);
        let f = match &self.cur {
            Some(f) => f,
            None => return "nofst".into(),
        };
        // HISTORY: what happened before on this thread must not matter. Before the query itself,
        // the same query is started and dropped half-way (after 0..2 items); afterwards it is run
        // again as two streams advanced in alternation, and the finished stream is polled again.
        let salt = fnv64(line_of(t).as_bytes());
        {
            let mut sb = f.search(&aut);
            for (k, b) in &setters {
                sb = match &k[..] {
                    "ge" => sb.ge(b),
                    "gt" => sb.gt(b),
                    "le" => sb.le(b),
                    _ => sb.lt(b),
                };
            }
            let mut s = sb.into_stream();
            for _ in 0..(salt % 3) {
                if s.next().is_none() {
                    break;
                }
            }
            // dropped here, half-way
        }
        let mut after_none_ok = true;
        let mut items: Vec<(Vec<u8>, u64, String)> = vec![];
        if with_state {
            let mut sb = f.search_with_state(&aut);
            for (k, b) in &setters {
                sb = match &k[..] {
                    "ge" => sb.ge(b),
                    "gt" => sb.gt(b),
                    "le" => sb.le(b),
                    _ => sb.lt(b),
                };
            }
            let mut s = sb.into_stream();
            while let Some((k, v, st)) = s.next() {
                items.push((k.to_vec(), v.value(), auts::show_state(&aut, &st)));
            }
        } else {
            let mut sb = f.search(&aut);
            for (k, b) in &setters {
                sb = match &k[..] {
                    "ge" => sb.ge(b),
                    "gt" => sb.gt(b),
                    "le" => sb.le(b),
                    _ => sb.lt(b),
                };
            }
            let mut s = sb.into_stream();
            while let Some((k, v)) = s.next() {
                items.push((k.to_vec(), v.value(), String::new()));
            }
            // a finished stream stays finished
            for _ in 0..3 {
                if s.next().is_some() {
                    after_none_ok = false;
                }
            }
        }
        // two streams of the same query over the same FST, advanced in alternation
        let mut twin_ok = true;
        {
            let mk = || {
                let mut sb = f.search(&aut);
                for (k, b) in &setters {
                    sb = match &k[..] {
                        "ge" => sb.ge(b),
                        "gt" => sb.gt(b),
                        "le" => sb.le(b),
                        _ => sb.lt(b),
                    };
                }
                sb.into_stream()
            };
            let (mut s1, mut s2) = (mk(), mk());
            let mut i = 0usize;
            loop {
                let a = s1.next().map(|(k, v)| (k.to_vec(), v.value()));
                let want = items.get(i).map(|(k, v, _)| (k.clone(), *v));
                if a != want {
                    twin_ok = false;
                }
                // the second one lags one step behind on odd salts
                if salt % 2 == 0 || i > 0 {
                    let j = if salt % 2 == 0 { i } else { i - 1 };
                    let b = s2.next().map(|(k, v)| (k.to_vec(), v.value()));
                    if b != items.get(j).map(|(k, v, _)| (k.clone(), *v)) {
                        twin_ok = false;
                    }
                }
                if a.is_none() {
                    break;
                }
                i += 1;
                if i > items.len() + 2 {
                    twin_ok = false;
                    break;
                }
            }
        }
        let paths = crate::wrap::stream_paths(f, &aut, matches!(&spec, AutSpec::Always), &setters, with_state);
        // oracle
        if let Some(e) = self.expect.clone() {
            let mut lo = (0u8, vec![]);
            let mut hi = (0u8, vec![]);
            for (k, b) in &setters {
                match &k[..] {
                    "ge" => lo = (1, b.clone()),
                    "gt" => lo = (2, b.clone()),
                    "le" => hi = (1, b.clone()),
                    _ => hi = (2, b.clone()),
                }
            }
            let mut want: Vec<(Vec<u8>, u64)> = vec![];
            let mut defined = true;
            for (k, v) in &e {
                if lo_ok(&lo, k) && hi_ok(&hi, k) {
                    match auts::lang_stream(&spec, k) {
                        Some(true) => want.push((k.clone(), *v)),
                        Some(false) => {}
                        None => defined = false,
                    }
                }
            }
            if defined {
                let got: Vec<(Vec<u8>, u64)> = items.iter().map(|(k, v, _)| (k.clone(), *v)).collect();
                let prop = match &spec {
                    AutSpec::Always => "C03",
                    AutSpec::Lev(_, _) => "C17",
                    // an automaton that overrides `accept_eof` is OUTSIDE C04's contract ("no end-of-key
                    // hook"): a wrong result here contradicts no given property (tag C00); it breaks the
                    // correspondence with the model (theorem C04_search_eof), nothing more
                    AutSpec::DfaE(_, _) => "C00 beyond-contract(accept_eof hook)",
                    // (C18: pruning by the hints of a built-in automaton must not change the result)
                    _ => "C04 C18",
                };
                let l = line_of(t);
                self.check(got == want, || {
                    format!("{} {} yields {} want {}", prop, l, show_kvs(&got), show_kvs(&want))
                });
                if with_state {
                    // the reported state is the one reached after the key
                    for (k, _, st) in &items {
                        let mut s = aut.start();
                        for &b in k {
                            s = aut.accept(&s, b);
                        }
                        let ws = auts::show_state(&aut, &s);
                        let p = if matches!(&spec, AutSpec::DfaE(_, _)) { "C00 beyond-contract(accept_eof hook)" } else { "C04" };
                        self.check(&ws == st, || format!("{} state for key {} is {} want {}", p, hex(k), st, ws));
                    }
                }
            }
        }
        {
            let prop = match &spec {
                AutSpec::Always => "C03 C01",
                AutSpec::Lev(_, _) => "C17",
                _ => "C04 C18",
            };
            let l = line_of(t);
            self.check(after_none_ok, || format!("{} a stream that returned None yields an item when polled again: {}", prop, l));
            self.check(twin_ok, || format!("{} two streams of the same query advanced in alternation do not both yield the result of a single stream: {}", prop, l));
        }
        // the same query through the Map / Set wrappers (src/map.rs, src/set.rs)
        {
            let prop = match &spec {
                AutSpec::Always => "C03",
                AutSpec::Lev(_, _) => "C17",
                _ => "C04 C18",
            };
            let l = line_of(t);
            let mut bad: Vec<String> = vec![];
            for (label, has_values, got) in paths {
                let same = got.len() == items.len()
                    && got.iter().zip(items.iter()).all(|(a, b)| a.0 == b.0 && a.2 == b.2 && (!has_values || a.1 == b.1));
                if !same {
                    bad.push(format!(
                        "{} {} through {} yields {} but raw::Fst yields {}",
                        prop,
                        l,
                        label,
                        show_kvs(&got.iter().map(|(k, v, _)| (k.clone(), *v)).collect::<Vec<_>>()),
                        show_kvs(&items.iter().map(|(k, v, _)| (k.clone(), *v)).collect::<Vec<_>>())
                    ));
                } else {
                    self.checks += 1;
                }
            }
            for b in bad {
                self.fail(b);
            }
        }
        let strs: Vec<String> = items
            .iter()
            .map(|(k, v, s)| {
                if with_state {
                    format!("{}:{}:{}", hex(k), v, s)
                } else {
                    format!("{}:{}", hex(k), v)
                }
            })
            .collect();
        format!("items {} {}", items.len(), strs.join(","))
    }

    fn cmd_crc(&mut self, t: &[&str]) -> String {
        let chunks: Vec<Vec<u8>> = t[1].split('|').map(unhex).collect();
        let all: Vec<u8> = chunks.iter().flatten().cloned().collect();
        let want = mask(crc32c_bitwise(&all));
        // observed without hooks: verify() on a frame whose payload is `all`
        let got_pub = crate::misc::crc_via_verify(&all);
        let want_pub = mask(crc32c_bitwise(&crate::misc::crc_frame(&all).1));
        self.check(got_pub == want_pub, || format!("C08 verify() computes {} over a frame with {} payload bytes, bitwise CRC-32C gives {}", got_pub, all.len(), want_pub));
        #[cfg(feature = "hooks")]
        {
            let refs: Vec<&[u8]> = chunks.iter().map(|c| &c[..]).collect();
            let got = raw::verif::crc32c_chunks(&refs);
            self.check(got == want, || format!("C08 chunked crc = {} want {} chunks {:?}", got, want, chunks.iter().map(|c| c.len()).collect::<Vec<_>>()));
            return format!("crc {}", got);
        }
        #[allow(unreachable_code)]
        format!("crc {}", got_pub)
    }

    fn cmd_aut(&mut self, t: &[&str]) -> String {
        let spec = match auts::parse(t[1]) {
            Some(s) => s,
            None => return "badaut".into(),
        };
        let aut = match auts::build(&spec) {
            Some(a) => a,
            None => return "badaut".into(),
        };
        let w = unhex(t[2]);
        let mut s = aut.start();
        let mut flags = vec![];
        let mut states = vec![s.clone()];
        for i in 0..=w.len() {
            flags.push(format!(
                "{}{}{}",
                aut.is_match(&s) as u8,
                aut.can_match(&s) as u8,
                aut.will_always_match(&s) as u8
            ));
            // language oracle on every prefix
            if let Some(want) = auts::lang(&spec, &w[..i]) {
                let got = aut.is_match(&s);
                self.check(got == want, || format!("C18 {} on {}: is_match={} spec={}", t[1], hex(&w[..i]), got, want));
            }
            if i < w.len() {
                s = aut.accept(&s, w[i]);
                states.push(s.clone());
            }
        }
        // hint soundness along this word: can_match false / will_always true
        // at prefix i constrain every later prefix of the same word
        for i in 0..=w.len() {
            let cm = aut.can_match(&states[i]);
            let wm = aut.will_always_match(&states[i]);
            for j in i..=w.len() {
                let m = aut.is_match(&states[j]);
                if !cm {
                    self.check(!m, || format!("C18 {}: can_match false after {} but {} matches", t[1], hex(&w[..i]), hex(&w[..j])));
                }
                if wm {
                    self.check(m, || format!("C18 {}: will_always_match true after {} but {} does not match", t[1], hex(&w[..i]), hex(&w[..j])));
                }
            }
        }
        format!("flags {}", flags.join(","))
    }

    fn cmd_ops(&mut self, t: &[&str]) -> String {
        crate::ops::cmd_ops(self, t)
    }
}

fn line_of(t: &[&str]) -> String {
    let s = t.join(" ");
    if s.len() > 300 {
        s[..300].to_string()
    } else {
        s
    }
}

pub fn version_of(bytes: &[u8]) -> u64 {
    let mut b = [0u8; 8];
    b.copy_from_slice(&bytes[..8]);
    u64::from_le_bytes(b)
}

pub fn run_stdin(oracle_path: Option<&str>) {
    use std::io::BufRead;
    let stdin = std::io::stdin();
    let stdout = std::io::stdout();
    let mut out = std::io::BufWriter::new(stdout.lock());
    let mut r = Runner::new();
    for line in stdin.lock().lines() {
        let line = line.unwrap();
        let o = r.exec(&line);
        writeln!(out, "{}", o).unwrap();
    }
    out.flush().unwrap();
    if let Some(p) = oracle_path {
        let mut f = std::fs::File::create(p).unwrap();
        writeln!(f, "checks {}", r.checks).unwrap();
        for x in &r.notes {
            writeln!(f, "NOTE {}", x).unwrap();
        }
        if !r.groupings.is_empty() {
            writeln!(f, "NOTE merge: {} distinct union groupings observed in the traces of the real runs", r.groupings.len()).unwrap();
        }
        for x in &r.mismatches {
            writeln!(f, "MISMATCH {}", x).unwrap();
        }
        for x in &r.fails {
            writeln!(f, "FAIL {}", x).unwrap();
        }
    }
}
