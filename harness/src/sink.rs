//! `sink` command: the builder over a scripted `io::Write` (C07, C11).
use std::cell::RefCell;
use std::collections::VecDeque;
use std::io;
use std::rc::Rc;

use fst::raw;

use crate::run::{parse_calls, parse_geom, show_err, Call, Runner};
use crate::util::*;

#[derive(Clone, Debug, PartialEq)]
pub enum Resp {
    Take(usize),
    Interrupted,
    Fail(u64),
}

pub fn parse_script(s: &str) -> Vec<Resp> {
    s.split(',')
        .filter(|t| !t.is_empty() && *t != "-")
        .map(|t| {
            if t == "I" {
                Resp::Interrupted
            } else if let Some(k) = t.strip_prefix('F') {
                Resp::Fail(k.parse().unwrap())
            } else if let Some(n) = t.strip_prefix('T') {
                Resp::Take(n.parse().unwrap())
            } else {
                panic!("bad resp {}", t)
            }
        })
        .collect()
}

pub struct Inner {
    pub held: Vec<u8>,
    pub script: VecDeque<Resp>,
    pub flush_fails: Option<u64>,
    pub calls: usize,
    pub flushed: bool,
    pub faults_hit: usize,
    pub len_at_flush: Option<usize>,
    /// kind of the last error this sink returned (other than Interrupted)
    pub last_kind: Option<io::ErrorKind>,
}

#[derive(Clone)]
pub struct ScriptedSink(pub Rc<RefCell<Inner>>);

pub fn kind_of(k: u64) -> io::ErrorKind {
    match k % 12 {
        0 => io::ErrorKind::Other,
        1 => io::ErrorKind::BrokenPipe,
        2 => io::ErrorKind::WouldBlock,
        3 => io::ErrorKind::PermissionDenied,
        4 => io::ErrorKind::UnexpectedEof,
        5 => io::ErrorKind::InvalidData,
        6 => io::ErrorKind::InvalidInput,
        7 => io::ErrorKind::TimedOut,
        8 => io::ErrorKind::WriteZero,
        9 => io::ErrorKind::NotFound,
        10 => io::ErrorKind::AlreadyExists,
        _ => io::ErrorKind::ConnectionReset,
    }
}

impl io::Write for ScriptedSink {
    fn write(&mut self, buf: &[u8]) -> io::Result<usize> {
        let mut s = self.0.borrow_mut();
        s.calls += 1;
        match s.script.pop_front() {
            None => {
                s.held.extend_from_slice(buf);
                Ok(buf.len())
            }
            Some(Resp::Take(n)) => {
                if n == 0 {
                    s.faults_hit += 1;
                    // `write_all` turns Ok(0) into WriteZero
                    s.last_kind = Some(io::ErrorKind::WriteZero);
                }
                let k = n.min(buf.len());
                s.held.extend_from_slice(&buf[..k]);
                Ok(k)
            }
            Some(Resp::Interrupted) => {
                Err(io::Error::new(io::ErrorKind::Interrupted, "scripted"))
            }
            Some(Resp::Fail(k)) => {
                s.faults_hit += 1;
                s.last_kind = Some(kind_of(k));
                Err(io::Error::new(kind_of(k), "scripted"))
            }
        }
    }
    fn flush(&mut self) -> io::Result<()> {
        let mut s = self.0.borrow_mut();
        match s.flush_fails {
            Some(k) => {
                s.last_kind = Some(kind_of(k));
                Err(io::Error::new(kind_of(k), "scripted flush"))
            }
            None => {
                s.flushed = true;
                s.len_at_flush = Some(s.held.len());
                Ok(())
            }
        }
    }
}

pub fn new_sink(prefill: &[u8], script: Vec<Resp>, flush: Option<u64>) -> ScriptedSink {
    ScriptedSink(Rc::new(RefCell::new(Inner {
        held: prefill.to_vec(),
        script: script.into(),
        flush_fails: flush,
        calls: 0,
        flushed: false,
        faults_hit: 0,
        len_at_flush: None,
        last_kind: None,
    })))
}

#[cfg(feature = "hooks")]
fn mk_builder(
    sink: ScriptedSink,
    ty: u64,
    geom: Option<(usize, usize)>,
) -> Result<raw::Builder<ScriptedSink>, fst::Error> {
    match geom {
        Some((r, c)) => raw::Builder::verif_new_with_cache(sink, ty, r, c),
        None => raw::Builder::new_type(sink, ty),
    }
}
#[cfg(not(feature = "hooks"))]
fn mk_builder(
    sink: ScriptedSink,
    ty: u64,
    _geom: Option<(usize, usize)>,
) -> Result<raw::Builder<ScriptedSink>, fst::Error> {
    raw::Builder::new_type(sink, ty)
}

/// in-memory build with the SAME cache geometry as the sink build it is compared with
#[cfg(feature = "hooks")]
pub fn vec_build_geom(ty: u64, geom: Option<(usize, usize)>, calls: &[Call]) -> Option<Vec<u8>> {
    let mut b = match geom {
        Some((r, c)) => raw::Builder::verif_new_with_cache(vec![], ty, r, c).ok()?,
        None => raw::Builder::new_type(vec![], ty).ok()?,
    };
    for c in calls {
        let _ = match c {
            Call::Ins(k, v) => b.insert(k, *v),
            Call::Add(k) => b.add(k),
        };
    }
    b.into_inner().ok()
}
#[cfg(not(feature = "hooks"))]
pub fn vec_build_geom(ty: u64, _geom: Option<(usize, usize)>, calls: &[Call]) -> Option<Vec<u8>> {
    vec_build(ty, calls)
}

pub fn vec_build(ty: u64, calls: &[Call]) -> Option<Vec<u8>> {
    let mut b = raw::Builder::new_type(vec![], ty).ok()?;
    for c in calls {
        let _ = match c {
            Call::Ins(k, v) => b.insert(k, *v),
            Call::Add(k) => b.add(k),
        };
    }
    b.into_inner().ok()
}

/// the builder behind a front end, over the scripted sink
enum AnyB {
    Raw(raw::Builder<ScriptedSink>),
    Map(fst::MapBuilder<ScriptedSink>),
    Set(fst::SetBuilder<ScriptedSink>),
}

impl AnyB {
    fn new(fe: &str, sink: ScriptedSink, ty: u64, geom: Option<(usize, usize)>) -> Result<AnyB, fst::Error> {
        if fe.starts_with("map") {
            fst::MapBuilder::new(sink).map(AnyB::Map)
        } else if fe.starts_with("set") {
            fst::SetBuilder::new(sink).map(AnyB::Set)
        } else {
            mk_builder(sink, ty, geom).map(AnyB::Raw)
        }
    }
    fn call(&mut self, c: &Call) -> Result<(), fst::Error> {
        match (self, c) {
            (AnyB::Raw(b), Call::Ins(k, v)) => b.insert(k, *v),
            (AnyB::Raw(b), Call::Add(k)) => b.add(k),
            (AnyB::Map(b), Call::Ins(k, v)) => b.insert(k, *v),
            (AnyB::Map(b), Call::Add(k)) => b.insert(k, 0),
            (AnyB::Set(b), Call::Ins(k, _)) => b.insert(k),
            (AnyB::Set(b), Call::Add(k)) => b.insert(k),
        }
    }
    /// the whole call list through one `extend_iter` / `extend_stream`
    fn batch(&mut self, fe: &str, calls: &[Call]) -> Result<(), fst::Error> {
        let kv: crate::run::Kv = calls
            .iter()
            .map(|c| match c {
                Call::Ins(k, v) => (k.clone(), *v),
                Call::Add(k) => (k.clone(), 0),
            })
            .collect();
        use crate::run::{VecStream, VecStreamMap, VecStreamSet};
        let stream = fe.ends_with("_stream");
        match self {
            AnyB::Raw(b) => {
                if stream {
                    b.extend_stream(VecStream { items: kv, i: 0 })
                } else {
                    b.extend_iter(kv.into_iter().map(|(k, v)| (k, raw::Output::new(v))))
                }
            }
            AnyB::Map(b) => {
                if stream {
                    b.extend_stream(VecStreamMap(VecStream { items: kv, i: 0 }))
                } else {
                    b.extend_iter(kv.into_iter())
                }
            }
            AnyB::Set(b) => {
                if stream {
                    b.extend_stream(VecStreamSet(VecStream { items: kv, i: 0 }))
                } else {
                    b.extend_iter(kv.into_iter().map(|(k, _)| k))
                }
            }
        }
    }
    fn bytes_written(&self) -> u64 {
        match self {
            AnyB::Raw(b) => b.bytes_written(),
            AnyB::Map(b) => b.bytes_written(),
            AnyB::Set(b) => b.bytes_written(),
        }
    }
    fn into_inner(self) -> Result<ScriptedSink, fst::Error> {
        match self {
            AnyB::Raw(b) => b.into_inner(),
            AnyB::Map(b) => b.into_inner(),
            AnyB::Set(b) => b.into_inner(),
        }
    }
}

/// an `Err` that the sink caused must be `Error::Io` carrying the sink's own error kind
fn io_kind_ok(e: &fst::Error, h: &ScriptedSink) -> Result<(), String> {
    let want = h.0.borrow().last_kind;
    match (e, want) {
        // C11 asks for Err(Io); that the ErrorKind is the sink's own is not part of the
        // statement, so a different kind is not judged (an error re-wrapped with context is fine)
        (fst::Error::Io(_), Some(_)) => Ok(()),
        (fst::Error::Io(ioe), None) => Err(format!("Err(Io({:?})) although the sink never failed", ioe.kind())),
        (_, None) => Ok(()),
        (other, Some(k)) => Err(format!("the sink failed with {:?} but the call returned {:?}", k, other)),
    }
}

pub fn cmd_sink(r: &mut Runner, t: &[&str]) -> String {
    // sink <ty> <geom> <script> <flush> <prefill> <ops> [front end]
    let ty: u64 = t[1].parse().unwrap();
    let geom = parse_geom(t[2]);
    let script = parse_script(t[3]);
    let flush: Option<u64> = if t[4] == "-" { None } else { Some(t[4].parse().unwrap()) };
    let prefill = unhex(t[5]);
    let ops = t.get(6).copied().unwrap_or("");
    let calls = parse_calls(if ops == "-" { "" } else { ops });
    let fe = t.get(7).copied().unwrap_or("raw");
    let is_batch = fe.ends_with("_iter") || fe.ends_with("_stream");
    let benign = flush.is_none()
        && script.iter().all(|x| match x {
            Resp::Take(n) => *n >= 1,
            Resp::Interrupted => true,
            Resp::Fail(_) => false,
        });
    let sink = new_sink(&prefill, script.clone(), flush);
    let handle = sink.clone();
    let line = t.join(" ");
    let mut b = match AnyB::new(fe, sink, ty, geom) {
        Ok(b) => b,
        Err(e) => {
            let es = show_err(&e);
            r.check(es == "io" && !benign, || format!("C11/C07 Builder::new failed with {} (benign={}) on {}", es, benign, line));
            if let Err(m) = io_kind_ok(&e, &handle) {
                r.fail(format!("C11 {}: {}", m, line));
            }
            let h = handle.0.borrow();
            return format!("sink new={} | {} | calls={}", es, show_bytes(&h.held), h.calls);
        }
    };
    let mut res = vec![];
    let mut alive = true;
    let steps: Vec<Option<&Call>> = if is_batch { vec![None] } else { calls.iter().map(Some).collect() };
    for c in steps {
        let rr = std::panic::catch_unwind(std::panic::AssertUnwindSafe(|| match c {
            Some(c) => b.call(c),
            None => b.batch(fe, &calls),
        }));
        let rr = match rr {
            Ok(x) => x,
            Err(_) => {
                r.fail(format!("C11 PANIC in a builder call over a failing or short-writing sink: {}", line));
                return "sink panic".into();
            }
        };
        let cnt = b.bytes_written();
        let accepted = (handle.0.borrow().held.len() - prefill.len()) as u64;
        let s = match &rr {
            Ok(()) => "ok".to_string(),
            Err(e) => show_err(e),
        };
        // C07: bytes_written() equals what the sink has accepted
        r.check(cnt == accepted, || format!("C07 bytes_written()={} but the sink accepted {} bytes: {}", cnt, accepted, line));
        if benign {
            r.check(s != "io", || format!("C07 io error on a benign sink: {}", line));
        }
        let hit = handle.0.borrow().faults_hit;
        r.check((hit > 0) == (s == "io"), || format!("C11 sink failed {} time(s) during the call but the call returned {}: {}", hit, s, line));
        if let Err(e) = &rr {
            if let Err(m) = io_kind_ok(e, &handle) {
                r.fail(format!("C11 {}: {}", m, line));
            }
        }
        res.push(format!("{}@{}", s, cnt));
        if s == "io" || (is_batch && s != "ok") {
            alive = false;
            break;
        }
    }
    if !alive {
        let h = handle.0.borrow();
        return format!(
            "sink new=ok | {} | fin=skipped | {} | calls={}",
            res.join(","),
            show_bytes(&h.held),
            h.calls
        );
    }
    let fin = b.into_inner();
    let fin_s = match &fin {
        Ok(_) => "ok".to_string(),
        Err(e) => show_err(e),
    };
    if let Err(e) = &fin {
        if let Err(m) = io_kind_ok(e, &handle) {
            r.fail(format!("C11 {} (finish): {}", m, line));
        }
    }
    let h = handle.0.borrow();
    let script_left = h.script.iter().any(|x| matches!(x, Resp::Fail(_) | Resp::Take(0)));
    if fin_s == "ok" {
        // C11: success only if everything was accepted and flushed
        r.check(h.flushed, || format!("C11 finish ok without a successful flush: {}", line));
        r.check(h.faults_hit == 0, || format!("C11 finish ok although the sink failed: {}", line));
        // C07/C11: everything the sink holds was handed over before the final flush
        r.check(h.len_at_flush == Some(h.held.len()), || format!("C07 C11 C15 {} byte(s) reached the sink after the last flush: {}", h.held.len() - h.len_at_flush.unwrap_or(0), line));
        // the reference: an in-memory build of the accepted calls (wrapper front ends: type 0)
        let ref_calls: Vec<Call> = if fe.starts_with("set") {
            calls.iter().map(|c| match c { Call::Ins(k, _) | Call::Add(k) => Call::Add(k.clone()) }).collect()
        } else if fe.starts_with("map") {
            calls.iter().map(|c| match c { Call::Ins(k, v) => Call::Ins(k.clone(), *v), Call::Add(k) => Call::Ins(k.clone(), 0) }).collect()
        } else {
            calls.clone()
        };
        let ref_ty = if fe.starts_with("set") || fe.starts_with("map") { 0 } else { ty };
        // (wrapper front ends always use the default geometry)
        let ref_geom = if fe.starts_with("set") || fe.starts_with("map") { None } else { geom };
        if let Some(want) = vec_build_geom(ref_ty, ref_geom, &ref_calls) {
            let held = &h.held[prefill.len()..];
            r.check(held == &want[..], || {
                format!("C07 C09 C15 C01 C11 sink holds {} want {} : {}", show_bytes(held), show_bytes(&want), line)
            });
            let opened = raw::Fst::new(held.to_vec());
            let ok = match &opened {
                Ok(f) => f.verify().is_ok(),
                Err(_) => false,
            };
            r.check(ok, || format!("C07/C08 C01 result does not open+verify: {}", line));
            // the FST the sink received becomes the current one: later get/stream/… lines
            // query an FST that was written through this sink
            if let Ok(f) = opened {
                let (_, accepted, _, ambiguous) = crate::run::contract(&ref_calls, false);
                r.expect = if ambiguous { None } else { Some(accepted) };
                r.cur = Some(f);
                r.cur_built = true;
            }
        }
    } else {
        r.check(fin_s == "io", || format!("C11 finish returned {} : {}", fin_s, line));
        r.check(h.faults_hit > 0 || flush.is_some(), || format!("C11 finish failed without a sink failure: {}", line));
        r.check(!benign, || format!("C07 finish failed on a benign sink: {}", line));
    }
    let _ = script_left;
    format!(
        "sink new=ok | {} | fin={} | {} | calls={}",
        res.join(","),
        fin_s,
        show_bytes(&h.held),
        h.calls
    )
}
