//! `sink` command: the builder over a scripted `io::Write` (C07, C11).
use std::cell::RefCell;
use std::collections::VecDeque;
use std::io;
use std::rc::Rc;

use fst::raw;

use crate::run::{parse_calls, parse_geom, show_err, Call, Runner};
use crate::util::*;

#[derive(Clone, Debug, PartialEq)]
pub enum Resp {
    Take(usize),
    Interrupted,
    Fail(u64),
}

pub fn parse_script(s: &str) -> Vec<Resp> {
    s.split(',')
        .filter(|t| !t.is_empty() && *t != "-")
        .map(|t| {
            if t == "I" {
                Resp::Interrupted
            } else if let Some(k) = t.strip_prefix('F') {
                Resp::Fail(k.parse().unwrap())
            } else if let Some(n) = t.strip_prefix('T') {
                Resp::Take(n.parse().unwrap())
            } else {
                panic!("bad resp {}", t)
            }
        })
        .collect()
}

pub struct Inner {
    pub held: Vec<u8>,
    pub script: VecDeque<Resp>,
    pub flush_fails: Option<u64>,
    pub calls: usize,
    pub flushed: bool,
    pub faults_hit: usize,
    pub len_at_flush: Option<usize>,
}

#[derive(Clone)]
pub struct ScriptedSink(pub Rc<RefCell<Inner>>);

fn kind_of(k: u64) -> io::ErrorKind {
    match k % 4 {
        0 => io::ErrorKind::Other,
        1 => io::ErrorKind::BrokenPipe,
        2 => io::ErrorKind::WouldBlock,
        _ => io::ErrorKind::PermissionDenied,
    }
}

impl io::Write for ScriptedSink {
    fn write(&mut self, buf: &[u8]) -> io::Result<usize> {
        let mut s = self.0.borrow_mut();
        s.calls += 1;
        match s.script.pop_front() {
            None => {
                s.held.extend_from_slice(buf);
                Ok(buf.len())
            }
            Some(Resp::Take(n)) => {
                if n == 0 {
                    s.faults_hit += 1;
                }
                let k = n.min(buf.len());
                s.held.extend_from_slice(&buf[..k]);
                Ok(k)
            }
            Some(Resp::Interrupted) => {
                Err(io::Error::new(io::ErrorKind::Interrupted, "scripted"))
            }
            Some(Resp::Fail(k)) => {
                s.faults_hit += 1;
                Err(io::Error::new(kind_of(k), "scripted"))
            }
        }
    }
    fn flush(&mut self) -> io::Result<()> {
        let mut s = self.0.borrow_mut();
        match s.flush_fails {
            Some(k) => Err(io::Error::new(kind_of(k), "scripted flush")),
            None => {
                s.flushed = true;
                s.len_at_flush = Some(s.held.len());
                Ok(())
            }
        }
    }
}

pub fn new_sink(prefill: &[u8], script: Vec<Resp>, flush: Option<u64>) -> ScriptedSink {
    ScriptedSink(Rc::new(RefCell::new(Inner {
        held: prefill.to_vec(),
        script: script.into(),
        flush_fails: flush,
        calls: 0,
        flushed: false,
        faults_hit: 0,
        len_at_flush: None,
    })))
}

#[cfg(feature = "hooks")]
fn mk_builder(
    sink: ScriptedSink,
    ty: u64,
    geom: Option<(usize, usize)>,
) -> Result<raw::Builder<ScriptedSink>, fst::Error> {
    match geom {
        Some((r, c)) => raw::Builder::verif_new_with_cache(sink, ty, r, c),
        None => raw::Builder::new_type(sink, ty),
    }
}
#[cfg(not(feature = "hooks"))]
fn mk_builder(
    sink: ScriptedSink,
    ty: u64,
    _geom: Option<(usize, usize)>,
) -> Result<raw::Builder<ScriptedSink>, fst::Error> {
    raw::Builder::new_type(sink, ty)
}

pub fn vec_build(ty: u64, calls: &[Call]) -> Option<Vec<u8>> {
    let mut b = raw::Builder::new_type(vec![], ty).ok()?;
    for c in calls {
        let _ = match c {
            Call::Ins(k, v) => b.insert(k, *v),
            Call::Add(k) => b.add(k),
        };
    }
    b.into_inner().ok()
}

pub fn cmd_sink(r: &mut Runner, t: &[&str]) -> String {
    // sink <ty> <geom> <script> <flush> <prefill> <ops>
    let ty: u64 = t[1].parse().unwrap();
    let geom = parse_geom(t[2]);
    let script = parse_script(t[3]);
    let flush: Option<u64> = if t[4] == "-" { None } else { Some(t[4].parse().unwrap()) };
    let prefill = unhex(t[5]);
    let calls = parse_calls(t.get(6).copied().unwrap_or(""));
    let benign = flush.is_none()
        && script.iter().all(|x| match x {
            Resp::Take(n) => *n >= 1,
            Resp::Interrupted => true,
            Resp::Fail(_) => false,
        });
    let sink = new_sink(&prefill, script.clone(), flush);
    let handle = sink.clone();
    let line = t.join(" ");
    let mut b = match mk_builder(sink, ty, geom) {
        Ok(b) => b,
        Err(e) => {
            let es = show_err(&e);
            r.check(es == "io" && !benign, || format!("C11/C07 Builder::new failed with {} (benign={}) on {}", es, benign, line));
            let h = handle.0.borrow();
            return format!("sink new={} | {} | calls={}", es, show_bytes(&h.held), h.calls);
        }
    };
    let mut res = vec![];
    let mut alive = true;
    for c in &calls {
        let rr = match c {
            Call::Ins(k, v) => b.insert(k, *v),
            Call::Add(k) => b.add(k),
        };
        let cnt = b.bytes_written();
        let accepted = (handle.0.borrow().held.len() - prefill.len()) as u64;
        let s = match &rr {
            Ok(()) => "ok".to_string(),
            Err(e) => show_err(e),
        };
        // C07: bytes_written() equals what the sink has accepted
        r.check(cnt == accepted, || format!("C07 bytes_written()={} but the sink accepted {} bytes: {}", cnt, accepted, line));
        if benign {
            r.check(s != "io", || format!("C07 io error on a benign sink: {}", line));
        }
        let hit = handle.0.borrow().faults_hit;
        r.check((hit > 0) == (s == "io"), || format!("C11 sink failed {} time(s) during the call but the call returned {}: {}", hit, s, line));
        res.push(format!("{}@{}", s, cnt));
        if s == "io" {
            alive = false;
            break;
        }
    }
    if !alive {
        let h = handle.0.borrow();
        return format!(
            "sink new=ok | {} | fin=skipped | {} | calls={}",
            res.join(","),
            show_bytes(&h.held),
            h.calls
        );
    }
    let fin = b.into_inner();
    let fin_s = match &fin {
        Ok(_) => "ok".to_string(),
        Err(e) => show_err(e),
    };
    let h = handle.0.borrow();
    let script_left = h.script.iter().any(|x| matches!(x, Resp::Fail(_) | Resp::Take(0)));
    if fin_s == "ok" {
        // C11: success only if everything was accepted and flushed
        r.check(h.flushed, || format!("C11 finish ok without a successful flush: {}", line));
        r.check(h.faults_hit == 0, || format!("C11 finish ok although the sink failed: {}", line));
        // C07/C11: everything the sink holds was handed over before the final flush
        r.check(h.len_at_flush == Some(h.held.len()), || format!("C07 C11 {} byte(s) reached the sink after the last flush: {}", h.held.len() - h.len_at_flush.unwrap_or(0), line));
        if let Some(want) = vec_build(ty, &calls) {
            let held = &h.held[prefill.len()..];
            r.check(held == &want[..], || {
                format!("C07 C09 C15 sink holds {} want {} : {}", show_bytes(held), show_bytes(&want), line)
            });
            let opened = raw::Fst::new(held.to_vec());
            let ok = match opened {
                Ok(f) => f.verify().is_ok(),
                Err(_) => false,
            };
            r.check(ok, || format!("C07/C08 result does not open+verify: {}", line));
        }
    } else {
        r.check(fin_s == "io", || format!("C11 finish returned {} : {}", fin_s, line));
        r.check(h.faults_hit > 0 || flush.is_some(), || format!("C11 finish failed without a sink failure: {}", line));
        r.check(!benign, || format!("C07 finish failed on a benign sink: {}", line));
    }
    let _ = script_left;
    format!(
        "sink new=ok | {} | fin={} | {} | calls={}",
        res.join(","),
        fin_s,
        show_bytes(&h.held),
        h.calls
    )
}
