//! Case generators, one per property. Everything random comes from one
//! SplitMix64 stream seeded by VERIF_SEED.
use crate::run::{show_calls, Call, Kv};
use crate::util::*;

pub struct G {
    pub rng: Rng,
    pub thorough: bool,
    pub lines: Vec<String>,
}

impl G {
    pub fn emit(&mut self, s: String) {
        self.lines.push(s);
    }
}

/// all strings over `alpha` of length ≤ n, in lexicographic order
pub fn universe(alpha: &[u8], n: usize) -> Vec<Vec<u8>> {
    let mut out = vec![vec![]];
    let mut layer = vec![vec![]];
    for _ in 0..n {
        let mut next = vec![];
        for w in &layer {
            for &a in alpha {
                let mut x: Vec<u8> = w.clone();
                x.push(a);
                next.push(x);
            }
        }
        out.extend(next.iter().cloned());
        layer = next;
    }
    out.sort();
    out
}

pub fn subset(u: &[Vec<u8>], mask: u64) -> Vec<Vec<u8>> {
    u.iter().enumerate().filter(|(i, _)| mask >> i & 1 == 1).map(|(_, k)| k.clone()).collect()
}

pub const VALUE_PATTERNS: usize = 8;

/// value assignment patterns of the design (§3)
pub fn values(keys: &[Vec<u8>], pat: usize, rng: &mut Rng) -> Kv {
    let n = keys.len();
    keys.iter()
        .enumerate()
        .map(|(i, k)| {
            let v: u64 = match pat {
                0 => 0,
                1 => i as u64,
                2 => (n - i) as u64,
                3 => 7,
                4 => {
                    let j = (i % 8 + 1) as u32;
                    if j == 8 { u64::MAX } else { (1u64 << (8 * j)) - 1 }
                }
                5 => {
                    let j = (i % 8) as u32;
                    1u64 << (8 * j)
                }
                6 => {
                    if i == n / 2 { u64::MAX } else { i as u64 * 1000 }
                }
                _ => {
                    let sh = rng.below(64) as u32;
                    rng.next() >> sh
                }
            };
            (k.clone(), v)
        })
        .collect()
}

pub fn ins_calls(kv: &Kv) -> Vec<Call> {
    kv.iter().map(|(k, v)| Call::Ins(k.clone(), *v)).collect()
}
pub fn add_calls(keys: &[Vec<u8>]) -> Vec<Call> {
    keys.iter().map(|k| Call::Add(k.clone())).collect()
}
/// set-builder calls with repeated keys (a repeat is a no-op): the empty key and every third key twice
pub fn add_calls_rep(keys: &[Vec<u8>]) -> Vec<Call> {
    let mut v = vec![];
    for (i, k) in keys.iter().enumerate() {
        v.push(Call::Add(k.clone()));
        if k.is_empty() || i % 3 == 1 {
            v.push(Call::Add(k.clone()));
        }
    }
    v
}

pub fn build_line(fe: &str, ty: u64, geom: &str, mode: &str, calls: &[Call]) -> String {
    format!("build {} {} {} {} {}", fe, ty, geom, mode, show_calls(calls))
}

pub const GEOMS: [&str; 7] = ["0x0", "1x1", "1x2", "2x2", "3x3", "7x2", "10000x2"];

/// prefix-heavy / suffix-heavy random words over a small alphabet
pub fn random_words(rng: &mut Rng, n: usize, alpha: &[u8], maxlen: usize) -> Vec<Vec<u8>> {
    let stems: Vec<Vec<u8>> = (0..(n / 4).max(2))
        .map(|_| {
            let l = 1 + rng.below(maxlen as u64 / 2 + 1) as usize;
            (0..l).map(|_| *rng.pick(alpha)).collect()
        })
        .collect();
    let mut out: Vec<Vec<u8>> = (0..n)
        .map(|_| {
            let mut w = if rng.chance(2, 3) { rng.pick(&stems[..]).clone() } else { vec![] };
            let l = rng.below(maxlen as u64 / 2 + 1) as usize;
            for _ in 0..l {
                w.push(*rng.pick(alpha));
            }
            if rng.chance(1, 3) {
                let st = rng.pick(&stems[..]).clone();
                w.extend_from_slice(&st);
            }
            w
        })
        .collect();
    out.sort();
    out.dedup();
    out
}

/// one node with `n` children (bytes chosen common / uncommon), optionally
/// final, with or without outputs, at the root or one level down
pub fn fanout_keys(n: usize, common: bool, deep: bool, with_final: bool) -> Vec<Vec<u8>> {
    let order: Vec<u8> = if common {
        // most common inputs first: letters, digits...
        let mut v: Vec<u8> = b"teoasripcnw.hlm-du012g=:bf3y5&_4v96 78k%?xCDASFIBEjPTzRNM+LOqHGWUV,YKJZX".to_vec();
        for b in 0..=255u8 {
            if !v.contains(&b) {
                v.push(b);
            }
        }
        v
    } else {
        (0..=255u8).rev().collect()
    };
    let mut bytes: Vec<u8> = order[..n].to_vec();
    bytes.sort();
    let mut keys = vec![];
    let pre: Vec<u8> = if deep { vec![b'p'] } else { vec![] };
    if with_final {
        keys.push(pre.clone());
    }
    for b in bytes {
        let mut k = pre.clone();
        k.push(b);
        keys.push(k);
    }
    keys.sort();
    keys
}

pub const FANOUTS: [usize; 11] = [0, 1, 2, 31, 32, 33, 63, 64, 65, 255, 256];

/// the shared key-set generator: a list of (label, keys)
pub fn key_sets(g: &mut G) -> Vec<(String, Vec<Vec<u8>>)> {
    let mut sets = vec![];
    // exhaustive small scope: every subset of strings of length ≤2 over {a,b}
    let u = universe(b"ab", if g.thorough { 3 } else { 2 });
    let nsub: u64 = 1 << u.len();
    let step = if g.thorough { 7 } else { 1 }; // thorough: 2^15 sampled by stride
    let mut m = 0;
    while m < nsub {
        sets.push((format!("ab{}", m), subset(&u, m)));
        m += step;
    }
    // {00, 61, ff}
    let u2 = universe(&[0x00, 0x61, 0xff], 2);
    let n2: u64 = 1 << u2.len();
    let cnt = if g.thorough { 400 } else { 60 };
    for _ in 0..cnt {
        let m = g.rng.below(n2);
        sets.push((format!("x{}", m), subset(&u2, m)));
    }
    // long keys: around the sizes of internal buffers and counters (64, 128, 256, 4096), pairs that
    // differ early / late, proper prefixes, and long shared suffixes under distinct heads
    {
        let body = |l: usize, salt: usize| -> Vec<u8> { (0..l).map(|i| b'a' + ((i * 7 + i / 13 + salt) % 5) as u8).collect() };
        let mut k129: Vec<Vec<u8>> = vec![];
        for l in [63usize, 64, 65, 127, 128, 129, 130, 200, 255, 256, 257, 300] {
            let mut k = body(l, 0);
            k129.push(k.clone());
            // differs at byte 10, at byte 100 (if long enough) and in the last byte
            let mut k2 = k.clone();
            k2[10] = b'z';
            k129.push(k2);
            if l > 100 {
                let mut k3 = k.clone();
                k3[100] = b'y';
                k129.push(k3);
            }
            let m = k.len() - 1;
            k[m] = b'z';
            k129.push(k);
        }
        k129.sort();
        k129.dedup();
        sets.push(("long129".to_string(), k129));
        let mut k4k: Vec<Vec<u8>> = vec![];
        let base = body(5000, 1);
        for l in [4095usize, 4096, 4097, 4098, 5000] {
            k4k.push(base[..l].to_vec());
            let mut k = base[..l].to_vec();
            k.push(b'!');
            k4k.push(k);
        }
        let mut other = body(4200, 2);
        other[0] = b'b';
        k4k.push(other.clone());
        other[4150] = b'q';
        k4k.push(other);
        k4k.sort();
        k4k.dedup();
        sets.push(("long4097".to_string(), k4k));
        // suffix sharing over 60..200 bytes
        let mut suf: Vec<Vec<u8>> = vec![];
        for (h, l) in [(b"ba", 60usize), (b"bb", 64), (b"bc", 65), (b"bd", 66), (b"be", 100), (b"bf", 200)] {
            for head in [b'a', b'c', b'e'] {
                let mut k = vec![head];
                k.extend_from_slice(&h[..]);
                k.extend(body(l, 3));
                suf.push(k);
            }
        }
        suf.sort();
        suf.dedup();
        sets.push(("sufshare".to_string(), suf));
    }
    // fan-out ladder
    for &n in &FANOUTS {
        for &common in &[true, false] {
            for &deep in &[false, true] {
                for &fin in &[false, true] {
                    if n == 0 && !fin {
                        continue;
                    }
                    sets.push((format!("fan{}{}{}{}", n, common as u8, deep as u8, fin as u8), fanout_keys(n, common, deep, fin)));
                }
            }
        }
    }
    // the same wide node recurring under several prefixes, after a small subtree
    // (cache cells already occupied when the wide node is first compiled)
    for &n in &[33usize, 40, 256] {
        let mut keys: Vec<Vec<u8>> = vec![b"!x".to_vec(), b"!yz".to_vec()];
        let bytes = fanout_keys(n, false, false, false);
        for p in [b'a', b'b', b'c'] {
            for b in &bytes {
                keys.push(vec![p, b[0]]);
            }
        }
        keys.sort();
        sets.push((format!("widerec{}", n), keys));
    }
    // every byte value as the input of a single-transition node (common-input table, both
    // directions): keys [i, i] for all i, and chains through the bytes around the 6-bit cut-off
    sets.push(("allbytes".to_string(), (0..=255u8).map(|i| vec![i, i]).collect()));
    sets.push(("cutoff".to_string(), {
        let mut v: Vec<Vec<u8>> = vec![b"GW".to_vec(), b"GWUV".to_vec(), b"HG".to_vec(), b"WG".to_vec(), b"qHGWUV,YKJZX".to_vec()];
        v.sort();
        v
    }));
    // dense tries: more keys than bytes (suffix sharing)
    sets.push(("dense-bin8".to_string(), universe(b"ab", 8)));
    {
        let mut dec: Vec<Vec<u8>> = (0..1000).map(|i| format!("{:03}", i).into_bytes()).collect();
        dec.sort();
        sets.push(("dense-dec3".to_string(), dec));
    }
    if g.thorough {
        let mut all2: Vec<Vec<u8>> = vec![];
        for a in 0..=255u8 {
            for b in 0..=255u8 {
                all2.push(vec![a, b]);
            }
        }
        sets.push(("dense-all2".to_string(), all2));
    }
    // a long node, a short node, then a node equal to short ++ tail(long), compiled back to
    // back (siblings under the root): a cache cell refilled in place must not keep a stale tail
    for alpha in [[b'a', b'b', b'c'], [0x00, 0x61, 0xff]] {
        let mut keys: Vec<Vec<u8>> = vec![];
        for &x in &alpha {
            keys.push(vec![alpha[0], x]);
        }
        keys.push(vec![alpha[1], alpha[0]]);
        for &x in &alpha {
            keys.push(vec![alpha[2], x]);
        }
        keys.sort();
        sets.push((format!("stale{}", alpha[1]), keys));
    }
    // random structured
    let nrand = if g.thorough { 60 } else { 12 };
    for i in 0..nrand {
        let n = [5usize, 20, 80, 300][i % 4];
        let alpha: &[u8] = if i % 3 == 0 { b"abc" } else if i % 3 == 1 { b"etaoin/.-" } else { &[0, 1, 0x7f, 0x80, 0xfe, 0xff] };
        let mut rng = Rng::new(g.rng.next());
        sets.push((format!("rnd{}", i), random_words(&mut rng, n, alpha, 10)));
    }
    sets
}

pub fn generate(prop: &str, tier: &str, seed: u64) {
    let mut g = G { rng: Rng::new(seed), thorough: tier == "thorough", lines: vec![] };
    g.emit(format!("utf8full {}", crate::misc::utf8_full()));
    match prop {
        "C01" => crate::gen_a::c01(&mut g),
        "C02" => crate::gen_a::c02(&mut g),
        "C03" => crate::gen_a::c03(&mut g),
        "C04" => crate::gen_a::c04(&mut g),
        "C05" => crate::gen_b::c05(&mut g),
        "C06" => crate::gen_b::c06(&mut g),
        "C07" => crate::gen_b::c07(&mut g),
        "C08" => crate::gen_b::c08(&mut g),
        "C09" => crate::gen_c::c09(&mut g),
        "C10" => crate::gen_c::c10(&mut g),
        "C11" => crate::gen_b::c11(&mut g),
        "C12" => crate::gen_c::c12(&mut g),
        "C13" => crate::gen_c::c13(&mut g),
        "C14" => crate::gen_c::c14(&mut g),
        "C15" => crate::gen_c::c15(&mut g),
        "C16" => crate::gen_c::c16(&mut g),
        "C17" => crate::gen_d::c17(&mut g),
        "C18" => crate::gen_d::c18(&mut g),
        "C19" => crate::gen_d::c19(&mut g),
        "C20" => crate::gen_d::c20(&mut g),
        _ => panic!("unknown property {}", prop),
    }
    use std::io::Write;
    let stdout = std::io::stdout();
    let mut out = std::io::BufWriter::new(stdout.lock());
    for l in &g.lines {
        writeln!(out, "{}", l).unwrap();
    }
}

/// writes a few FSTs + their content listing into `dir` (committed as golden files)
pub fn golden(dir: &str) {
    std::fs::create_dir_all(dir).unwrap();
    let mut rng = Rng::new(20260927);
    let mut sets: Vec<(&str, Vec<Vec<u8>>, usize)> = vec![
        ("empty", vec![], 0),
        ("emptykey", vec![vec![]], 6),
        ("words", random_words(&mut Rng::new(7), 300, b"etaoin shrdlu/.-", 9), 1),
        ("fan256", fanout_keys(256, false, true, true), 4),
        ("fan33", fanout_keys(33, true, false, false), 5),
        ("bin8", universe(b"ab", 8), 2),
        ("months", vec![b"apr".to_vec(), b"aug".to_vec(), b"dec".to_vec(), b"feb".to_vec(), b"jan".to_vec(), b"jul".to_vec(), b"jun".to_vec(), b"mar".to_vec(), b"may".to_vec(), b"nov".to_vec(), b"oct".to_vec(), b"sep".to_vec()], 7),
    ];
    for (name, keys, pat) in sets.drain(..) {
        let kv = values(&keys, pat, &mut rng);
        let bytes = crate::sink::vec_build(0, &ins_calls(&kv)).unwrap();
        std::fs::write(format!("{}/{}.fst", dir, name), &bytes).unwrap();
        let listing: Vec<String> = kv.iter().map(|(k, v)| format!("{}:{}", hex(k), v)).collect();
        std::fs::write(format!("{}/{}.kv", dir, name), listing.join(",")).unwrap();
    }
}
