//! Automaton specs of the line protocol: parsing, construction of the REAL
//! generic automata behind a type-erased wrapper, and an independent oracle
//! for their languages.
use fst::automaton::{
    AlwaysMatch, Automaton, Levenshtein, Str, Subsequence,
};
use std::any::Any;
use std::rc::Rc;

use crate::util::unhex;

#[derive(Clone, Debug)]
pub struct Table {
    pub nstates: usize,
    pub start: usize,
    pub classes: Vec<u8>,
    pub delta: Vec<Vec<usize>>,
    pub matching: Vec<bool>,
    pub can: Vec<bool>,
    pub will: Vec<bool>,
}

impl Table {
    pub fn cls(&self, b: u8) -> usize {
        match self.classes.iter().position(|&c| c == b) {
            Some(i) => i + 1,
            None => 0,
        }
    }
    pub fn spec(&self) -> String {
        let cls: Vec<String> =
            self.classes.iter().map(|c| format!("{:02x}", c)).collect();
        let delta: String = self
            .delta
            .iter()
            .flat_map(|r| r.iter().map(|d| char::from(b'0' + *d as u8)))
            .collect();
        let bits = |v: &Vec<bool>| -> String {
            v.iter().map(|&b| if b { '1' } else { '0' }).collect()
        };
        format!(
            "dfa:{}:{}:{}:{}:{}:{}:{}",
            self.nstates,
            self.start,
            cls.join("."),
            delta,
            bits(&self.matching),
            bits(&self.can),
            bits(&self.will)
        )
    }
}

impl Automaton for Table {
    type State = usize;
    fn start(&self) -> usize {
        self.start
    }
    fn is_match(&self, s: &usize) -> bool {
        self.matching[*s]
    }
    fn can_match(&self, s: &usize) -> bool {
        self.can[*s]
    }
    fn will_always_match(&self, s: &usize) -> bool {
        self.will[*s]
    }
    fn accept(&self, s: &usize, b: u8) -> usize {
        self.delta[*s][self.cls(b)]
    }
}

/// the same transition table as a user automaton that implements ONLY what the trait requires
/// (`start`, `is_match`, `accept`) and relies on the trait's defaults for `can_match`,
/// `will_always_match` and `accept_eof`
#[derive(Clone, Debug)]
pub struct TableDefaults(pub Table);

impl Automaton for TableDefaults {
    type State = usize;
    fn start(&self) -> usize {
        self.0.start
    }
    fn is_match(&self, s: &usize) -> bool {
        self.0.matching[*s]
    }
    fn accept(&self, s: &usize, b: u8) -> usize {
        self.0.delta[*s][self.0.cls(b)]
    }
}

/// a table automaton that also overrides `accept_eof`: `eof[s] = Some(e)` means that at the end
/// of a key in state `s` the match decision is taken in state `e` (`StreamWithState::next_with`
/// consults the hook only for non-empty keys ending in a final node)
#[derive(Clone, Debug)]
pub struct TableEof(pub Table, pub Vec<Option<usize>>);

impl Automaton for TableEof {
    type State = usize;
    fn start(&self) -> usize {
        self.0.start
    }
    fn is_match(&self, s: &usize) -> bool {
        self.0.matching[*s]
    }
    fn can_match(&self, s: &usize) -> bool {
        self.0.can[*s]
    }
    fn will_always_match(&self, s: &usize) -> bool {
        self.0.will[*s]
    }
    fn accept(&self, s: &usize, b: u8) -> usize {
        self.0.delta[*s][self.0.cls(b)]
    }
    fn accept_eof(&self, s: &usize) -> Option<usize> {
        self.1[*s]
    }
}

pub fn eof_spec(t: &Table, eof: &[Option<usize>]) -> String {
    let e: String = eof
        .iter()
        .map(|o| match o {
            Some(d) => char::from(b'0' + *d as u8),
            None => '-',
        })
        .collect();
    format!("{}:{}", t.spec().replacen("dfa:", "dfe:", 1), e)
}

#[derive(Clone, Debug)]
pub enum AutSpec {
    /// `dfd:…`: a table automaton without hint methods (trait defaults)
    DfaD(Table),
    /// `dfe:…:<eof>`: a table automaton with an `accept_eof` hook (only meaningful at top level:
    /// the crate's combinators do not forward the hook)
    DfaE(Table, Vec<Option<usize>>),
    Always,
    Str(Vec<u8>),
    Subseq(Vec<u8>),
    Dfa(Table),
    Lev(String, u32),
    Sw(Box<AutSpec>),
    Co(Box<AutSpec>),
    Un(Box<AutSpec>, Box<AutSpec>),
    In(Box<AutSpec>, Box<AutSpec>),
}

fn split_top(s: &str) -> Option<(&str, &str)> {
    let mut depth = 0i32;
    for (i, c) in s.char_indices() {
        match c {
            '(' => depth += 1,
            ')' => depth -= 1,
            ',' if depth == 0 => return Some((&s[..i], &s[i + 1..])),
            _ => {}
        }
    }
    None
}

pub fn parse(s: &str) -> Option<AutSpec> {
    if s == "always" {
        return Some(AutSpec::Always);
    }
    if let Some(r) = s.strip_prefix("str:") {
        return Some(AutSpec::Str(unhex(r)));
    }
    if let Some(r) = s.strip_prefix("subseq:") {
        return Some(AutSpec::Subseq(unhex(r)));
    }
    if let Some(r) = s.strip_prefix("lev:") {
        let mut it = r.split(':');
        let q = String::from_utf8(unhex(it.next()?)).ok()?;
        let d: u32 = it.next()?.parse().ok()?;
        return Some(AutSpec::Lev(q, d));
    }
    let defaults = s.starts_with("dfd:");
    let with_eof = s.starts_with("dfe:");
    if let Some(r) = s
        .strip_prefix("dfa:")
        .or_else(|| s.strip_prefix("dfd:"))
        .or_else(|| s.strip_prefix("dfe:"))
    {
        let p: Vec<&str> = r.split(':').collect();
        if p.len() != if with_eof { 8 } else { 7 } {
            return None;
        }
        let n: usize = p[0].parse().ok()?;
        let start: usize = p[1].parse().ok()?;
        let classes: Vec<u8> = if p[2].is_empty() {
            vec![]
        } else {
            p[2].split('.').map(|h| unhex(h)[0]).collect()
        };
        let k = classes.len() + 1;
        let ds: Vec<usize> =
            p[3].bytes().map(|c| (c - b'0') as usize).collect();
        let delta: Vec<Vec<usize>> =
            (0..n).map(|i| ds[i * k..(i + 1) * k].to_vec()).collect();
        let bits = |s: &str| -> Vec<bool> {
            s.bytes().map(|c| c == b'1').collect()
        };
        let t = Table {
            nstates: n,
            start,
            classes,
            delta,
            matching: bits(p[4]),
            can: bits(p[5]),
            will: bits(p[6]),
        };
        if with_eof {
            let eof: Vec<Option<usize>> = p[7]
                .bytes()
                .map(|c| if c == b'-' { None } else { Some((c - b'0') as usize) })
                .collect();
            if eof.len() != n || eof.iter().any(|e| e.map_or(false, |d| d >= n)) {
                return None;
            }
            return Some(AutSpec::DfaE(t, eof));
        }
        return Some(if defaults { AutSpec::DfaD(t) } else { AutSpec::Dfa(t) });
    }
    let inner = |pre: &str| -> Option<&str> {
        if s.starts_with(pre) && s.ends_with(')') {
            Some(&s[pre.len()..s.len() - 1])
        } else {
            None
        }
    };
    if let Some(a) = inner("sw(") {
        return Some(AutSpec::Sw(Box::new(parse(a)?)));
    }
    if let Some(a) = inner("co(") {
        return Some(AutSpec::Co(Box::new(parse(a)?)));
    }
    if let Some(ab) = inner("un(") {
        let (a, b) = split_top(ab)?;
        return Some(AutSpec::Un(Box::new(parse(a)?), Box::new(parse(b)?)));
    }
    if let Some(ab) = inner("in(") {
        let (a, b) = split_top(ab)?;
        return Some(AutSpec::In(Box::new(parse(a)?), Box::new(parse(b)?)));
    }
    None
}

impl AutSpec {
    pub fn show(&self) -> String {
        match self {
            AutSpec::Always => "always".into(),
            AutSpec::Str(s) => format!("str:{}", crate::util::hex(s)),
            AutSpec::Subseq(s) => format!("subseq:{}", crate::util::hex(s)),
            AutSpec::Dfa(t) => t.spec(),
            AutSpec::DfaD(t) => t.spec().replacen("dfa:", "dfd:", 1),
            AutSpec::DfaE(t, e) => eof_spec(t, e),
            AutSpec::Lev(q, d) => {
                format!("lev:{}:{}", crate::util::hex(q.as_bytes()), d)
            }
            AutSpec::Sw(a) => format!("sw({})", a.show()),
            AutSpec::Co(a) => format!("co({})", a.show()),
            AutSpec::Un(a, b) => format!("un({},{})", a.show(), b.show()),
            AutSpec::In(a, b) => format!("in({},{})", a.show(), b.show()),
        }
    }
    pub fn is_leaf(&self) -> bool {
        matches!(
            self,
            AutSpec::Always
                | AutSpec::Str(_)
                | AutSpec::Subseq(_)
                | AutSpec::Dfa(_)
                | AutSpec::DfaD(_)
                | AutSpec::DfaE(_, _)
                | AutSpec::Lev(_, _)
        )
    }
}

/* ---------- type erasure over the real generic automata ---------- */

pub type St = Rc<dyn Any>;

pub trait Erased {
    fn start(&self) -> St;
    fn is_match(&self, s: &St) -> bool;
    fn can_match(&self, s: &St) -> bool;
    fn will_always_match(&self, s: &St) -> bool;
    fn accept(&self, s: &St, b: u8) -> St;
    fn accept_eof(&self, s: &St) -> Option<St>;
    fn show(&self, s: &St) -> String;
}

struct Erase<A, F>(A, F);

impl<A: Automaton, F: Fn(&A::State) -> String> Erased for Erase<A, F>
where
    A::State: 'static,
{
    fn start(&self) -> St {
        Rc::new(self.0.start())
    }
    fn is_match(&self, s: &St) -> bool {
        self.0.is_match(s.downcast_ref::<A::State>().unwrap())
    }
    fn can_match(&self, s: &St) -> bool {
        self.0.can_match(s.downcast_ref::<A::State>().unwrap())
    }
    fn will_always_match(&self, s: &St) -> bool {
        self.0.will_always_match(s.downcast_ref::<A::State>().unwrap())
    }
    fn accept(&self, s: &St, b: u8) -> St {
        Rc::new(self.0.accept(s.downcast_ref::<A::State>().unwrap(), b))
    }
    fn accept_eof(&self, s: &St) -> Option<St> {
        self.0.accept_eof(s.downcast_ref::<A::State>().unwrap()).map(|e| Rc::new(e) as St)
    }
    fn show(&self, s: &St) -> String {
        (self.1)(s.downcast_ref::<A::State>().unwrap())
    }
}

pub struct BoxAut(pub Box<dyn Erased>);

impl Automaton for BoxAut {
    type State = St;
    fn start(&self) -> St {
        self.0.start()
    }
    fn is_match(&self, s: &St) -> bool {
        self.0.is_match(s)
    }
    fn can_match(&self, s: &St) -> bool {
        self.0.can_match(s)
    }
    fn will_always_match(&self, s: &St) -> bool {
        self.0.will_always_match(s)
    }
    fn accept(&self, s: &St, b: u8) -> St {
        self.0.accept(s, b)
    }
    fn accept_eof(&self, s: &St) -> Option<St> {
        self.0.accept_eof(s)
    }
}

fn show_on(s: &Option<usize>) -> String {
    match s {
        Some(n) => n.to_string(),
        None => "N".into(),
    }
}

fn leak_str(bs: &[u8]) -> Option<&'static str> {
    let s = String::from_utf8(bs.to_vec()).ok()?;
    Some(Box::leak(s.into_boxed_str()))
}

/// Build the real automaton. `None` if the spec cannot be built (non-UTF-8
/// pattern for `Str`/`Subsequence`, Levenshtein over the state limit).
pub fn build(spec: &AutSpec) -> Option<BoxAut> {
    Some(match spec {
        AutSpec::Always => {
            BoxAut(Box::new(Erase(AlwaysMatch, |_: &()| "u".to_string())))
        }
        AutSpec::Str(s) => BoxAut(Box::new(Erase(
            Str::new(leak_str(s)?),
            |s: &Option<usize>| show_on(s),
        ))),
        AutSpec::Subseq(s) => BoxAut(Box::new(Erase(
            Subsequence::new(leak_str(s)?),
            |s: &usize| s.to_string(),
        ))),
        AutSpec::Dfa(t) => {
            BoxAut(Box::new(Erase(t.clone(), |s: &usize| s.to_string())))
        }
        AutSpec::DfaD(t) => BoxAut(Box::new(Erase(TableDefaults(t.clone()), |s: &usize| s.to_string()))),
        AutSpec::DfaE(t, e) => {
            // half of them BORROWED: `impl Automaton for &T` must forward the hook too
            if by_ref(spec) {
                let r: &'static TableEof = Box::leak(Box::new(TableEof(t.clone(), e.clone())));
                BoxAut(Box::new(Erase(r, |s: &usize| s.to_string())))
            } else {
                BoxAut(Box::new(Erase(TableEof(t.clone(), e.clone()), |s: &usize| s.to_string())))
            }
        }
        AutSpec::Lev(q, d) => BoxAut(Box::new(Erase(
            Levenshtein::new(q, *d).ok()?,
            |s: &Option<usize>| show_on(s),
        ))),
        AutSpec::Sw(a) => {
            let inner = build(a)?;
            if by_ref(spec) {
                let r: &'static BoxAut = Box::leak(Box::new(inner));
                BoxAut(Box::new(Erase(r.starts_with(), |_: &_| "?".to_string())))
            } else {
                BoxAut(Box::new(Erase(inner.starts_with(), |_: &_| "?".to_string())))
            }
        }
        AutSpec::Co(a) => {
            let inner = build(a)?;
            if by_ref(spec) {
                let r: &'static BoxAut = Box::leak(Box::new(inner));
                BoxAut(Box::new(Erase(r.complement(), |_: &_| "?".to_string())))
            } else {
                BoxAut(Box::new(Erase(inner.complement(), |_: &_| "?".to_string())))
            }
        }
        AutSpec::Un(a, b) => {
            let (x, y) = (build(a)?, build(b)?);
            if by_ref(spec) {
                let rx: &'static BoxAut = Box::leak(Box::new(x));
                let ry: &'static BoxAut = Box::leak(Box::new(y));
                BoxAut(Box::new(Erase(rx.union(ry), |_: &_| "?".to_string())))
            } else {
                BoxAut(Box::new(Erase(x.union(y), |_: &_| "?".to_string())))
            }
        }
        AutSpec::In(a, b) => {
            let (x, y) = (build(a)?, build(b)?);
            if by_ref(spec) {
                let rx: &'static BoxAut = Box::leak(Box::new(x));
                let ry: &'static BoxAut = Box::leak(Box::new(y));
                BoxAut(Box::new(Erase(rx.intersection(ry), |_: &_| "?".to_string())))
            } else {
                BoxAut(Box::new(Erase(x.intersection(y), |_: &_| "?".to_string())))
            }
        }
    })
}

/// half of the composed specs are built over BORROWED components (`&A: Automaton`)
fn by_ref(spec: &AutSpec) -> bool {
    crate::util::fnv64(spec.show().as_bytes()) % 2 == 0
}

pub fn show_state(a: &BoxAut, s: &St) -> String {
    a.0.show(s)
}

/* ---------- independent oracle: the language of a spec ---------- */

fn is_subseq(pat: &[u8], w: &[u8]) -> bool {
    let mut i = 0;
    for &b in w {
        if i < pat.len() && pat[i] == b {
            i += 1;
        }
    }
    i == pat.len()
}

/// Edit distance over Unicode scalar values (full matrix, no cap).
pub fn edit_distance(a: &[char], b: &[char]) -> usize {
    let mut prev: Vec<usize> = (0..=b.len()).collect();
    for i in 1..=a.len() {
        let mut cur = vec![i; b.len() + 1];
        for j in 1..=b.len() {
            let sub = prev[j - 1] + if a[i - 1] == b[j - 1] { 0 } else { 1 };
            cur[j] = sub.min(prev[j] + 1).min(cur[j - 1] + 1);
        }
        prev = cur;
    }
    prev[b.len()]
}

/// Does the language of `spec` contain `w`? `None`: undefined (Levenshtein on
/// a key that is not valid UTF-8).
pub fn lang(spec: &AutSpec, w: &[u8]) -> Option<bool> {
    Some(match spec {
        AutSpec::Always => true,
        AutSpec::Str(s) => &s[..] == w,
        AutSpec::Subseq(s) => is_subseq(s, w),
        AutSpec::Dfa(t) | AutSpec::DfaD(t) | AutSpec::DfaE(t, _) => {
            let mut s = t.start;
            for &b in w {
                s = t.delta[s][t.cls(b)];
            }
            t.matching[s]
        }
        AutSpec::Lev(q, d) => {
            let k = std::str::from_utf8(w).ok()?;
            let qa: Vec<char> = q.chars().collect();
            let ka: Vec<char> = k.chars().collect();
            edit_distance(&qa, &ka) <= *d as usize
        }
        AutSpec::Sw(a) => {
            let mut any = false;
            for i in 0..=w.len() {
                if lang(a, &w[..i])? {
                    any = true;
                    break;
                }
            }
            any
        }
        AutSpec::Co(a) => !lang(a, w)?,
        AutSpec::Un(a, b) => lang(a, w)? || lang(b, w)?,
        AutSpec::In(a, b) => lang(a, w)? && lang(b, w)?,
    })
}

/// Are the hints of a table DFA sound (`can` false only if no match is
/// reachable, `will` true only if every reachable state matches)?
/// Which keys a stream over `spec` must let through. Equal to `lang` except for a top-level
/// automaton with an `accept_eof` hook: for a NON-EMPTY key the decision is taken in the hook's
/// state when the hook fires (the empty key never consults it).
pub fn lang_stream(spec: &AutSpec, w: &[u8]) -> Option<bool> {
    if let AutSpec::DfaE(t, eof) = spec {
        let mut s = t.start;
        for &b in w {
            s = t.delta[s][t.cls(b)];
        }
        if !w.is_empty() {
            if let Some(e) = eof[s] {
                return Some(t.matching[e]);
            }
        }
        return Some(t.matching[s]);
    }
    lang(spec, w)
}

pub fn sound_hint_sets(t: &Table) -> (Vec<bool>, Vec<bool>) {
    // can_reach[s]: a matching state is reachable from s (incl. s itself)
    let n = t.nstates;
    let mut can_reach = t.matching.clone();
    let mut all_match = t.matching.clone();
    loop {
        let mut changed = false;
        for s in 0..n {
            for c in 0..t.classes.len() + 1 {
                let d = t.delta[s][c];
                if can_reach[d] && !can_reach[s] {
                    can_reach[s] = true;
                    changed = true;
                }
                if !all_match[d] && all_match[s] {
                    all_match[s] = false;
                    changed = true;
                }
            }
        }
        if !changed {
            break;
        }
    }
    (can_reach, all_match)
}
