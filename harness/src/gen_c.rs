//! Generators for C09, C10, C12–C16.
use crate::gen::*;
use crate::refenc;
use crate::run::{run_frontend, show_calls, Call, Kv};
use crate::util::*;

fn kvs_str(kv: &Kv) -> String {
    kv.iter().map(|(k, v)| format!("{}:{}", hex(k), v)).collect::<Vec<_>>().join(",")
}

fn node_line(version: u64, last: usize, addr: usize, fin: bool, fout: u64, trans: &[(u8, u64, usize)]) -> String {
    format!(
        "node {} {} {} {} {} {}",
        version,
        last,
        addr,
        fin as u8,
        fout,
        trans.iter().map(|t| format!("{}:{}:{}", t.0, t.1, t.2)).collect::<Vec<_>>().join(",")
    )
}

pub fn node_cases(g: &mut G) {
    // fan-out ladder × final × outputs × delta widths, for the three readers
    let addrs: Vec<usize> = if g.thorough { vec![16, 300, 70_000, 17_000_000] } else { vec![16, 300, 70_000] };
    for &n in &FANOUTS {
        for &fin in &[false, true] {
            for outs in 0..3 {
                for &addr in &addrs {
                    for &common in &[true, false] {
                        let keys = fanout_keys(n, common, false, false);
                        let trans: Vec<(u8, u64, usize)> = keys
                            .iter()
                            .enumerate()
                            .map(|(i, k)| {
                                let o = match outs {
                                    0 => 0,
                                    1 => (i as u64 + 1) * 3,
                                    _ => if i % 2 == 0 { u64::MAX - i as u64 } else { 0 },
                                };
                                let tgt = match i % 4 {
                                    0 => 0,
                                    1 => addr - 1,
                                    2 => 16.min(addr - 1).max(1),
                                    _ => 1 + g.rng.below(addr as u64 - 1) as usize,
                                };
                                (k[0], o, tgt)
                            })
                            .collect();
                        let fout = if fin { [0u64, 5, 1 << 40, u64::MAX][outs + (n % 2)] } else { 0 };
                        for v in 1..=3u64 {
                            // the shipped writer always emits the index; a version-1
                            // reader is only paired with it below the threshold
                            if v == 1 && n > 32 {
                                continue;
                            }
                            g.emit(node_line(v, addr - 1, addr, fin, fout, &trans));
                        }
                    }
                }
            }
        }
    }
    // one-transition forms: next / not next, common / uncommon input, output widths
    for &addr in &addrs {
        for &b in &[b't', b'e', 0u8, 0xff, b'X', b'~'] {
            for &o in &[0u64, 1, 255, 256, 1 << 32, u64::MAX] {
                for &tgt in &[addr - 1, 0, 1, addr / 2 + 1] {
                    for v in 1..=3u64 {
                        g.emit(node_line(v, addr - 1, addr, false, 0, &[(b, o, tgt)]));
                        g.emit(node_line(v, 5, addr, false, 0, &[(b, o, tgt)]));
                    }
                }
            }
        }
    }
}

pub fn c09(g: &mut G) {
    node_cases(g);
    let sets = key_sets(g);
    for (i, (label, keys)) in sets.iter().enumerate() {
        if keys.len() > 2000 {
            continue;
        }
        g.emit(format!("# set {}", label));
        let (fe, calls): (&str, Vec<Call>) = match i % 4 {
            0 => ("raw", ins_calls(&values(keys, i % VALUE_PATTERNS, &mut g.rng))),
            1 => ("map", ins_calls(&values(keys, (i + 2) % VALUE_PATTERNS, &mut g.rng))),
            2 => ("set", if i % 8 == 2 { add_calls_rep(keys) } else { add_calls(keys) }),
            _ => ("map_iter", ins_calls(&values(keys, (i + 5) % VALUE_PATTERNS, &mut g.rng))),
        };
        let ty = if fe == "raw" { (i % 5) as u64 } else { 0 };
        let geom = if fe == "raw" { GEOMS[i % 7] } else { "default" };
        let mode = if fe == "map_iter" { "stop" } else { "seq" };
        g.emit(build_line(fe, ty, geom, mode, &calls));
        let out = std::panic::catch_unwind(|| run_frontend(fe, ty, crate::run::parse_geom(geom), &calls));
        if let Ok(out) = out {
            if let Some(b) = out.bytes {
                g.emit(format!("spec {}", hex(&b)));
            }
        }
    }
    // histories with rejected calls in between (out of order, duplicates): what the builder
    // writes afterwards must still be a well-formed file of exactly the accepted entries
    for i in 0..(if g.thorough { 300 } else { 50 }) {
        let mut rng = Rng::new(g.rng.next());
        let words = random_words(&mut rng, 3 + i % 12, b"abc", 4);
        let mut calls: Vec<Call> = vec![];
        for (j, w) in words.iter().enumerate() {
            calls.push(if i % 2 == 0 { Call::Ins(w.clone(), rng.below(300)) } else { Call::Add(w.clone()) });
            // none, one or several rejected calls in a row
            while rng.chance(1, 2) {
                // a smaller key, a repeat, or a key between the last two
                let back = rng.below(j as u64 + 1) as usize;
                let mut k = words[j - back].clone();
                if rng.chance(1, 3) && !k.is_empty() {
                    k.pop();
                }
                calls.push(if i % 2 == 0 { Call::Ins(k, rng.below(3)) } else { Call::Add(k) });
            }
        }
        let fe = if i % 2 == 0 { ["map", "raw"][i / 2 % 2] } else { ["set", "raw"][i / 2 % 2] };
        let geom = if fe == "raw" { GEOMS[i % 7] } else { "default" };
        g.emit(build_line(fe, 0, geom, "seq", &calls));
        // (the generator runs the real builder to obtain the bytes; a panic there is
        // reported by the run phase on the build line above)
        let out = std::panic::catch_unwind(|| run_frontend(fe, 0, crate::run::parse_geom(geom), &calls));
        if let Ok(out) = out {
            if let Some(b) = out.bytes {
                g.emit(format!("spec {}", hex(&b)));
            }
        }
    }
    // the same bytes must reach sinks that accept writes piecewise (wide nodes: the 256-byte index)
    for n in [33usize, 256] {
        let keys = fanout_keys(n, true, true, true);
        let kv = values(&keys, 1, &mut g.rng);
        for cap in [1usize, 100, 255] {
            let script: Vec<String> = (0..3000).map(|_| format!("T{}", cap)).collect();
            g.emit(format!("sink 0 default {} - _ {}", script.join(","), show_calls(&ins_calls(&kv))));
        }
    }
    // a file large enough for 4-byte deltas (16 MiB+), read by an independent decoder (implementation only)
    g.emit("!scale bigfile set 21".into());
    if g.thorough {
        g.emit("!scale bigfile map 21".into());
    }
    // a file large enough for 3-byte deltas (64 KiB+)
    let mut rng = Rng::new(g.rng.next());
    let words = random_words(&mut rng, if g.thorough { 60_000 } else { 25_000 }, b"abcdefghijklmnop", 16);
    let kv = values(&words, 7, &mut g.rng);
    g.emit("# big".into());
    g.emit(build_line("raw", 0, "default", "seq", &ins_calls(&kv)));
}

fn queries(g: &mut G, kv: &Kv) {
    let keys: Vec<Vec<u8>> = kv.iter().map(|x| x.0.clone()).collect();
    let mut ps: Vec<Vec<u8>> = vec![vec![]];
    for k in keys.iter().take(12) {
        ps.push(k.clone());
        if !k.is_empty() {
            ps.push(k[..k.len() - 1].to_vec());
        }
        let mut x = k.clone();
        x.push(0x61);
        ps.push(x);
    }
    for p in &ps {
        g.emit(format!("get {}", hex(p)));
        g.emit(format!("has {}", hex(p)));
    }
    g.emit("stream always - -".into());
    for _ in 0..4 {
        let a = g.rng.pick(&ps).clone();
        let b = g.rng.pick(&ps).clone();
        g.emit(format!("stream always ge:{} lt:{}", hex(&a), hex(&b)));
        g.emit(format!("stream subseq:61 gt:{} le:{}", hex(&a), hex(&b)));
    }
    g.emit("streamst str:6162 - -".into());
    // a user automaton overriding `accept_eof` (counts 0x61 mod 3; matches in state 2; the hook moves
    // state 1 to state 2 at the end of a non-empty key) — theorem C10_stream_eof
    g.emit("streamst dfe:3:0:61:011220:001:111:000:-2- - -".into());
    {
        let a = g.rng.pick(&ps).clone();
        let b = g.rng.pick(&ps).clone();
        g.emit(format!("streamst dfe:3:0:61:011220:001:111:000:-2- ge:{} le:{}", hex(&a), hex(&b)));
    }
    g.emit("verify".into());
}

pub fn c10(g: &mut G) {
    let sets = key_sets(g);
    let stride = if g.thorough { 1 } else { 4 };
    for (i, (label, keys)) in sets.iter().enumerate() {
        if i % stride != 0 && !label.starts_with("fan") && label != "allbytes" && label != "cutoff" {
            continue;
        }
        let kv = values(keys, (i * 3) % VALUE_PATTERNS, &mut g.rng);
        for v in 1..=3u64 {
            let style = ((i + v as usize) % 2) as u8;
            let share = (i / 2) % 2 == 0;
            let bytes = refenc::encode(v, (i % 3) as u64, &kv, style, share);
            g.emit(format!("# {} v{} style{} share{}", label, v, style, share));
            if kv.len() <= 600 {
                g.emit(format!("enc {} {} {} {} {}", v, (i % 3) as u64, style, share as u8, if kv.is_empty() { ".".to_string() } else { kvs_str(&kv) }));
            }
            g.emit(format!("load {}", hex(&bytes)));
            g.emit(format!("expect {}", kvs_str(&kv)));
            queries(g, &kv);
            if kv.len() <= 400 {
                g.emit(format!("spec {}", hex(&bytes)));
            }
            if i % 5 == 0 {
                g.emit(format!("!containers {}", hex(&bytes)));
            }
            // set operations on old-format files
            if kv.len() <= 50 {
                let s = if kv.is_empty() { ".".to_string() } else { kvs_str(&kv) };
                g.emit(format!("!oldops {} {}", v, s));
            }
        }
    }
    // golden files written by the pinned revision
    if let Ok(rd) = std::fs::read_dir("/verif/golden") {
        let mut names: Vec<_> = rd.filter_map(|e| e.ok()).map(|e| e.path()).collect();
        names.sort();
        for p in names {
            if p.extension().map(|x| x == "fst").unwrap_or(false) {
                let bytes = std::fs::read(&p).unwrap();
                let exp = std::fs::read_to_string(p.with_extension("kv")).unwrap_or_default();
                g.emit(format!("# golden {}", p.display()));
                g.emit(format!("load {}", hex(&bytes)));
                g.emit(format!("expect {}", exp.trim()));
                // (golden files: version 3 carries a checksum that must verify, versions 1 and 2 none)
                let v = if bytes.len() >= 8 { bytes[0] } else { 0 };
                g.emit(format!("expectverify {}", if v >= 3 { "ok" } else { "missing" }));
                g.emit("verify".into());
                g.emit("stream always - -".into());
            }
        }
    }
    // 16 MiB+ files as written by earlier releases (4-byte address deltas), read by the crate
    g.emit("!scale bigfile map 21 old".into());
    g.emit("!reuse 5".into());
    // header grid: versions × lengths 0..40
    let versions: [u64; 7] = [0, 1, 2, 3, 4, 1 << 32, u64::MAX];
    for &v in &versions {
        for len in 0..=40usize {
            for variant in 0..3 {
                let mut b = vec![0u8; len];
                for (i, x) in v.to_le_bytes().iter().enumerate() {
                    if i < len {
                        b[i] = *x;
                    }
                }
                if variant >= 1 && len >= 24 {
                    // a root address that satisfies the length relation of v1-2 / v3
                    let foot = if variant == 1 { 0 } else { 4 };
                    if len >= 17 + foot + 1 {
                        let root = (len - 17 - foot) as u64;
                        let at = len - foot - 8;
                        b[at..at + 8].copy_from_slice(&root.to_le_bytes());
                    }
                }
                g.emit(format!("hdr {}", hex(&b)));
            }
        }
    }
    // the smallest well-formed files of each version
    for v in 1..=3u64 {
        for kv in [vec![], vec![(vec![], 0u64)], vec![(b"a".to_vec(), 0u64)], vec![(vec![], 7u64)]] {
            let bytes = refenc::encode(v, 0, &kv, 0, false);
            g.emit(format!("# smallest v{} n={}", v, bytes.len()));
            g.emit(format!("load {}", hex(&bytes)));
            g.emit(format!("expect {}", kvs_str(&kv)));
            g.emit("stream always - -".into());
            g.emit(format!("expectverify {}", if v >= 3 { "ok" } else { "missing" }));
            g.emit("verify".into());
        }
    }
}

pub fn c12(g: &mut G) {
    let sets = key_sets(g);
    for (i, (label, keys)) in sets.iter().enumerate() {
        g.emit(format!("# set {}", label));
        for gi in 0..(if g.thorough { 7 } else { 2 }) {
            let geom = GEOMS[(i + gi * 3) % 7];
            g.emit(format!("stats 0 {} {}", geom, show_calls(&add_calls(keys))));
            let kv = values(keys, (i + gi) % VALUE_PATTERNS, &mut g.rng);
            g.emit(format!("stats 0 {} {}", geom, show_calls(&ins_calls(&kv))));
        }
        g.emit(format!("!minimal set {}", show_calls(&add_calls(keys))));
        let kv = values(keys, i % VALUE_PATTERNS, &mut g.rng);
        g.emit(format!("!minimal map {}", show_calls(&ins_calls(&kv))));
    }
    // a file of more than 64 KiB (128 KiB) with few nodes: 40 (80) distinct nodes of 256 transitions
    // with outputs, and the same short tails before the first and after the last of them
    for nw in [40usize, 80] {
        let mut kv: Kv = vec![];
        let mut v = 1u64;
        for p in 0..nw {
            for b in 0..=255u8 {
                for tail in [&b"xyz"[..], &b"xz"[..]] {
                    let mut k = vec![b'A' + (p / 26) as u8, b'a' + (p % 26) as u8, b];
                    k.extend_from_slice(tail);
                    kv.push((k, 0));
                }
            }
        }
        kv.sort();
        for e in kv.iter_mut() {
            // distinct values on the 256-way transitions, none inside the tails
            if e.0.ends_with(b"xyz") {
                // irregular gaps: the 256-way nodes of different prefixes must differ
                v += 1 + fnv64(&e.0) % 60_000;
            }
            e.1 = v;
        }
        g.emit(format!("# widetail {}", nw));
        g.emit(format!("stats 0 default {}", show_calls(&ins_calls(&kv))));
        g.emit(format!("!minimal map {}", show_calls(&ins_calls(&kv))));
    }
    g.emit("!scale livebuilders 100".into());
    g.emit("!interleave 1".into());
    // histories with rejected calls: an error must not cost any sharing
    for i in 0..(if g.thorough { 200 } else { 40 }) {
        let mut rng = Rng::new(g.rng.next());
        let words = random_words(&mut rng, 8 + i % 20, b"abc", 5);
        let mut calls: Vec<Call> = vec![];
        for (j, w) in words.iter().enumerate() {
            calls.push(if i % 2 == 0 { Call::Ins(w.clone(), (j as u64 * 7) % 5) } else { Call::Add(w.clone()) });
            while rng.chance(1, 3) {
                let back = rng.below(j as u64 + 1) as usize;
                calls.push(if i % 2 == 0 { Call::Ins(words[j - back].clone(), 1) } else { Call::Add(words[j - back].clone()) });
            }
        }
        g.emit(format!("stats 0 {} {}", ["default", "3x3", "7x2"][i % 3], show_calls(&calls)));
        g.emit(format!("!minimal {} {}", if i % 2 == 0 { "map" } else { "set" }, show_calls(&calls)));
    }
    // systematic: every two-letter key over {a,b,c} (all second-level nodes are equivalent), with a
    // rejected call after the k-th accepted key — whatever an error does to the builder's cache, the
    // nodes emitted afterwards must still be shared with the ones emitted before
    {
        let u: Vec<Vec<u8>> = universe(b"abc", 2).into_iter().filter(|k| k.len() == 2).collect();
        for at in 1..u.len() {
            for (vi, as_map) in [false, true].iter().enumerate() {
                let mut calls: Vec<Call> = vec![];
                for (j, k) in u.iter().enumerate() {
                    calls.push(if *as_map { Call::Ins(k.clone(), 0) } else { Call::Add(k.clone()) });
                    if j + 1 == at {
                        // out of order (and, for maps, also a duplicate)
                        calls.push(if *as_map { Call::Ins(u[0].clone(), 0) } else { Call::Add(u[0].clone()) });
                        if *as_map {
                            calls.push(Call::Ins(k.clone(), 0));
                        }
                    }
                }
                g.emit(format!("stats 0 {} {}", ["default", "7x2"][(at + vi) % 2], show_calls(&calls)));
                g.emit(format!("!minimal {} {}", if *as_map { "map" } else { "set" }, show_calls(&calls)));
            }
        }
    }
    for f in ["words-10000", "words-100000", "wiki-urls-10000", "wiki-urls-100000"] {
        if f.contains("100000") && !g.thorough {
            continue;
        }
        g.emit(format!("!corpus /repo/data/{}", f));
    }
}

pub fn c13(g: &mut G) {
    let (n1, n2) = if g.thorough { (3_000_000, 30_000_000) } else { (1_000_000, 3_000_000) };
    g.emit(format!("!membuild set {} {}", n1, n2));
    g.emit(format!("!membuild map {} {}", n1, n2));
    // keys that are proper prefixes of their successors; sinks that accept writes piecewise
    // (n1 must be past the point where the cache is saturated, measured ≈ 1M keys)
    g.emit(format!("!membuild set {} {} prefix 0", n1, 2 * n1));
    g.emit(format!("!membuild map {} {} prefix 4096", n1, 2 * n1));
    g.emit(format!("!membuild set {} {} fixed 1", n1, 2 * n1));
    // unboundedly many distinct nodes with more than 32 transitions (sets and maps)
    // (the cache saturates later with wide nodes: measured plateau from ≈ 3M keys)
    g.emit(format!("!membuild set {} {} wide 0", 3 * n1, 6 * n1));
    if g.thorough {
        g.emit(format!("!membuild map {} {} wide 0", 3 * n1, 6 * n1));
    }
    // the batch entry points, fed by iterators that know / do not know their length, and by streams
    for fe in ["map_iter_exact", "raw_iter_exact", "set_iter_exact", "map_iter_unknown", "set_iter_unknown", "set_iter_filter", "map_stream", "set_stream"] {
        if g.thorough || fe.contains("iter") {
            g.emit(format!("!memfe {} {} {}", fe, n1, 2 * n1));
        }
    }
    // several builders alive at once, a build after a big one, a builder that changes threads
    g.emit(format!("!meminterleave {} {}", n1, n1 * 2));
    // model footprint vs hook footprint on small inputs
    let sets = key_sets(g);
    for (i, (_, keys)) in sets.iter().enumerate() {
        if i % 9 != 0 {
            continue;
        }
        let kv = values(keys, i % VALUE_PATTERNS, &mut g.rng);
        g.emit(format!("foot {} {}", GEOMS[i % 7], show_calls(&ins_calls(&kv))));
    }
}

pub fn c14(g: &mut G) {
    let (n1, n2) = if g.thorough { (100_000, 1_000_000) } else { (10_000, 100_000) };
    for k in [2usize, 4, 8] {
        g.emit(format!("!memstream {} {} {}", n1, n2, k));
    }
    g.emit("!freshopen".to_string());
    // what earlier traversals leave behind
    g.emit(format!("!memhistory {}", n1));
    g.emit(format!("!memhistory {}", n2));
    // model: stack depth / buffer length invariants are theorem-only; the
    // streams themselves are exercised for correspondence
    let sets = key_sets(g);
    for (i, (_, keys)) in sets.iter().enumerate() {
        if i % 17 != 0 {
            continue;
        }
        let kv = values(keys, 1, &mut g.rng);
        g.emit(build_line("raw", 0, "default", "seq", &ins_calls(&kv)));
        g.emit("stream always - -".into());
    }
}

pub fn c15(g: &mut G) {
    let sets = key_sets(g);
    let stride = if g.thorough { 1 } else { 2 };
    for (i, (label, keys)) in sets.iter().enumerate() {
        if i % stride != 0 {
            continue;
        }
        g.emit(format!("# set {}", label));
        let kv = values(keys, (i * 7 + 2) % VALUE_PATTERNS, &mut g.rng);
        let ins = ins_calls(&kv);
        for fe in ["raw", "map", "map_iter", "map_stream", "map_from_iter", "raw_iter", "raw_stream", "raw_from_iter_map"] {
            let mode = if fe == "raw" || fe == "map" { "seq" } else { "stop" };
            g.emit(build_line(fe, 0, "default", mode, &ins));
        }
        let adds = add_calls(keys);
        for fe in ["raw", "set", "set_iter", "set_stream", "set_from_iter", "raw_from_iter_set", "set_union_stream"] {
            let mode = if fe == "raw" || fe == "set" { "seq" } else { "stop" };
            g.emit(build_line(fe, 0, "default", mode, &adds));
        }
        if i % 6 == 0 {
            g.emit(format!("!par 0 {}", show_calls(&ins)));
        }
    }
    // rejected calls (duplicates with smaller or larger values, smaller keys) between accepted ones
    for i in 0..(if g.thorough { 300 } else { 60 }) {
        let mut rng = Rng::new(g.rng.next());
        let words = random_words(&mut rng, 30, b"ab", 4);
        let mut calls = vec![];
        for (j, w) in words.iter().enumerate() {
            calls.push(Call::Ins(w.clone(), 1000 - 7 * j as u64 + rng.below(5)));
            if rng.chance(1, 2) {
                let back = rng.below(j as u64 + 1) as usize;
                calls.push(Call::Ins(words[j - back].clone(), rng.below(2000)));
            }
        }
        g.emit(build_line(if i % 2 == 0 { "map" } else { "raw" }, 0, if i % 2 == 0 { "default" } else { GEOMS[i % 7] }, "seq", &calls));
    }
    // batch entry points with a rejected item somewhere (stop at it, same error): duplicates
    // and smaller keys whose VALUE is 0, equal, smaller or larger than the accepted one
    for i in 0..(if g.thorough { 400 } else { 80 }) {
        let mut rng = Rng::new(g.rng.next());
        let words = random_words(&mut rng, 2 + (i % 5), b"ab", 3);
        let mut calls: Vec<Call> = vec![];
        for (j, w) in words.iter().enumerate() {
            calls.push(Call::Ins(w.clone(), if i % 3 == 0 { 0 } else { 5 + j as u64 }));
        }
        // the rejected item: a repeat of an accepted key or a smaller key
        let at = 1 + rng.below(words.len() as u64) as usize;
        let back = rng.below(at as u64) as usize;
        let k = if rng.chance(1, 5) { vec![] } else { words[at - 1 - back].clone() };
        let v = [0u64, 0, 5 + (at as u64 - 1 - back as u64), 1, 999][(i / 2) % 5];
        calls.insert(at, Call::Ins(k, v));
        for fe in ["map_iter", "map_stream", "map_from_iter", "raw_iter", "raw_stream", "raw_from_iter_map"] {
            g.emit(build_line(fe, 0, "default", "stop", &calls));
        }
        g.emit(build_line("map", 0, "default", "seq", &calls));
        let adds: Vec<Call> = calls.iter().map(|c| match c { Call::Ins(k, _) | Call::Add(k) => Call::Add(k.clone()) }).collect();
        for fe in ["set_iter", "set_stream", "set_from_iter", "raw_from_iter_set"] {
            g.emit(build_line(fe, 0, "default", "stop", &adds));
        }
    }
    // every front end over a sink that observes the order of writes and flushes: the bytes
    // must have reached the sink before the last flush, and equal the in-memory build
    for (i, (_, keys)) in sets.iter().enumerate().take(if g.thorough { 60 } else { 16 }) {
        let kv = values(keys, (i * 3 + 1) % VALUE_PATTERNS, &mut g.rng);
        let ops = if kv.is_empty() { "-".to_string() } else { show_calls(&ins_calls(&kv)) };
        let fes = ["raw", "map", "set", "map_iter", "set_iter", "map_stream", "set_stream", "raw_iter", "raw_stream"];
        for fe in [fes[i % fes.len()], fes[(i + 4) % fes.len()]] {
            g.emit(format!("sink 0 default - - _ {} {}", ops, fe));
            g.emit("stream always - -".into());
        }
    }
    // the command-line path (sorted `fst set` / `fst map`, `fst union`), onto a fresh path and
    // with --force onto an existing longer file
    for (i, what) in ["set", "map", "union", "map", "union", "set"].iter().enumerate() {
        let mut rng = Rng::new(g.rng.next());
        let words = random_words(&mut rng, 3 + i * 2, b"abcdefgh", 6);
        // (no empty key: the sorted `fst set` reader treats an empty line as the end of input)
        let rows: Vec<String> = words.iter().filter(|w| !w.is_empty()).enumerate().map(|(j, w)| format!("{}:{}", hex(w), 10 * j + 1)).collect();
        g.emit(format!("!cli {} {} {}", what, if i % 2 == 0 { 0 } else { 700 }, rows.join(",")));
    }
    // the same bytes through a sink that takes at most 64 bytes per call (wide nodes)
    for n in [32usize, 33, 40] {
        let keys = fanout_keys(n, true, false, true);
        let kv = values(&keys, 1, &mut g.rng);
        let script: Vec<String> = (0..2000).map(|_| "T64".to_string()).collect();
        g.emit(format!("sink 0 default {} - _ {}", script.join(","), show_calls(&ins_calls(&kv))));
    }
    // very many builds in one thread (anything recycled between builds), many builders alive at once
    g.emit("!interleave 2".into());
    // by-reference iterators: the builder goes on after each error of extend_iter
    for i in 0..(if g.thorough { 300 } else { 60 }) {
        let mut rng = Rng::new(g.rng.next());
        let words = random_words(&mut rng, 4 + i % 9, b"ab", 3);
        let mut calls: Vec<Call> = vec![];
        for (j, w) in words.iter().enumerate() {
            calls.push(Call::Ins(w.clone(), 3 + j as u64));
            // none, one or several rejected items in a row (each call of extend_iter ends at one)
            while j >= 1 && rng.chance(1, 2) {
                let back = rng.below(j as u64 + 1) as usize;
                let mut k = words[j - back].clone();
                if rng.chance(1, 2) {
                    k.push(b'a'); // between an earlier key and the last accepted one
                }
                if k <= *w {
                    calls.push(Call::Ins(k, rng.below(9)));
                }
            }
        }
        g.emit(build_line("map_iter_resume", 0, "default", "resume", &calls));
        g.emit(build_line("raw_iter_resume", 0, "default", "resume", &calls));
        let adds: Vec<Call> = calls.iter().map(|c| match c { Call::Ins(k, _) | Call::Add(k) => Call::Add(k.clone()) }).collect();
        g.emit(build_line("set_iter_resume", 0, "default", "resume", &adds));
    }
    g.emit(format!("!scale manybuilds {}", if g.thorough { 140_000 } else { 70_000 }));
    g.emit("!scale livebuilders 100".into());
    // enough distinct nodes to overflow cache buckets (evictions): threads / processes must still agree
    let mut rng = Rng::new(g.rng.next());
    let big = random_words(&mut rng, if g.thorough { 120_000 } else { 40_000 }, b"abcdefghijklmnopqrstuvwxyz", 12);
    let kv = values(&big, 7, &mut g.rng);
    g.emit(format!("!par 0 {}", show_calls(&ins_calls(&kv))));
}

pub fn c16(g: &mut G) {
    g.emit("!reuse 6".into());
    g.emit("!conc 6".into());
    g.emit("!scale bigfile map 21".into());
    // every subset of the strings of length <= 2 over {a,b} with values around 2^32 / 2^56:
    // sibling subtrees whose minima need 5+ byte outputs on the inner transitions
    let u = universe(b"ab", 2);
    for mask in 0..(1u64 << u.len()) {
        let keys = subset(&u, mask);
        if keys.len() < 2 {
            continue;
        }
        for (bi, base) in [1u64 << 32, (1u64 << 56) - 3, (1u64 << 32) - 1].iter().enumerate() {
            if !g.thorough && (mask as usize + bi) % 2 == 1 {
                continue;
            }
            let gap = [1u64, 10, 1 << 31][(mask as usize + bi) % 3];
            let kv: Kv = keys.iter().enumerate().map(|(j, k)| (k.clone(), base + gap * j as u64 + (j as u64 % 2))).collect();
            g.emit(build_line("map", 0, "default", "seq", &ins_calls(&kv)));
            for (_, v) in &kv {
                g.emit(format!("getkey {} _", v));
                g.emit(format!("getkey {} _", v + 1));
            }
            g.emit(format!("getkey {} _", base - 1));
        }
    }
    let sets = key_sets(g);
    for (i, (label, keys)) in sets.iter().enumerate() {
        let shaped = label.starts_with("fan") || label.starts_with("wide") || label.starts_with("dense") || label.starts_with("stale");
        if keys.is_empty() || (i % 2 == 1 && !g.thorough && !shaped) {
            continue;
        }
        // strictly increasing values: start at 0 or above, gaps, MAX last; every fourth set
        // starts just below / at a power of 256 (outputs of 4, 5, 7, 8 bytes on inner transitions)
        let bases: [u64; 6] = [1 << 32, (1 << 32) - 2, 1 << 56, (1 << 16) - 1, (1 << 40) + 5, u64::MAX - 4000];
        let mut v: u64 = if i % 4 == 3 { bases[(i / 4) % bases.len()] } else if i % 3 == 0 { 0 } else { 1 + g.rng.below(10) };
        let mut kv: Kv = vec![];
        for (j, k) in keys.iter().enumerate() {
            if j + 1 == keys.len() && i % 5 == 0 {
                v = u64::MAX;
            }
            kv.push((k.clone(), v));
            v = v.saturating_add(1 + if i % 2 == 0 { 0 } else { g.rng.below(1000) });
        }
        // strictly increasing must hold (saturation could break it)
        if !kv.windows(2).all(|w| w[0].1 < w[1].1) {
            continue;
        }
        g.emit(format!("# mono {}", label));
        g.emit(build_line("map", 0, "default", "seq", &ins_calls(&kv)));
        let mut qs: Vec<u64> = vec![0, u64::MAX, 1];
        // the first and the last values, and a spread over the rest
        let step = (kv.len() / 40).max(1);
        for (_, v) in kv.iter().take(20).chain(kv.iter().rev().take(10)).chain(kv.iter().step_by(step)) {
            qs.push(*v);
            qs.push(v.wrapping_add(1));
            qs.push(v.wrapping_sub(1));
        }
        for _ in 0..5 {
            qs.push(g.rng.next() >> g.rng.below(64));
        }
        qs.sort();
        qs.dedup();
        for (j, q) in qs.iter().enumerate() {
            g.emit(format!("getkey {} {}", q, if j % 4 == 0 { "7a7a" } else { "_" }));
            if j % 16 == 1 {
                // a caller buffer longer than the whole FST
                g.emit(format!("getkey {} {}", q, "5a".repeat(600)));
            }
        }
    }
}
