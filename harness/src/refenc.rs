//! Reference encoder for format versions 1, 2, 3, written from the format
//! description (see Spec/Format.lean), independent of the crate's writer.
use crate::pinned::{COMMON_INV, INDEX_THRESHOLD};
use crate::run::Kv;
use crate::util::{crc32c_bitwise, mask};
use std::collections::HashMap;

#[derive(Clone, PartialEq, Eq, Hash, Debug)]
struct N {
    fin: bool,
    fout: u64,
    trans: Vec<(u8, u64, usize)>,
}

fn pack_size(n: u64) -> usize {
    let mut k = 1;
    while k < 8 && n >= 1u64 << (8 * k) {
        k += 1;
    }
    k
}
fn pack(out: &mut Vec<u8>, n: u64, k: usize) {
    for i in 0..k {
        out.push((n >> (8 * i)) as u8);
    }
}
fn common_idx(b: u8) -> u8 {
    match COMMON_INV.iter().position(|&x| x == b) {
        Some(i) if i + 1 <= 63 => (i + 1) as u8,
        _ => 0,
    }
}

struct Enc {
    version: u64,
    out: Vec<u8>,
    last: usize,
    share: bool,
    memo: HashMap<N, usize>,
}

impl Enc {
    fn emit(&mut self, n: &N) -> usize {
        if n.fin && n.trans.is_empty() && n.fout == 0 {
            return 0;
        }
        if self.share {
            if let Some(&a) = self.memo.get(n) {
                return a;
            }
        }
        let start = self.out.len();
        let delta = |t: usize| -> u64 { if t == 0 { 0 } else { (start - t) as u64 } };
        if !n.fin && n.trans.len() == 1 {
            let (b, o, t) = n.trans[0];
            let ci = common_idx(b);
            if t == self.last && o == 0 && t != 0 {
                if ci == 0 {
                    self.out.push(b);
                }
                self.out.push(0b1100_0000 | ci);
            } else {
                let osz = if o == 0 { 0 } else { pack_size(o) };
                let tsz = pack_size(delta(t));
                pack(&mut self.out, o, osz);
                pack(&mut self.out, delta(t), tsz);
                self.out.push(((tsz << 4) | osz) as u8);
                if ci == 0 {
                    self.out.push(b);
                }
                self.out.push(0b1000_0000 | ci);
            }
        } else {
            let nt = n.trans.len();
            let any = n.fout != 0 || n.trans.iter().any(|t| t.1 != 0);
            let mut osz = 0;
            if any {
                osz = pack_size(n.fout);
                for t in &n.trans {
                    osz = osz.max(pack_size(t.1));
                }
            }
            let mut tsz = 0;
            for t in &n.trans {
                tsz = tsz.max(pack_size(delta(t.2)));
            }
            if any && n.fin {
                pack(&mut self.out, n.fout, osz);
            }
            if any {
                for t in n.trans.iter().rev() {
                    pack(&mut self.out, t.1, osz);
                }
            }
            for t in n.trans.iter().rev() {
                pack(&mut self.out, delta(t.2), tsz);
            }
            for t in n.trans.iter().rev() {
                self.out.push(t.0);
            }
            if self.version >= 2 && nt > INDEX_THRESHOLD {
                let mut idx = [255u8; 256];
                for (i, t) in n.trans.iter().enumerate() {
                    idx[t.0 as usize] = i as u8;
                }
                self.out.extend_from_slice(&idx);
            }
            self.out.push(((tsz << 4) | osz) as u8);
            let fbit = if n.fin { 0b0100_0000 } else { 0 };
            if nt >= 1 && nt <= 63 {
                self.out.push(fbit | nt as u8);
            } else {
                self.out.push(if nt == 256 { 1 } else { nt as u8 });
                self.out.push(fbit);
            }
        }
        let addr = self.out.len() - 1;
        self.last = addr;
        if self.share {
            self.memo.insert(n.clone(), addr);
        }
        addr
    }

    /// encode the sub-trie of `kv[..]` (all sharing the prefix of length `depth`)
    fn go(&mut self, kv: &[(Vec<u8>, u64)], depth: usize, style: u8) -> usize {
        let fin = !kv.is_empty() && kv[0].0.len() == depth;
        let fval = if fin { kv[0].1 } else { 0 };
        let rest = if fin { &kv[1..] } else { kv };
        // groups by next byte, compiled in DESCENDING byte order (children first)
        let mut groups: Vec<(u8, usize, usize)> = vec![];
        let mut i = 0;
        while i < rest.len() {
            let b = rest[i].0[depth];
            let mut j = i;
            while j < rest.len() && rest[j].0[depth] == b {
                j += 1;
            }
            groups.push((b, i, j));
            i = j;
        }
        let mut trans: Vec<(u8, u64, usize)> = vec![];
        for &(b, i, j) in groups.iter().rev() {
            let sub = &rest[i..j];
            // style 1: push the minimum value of the subtree onto the transition
            let m = if style == 1 { sub.iter().map(|x| x.1).min().unwrap() } else { 0 };
            let sub2: Vec<(Vec<u8>, u64)> = sub.iter().map(|(k, v)| (k.clone(), v - m)).collect();
            let a = self.go(&sub2, depth + 1, style);
            trans.push((b, m, a));
        }
        trans.reverse();
        self.emit(&N { fin, fout: fval, trans })
    }
}

/// `style`: 0 = values on final outputs, 1 = subtree minimum on transitions;
/// `share`: hash-cons equal nodes.
pub fn encode(version: u64, ty: u64, kv: &Kv, style: u8, share: bool) -> Vec<u8> {
    let mut e = Enc { version, out: vec![], last: usize::MAX, share, memo: HashMap::new() };
    e.out.extend_from_slice(&version.to_le_bytes());
    e.out.extend_from_slice(&ty.to_le_bytes());
    let root = if kv.is_empty() {
        e.emit(&N { fin: false, fout: 0, trans: vec![] })
    } else {
        e.go(kv, 0, style)
    };
    let mut out = e.out;
    out.extend_from_slice(&(kv.len() as u64).to_le_bytes());
    out.extend_from_slice(&(root as u64).to_le_bytes());
    if version >= 3 {
        let c = mask(crc32c_bitwise(&out));
        out.extend_from_slice(&c.to_le_bytes());
    }
    out
}
