mod auts;
mod extra;
mod gen;
mod gen_a;
mod gen_b;
mod gen_c;
mod gen_d;
mod history;
mod pinned;
mod refenc;
mod misc;
mod ops;
mod run;
mod scale;
mod sink;
mod util;
mod wrap;

#[global_allocator]
static ALLOC: extra::Counting = extra::Counting;

fn main() {
    let args: Vec<String> = std::env::args().collect();
    std::panic::set_hook(Box::new(|_| {}));
    match args.get(1).map(|s| &s[..]) {
        Some("dump-gen") => print!("{}", misc::dump_gen()),
        Some("gen") => {
            // gen <prop> <tier> <seed>
            let seed: u64 = args[4].parse().unwrap();
            gen::generate(&args[2], &args[3], seed);
        }
        Some("run") => {
            // run [oracle-out]
            run::run_stdin(args.get(2).map(|s| &s[..]));
        }
        Some("openonly") => extra::open_only(&args[2]),
        Some("scale") => std::process::exit(scale::child_main(&args[2..])),
        Some("golden") => {
            // golden <dir>: files written by the CURRENT tree, to be committed once
            gen::golden(&args[2]);
        }
        Some("digest") => {
            let ty: u64 = args[2].parse().unwrap();
            let ops = if let Some(p) = args[3].strip_prefix('@') {
                std::fs::read_to_string(p).unwrap()
            } else {
                args[3].clone()
            };
            let calls = run::parse_calls(&ops);
            println!("{:?}", sink::vec_build(ty, &calls).map(|b| util::fnv64(&b)));
        }
        _ => {
            eprintln!("usage: harness dump-gen | gen <prop> <tier> <seed> | run [oracle-out] | digest <ty> <ops>");
            std::process::exit(2);
        }
    }
}
