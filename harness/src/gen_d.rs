//! Generators for C17–C20.
use crate::auts::AutSpec;
use crate::gen::*;
use crate::gen_a::{random_dfa, small_dfas};
use crate::run::Kv;
use crate::util::*;

pub const LEV_ALPHABET: [char; 8] = ['a', 'é', 'ê', '☃', '☄', '😀', '😁', '𝄞'];

fn strings_over(alpha: &[char], maxlen: usize) -> Vec<String> {
    let mut out = vec![String::new()];
    let mut layer = vec![String::new()];
    for _ in 0..maxlen {
        let mut next = vec![];
        for w in &layer {
            for &c in alpha {
                let mut x = w.clone();
                x.push(c);
                next.push(x);
            }
        }
        out.extend(next.iter().cloned());
        layer = next;
    }
    out
}

pub fn c17(g: &mut G) {
    g.emit("!scale levlong".into());
    let klen = if g.thorough { 4 } else { 3 };
    let qlen = if g.thorough { 3 } else { 2 };
    let mut keys: Vec<Vec<u8>> = strings_over(&LEV_ALPHABET, klen).into_iter().map(|s| s.into_bytes()).collect();
    // characters of the same UTF-8 length and the same FINAL byte as alphabet members
    // (© Щ ~ é: .. A9; ♃ 惃 ~ ☃: .. .. 83; 😃 𠘃: .. .. .. 83)
    let confusable: Vec<char> = vec!['©', 'Щ', '♃', '惃', '😃', '𠘃'];
    let mut ext: Vec<char> = LEV_ALPHABET.to_vec();
    ext.extend(confusable.iter());
    for s in strings_over(&ext, 2) {
        keys.push(s.into_bytes());
    }
    keys.sort();
    keys.dedup();
    g.emit(build_line("set", 0, "default", "seq", &add_calls(&keys)));
    let qs = strings_over(&LEV_ALPHABET, qlen);
    for q in &qs {
        for d in 0..=2u32 {
            g.emit(format!("lev {} {} 10000", hex(q.as_bytes()), d));
            g.emit(format!("stream lev:{}:{} - -", hex(q.as_bytes()), d));
        }
    }
    // random longer queries, also over ASCII and mixed scripts
    let extra: Vec<char> = "abcxyz éñü☃日本𝄞😀".chars().filter(|c| *c != ' ').collect();
    for _ in 0..(if g.thorough { 200 } else { 30 }) {
        let l = 3 + g.rng.below(4) as usize;
        let q: String = (0..l).map(|_| if g.rng.chance(1, 2) { *g.rng.pick(&LEV_ALPHABET) } else { *g.rng.pick(&extra) }).collect();
        let d = g.rng.below(3);
        g.emit(format!("lev {} {} 10000", hex(q.as_bytes()), d));
        g.emit(format!("stream lev:{}:{} - -", hex(q.as_bytes()), d));
        // a few direct runs on keys near the query
        for _ in 0..6 {
            let mut k: Vec<char> = q.chars().collect();
            for _ in 0..g.rng.below(3) {
                let pos = g.rng.below(k.len() as u64 + 1) as usize;
                match g.rng.below(3) {
                    0 if !k.is_empty() => {
                        k.remove(pos.min(k.len() - 1));
                    }
                    1 => k.insert(pos, *g.rng.pick(&LEV_ALPHABET)),
                    _ if !k.is_empty() => {
                        let p = pos.min(k.len() - 1);
                        k[p] = *g.rng.pick(&extra);
                    }
                    _ => {}
                }
            }
            let ks: String = k.into_iter().collect();
            g.emit(format!("aut lev:{}:{} {}", hex(q.as_bytes()), d, hex(ks.as_bytes())));
        }
    }
    if g.thorough {
        g.emit("!levbig 400 2".to_string());
    }
    // the caller's limit applies below, at and above the default (queries with ~10^2 … >10^4 states)
    for (q, d) in [("foo", 1u32), ("é☃😀", 2), ("levenshtein", 2), ("😀😁𝄞☃☄éêa😀é", 3), ("levenshtein automaton", 3)] {
        g.emit(format!("!levlimit {} {}", hex(q.as_bytes()), d));
    }
    // searches under bounds that leave the FST in the middle of a key or of a character
    {
        let mut bounds: Vec<Vec<u8>> = vec![vec![0xc3], vec![0xc3, 0xa8], vec![0xe2, 0x98], vec![0xf0, 0x9f, 0x98], b"a\xc3".to_vec(), vec![0x61, 0xc3], vec![0x60], vec![0x7b], vec![0xff]];
        for s2 in strings_over(&ext, 2).into_iter().take(if g.thorough { 400 } else { 60 }) {
            let mut b = s2.into_bytes();
            bounds.push(b.clone());
            b.pop();
            bounds.push(b.clone());
            b.push(0x80);
            bounds.push(b);
        }
        for (qi, q) in qs.iter().enumerate() {
            for d in 0..=2u32 {
                for j in 0..(if g.thorough { 12 } else { 3 }) {
                    let lo = &bounds[(qi * 7 + d as usize * 3 + j * 11) % bounds.len()];
                    let hi = &bounds[(qi * 5 + d as usize + j * 13 + 1) % bounds.len()];
                    let (lk, hk) = (["ge", "gt"][(qi + j) % 2], ["le", "lt"][(qi + j + d as usize) % 2]);
                    g.emit(format!("stream lev:{}:{} {}:{} -", hex(q.as_bytes()), d, lk, hex(lo)));
                    g.emit(format!("stream lev:{}:{} {}:{} {}:{}", hex(q.as_bytes()), d, lk, hex(lo), hk, hex(hi)));
                }
            }
        }
    }
    // state limits from 1 upward
    for q in ["", "a", "é", "aé", "é☃😀", "foo"] {
        for d in 0..=2u32 {
            for limit in 1..(if g.thorough { 120 } else { 40 }) {
                g.emit(format!("lev {} {} {}", hex(q.as_bytes()), d, limit));
            }
        }
    }
}

fn random_leaf(g: &mut G, dfas: &[crate::auts::Table]) -> AutSpec {
    let pat = |g: &mut G| -> Vec<u8> {
        let l = g.rng.below(4) as usize;
        (0..l).map(|_| if g.rng.chance(1, 2) { b'a' } else { b'b' }).collect()
    };
    match g.rng.below(6) {
        0 => AutSpec::Always,
        1 => AutSpec::Str(pat(g)),
        2 => AutSpec::Subseq(pat(g)),
        _ => AutSpec::Dfa(g.rng.pick(dfas).clone()),
    }
}

fn random_tree(g: &mut G, depth: usize, dfas: &[crate::auts::Table]) -> AutSpec {
    if depth == 0 || g.rng.chance(1, 5) {
        return random_leaf(g, dfas);
    }
    match g.rng.below(4) {
        0 => AutSpec::Sw(Box::new(random_tree(g, depth - 1, dfas))),
        1 => AutSpec::Co(Box::new(random_tree(g, depth - 1, dfas))),
        2 => AutSpec::Un(Box::new(random_tree(g, depth - 1, dfas)), Box::new(random_tree(g, depth - 1, dfas))),
        _ => AutSpec::In(Box::new(random_tree(g, depth - 1, dfas)), Box::new(random_tree(g, depth - 1, dfas))),
    }
}

pub fn composed_auts(g: &mut G, depth: usize, count: usize) -> Vec<AutSpec> {
    let mut dfas = small_dfas(2, None);
    let mut r = Rng::new(g.rng.next());
    dfas.extend(small_dfas(3, Some((&mut r, 200))));
    (0..count).map(|_| random_tree(g, depth, &dfas)).collect()
}

pub fn c18(g: &mut G) {
    g.emit("!scale patlong".into());
    g.emit("!authistory 1".into());
    let mut specs: Vec<AutSpec> = vec![];
    // every leaf, every unary and a sample of binary compositions, then random depth 3
    let pats: Vec<Vec<u8>> = universe(b"ab", 2);
    let mut leaves: Vec<AutSpec> = vec![AutSpec::Always];
    for p in &pats {
        leaves.push(AutSpec::Str(p.clone()));
        leaves.push(AutSpec::Subseq(p.clone()));
    }
    let mut dfas = small_dfas(1, None);
    dfas.extend(small_dfas(2, None));
    let mut r = Rng::new(g.rng.next());
    dfas.extend(small_dfas(3, Some((&mut r, if g.thorough { 2000 } else { 100 }))));
    for (i, t) in dfas.iter().enumerate() {
        leaves.push(AutSpec::Dfa(t.clone()));
        if i % 4 == 0 {
            // the same table without hint methods: the trait's defaults must be sound too
            leaves.push(AutSpec::DfaD(t.clone()));
        }
    }
    for _ in 0..10 {
        let mut r3 = Rng::new(g.rng.next());
        leaves.push(AutSpec::Dfa(random_dfa(&mut r3, 4, &[b'a'])));
    }
    for l in &leaves {
        specs.push(l.clone());
        specs.push(AutSpec::Sw(Box::new(l.clone())));
        specs.push(AutSpec::Co(Box::new(l.clone())));
        specs.push(AutSpec::Co(Box::new(AutSpec::Sw(Box::new(l.clone())))));
        specs.push(AutSpec::Sw(Box::new(AutSpec::Co(Box::new(l.clone())))));
    }
    for _ in 0..(if g.thorough { 3000 } else { 300 }) {
        let a = g.rng.pick(&leaves).clone();
        let b = g.rng.pick(&leaves).clone();
        specs.push(AutSpec::Un(Box::new(a.clone()), Box::new(b.clone())));
        specs.push(AutSpec::In(Box::new(a), Box::new(b)));
    }
    let n = if g.thorough { 4000 } else { 400 };
    specs.extend(composed_auts(g, 3, n));
    // words: all words of the maximal length over {a,b} (prefixes are covered
    // by the per-prefix output), length = pumping bound capped
    let wl = if g.thorough { 9 } else { 7 };
    let words: Vec<Vec<u8>> = (0..(1u32 << wl))
        .map(|m| (0..wl).map(|i| if m >> i & 1 == 1 { b'a' } else { b'b' }).collect())
        .collect();
    for (i, s) in specs.iter().enumerate() {
        let sh = s.show();
        let stride = if i < leaves.len() * 5 { 1 } else { 4 };
        for (j, w) in words.iter().enumerate() {
            if (j + i) % stride == 0 {
                g.emit(format!("aut {} {}", sh, hex(w)));
            }
        }
        g.emit(format!("aut {} {}", sh, hex(b"ab\x00\xffz")));
    }
    // what the hints are for: searches of the built-ins and their compositions over a full
    // small FST, unbounded and under lower bounds of 1..3 bytes (on and off the key paths)
    let keys: Vec<Vec<u8>> = universe(b"ab", 4);
    let kv: Kv = keys.iter().enumerate().map(|(i, k)| (k.clone(), i as u64 + 1)).collect();
    g.emit(build_line("map", 0, "default", "seq", &ins_calls(&kv)));
    let mut bnds: Vec<Vec<u8>> = universe(b"ab", 3).into_iter().filter(|k| !k.is_empty()).collect();
    bnds.extend(vec![b"ac".to_vec(), b"a\x00".to_vec(), b"bab\xff".to_vec(), b"abab".to_vec(), b"`".to_vec(), b"c".to_vec()]);
    let nsearch = if g.thorough { specs.len().min(6000) } else { specs.len().min(leaves.len() * 5 + 200) };
    for (i, s) in specs.iter().take(nsearch).enumerate() {
        let sh = s.show();
        g.emit(format!("stream {} - -", sh));
        for j in 0..(if i < leaves.len() * 5 { 4 } else { 2 }) {
            let lo = &bnds[(i * 5 + j * 7) % bnds.len()];
            let hi = &bnds[(i * 3 + j * 11 + 1) % bnds.len()];
            let lk = ["ge", "gt"][(i + j) % 2];
            if j % 2 == 0 {
                g.emit(format!("stream {} {}:{} -", sh, lk, hex(lo)));
            } else {
                g.emit(format!("stream {} {}:{} {}:{}", sh, lk, hex(lo), ["le", "lt"][i % 2], hex(hi)));
            }
        }
    }
}

pub fn c19(g: &mut G) {
    g.emit("!scale mergebig".into());
    g.emit("!clirerun set".into());
    g.emit("!clirerun map".into());
    let keyu: Vec<&str> = vec!["a", "b", "ab", "abc", "k1", "k2", "zz", "m"];
    let modes = ["sum", "max", "min", "set"];
    let n = if g.thorough { 1500 } else { 220 };
    // the design-time witness first
    for b in [1, 2, 4] {
        for m in ["sum", "max", "min"] {
            g.emit(format!("merge {} {} 2 2 0 61:1,61:2,62:5,61:1", m, b));
        }
    }
    g.emit("merge sum 3 2 1 0 .".into());
    g.emit("merge set 3 2 1 0 .".into());
    for i in 0..n {
        let nrows = 1 + g.rng.below(14) as usize;
        let distinct = i % 5 == 0;
        let mut rows: Kv = vec![];
        for j in 0..nrows {
            let k = if distinct { format!("d{:02}", (j * 7) % 50) } else { g.rng.pick(&keyu).to_string() };
            rows.push((k.into_bytes(), 1 + g.rng.below(100)));
        }
        if distinct {
            rows.sort();
            rows.dedup_by(|a, b| a.0 == b.0);
            // shuffled order
            for j in (1..rows.len()).rev() {
                let k = g.rng.below(j as u64 + 1) as usize;
                rows.swap(j, k);
            }
        }
        let mode = modes[i % 4];
        let batch = 1 + g.rng.below(nrows as u64 + 1);
        let fd = 2 + g.rng.below(4);
        let threads = 1 + g.rng.below(if i % 7 == 0 { 16 } else { 4 });
        let seeds = if g.thorough { 4 } else { 2 };
        let rs: String = rows.iter().map(|(k, v)| format!("{}:{}", hex(k), if mode == "set" { 0 } else { *v })).collect::<Vec<_>>().join(",");
        for s in 0..seeds {
            let seed = if s == 0 { 0 } else { 1 + g.rng.below(1000) };
            g.emit(format!("merge {} {} {} {} {} {}", mode, batch, fd, threads, seed, rs));
        }
    }
    // lines whose content ends in CR (a line ends at LF or CRLF: exactly one CR belongs to the
    // terminator), and the same input file listed several times (it counts every time)
    {
        let crkeys: Vec<&[u8]> = vec![b"foo\r", b"foo", b"baz\r", b"\r", b"a\r\r", b"a\r", b"a", b"k1", b"zz\r", b"m"];
        for i in 0..(if g.thorough { 200 } else { 30 }) {
            let nrows = 2 + g.rng.below(9) as usize;
            let rows: Vec<String> = (0..nrows).map(|_| format!("{}:0", hex(*g.rng.pick(&crkeys)))).collect();
            let batch = 1 + g.rng.below(4);
            let fd = 2 + g.rng.below(3);
            let threads = 1 + g.rng.below(3);
            g.emit(format!("merge set {} {} {} {} {} {}", batch, fd, threads, i % 3, rows.join(","), ["one,keepnl", "one,nonl"][i % 2]));
        }
        for i in 0..(if g.thorough { 240 } else { 40 }) {
            let mode = modes[i % 4];
            let nrows = 2 + g.rng.below(8) as usize;
            let rows: Vec<String> = (0..nrows)
                .map(|_| format!("{}:{}", hex(g.rng.pick(&keyu).as_bytes()), if mode == "set" { 0 } else { 1 + g.rng.below(50) }))
                .collect();
            let k = 1 + g.rng.below(nrows as u64 - 1);
            let n = 1 + g.rng.below(3);
            let batch = 1 + g.rng.below(5);
            let fd = 2 + g.rng.below(3);
            let threads = 1 + g.rng.below(3);
            g.emit(format!("merge {} {} {} {} {} {} rep:{}:{}", mode, batch, fd, threads, i % 2, rows.join(","), k, n));
        }
    }
    // many small batches over several workers: generations long enough for the order in
    // which `Sorters::results` returns them to show structure (checked against the
    // protocol model's `validOrder`)
    for i in 0..(if g.thorough { 300 } else { 40 }) {
        let nrows = 20 + g.rng.below(50) as usize;
        let mode = modes[i % 4];
        let rows: Kv = (0..nrows)
            .map(|_| (g.rng.pick(&keyu).to_string().into_bytes(), 1 + g.rng.below(100)))
            .collect();
        let rs: String = rows.iter().map(|(k, v)| format!("{}:{}", hex(k), if mode == "set" { 0 } else { *v })).collect::<Vec<_>>().join(",");
        let batch = 1 + g.rng.below(3);
        let fd = 2 + g.rng.below(3);
        let threads = 1 + g.rng.below(5);
        let seed = 1 + g.rng.below(1000);
        g.emit(format!("merge {} {} {} {} {} {}", mode, batch, fd, threads, seed, rs));
    }
    // the order predicate itself, on every permutation of up to 5 (thorough: 6) results
    // and on malformed orders, for 1..4 workers
    fn perms(n: usize) -> Vec<Vec<usize>> {
        if n == 0 {
            return vec![vec![]];
        }
        let mut out = vec![];
        for p in perms(n - 1) {
            for i in 0..=p.len() {
                let mut q = p.clone();
                q.insert(i, n - 1);
                out.push(q);
            }
        }
        out
    }
    for n in 0..=(if g.thorough { 6 } else { 5 }) {
        for p in perms(n) {
            let o = p.iter().map(|x| x.to_string()).collect::<Vec<_>>().join(",");
            for threads in 1..=4 {
                g.emit(format!("sched {} {} {}", threads, n, o));
            }
        }
    }
    for o in ["0,0", "0,2", "1", "0,1,1", "2,1,0,0", "0,1,2,3"] {
        for threads in 1..=3 {
            g.emit(format!("sched {} 3 {}", threads, o));
        }
    }
}

pub fn c20(g: &mut G) {
    g.emit("!scale sizes".into());
    g.emit("!reuse 7".into());
    g.emit("!conc 7".into());
    // boundary grid of header / footer fields for lengths 0..64
    let versions: [u64; 8] = [0, 1, 2, 3, 4, 255, 1 << 32, u64::MAX];
    for len in 0..=64usize {
        for &v in &versions {
            let roots: Vec<u64> = vec![0, 1, 15, 16, len.wrapping_sub(21) as u64, len.wrapping_sub(17) as u64, len as u64, 1 << 63, u64::MAX, u64::MAX - 20, u64::MAX - 16];
            for &root in &roots {
                for &foot in &[0usize, 4] {
                    let mut b = vec![0u8; len];
                    for (i, x) in v.to_le_bytes().iter().enumerate() {
                        if i < len {
                            b[i] = *x;
                        }
                    }
                    if len >= foot + 8 {
                        let at = len - foot - 8;
                        b[at..at + 8].copy_from_slice(&root.to_le_bytes());
                    }
                    if len >= foot + 16 {
                        let at = len - foot - 16;
                        b[at..at + 8].copy_from_slice(&(g.rng.next() >> g.rng.below(64)).to_le_bytes());
                    }
                    g.emit(format!("open {}", hex(&b)));
                    // the same garbage sealed with a CORRECT checksum: verify() gets past the CRC
                    if v == 3 && foot == 4 && len >= 36 {
                        let c = mask(crc32c_bitwise(&b[..len - 4]));
                        b[len - 4..].copy_from_slice(&c.to_le_bytes());
                        g.emit(format!("open {}", hex(&b)));
                    }
                }
            }
        }
    }
    // truncations and single-byte mutations of valid FSTs
    let sets = key_sets(g);
    let mut done = 0;
    for (i, (_, keys)) in sets.iter().enumerate() {
        if i % 11 != 0 {
            continue;
        }
        let kv = values(keys, i % VALUE_PATTERNS, &mut g.rng);
        let bytes = match crate::sink::vec_build(0, &ins_calls(&kv)) {
            Some(b) => b,
            None => continue,
        };
        if bytes.len() > 400 {
            continue;
        }
        done += 1;
        for l in 0..bytes.len() {
            g.emit(format!("open {}", hex(&bytes[..l])));
        }
        let muts = if g.thorough { bytes.len() * 8 } else { bytes.len() };
        for m in 0..muts {
            let mut b = bytes.clone();
            let pos = if g.thorough { m / 8 } else { m };
            b[pos] = if m % 3 == 0 { b[pos] ^ (1 << g.rng.below(8)) } else { g.rng.below(256) as u8 };
            g.emit(format!("open {}", hex(&b)));
        }
        if done > (if g.thorough { 40 } else { 10 }) {
            break;
        }
    }
    // random strings
    for _ in 0..(if g.thorough { 100_000 } else { 8_000 }) {
        let l = g.rng.below(80) as usize;
        let mut b: Vec<u8> = (0..l).map(|_| g.rng.below(256) as u8).collect();
        if l >= 8 && g.rng.chance(3, 4) {
            b[..8].copy_from_slice(&(1 + g.rng.below(3)).to_le_bytes());
        }
        g.emit(format!("open {}", hex(&b)));
    }
}
