//! Generators for C05–C08, C11.
use crate::gen::*;
use crate::run::{show_calls, Call, Kv};
use crate::sink::{new_sink, Resp};
use crate::util::*;

fn kvs_str(kv: &Kv) -> String {
    if kv.is_empty() {
        ".".to_string()
    } else {
        kv.iter().map(|(k, v)| format!("{}:{}", hex(k), v)).collect::<Vec<_>>().join(",")
    }
}

pub fn c05(g: &mut G) {
    // more streams than a 16-bit index can count; very long runs of shared keys
    g.emit("!scale manystreams 70000".into());
    g.emit("!scale bigdiff 400000".into());
    c05_universe(g, &universe(b"ab", 2), 1);
    // keys that differ only by trailing NUL bytes / are prefixes of each other with byte 0
    c05_universe(g, &universe(&[0x00, 0x61], 2), 4);
    // 0xff and multi-byte boundaries
    c05_universe(g, &universe(&[0x61, 0xff], 2), 8);
}

fn c05_universe(g: &mut G, u: &[Vec<u8>], thin: u64) {
    let n = u.len() as u32;
    let kinds = ["union", "inter", "symdiff", "diff"];
    let emit_tuple = |g: &mut G, masks: &[u64]| {
        // values chosen to force heap ties: small range, equal and different
        let streams: Vec<String> = masks
            .iter()
            .map(|&m| {
                let keys = subset(u, m);
                let kv: Kv = keys.iter().map(|k| (k.clone(), g.rng.below(3))).collect();
                kvs_str(&kv)
            })
            .collect();
        let s = streams.join("|");
        for k in &kinds {
            g.emit(format!("ops {} {}", k, s));
        }
        if masks.len() == 2 {
            for k in &["disjoint", "subset", "superset"] {
                g.emit(format!("ops {} {}", k, s));
            }
        }
    };
    // k = 1, 2 exhaustive
    for m in 0..(1u64 << n) {
        emit_tuple(g, &[m]);
    }
    for a in 0..(1u64 << n) {
        for b in 0..(1u64 << n) {
            if (g.thorough && thin == 1) || (a * 131 + b * 7) % (4 * thin) == 0 {
                emit_tuple(g, &[a, b]);
            }
        }
    }
    // k = 3: sample (thorough: a large sample), k = 4..6 sampled
    let n3 = (if g.thorough { 60_000 } else { 4_000 }) / thin;
    for _ in 0..n3 {
        let ms = [g.rng.below(1 << n), g.rng.below(1 << n), g.rng.below(1 << n)];
        emit_tuple(g, &ms);
    }
    for _ in 0..((if g.thorough { 8_000 } else { 800 }) / thin) {
        let k = 4 + g.rng.below(3) as usize;
        let ms: Vec<u64> = (0..k).map(|_| g.rng.below(1 << n)).collect();
        emit_tuple(g, &ms);
    }
    if thin != 1 {
        return;
    }
    // identical streams, larger random maps
    for _ in 0..(if g.thorough { 300 } else { 40 }) {
        let mut rng = Rng::new(g.rng.next());
        let k = 2 + g.rng.below(4) as usize;
        let base = random_words(&mut rng, 40, b"abc", 6);
        let streams: Vec<String> = (0..k)
            .map(|_| {
                let mut kv: Kv = vec![];
                for w in &base {
                    if g.rng.chance(2, 3) {
                        kv.push((w.clone(), g.rng.below(5)));
                    }
                }
                kvs_str(&kv)
            })
            .collect();
        for kd in &kinds {
            g.emit(format!("ops {} {}", kd, streams.join("|")));
        }
    }
}

pub fn c06(g: &mut G) {
    let keys: Vec<Vec<u8>> = vec![vec![], b"a".to_vec(), b"aa".to_vec(), b"ab".to_vec(), b"b".to_vec()];
    let maxlen = if g.thorough { 5 } else { 4 };
    // all call sequences up to maxlen over keys × {add, insert v}
    let mut alphabet: Vec<Call> = vec![];
    for k in &keys {
        alphabet.push(Call::Add(k.clone()));
        alphabet.push(Call::Ins(k.clone(), 3));
    }
    let a = alphabet.len();
    let mut count = 0u64;
    for len in 1..=maxlen {
        let total = (a as u64).pow(len as u32);
        // exhaustive for raw mixed sequences up to length 3; longer ones strided
        let stride = if len <= 3 { 1 } else if g.thorough { 3 } else { 17 };
        let mut idx = 0u64;
        while idx < total {
            let mut calls = vec![];
            let mut x = idx;
            for j in 0..len {
                let mut c = alphabet[(x % a as u64) as usize].clone();
                if let Call::Ins(_, ref mut v) = c {
                    *v = (j as u64 + 1) * 5;
                }
                calls.push(c);
                x /= a as u64;
            }
            g.emit(build_line("raw", 0, GEOMS[(count % 7) as usize], "seq", &calls));
            count += 1;
            idx += stride;
        }
    }
    // pure map / set builders, exhaustively to length maxlen over the 5 keys
    for len in 1..=maxlen {
        let total = 5u64.pow(len as u32);
        for idx in 0..total {
            let mut x = idx;
            let mut ks = vec![];
            for _ in 0..len {
                ks.push(keys[(x % 5) as usize].clone());
                x /= 5;
            }
            // values decrease or increase along the sequence (a rejected duplicate may carry a smaller value)
            // … or is 0 everywhere / only on the later calls (a repeat with value 0 must still be a duplicate)
            let ins: Vec<Call> = ks
                .iter()
                .enumerate()
                .map(|(j, k)| {
                    Call::Ins(
                        k.clone(),
                        match idx % 4 {
                            0 => j as u64 + 1,
                            1 => 10 * (len - j) as u64,
                            2 => 0,
                            _ => if j == 0 { 7 } else { 0 },
                        },
                    )
                })
                .collect();
            let adds: Vec<Call> = ks.iter().map(|k| Call::Add(k.clone())).collect();
            g.emit(build_line("map", 0, "default", "seq", &ins));
            g.emit(build_line("set", 0, "default", "seq", &adds));
            if idx % 3 == 1 || len <= 2 {
                // the same iterator handed to extend_iter again after each error
                g.emit(build_line("map_iter_resume", 0, "default", "resume", &ins));
                g.emit(build_line("set_iter_resume", 0, "default", "resume", &adds));
                g.emit(build_line("raw_iter_resume", 0, "default", "resume", &ins));
            }
            if idx % 3 == 0 || len <= 2 {
                for fe in ["map_iter", "map_stream", "map_from_iter", "raw_iter", "raw_stream", "raw_from_iter_map"] {
                    g.emit(build_line(fe, 0, "default", "stop", &ins));
                }
                for fe in ["set_iter", "set_stream", "set_from_iter", "raw_from_iter_set"] {
                    g.emit(build_line(fe, 0, "default", "stop", &adds));
                }
            }
        }
    }
    // long keys: the last key kept for the ordering check is as long as the key (4096+ bytes),
    // every depth up to 300 gets its first key, proper prefixes and extensions of long keys
    {
        let body = |l: usize, salt: usize| -> Vec<u8> { (0..l).map(|i| b'a' + ((i * 7 + i / 13 + salt) % 5) as u8).collect() };
        let base = body(5000, 1);
        let mut u: Vec<Vec<u8>> = vec![];
        for l in [100usize, 128, 129, 130, 300, 4095, 4096, 4097, 4100, 5000] {
            u.push(base[..l].to_vec());
            let mut k = base[..l].to_vec();
            let m = k.len() - 1;
            k[m] = b'0'; // smaller than base at that position
            u.push(k);
            let mut k2 = base[..l].to_vec();
            k2.push(b'z');
            u.push(k2);
        }
        u.sort();
        u.dedup();
        for i in 0..(if g.thorough { 200 } else { 40 }) {
            let mut rng = Rng::new(g.rng.next());
            let mut calls: Vec<Call> = vec![];
            let mut j = rng.below(3) as usize;
            while j < u.len() {
                calls.push(if i % 2 == 0 { Call::Ins(u[j].clone(), rng.below(500)) } else { Call::Add(u[j].clone()) });
                // rejected calls: the same key, an earlier key, a proper prefix, a key that agrees
                // with the last one on its first 4096 bytes but is smaller
                while rng.chance(2, 5) {
                    let back = rng.below(j as u64 + 1) as usize;
                    let mut k = u[j - back].clone();
                    if rng.chance(1, 3) {
                        k.truncate(k.len().saturating_sub(1 + rng.below(3) as usize));
                    }
                    calls.push(if i % 2 == 0 { Call::Ins(k, rng.below(2)) } else { Call::Add(k) });
                }
                j += 1 + rng.below(3) as usize;
            }
            let fe = if i % 2 == 0 { ["map", "raw"][i / 2 % 2] } else { ["set", "raw"][i / 2 % 2] };
            g.emit(build_line(fe, 0, if fe == "raw" { GEOMS[i % 7] } else { "default" }, "seq", &calls));
            if i % 4 == 0 {
                g.emit("stream always - -".into());
            }
        }
    }
    // random long sequences with an error rate
    for i in 0..(if g.thorough { 400 } else { 60 }) {
        let mut rng = Rng::new(g.rng.next());
        let words = random_words(&mut rng, 200, b"abc", 6);
        let rate = (i % 6) as u64; // 0..50 %
        let mut calls = vec![];
        let mut j = 0usize;
        while j < words.len() {
            if rng.below(10) < rate && j > 0 {
                // a rejected call: duplicate or a smaller key
                let back = rng.below(j as u64 + 1) as usize;
                let k = words[j - 1 - back.min(j - 1)].clone();
                calls.push(if i % 2 == 0 { Call::Ins(k, 1) } else { Call::Add(k) });
            } else {
                calls.push(if i % 2 == 0 { Call::Ins(words[j].clone(), rng.below(1000)) } else { Call::Add(words[j].clone()) });
                j += 1;
            }
        }
        let fe = if i % 2 == 0 { "map" } else { "set" };
        g.emit(build_line(fe, 0, "default", "seq", &calls));
        g.emit(build_line("raw", 0, GEOMS[i % 7], "seq", &calls));
    }
}

fn sample_inputs(g: &mut G) -> Vec<Vec<Call>> {
    let mut v = vec![];
    v.push(vec![]);
    v.push(ins_calls(&vec![(b"bar".to_vec(), 1), (b"baz".to_vec(), 2), (b"foo".to_vec(), 300), (b"foobar".to_vec(), 300)]));
    v.push(add_calls(&[vec![], b"a".to_vec(), b"ab".to_vec()]));
    let u = universe(b"ab", 2);
    for _ in 0..(if g.thorough { 12 } else { 4 }) {
        let keys = subset(&u, g.rng.below(1 << u.len()));
        let kv = values(&keys, (g.rng.below(8)) as usize, &mut g.rng);
        v.push(ins_calls(&kv));
    }
    v.push(add_calls(&fanout_keys(40, false, false, true)));
    // keys longer than 64 bytes whose 64th byte falls inside a multi-byte character, after a shorter one
    {
        let mut k1: Vec<u8> = std::iter::repeat(b'k').take(63).collect();
        k1.extend_from_slice("é☃😀 tail".as_bytes());
        // (k0 < k1, diverging at byte 62: inserting k1 writes the nodes of k0's tail)
        let mut k0: Vec<u8> = std::iter::repeat(b'k').take(62).collect();
        k0.extend_from_slice(b"aabbcc");
        let mut k2 = k1.clone();
        k2.extend_from_slice("…and more than a hundred and twenty-eight bytes in total, to be sure about it".as_bytes());
        let mut ks = vec![b"a".to_vec(), k0, k1, k2];
        ks.sort();
        v.push(ins_calls(&ks.iter().enumerate().map(|(i, k)| (k.clone(), 1000 * i as u64 + 1)).collect::<Kv>()));
    }
    v
}

fn script_str(s: &[Resp]) -> String {
    if s.is_empty() {
        return "-".into();
    }
    s.iter()
        .map(|r| match r {
            Resp::Take(n) => format!("T{}", n),
            Resp::Interrupted => "I".into(),
            Resp::Fail(k) => format!("F{}", k),
        })
        .collect::<Vec<_>>()
        .join(",")
}

/// number of `write` calls of a clean run (W), measured on the real builder
fn measure_w(calls: &[Call], script: &[Resp]) -> usize {
    let sink = new_sink(&[], script.to_vec(), None);
    let h = sink.clone();
    if let Ok(mut b) = fst::raw::Builder::new_type(sink, 0) {
        for c in calls {
            let _ = match c {
                Call::Ins(k, v) => b.insert(k, *v),
                Call::Add(k) => b.add(k),
            };
        }
        let _ = b.into_inner();
    }
    let n = h.0.borrow().calls;
    n
}

pub fn c07(g: &mut G) {
    g.emit("!scale interrupts 200000".into());
    let inputs = sample_inputs(g);
    for calls in &inputs {
        let ops = show_calls(calls);
        let w = measure_w(calls, &[]);
        // fixed caps 1..16 (and some above 16 that are not multiples of 16): every call accepts at most `cap` bytes
        for cap in (1..=16usize).chain([17usize, 20, 31, 33, 47, 100, 255, 257]) {
            let script: Vec<Resp> = (0..(w * 10 + 64)).map(|_| Resp::Take(cap)).collect();
            g.emit(format!("sink 0 default {} - _ {}", script_str(&script), ops));
        }
        // a single short write at every call index
        for i in 0..w.min(if g.thorough { 400 } else { 80 }) {
            let mut script: Vec<Resp> = (0..i).map(|_| Resp::Take(1 << 20)).collect();
            script.push(Resp::Take(1));
            g.emit(format!("sink 0 10000x2 {} - _ {}", script_str(&script), ops));
        }
        // Interrupted bursts, pre-filled sinks, random acceptance
        for j in 0..(if g.thorough { 40 } else { 10 }) {
            let mut script = vec![];
            for _ in 0..(w * 3 + 8) {
                let r = g.rng.below(10);
                script.push(if r < 3 { Resp::Interrupted } else { Resp::Take(1 + g.rng.below(9) as usize) });
            }
            let prefill: Vec<u8> = (0..(j % 4) * 3).map(|x| x as u8 ^ 0xa5).collect();
            g.emit(format!("sink 0 {} {} - {} {}", GEOMS[j % 7], script_str(&script), hex(&prefill), ops));
        }
    }
    // every front end over short-writing / interrupting sinks
    for calls in &sample_inputs(g) {
        let ops = if calls.is_empty() { "-".to_string() } else { show_calls(calls) };
        for (j, fe) in ["map", "set", "map_iter", "set_iter", "map_stream", "set_stream", "raw_iter", "raw_stream"].iter().enumerate() {
            let script: Vec<Resp> = (0..4000).map(|i| if (i + j) % 4 == 3 { Resp::Interrupted } else { Resp::Take(1 + (i * 3 + j) % 5) }).collect();
            g.emit(format!("sink 0 default {} - _ {} {}", script_str(&script), ops, fe));
            g.emit("verify".into());
            g.emit("stream always - -".into());
        }
    }
    // the sink of the command-line tool: a file that may already exist (and be longer)
    for (i, what) in ["set", "map", "union", "set", "map", "union"].iter().enumerate() {
        let words = ["apple", "banana", "cherry", "damson", "elder", "fig", "grape", "k1", "k2", "zz"];
        let n = 2 + g.rng.below(8) as usize;
        let rows: Vec<String> = (0..n).map(|j| format!("{}:{}", hex(words[(j * 3 + i) % words.len()].as_bytes()), 1 + j)).collect();
        g.emit(format!("!cli {} {} {}", what, if i < 3 { 0 } else { 900 }, rows.join(",")));
    }
    // a 1 000-key map through a chunky sink
    let mut rng = Rng::new(g.rng.next());
    let words = random_words(&mut rng, 1000, b"abcdef", 8);
    let kv = values(&words, 1, &mut g.rng);
    let script: Vec<Resp> = (0..20000).map(|i| Resp::Take(1 + (i * 7) % 13)).collect();
    g.emit(format!("sink 0 default {} - aabbcc {}", script_str(&script), show_calls(&ins_calls(&kv))));
    g.emit(format!("!bufwriter {}", show_calls(&ins_calls(&kv))));
}

pub fn c11(g: &mut G) {
    let inputs = sample_inputs(g);
    for calls in &inputs {
        let ops = if calls.is_empty() { "-".to_string() } else { show_calls(calls) };
        let w = measure_w(calls, &[]);
        let lim = if g.thorough { w } else { w.min(120) };
        for i in 0..lim {
            // every error kind incl. WouldBlock; a cache that evicts on every compile for odd i
            let geom = if i % 2 == 1 { "1x1" } else { "default" };
            for kind in 0..(if g.thorough { 4 } else { 3 }) {
                let mut script: Vec<Resp> = (0..i).map(|_| Resp::Take(1 << 20)).collect();
                // every io::ErrorKind of the sink's repertoire, rotating with the position
                script.push(Resp::Fail(((i as u64) * 5 + kind * 4) % 12));
                g.emit(format!("sink 0 {} {} - _ {}", geom, script_str(&script), ops));
            }
            // the same failure position under every front end (wrappers, extend_iter,
            // extend_stream): an error inside a batch call must stop the batch
            {
                let fes = ["map", "set", "map_iter", "set_iter", "map_stream", "set_stream", "raw_iter", "raw_stream"];
                let fe = fes[i % fes.len()];
                let mut script: Vec<Resp> = (0..i).map(|_| Resp::Take(1 << 20)).collect();
                script.push(Resp::Fail((i as u64 * 7 + 4) % 12));
                g.emit(format!("sink 0 default {} - _ {} {}", script_str(&script), ops, fe));
                let fe2 = fes[(i + 3) % fes.len()];
                g.emit(format!("sink 0 default {} - _ {} {}", script_str(&script), ops, fe2));
                for fe3 in ["set_iter", "map_iter"] {
                    if fe3 != fe && fe3 != fe2 {
                        g.emit(format!("sink 0 default {} - _ {} {}", script_str(&script), ops, fe3));
                    }
                }
            }
            let mut script: Vec<Resp> = (0..i).map(|_| Resp::Take(1 << 20)).collect();
            script.push(Resp::Take(0));
            g.emit(format!("sink 0 default {} - _ {}", script_str(&script), ops));
        }
        // a sink that takes 64 bytes per call and fails on a LATER fragment of a write (the
        // 256-byte index of a wide node is one write): at every call index
        for i in 0..(w * 3).min(if g.thorough { 400 } else { 90 }) {
            let mut script: Vec<Resp> = (0..i).map(|_| Resp::Take(64)).collect();
            script.push(if i % 3 == 0 { Resp::Take(0) } else { Resp::Fail((i as u64) % 12) });
            g.emit(format!("sink 0 default {} - _ {}", script_str(&script), ops));
        }
        // after a failed build, a DIFFERENT input on the same thread: whatever the failed build left
        // behind (scratch tables, pooled caches) must not show in the next result
        if calls.len() >= 30 {
            let other_wide: Vec<Vec<u8>> = (0..45u8).map(|i| vec![0x41 + i]).collect();
            let other = show_calls(&add_calls(&other_wide));
            for i in 0..(w + 2).min(if g.thorough { 1000 } else { 400 }) {
                let mut script: Vec<Resp> = (0..i).map(|_| Resp::Take(1 << 20)).collect();
                script.push(Resp::Fail((i as u64) % 12));
                g.emit(format!("sink 0 default {} - _ {}", script_str(&script), ops));
                g.emit(format!("sink 0 default - - _ {} set", other));
                g.emit("has 40".into());
                g.emit("has 7e".into());
                g.emit("has 41".into());
                // the first bytes of the failed build's keys are absent here
                for c in calls.iter().step_by(3) {
                    let k = match c { Call::Ins(k, _) | Call::Add(k) => k };
                    if !k.is_empty() && !(0x41..0x41 + 45).contains(&k[0]) {
                        g.emit(format!("has {}", hex(&k[..1])));
                    }
                }
                g.emit("stream always - -".into());
            }
        }
        // the final flush fails
        for kind in 0..12 {
            g.emit(format!("sink 0 default - {} _ {}", kind, ops));
        }
        for (j, fe) in ["map", "set", "map_iter", "set_iter", "map_stream", "set_stream", "raw_iter", "raw_stream"].iter().enumerate() {
            g.emit(format!("sink 0 default - {} _ {} {}", 4 + j % 2, ops, fe));
        }
        // failure after some short writes / interruptions
        for _ in 0..(if g.thorough { 30 } else { 6 }) {
            let mut script = vec![];
            let at = g.rng.below(w as u64 * 2 + 1) as usize;
            for _ in 0..at {
                script.push(if g.rng.chance(1, 4) { Resp::Interrupted } else { Resp::Take(1 + g.rng.below(4) as usize) });
            }
            script.push(Resp::Fail(g.rng.below(12)));
            g.emit(format!("sink 0 2x2 {} - _ {}", script_str(&script), ops));
            let fes = ["map_iter", "set_iter", "map_stream", "set_stream", "map", "set"];
            let fe = fes[g.rng.below(fes.len() as u64) as usize];
            g.emit(format!("sink 0 default {} - _ {} {}", script_str(&script), ops, fe));
        }
    }
}

pub fn c08(g: &mut G) {
    // file sizes at every residue around multiples of 64 KiB / 128 KiB; a file of 17 MiB
    g.emit("!reuse 4".into());
    g.emit("!conc 4".into());
    g.emit("!scale sizes".into());
    g.emit("!scale bigfile set 21".into());
    // the command-line writer: fresh path and --force over a longer existing file
    for (i, what) in ["set", "map", "union", "set", "map", "union"].iter().enumerate() {
        let words = ["apple", "banana", "cherry", "damson", "elder", "fig", "grape", "k1", "k2", "zz"];
        let rows: Vec<String> = (0..(3 + i)).map(|j| format!("{}:{}", hex(words[(j * 3 + i) % words.len()].as_bytes()), 1 + j)).collect();
        g.emit(format!("!cli {} {} {}", what, if i < 3 { 0 } else { 900 }, rows.join(",")));
    }
    // several MiB of multi-byte nodes (any checksum batching has to cope with writes that straddle its blocks)
    g.emit("!scale bigmap 700000".into());
    // checksum of arbitrary data across the 16-byte fast path boundary
    let maxlen = if g.thorough { 4096 } else { 600 };
    let mut len = 0usize;
    while len <= maxlen {
        let data: Vec<u8> = (0..len).map(|_| g.rng.below(256) as u8).collect();
        g.emit(format!("crc {}", hex(&data)));
        len += if len < 70 { 1 } else if g.thorough { 13 } else { 37 };
    }
    // RFC 3720 vectors
    g.emit(format!("crc {}", hex(&[0u8; 32])));
    g.emit(format!("crc {}", hex(&[0xffu8; 32])));
    g.emit(format!("crc {}", hex(&(0..32u8).collect::<Vec<_>>())));
    g.emit(format!("crc {}", hex(b"123456789")));
    // all chunkings of short data (compositions of the length)
    let data: Vec<u8> = (0..(if g.thorough { 12 } else { 9 })).map(|_| g.rng.below(256) as u8).collect();
    let n = data.len();
    for cut in 0..(1u64 << (n - 1)) {
        let mut chunks = vec![];
        let mut cur = vec![data[0]];
        for i in 1..n {
            if cut >> (i - 1) & 1 == 1 {
                chunks.push(hex(&cur));
                cur = vec![];
            }
            cur.push(data[i]);
        }
        chunks.push(hex(&cur));
        g.emit(format!("crc {}", chunks.join("|")));
    }
    // random chunkings of longer data
    for _ in 0..(if g.thorough { 400 } else { 60 }) {
        let l = 17 + g.rng.below(200) as usize;
        let d: Vec<u8> = (0..l).map(|_| g.rng.below(256) as u8).collect();
        let mut chunks = vec![];
        let mut i = 0;
        while i < l {
            let c = (1 + g.rng.below(40) as usize).min(l - i);
            chunks.push(hex(&d[i..i + c]));
            i += c;
        }
        g.emit(format!("crc {}", chunks.join("|")));
    }
    // FSTs built through sinks that accept writes piecewise must verify too
    for calls in sample_inputs(g) {
        let ops = show_calls(&calls);
        for cap in [1usize, 3, 7] {
            let script: Vec<Resp> = (0..4000).map(|i| if i % 5 == 4 { Resp::Interrupted } else { Resp::Take(cap) }).collect();
            g.emit(format!("sink 0 default {} - _ {}", script_str(&script), ops));
        }
    }
    // built FSTs verify; every single-byte alteration is detected
    let sets = key_sets(g);
    let mut nsmall = 0;
    for (i, (label, keys)) in sets.iter().enumerate() {
        let kv = values(keys, i % VALUE_PATTERNS, &mut g.rng);
        let calls = ins_calls(&kv);
        g.emit(format!("# set {}", label));
        if label.starts_with("dense") {
            // more keys than bytes (complete tries share every suffix): as a set and
            // as a constant-valued map
            let adds: Vec<Call> = keys.iter().map(|k| Call::Add(k.clone())).collect();
            g.emit(build_line("set", 0, GEOMS[6], "seq", &adds));
            g.emit("verify".into());
            let kv0: Kv = keys.iter().map(|k| (k.clone(), 0)).collect();
            g.emit(build_line("map", 0, GEOMS[6], "seq", &ins_calls(&kv0)));
            g.emit("verify".into());
        }
        g.emit(build_line("raw", 0, GEOMS[i % 7], "seq", &calls));
        g.emit("verify".into());
        let bytes = match crate::sink::vec_build(0, &calls) {
            Some(b) => b,
            None => continue,
        };
        if bytes.len() <= 80 && nsmall < (if g.thorough { 40 } else { 5 }) {
            nsmall += 1;
            // exhaustive: every position × every value
            for pos in 0..bytes.len() {
                for x in 0..=255u8 {
                    if x != bytes[pos] {
                        let mut b = bytes.clone();
                        b[pos] = x;
                        g.emit(format!("corrupt {}", hex(&b)));
                    }
                }
            }
        } else if bytes.len() <= 1500 {
            for _ in 0..(if g.thorough { 300 } else { 12 }) {
                let mut b = bytes.clone();
                let pos = g.rng.below(b.len() as u64) as usize;
                let burst = 1 + g.rng.below(4) as usize;
                let mut changed = false;
                for j in 0..burst {
                    if pos + j < b.len() {
                        let x = g.rng.below(256) as u8;
                        if x != b[pos + j] {
                            changed = true;
                        }
                        b[pos + j] = x;
                    }
                }
                if changed {
                    g.emit(format!("corrupt {}", hex(&b)));
                }
            }
        }
    }
}
