//! node codec, Levenshtein construction, spec expectations, CLI merge, Gen dump.
use std::collections::BTreeMap;
use std::process::Command;

use fst::automaton::{Automaton, Levenshtein, LevenshteinError};
use fst::raw;
use utf8_ranges::Utf8Sequences;

use crate::run::{Kv, Runner};
use crate::util::*;

pub fn utf8_full() -> String {
    let mut seqs = vec![];
    for seq in Utf8Sequences::new('\u{0}', '\u{10FFFF}') {
        let rs: Vec<String> = seq
            .as_slice()
            .iter()
            .map(|r| format!("{}-{}", r.start, r.end))
            .collect();
        seqs.push(rs.join(","));
    }
    seqs.join("/")
}

/// `Utf8Sequences::new(c, c)` is the single sequence of single-byte ranges
/// spelling the UTF-8 encoding of `c` (assumed by Model/Lev.lean).
pub fn utf8_single_ok(c: char) -> bool {
    let mut buf = [0u8; 4];
    let enc = c.encode_utf8(&mut buf).as_bytes().to_vec();
    let seqs: Vec<_> = Utf8Sequences::new(c, c).collect();
    seqs.len() == 1
        && seqs[0].len() == enc.len()
        && seqs[0]
            .as_slice()
            .iter()
            .zip(&enc)
            .all(|(r, b)| r.start == *b && r.end == *b)
}

/// masked CRC of `header ++ payload ++ footer` as reported by `verify()`.
pub fn crc_via_verify(payload: &[u8]) -> u32 {
    let (frame, _) = crc_frame(payload);
    let f = raw::Fst::new(frame).unwrap();
    match f.verify() {
        Err(fst::Error::Fst(raw::Error::ChecksumMismatch { got, .. })) => got,
        Ok(()) => 0,
        Err(e) => panic!("verify: {:?}", e),
    }
}

pub fn crc_frame(payload: &[u8]) -> (Vec<u8>, Vec<u8>) {
    let mut body = vec![];
    body.extend_from_slice(&3u64.to_le_bytes());
    body.extend_from_slice(&0u64.to_le_bytes());
    body.extend_from_slice(payload);
    body.extend_from_slice(&0u64.to_le_bytes());
    body.extend_from_slice(&1u64.to_le_bytes());
    let mut frame = body.clone();
    frame.extend_from_slice(&0u32.to_le_bytes());
    (frame, body)
}

fn parse_trans(s: &str) -> Vec<raw::Transition> {
    s.split(',')
        .filter(|t| !t.is_empty())
        .map(|t| {
            let p: Vec<&str> = t.split(':').collect();
            raw::Transition {
                inp: p[0].parse::<u64>().unwrap() as u8,
                out: raw::Output::new(p[1].parse().unwrap()),
                addr: p[2].parse().unwrap(),
            }
        })
        .collect()
}

fn show_trans(ts: &[raw::Transition]) -> String {
    ts.iter()
        .map(|t| format!("{}:{}:{}", t.inp, t.out.value(), t.addr))
        .collect::<Vec<_>>()
        .join(",")
}

#[cfg(feature = "hooks")]
pub fn cmd_node(r: &mut Runner, t: &[&str]) -> String {
    // node <version> <last> <addr> <fin> <fout> <trans>
    let version: u64 = t[1].parse().unwrap();
    let last: usize = t[2].parse().unwrap();
    let addr: usize = t[3].parse().unwrap();
    let fin = t[4] == "1";
    let fout: u64 = t[5].parse().unwrap();
    let trans = parse_trans(t.get(6).copied().unwrap_or(""));
    let enc = raw::verif::compile_node(fin, fout, &trans, last, addr);
    if enc.is_empty() {
        return "node enc=_ | empty".into();
    }
    let mut data = vec![0xEEu8; addr];
    data.extend_from_slice(&enc);
    let a = addr + enc.len() - 1;
    let node = raw::verif::node_new(version, a, &data);
    let dts: Vec<raw::Transition> = node.transitions().collect();
    let end = a + 1 - node.as_slice().len();
    let finds: Vec<String> = (0..256u32)
        .map(|b| match node.find_input(b as u8) {
            Some(i) => i.to_string(),
            None => "-".to_string(),
        })
        .collect();
    // oracle: the reader returns what was encoded (C09 node level)
    let line = t.join(" ");
    let same = node.is_final() == fin
        && node.final_output().value() == (if fin { fout } else { 0 })
        && dts.len() == trans.len()
        && dts.iter().zip(&trans).all(|(x, y)| x.inp == y.inp && x.out == y.out && x.addr == y.addr)
        && end == addr
        && node.len() == trans.len();
    r.check(same, || format!("C09 node round trip: {} decoded fin={} fout={} end={} trans={}", line, node.is_final(), node.final_output().value(), end, show_trans(&dts)));
    // the node's accessors agree with each other (len / is_empty / transitions / transition(i) / transition_addr(i))
    let acc_ok = node.len() == dts.len()
        && node.is_empty() == dts.is_empty()
        && (0..node.len()).all(|i| {
            let t = node.transition(i);
            t.inp == dts[i].inp && t.out == dts[i].out && t.addr == dts[i].addr && node.transition_addr(i) == dts[i].addr
        });
    r.check(acc_ok, || format!("C09 C02 the accessors of a decoded node disagree (len={} is_empty={} transitions()={}): {}", node.len(), node.is_empty(), dts.len(), line));
    for b in 0..256usize {
        let want = trans.iter().position(|x| x.inp as usize == b);
        let got = node.find_input(b as u8);
        if got != want {
            r.check(false, || format!("C02/C09 find_input({}) = {:?} want {:?}: {}", b, got, want, line));
            break;
        }
    }
    for (i, tr) in trans.iter().enumerate() {
        let ga = node.transition_addr(i);
        if ga != tr.addr {
            r.check(false, || format!("C09 transition_addr({}) = {} want {}: {}", i, ga, tr.addr, line));
        }
    }
    r.checks += 2;
    format!(
        "node enc={} | dec fin={} fout={} end={} trans={} | find={:016x}",
        hex(&enc),
        node.is_final(),
        node.final_output().value(),
        end,
        show_trans(&dts),
        fnv64(finds.join(".").as_bytes())
    )
}

#[cfg(not(feature = "hooks"))]
pub fn cmd_node(_r: &mut Runner, _t: &[&str]) -> String {
    "nohook".into()
}

/// BFS over the public `Automaton` API of the real Levenshtein automaton.
pub fn dump_lev(lev: &Levenshtein) -> (usize, u64) {
    let mut seen: BTreeMap<usize, Vec<Option<usize>>> = BTreeMap::new();
    let mut stack = vec![0usize];
    while let Some(s) = stack.pop() {
        if seen.contains_key(&s) {
            continue;
        }
        let mut row = vec![];
        for b in 0..256u32 {
            let n = lev.accept(&Some(s), b as u8);
            row.push(n);
            if let Some(n) = n {
                if !seen.contains_key(&n) {
                    stack.push(n);
                }
            }
        }
        seen.insert(s, row);
    }
    let rows: Vec<String> = seen
        .iter()
        .map(|(i, row)| {
            format!(
                "{}{}{}",
                i,
                if lev.is_match(&Some(*i)) { "M" } else { "m" },
                row.iter()
                    .map(|n| match n {
                        Some(n) => n.to_string(),
                        None => "N".to_string(),
                    })
                    .collect::<Vec<_>>()
                    .join(".")
            )
        })
        .collect();
    (seen.len(), fnv64(rows.join("/").as_bytes()))
}

pub fn cmd_lev(r: &mut Runner, t: &[&str]) -> String {
    // lev <hexq> <d> <limit>
    let q = String::from_utf8(unhex(t[1])).unwrap();
    let d: u32 = t[2].parse().unwrap();
    let limit: usize = t[3].parse().unwrap();
    for c in q.chars() {
        let ok = utf8_single_ok(c);
        r.check(ok, || format!("utf8-ranges ({0},{0}) is not the encoding of {0:?}", c));
    }
    let res = Levenshtein::new_with_limit(&q, d, limit);
    #[cfg(feature = "hooks")]
    {
        // C17 limit clause: TooManyStates iff the unlimited construction is larger
        if let Ok(full) = Levenshtein::new_with_limit(&q, d, usize::MAX) {
            let n_full = full.verif_num_states();
            let want_err = n_full > limit;
            let line = t.join(" ");
            r.check(res.is_err() == want_err, || format!("C17 limit: {} states, limit {}, got {}: {}", n_full, limit, if res.is_err() { "TooManyStates" } else { "Ok" }, line));
        }
    }
    match res {
        Err(LevenshteinError::TooManyStates(l)) => format!("lev toomany {}", l),
        Ok(lev) => {
            let (reach, h) = dump_lev(&lev);
            #[cfg(feature = "hooks")]
            let n = lev.verif_num_states().to_string();
            #[cfg(not(feature = "hooks"))]
            let n = "?".to_string();
            format!("lev ok n={} r={} h={:016x}", n, reach, h)
        }
    }
}

pub fn cmd_spec(r: &mut Runner, t: &[&str]) -> String {
    // the expectation for the independent Lean format parser: what was inserted
    let bytes = unhex(t[1]);
    let ty = u64::from_le_bytes({
        let mut b = [0u8; 8];
        b.copy_from_slice(&bytes[8..16]);
        b
    });
    // C09, footer and header read by the format description alone
    if let Some(e) = r.expect.clone() {
        let n = bytes.len();
        let v = crate::run::version_of(&bytes);
        let foot = if v >= 3 { 4 } else { 0 };
        if n >= 32 + foot {
            let rd = |at: usize| -> u64 {
                let mut b = [0u8; 8];
                b.copy_from_slice(&bytes[at..at + 8]);
                u64::from_le_bytes(b)
            };
            let len_field = rd(n - foot - 16);
            let root = rd(n - foot - 8);
            r.check(len_field == e.len() as u64, || format!("C09 footer key count {} but {} distinct keys", len_field, e.len()));
            r.check(root == 0 || root as usize + 17 + foot == n, || format!("C09 root address {} is not the last node of a {}-byte file", root, n));
            if v >= 3 {
                let mut c = [0u8; 4];
                c.copy_from_slice(&bytes[n - 4..]);
                let want = mask(crc32c_bitwise(&bytes[..n - 4]));
                r.check(u32::from_le_bytes(c) == want, || "C09 trailing checksum is not the masked CRC-32C of the preceding bytes".to_string());
            }
        }
    }
    match &r.expect {
        Some(e) => format!(
            "spec v={} ty={} len={} tiled=true {}",
            crate::run::version_of(&bytes),
            ty,
            e.len(),
            show_kvs(e)
        ),
        None => "spec noexpect".into(),
    }
}

fn check_trace(trace: &str, nrows: usize, batch: usize, fd: usize, threads: usize) -> Result<(), String> {
    use std::collections::{BTreeMap, BTreeSet};
    let mut kv: BTreeMap<usize, usize> = BTreeMap::new();
    let mut unions: BTreeMap<usize, Vec<(usize, Vec<String>)>> = BTreeMap::new();
    for l in trace.lines() {
        let p: Vec<&str> = l.split(' ').collect();
        match p[0] {
            "kv" => {
                kv.insert(p[1].parse().map_err(|_| "bad kv line")?, p[2].parse().map_err(|_| "bad kv line")?);
            }
            "union" => {
                let g: usize = p[1].parse().map_err(|_| "bad union line")?;
                let i: usize = p[2].parse().map_err(|_| "bad union line")?;
                let files: Vec<String> = p.get(3).unwrap_or(&"").split(',').filter(|x| !x.is_empty()).map(|x| x.to_string()).collect();
                unions.entry(g).or_default().push((i, files));
            }
            _ => {}
        }
    }
    let b = batch.max(1);
    let nb = (nrows + b - 1) / b;
    if kv.len() != nb || kv.keys().cloned().collect::<Vec<_>>() != (0..nb).collect::<Vec<_>>() {
        return Err(format!("{} kv batches traced, {} expected", kv.len(), nb));
    }
    if kv.values().sum::<usize>() != nrows || kv.values().any(|&n| n == 0 || n > b) {
        return Err("batch sizes do not partition the rows".into());
    }
    let mut prev: BTreeSet<String> = (0..nb).map(|i| format!("batch{}", i)).collect();
    let mut g = 0;
    while prev.len() > 1 {
        let us = unions.get(&g).ok_or_else(|| format!("generation {} missing with {} results pending", g, prev.len()))?;
        let mut used: BTreeSet<String> = BTreeSet::new();
        let mut short = 0;
        for (_, files) in us {
            if files.is_empty() || files.len() > fd.max(1) {
                return Err(format!("generation {}: a union over {} inputs (fd-limit {})", g, files.len(), fd));
            }
            if files.len() < fd {
                short += 1;
            }
            for f in files {
                if !prev.contains(f) || !used.insert(f.clone()) {
                    return Err(format!("generation {}: input {} is not an unused result of the previous generation", g, f));
                }
            }
        }
        if used != prev {
            return Err(format!("generation {}: {} of {} previous results were not merged", g, prev.len() - used.len(), prev.len()));
        }
        if short > 1 {
            return Err(format!("generation {}: {} groups smaller than fd-limit", g, short));
        }
        // the order in which `Sorters::results` returned the previous generation's
        // results = the inputs of this generation's groups, in group order; the protocol
        // model (Model/Sched.lean, `sorters_order`) says: at most `threads` ascending runs
        {
            let mut by_index: Vec<&(usize, Vec<String>)> = us.iter().collect();
            by_index.sort_by_key(|x| x.0);
            let mut order: Vec<usize> = vec![];
            for (_, files) in by_index {
                for f in files {
                    let idx = f.rsplit("batch").next().and_then(|x| x.parse::<usize>().ok());
                    match idx {
                        Some(i) => order.push(i),
                        None => return Err(format!("generation {}: unparsable input name {}", g, f)),
                    }
                }
            }
            if !valid_order(threads.max(1), prev.len(), &order) {
                return Err(format!(
                    "generation {}: results came back in the order {:?}, which {} worker(s) receiving batches in index order cannot produce",
                    g, order, threads
                ));
            }
        }
        prev = us.iter().map(|(i, _)| format!("union-gen{}-batch{}", g, i)).collect();
        g += 1;
    }
    if unions.keys().any(|&k| k >= g) {
        return Err("unions after a single result remained".into());
    }
    Ok(())
}


/// number of maximal strictly ascending runs (mirror of `Fst.Sched.runs`)
pub fn runs(order: &[usize]) -> usize {
    if order.is_empty() {
        return 0;
    }
    1 + order.windows(2).filter(|w| !(w[0] < w[1])).count()
}

/// mirror of `Fst.Sched.validOrder`: the orders in which `Sorters::results` can
/// hand back the results of `total` batches processed by `threads` workers
pub fn valid_order(threads: usize, total: usize, order: &[usize]) -> bool {
    order.len() == total && (0..total).all(|i| order.contains(&i)) && runs(order) <= threads
}

/// `sched <threads> <total> <order>`: the predicate on a given order (both sides)
pub fn cmd_sched(t: &[&str]) -> String {
    let threads: usize = t[1].parse().unwrap();
    let total: usize = t[2].parse().unwrap();
    let order: Vec<usize> = t.get(3).unwrap_or(&"").split(',').filter(|x| !x.is_empty()).map(|x| x.parse().unwrap()).collect();
    format!("sched runs={} valid={}", runs(&order), valid_order(threads, total, &order))
}


fn merge_oracle(mode: &str, rows: &Kv) -> Kv {
    let mut m: BTreeMap<Vec<u8>, u64> = BTreeMap::new();
    for (k, v) in rows {
        m.entry(k.clone())
            .and_modify(|x| {
                *x = match mode {
                    "sum" => *x + *v,
                    "max" => (*x).max(*v),
                    "min" => (*x).min(*v),
                    _ => 0,
                }
            })
            .or_insert(if mode == "set" { 0 } else { *v });
    }
    m.into_iter().collect()
}

pub fn cmd_merge(r: &mut Runner, t: &[&str]) -> String {
    // merge <mode> <batch> <fd> <threads> <seed> <rows>   (rows: keys are printable ASCII)
    let mode = t[1];
    let batch = t[2];
    let fd = t[3];
    let threads = t[4];
    let seed = t[5];
    let file_rows = parse_kvs(t.get(6).copied().unwrap_or(""));
    // optional `rep:<k>:<n>`: the first k rows are one input file whose path is given
    // n more times at the end of the argument list (a file listed twice counts twice)
    // further options, comma separated: `one` = a single input file, `nonl` / `keepnl` = that
    // file's last line is not / is terminated (otherwise decided by a hash of the case)
    let opts: Vec<&str> = t.get(7).map(|x| x.split(',').collect()).unwrap_or_default();
    let rep: Option<(usize, usize)> = opts.iter().find_map(|x| {
        let p: Vec<&str> = x.split(':').collect();
        if p.len() == 3 && p[0] == "rep" {
            Some((p[1].parse().ok()?, p[2].parse().ok()?))
        } else {
            None
        }
    });
    let one = opts.contains(&"one");
    let nonl: Option<bool> = if opts.contains(&"nonl") { Some(true) } else if opts.contains(&"keepnl") { Some(false) } else { None };
    // what the rows mean: a line of a `fst set` input ends at `\n` or `\r\n`, so a line
    // whose content ends in CR loses ONE CR (bstr's line reader); then repeated files
    // (an unterminated last line keeps its CR: only `\r\n` is a terminator)
    let nrows_in = file_rows.len();
    let mut rows: Kv = file_rows
        .iter()
        .enumerate()
        .map(|(i, (k, v))| {
            let mut k = k.clone();
            let unterminated = one && nonl == Some(true) && i + 1 == nrows_in;
            if mode == "set" && k.last() == Some(&b'\r') && !unterminated {
                k.pop();
            }
            (k, *v)
        })
        .collect();
    if let Some((k, n)) = rep {
        let first: Kv = rows.iter().take(k).cloned().collect();
        for _ in 0..n {
            rows.extend(first.iter().cloned());
        }
    }
    let bin = std::env::var("FST_BIN").expect("FST_BIN");
    let dir = std::env::var("FST_TMP").unwrap_or_else(|_| "/verif/target/tmp".into());
    std::fs::create_dir_all(&dir).unwrap();
    let tag = format!("{}-{}", std::process::id(), r.line_no);
    let outp = format!("{}/out-{}.fst", dir, tag);
    // the rows are spread over 1..3 input files (consecutive chunks, so the
    // concatenation is the row list); with several files an EMPTY file is put
    // in between (not last)
    let salt = fnv64(t.join(" ").as_bytes());
    let nfiles = if rep.is_some() { 2 } else if one { 1 } else { 1 + (salt % 3) as usize };
    let mut chunks: Vec<Vec<(Vec<u8>, u64)>> = vec![vec![]; nfiles];
    let per = (file_rows.len() + nfiles - 1) / nfiles.max(1);
    for (i, row) in file_rows.iter().enumerate() {
        let c = match rep {
            Some((k, _)) => if i < k { 0 } else { 1 },
            None => (i / per.max(1)).min(nfiles - 1),
        };
        chunks[c].push(row.clone());
    }
    if nfiles >= 2 && rep.is_none() {
        chunks.insert(1 + ((salt >> 8) as usize % (nfiles - 1)), vec![]);
    }
    let mut inputs = vec![];
    for (j, ch) in chunks.iter().enumerate() {
        let path = format!("{}/in-{}-{}.csv", dir, tag, j);
        let mut text: Vec<u8> = vec![];
        for (k, v) in ch {
            text.extend_from_slice(k);
            if mode != "set" {
                text.extend_from_slice(format!(",{}", v).as_bytes());
            }
            text.push(b'\n');
        }
        // half of the cases: files without a final newline
        if nonl.unwrap_or((salt >> 16) & 1 == 1) && text.ends_with(b"\n") {
            text.pop();
        }
        std::fs::write(&path, text).unwrap();
        inputs.push(path);
    }
    if let Some((_, n)) = rep {
        for _ in 0..n {
            inputs.push(inputs[0].clone());
        }
    }
    let mut cmd = Command::new(&bin);
    cmd.arg(if mode == "set" { "set" } else { "map" });
    for p in &inputs {
        cmd.arg(p);
    }
    cmd.arg(&outp)
        .arg("--force")
        .arg("--batch-size")
        .arg(batch)
        .arg("--fd-limit")
        .arg(fd)
        .arg("--threads")
        .arg(threads)
        .env("TMPDIR", &dir);
    match mode {
        "max" => {
            cmd.arg("--max");
        }
        "min" => {
            cmd.arg("--min");
        }
        _ => {}
    }
    if seed != "0" {
        cmd.env("FST_VERIF_SEED", seed);
    }
    let trace_path = format!("{}/trace-{}.txt", dir, tag);
    let _ = std::fs::remove_file(&trace_path);
    cmd.env("FST_VERIF_TRACE", &trace_path);
    if r.cli_hangs >= 2 {
        // the tool has hung twice already in this run: it is reported; do not wait for it a thousand times
        return "merge skipped-after-hangs".into();
    }
    // with a deadline: a deadlock of the worker protocol must not hang the check
    cmd.stdout(std::process::Stdio::null()).stderr(std::process::Stdio::piped());
    let mut child = cmd.spawn().unwrap();
    let t0 = std::time::Instant::now();
    let status = loop {
        match child.try_wait().unwrap() {
            Some(st) => break Some(st),
            None => {
                if t0.elapsed().as_secs() > 60 {
                    let _ = child.kill();
                    let _ = child.wait();
                    break None;
                }
                std::thread::sleep(std::time::Duration::from_millis(2));
            }
        }
    };
    let mut stderr_text = String::new();
    if let Some(mut e) = child.stderr.take() {
        let _ = std::io::Read::read_to_string(&mut e, &mut stderr_text);
    }
    struct Out2 {
        status: Option<std::process::ExitStatus>,
        stderr: Vec<u8>,
    }
    let out = Out2 { status, stderr: stderr_text.into_bytes() };
    let trace = std::fs::read_to_string(&trace_path).unwrap_or_default();
    let _ = std::fs::remove_file(&trace_path);
    let line = t.join(" ");
    for p in &inputs {
        let _ = std::fs::remove_file(p);
    }
    let nrows_traced = rows.len();
    let st = match out.status {
        None => {
            r.cli_hangs += 1;
            r.check(false, || format!("C19 fst did not terminate within 60 s (deadlock / endless loop?) :: {}", line));
            return "merge hung".into();
        }
        Some(st) => st,
    };
    if !st.success() {
        r.check(false, || format!("C19 fst exited with {:?}: {} :: {}", st.code(), String::from_utf8_lossy(&out.stderr), line));
        return "merge failed".into();
    }
    let bytes = std::fs::read(&outp).unwrap();
    let _ = std::fs::remove_file(&outp);
    let f = match raw::Fst::new(bytes.clone()) {
        Ok(f) => f,
        Err(e) => {
            r.check(false, || format!("C19 output does not open: {:?}: {}", e, line));
            return "merge unreadable".into();
        }
    };
    // the grouping the real run used (hook trace) has the structure the model assumes:
    // consecutive batches, then generations of unions that each consume every result of
    // the previous generation exactly once in groups of at most fd-limit
    if !trace.is_empty() {
        if let Err(e) = check_trace(&trace, nrows_traced, batch.parse().unwrap(), fd.parse().unwrap(), threads.parse().unwrap_or(1)) {
            // the worker protocol / grouping of the real run differs from the modelled one: a broken
            // correspondence (the check escalates), not by itself a wrong result
            r.checks += 1;
            r.mismatches.push(format!("line={} C19 merge structure differs from the model of merge.rs: {} :: {}", r.line_no, e, line));
        } else {
            r.checks += 1;
        }
        let mut sig: Vec<&str> = trace.lines().filter(|l| l.starts_with("union")).collect();
        sig.sort();
        r.groupings.insert(sig.join(";"));
    }
    let got = f.stream().into_byte_vec();
    let want = merge_oracle(mode, &rows);
    r.check(got == want, || format!("C19 {} gives {} want {}", line, show_kvs(&got), show_kvs(&want)));
    r.check(f.verify().is_ok(), || format!("C19 output fails verify(): {}", line));
    let distinct = want.len() == rows.len();
    if distinct {
        // byte-identical to a sorted library build of the same data
        let mut b = raw::Builder::new_type(vec![], 0).unwrap();
        for (k, v) in &want {
            b.insert(k, *v).unwrap();
        }
        let sorted = b.into_inner().unwrap();
        r.check(sorted == bytes, || format!("C19 output differs from the sorted build: {}", line));
    }
    format!("merge {}", show_kvs(&got))
}

#[cfg(feature = "hooks")]
pub fn dump_gen() -> String {
    let lst = |xs: Vec<u64>| -> String {
        format!("[{}]", xs.iter().map(|x| x.to_string()).collect::<Vec<_>>().join(", "))
    };
    let b = raw::Builder::new_type(vec![], 0).unwrap();
    let (rows, cols) = b.verif_cache_geometry();
    let mut o = vec![];
    o.push("-- GENERATED by `harness dump-gen` from the compiled, hooked crate. Do not edit.".to_string());
    o.push("namespace Fst.Gen".to_string());
    o.push(format!("def VERSION : Nat := {}", raw::VERSION));
    o.push(format!("def TRANS_INDEX_THRESHOLD : Nat := {}", raw::verif::trans_index_threshold()));
    o.push(format!("def REGISTRY_ROWS : Nat := {}", rows));
    o.push(format!("def REGISTRY_COLS : Nat := {}", cols));
    o.push(format!("def LEV_DEFAULT_STATE_LIMIT : Nat := {}", Levenshtein::verif_default_state_limit()));
    o.push(format!("def COMMON_INPUTS : List Nat := {}", lst(raw::verif::common_inputs().iter().map(|&x| x as u64).collect())));
    o.push(format!("def COMMON_INPUTS_INV : List Nat := {}", lst(raw::verif::common_inputs_inv().iter().map(|&x| x as u64).collect())));
    o.push(format!("def CRC_TABLE : List Nat := {}", lst(raw::verif::crc_table().iter().map(|&x| x as u64).collect())));
    let t16 = raw::verif::crc_table16();
    for j in 0..16 {
        o.push(format!("def CRC_T16_{} : List Nat := {}", j, lst(t16[j].iter().map(|&x| x as u64).collect())));
    }
    o.push(format!("def CRC_TABLE16 : List (List Nat) := [{}]", (0..16).map(|j| format!("CRC_T16_{}", j)).collect::<Vec<_>>().join(", ")));
    o.push("end Fst.Gen".to_string());
    o.join("\n") + "\n"
}

#[cfg(not(feature = "hooks"))]
pub fn dump_gen() -> String {
    panic!("dump-gen needs the hooks")
}
