//! `!scale <case> [args…]`: implementation-against-oracle checks at sizes the executable model
//! cannot afford (files over 16 MiB, keys of 64 KiB, 65 537 streams, 66 000 builds in one
//! thread, …). The theorems cover these sizes; the correspondence does not reach them, so a
//! narrowed integer or a capacity used as a length in the implementation would go unseen.
//! Each case runs in a CHILD PROCESS with a timeout: a stack overflow, an abort or a hang is
//! attributed to the case instead of killing the run. Failures are reported as
//! implementation-vs-oracle failures (not model disagreements).
use std::collections::BTreeMap;
use std::io::{self, Write as _};

use fst::automaton::Automaton;
use fst::raw;
use fst::{IntoStreamer, Streamer};

use crate::run::{Kv, Runner, VecStream};
use crate::util::*;

/// parent side
pub fn bang_scale(r: &mut Runner, t: &[&str]) {
    let exe = std::env::current_exe().unwrap();
    let timeout = std::time::Duration::from_secs(600);
    use std::os::unix::process::CommandExt;
    let mut child = match std::process::Command::new(&exe)
        .arg("scale")
        .args(&t[1..])
        .stdout(std::process::Stdio::piped())
        .stderr(std::process::Stdio::null())
        .process_group(0) // its own group: on a hang the whole group (incl. `fst` grandchildren) is killed
        .spawn()
    {
        Ok(c) => c,
        Err(e) => {
            r.fail(format!("scale {}: cannot start the child process: {}", t[1..].join(" "), e));
            return;
        }
    };
    // read the output on a thread so that a chatty child cannot block on a full pipe
    let mut out = child.stdout.take().unwrap();
    let reader = std::thread::spawn(move || {
        let mut s = String::new();
        let _ = io::Read::read_to_string(&mut out, &mut s);
        s
    });
    let t0 = std::time::Instant::now();
    let status = loop {
        match child.try_wait() {
            Ok(Some(st)) => break Some(st),
            Ok(None) => {
                if t0.elapsed() > timeout {
                    let _ = std::process::Command::new("kill").arg("-9").arg(format!("-{}", child.id())).status();
                    let _ = child.kill();
                    let _ = child.wait();
                    break None;
                }
                std::thread::sleep(std::time::Duration::from_millis(20));
            }
            Err(_) => break None,
        }
    };
    let text = reader.join().unwrap_or_default();
    let case = t[1..].join(" ");
    let mut tags = String::new();
    for l in text.lines() {
        if let Some(f) = l.strip_prefix("FAIL ") {
            r.fail(format!("{} [scale {}]", f, case));
        } else if let Some(n) = l.strip_prefix("NOTE ") {
            r.notes.push(format!("scale {}: {}", case, n));
        } else if let Some(c) = l.strip_prefix("CHECKS ") {
            r.checks += c.trim().parse::<u64>().unwrap_or(0);
        } else if let Some(tg) = l.strip_prefix("TAGS ") {
            tags = tg.to_string();
        }
    }
    match status {
        None => r.fail(format!("{} the implementation did not finish within {} s (hang?) [scale {}]", tags, timeout.as_secs(), case)),
        Some(st) if !st.success() => r.fail(format!(
            "{} the implementation crashed: {:?} (stack overflow / abort / panic outside a caught region) [scale {}]",
            tags, st, case
        )),
        _ => {}
    }
}

struct Out {
    checks: u64,
    fails: u64,
    /// printed so far per property-tag prefix (each check of the parent looks for its own tag)
    per_tag: BTreeMap<String, u64>,
}
impl Out {
    fn check(&mut self, ok: bool, msg: impl FnOnce() -> String) {
        self.checks += 1;
        if !ok {
            self.fails += 1;
            let m = msg().replace('\n', " ");
            let tag: String = m.split(' ').take_while(|w| w.len() == 3 && w.starts_with('C')).collect::<Vec<_>>().join(" ");
            let n = self.per_tag.entry(tag).or_insert(0);
            *n += 1;
            if *n <= 6 {
                println!("FAIL {}", m);
            }
        }
    }
    fn note(&self, s: String) {
        println!("NOTE {}", s);
    }
}

fn key_of(i: u64, len: usize) -> Vec<u8> {
    // index first (ascending order), then bytes that share nothing with other keys
    let mut k = format!("{:010}", i).into_bytes();
    let mut z = i.wrapping_mul(0x9E3779B97F4A7C15) | 1;
    while k.len() < len {
        z ^= z << 13;
        z ^= z >> 7;
        z ^= z << 17;
        k.push(b'a' + (z % 26) as u8);
    }
    k
}

// ---------------------------------------------------------------------------------------
// an independent reader of the version-3 format (written from the format description in
// src/raw/node.rs's module comments, not sharing code with the crate): enumerates all
// entries from the root. Only what the scale cases need.
// ---------------------------------------------------------------------------------------
fn rd_uint(b: &[u8], at: usize, n: usize) -> u64 {
    let mut v = 0u64;
    for i in 0..n {
        v |= (b[at + i] as u64) << (8 * i);
    }
    v
}

const COMMON_INV_LEN: usize = 63;

/// widest address delta (in bytes) the independent decoder has come across
static MAX_TSZ: std::sync::atomic::AtomicUsize = std::sync::atomic::AtomicUsize::new(0);

struct Trans {
    inp: u8,
    out: u64,
    addr: usize,
}

/// decode the node whose last byte is at `addr`
fn decode_node(b: &[u8], addr: usize, common_inv: &[u8]) -> Result<(bool, u64, Vec<Trans>), String> {
    if addr == 0 {
        return Ok((true, 0, vec![]));
    }
    let st = b[addr];
    let common = |idx: u8, at: &mut usize| -> u8 {
        if idx == 0 {
            *at -= 1;
            b[*at]
        } else {
            common_inv[(idx - 1) as usize]
        }
    };
    match st >> 6 {
        0b11 => {
            // one transition to the previous node, no output
            let mut at = addr;
            let inp = common(st & 0x3f, &mut at);
            let end = at; // first byte of this node
            Ok((false, 0, vec![Trans { inp, out: 0, addr: end - 1 }]))
        }
        0b10 => {
            let mut at = addr;
            let inp = common(st & 0x3f, &mut at);
            at -= 1;
            let sizes = b[at];
            let (tsz, osz) = ((sizes >> 4) as usize, (sizes & 0xf) as usize);
            if tsz == 0 || tsz > 8 || osz > 8 {
                return Err(format!("node {}: bad pack sizes {:#x}", addr, sizes));
            }
            MAX_TSZ.fetch_max(tsz, std::sync::atomic::Ordering::Relaxed);
            at -= tsz;
            let delta = rd_uint(b, at, tsz) as usize;
            let out = if osz > 0 {
                at -= osz;
                rd_uint(b, at, osz)
            } else {
                0
            };
            let end = at;
            let target = if delta == 0 { 0 } else { end.checked_sub(delta).ok_or_else(|| format!("node {}: delta {} beyond the start", addr, delta))? };
            Ok((false, 0, vec![Trans { inp, out, addr: target }]))
        }
        _ => {
            let is_final = st & 0b0100_0000 != 0;
            let mut at = addr;
            let mut n = (st & 0x3f) as usize;
            if n == 0 {
                at -= 1;
                n = b[at] as usize;
                if n == 1 {
                    n = 256;
                }
            }
            at -= 1;
            let sizes = b[at];
            let (tsz, osz) = ((sizes >> 4) as usize, (sizes & 0xf) as usize);
            if tsz == 0 || tsz > 8 || osz > 8 {
                return Err(format!("node {}: bad pack sizes {:#x}", addr, sizes));
            }
            MAX_TSZ.fetch_max(tsz, std::sync::atomic::Ordering::Relaxed);
            if n > 32 {
                at -= 256; // the index
            }
            at -= n;
            let inputs_at = at;
            at -= n * tsz;
            let taddr_at = at;
            let outs_at = if osz > 0 {
                at -= n * osz;
                at
            } else {
                at
            };
            let fout = if is_final && osz > 0 {
                at -= osz;
                rd_uint(b, at, osz)
            } else {
                0
            };
            let end = at;
            let mut ts = Vec::with_capacity(n);
            for i in 0..n {
                // transitions are stored in reverse
                let inp = b[inputs_at + (n - 1 - i)];
                let delta = rd_uint(b, taddr_at + (n - 1 - i) * tsz, tsz) as usize;
                let out = if osz > 0 { rd_uint(b, outs_at + (n - 1 - i) * osz, osz) } else { 0 };
                let target = if delta == 0 { 0 } else { end.checked_sub(delta).ok_or_else(|| format!("node {}: delta {} beyond the start", addr, delta))? };
                ts.push(Trans { inp, out, addr: target });
            }
            Ok((is_final, fout, ts))
        }
    }
}

/// all entries of a version-3 file by the format description alone, in order, calling `f` on each
fn walk_v3(b: &[u8], common_inv: &[u8], mut f: impl FnMut(&[u8], u64)) -> Result<u64, String> {
    let n = b.len();
    if n < 36 || rd_uint(b, 0, 8) != 3 {
        return Err("not a version-3 file".into());
    }
    let root = rd_uint(b, n - 12, 8) as usize;
    let len = rd_uint(b, n - 20, 8);
    // explicit stack: (node transitions, next index, output so far); the key grows and shrinks
    let mut key: Vec<u8> = vec![];
    let (fin, fout, ts) = decode_node(b, root, common_inv)?;
    if fin {
        f(&key, fout);
    }
    let mut stack: Vec<(Vec<Trans>, usize, u64)> = vec![(ts, 0, 0)];
    let mut count = if fin { 1 } else { 0 };
    while let Some((ts, i, out)) = stack.last_mut() {
        if *i >= ts.len() {
            stack.pop();
            key.pop();
            continue;
        }
        let t = &ts[*i];
        *i += 1;
        let o = *out + t.out;
        let (inp, target) = (t.inp, t.addr);
        if target != 0 && target >= n {
            return Err(format!("transition to {} outside the file", target));
        }
        key.push(inp);
        let (fin, fout, ts2) = decode_node(b, target, common_inv)?;
        if fin {
            f(&key, o + fout);
            count += 1;
        }
        stack.push((ts2, 0, o));
    }
    if count != len {
        return Err(format!("footer says {} keys, the walk found {}", len, count));
    }
    Ok(count)
}

fn common_inv_table() -> Vec<u8> {
    // the documented table, obtained from the crate's own encoder by observation: a
    // one-transition node over input byte x is 1 byte long iff x is a common input, and that
    // byte's low 6 bits are its rank. (Independent of the reader under test.)
    let mut inv = vec![0u8; COMMON_INV_LEN + 1];
    for x in 0..=255u8 {
        let f = raw::Fst::from_iter_set(vec![vec![x, b'z'], vec![x, b'z', b'z']]).unwrap();
        // the root has one transition over x to a non-final node: StateOneTransNext
        let b = f.as_bytes();
        let root = rd_uint(b, b.len() - 12, 8) as usize;
        let st = b[root];
        if st >> 6 == 0b11 && st & 0x3f != 0 {
            inv[((st & 0x3f) - 1) as usize] = x;
        }
    }
    inv
}

// ---------------------------------------------------------------------------------------

fn case_bigfile(o: &mut Out, map: bool, mib: usize, old: bool) {
    println!("TAGS C01 C02 C03 C09 C10 C16 C08");
    // long keys that share nothing: every node is new, the file grows by about one byte per key byte
    let klen = 2000usize;
    let n = (mib * 1024 * 1024 / klen + 64) as u64;
    let base: u64 = if map { (1 << 40) - 7 } else { 0 };
    let mut b = raw::Builder::new_type(vec![], if map { 1 } else { 0 }).unwrap();
    for i in 0..n {
        let k = key_of(i, klen - (i % 7) as usize);
        let r = if map { b.insert(&k, base + 3 * i) } else { b.add(&k) };
        if r.is_err() {
            println!("FAIL C01 insert {} of {} rejected: {:?}", i, n, r);
            return;
        }
    }
    let bytes = b.into_inner().unwrap();
    o.note(format!("bigfile: {} keys, {} bytes", n, bytes.len()));
    o.check(bytes.len() > (1 << 24) + (1 << 20), || format!("C01 the file has only {} bytes (deltas of 4 bytes need > 16 MiB)", bytes.len()));
    let f = match raw::Fst::new(&bytes[..]) {
        Ok(f) => f,
        Err(e) => {
            println!("FAIL C01 C09 a {}-byte built file does not open: {:?}", bytes.len(), e);
            return;
        }
    };
    o.check(f.len() as u64 == n, || format!("C01 len() = {} want {}", f.len(), n));
    o.check(f.verify().is_ok(), || format!("C08 verify() fails on a built {}-byte file: {:?}", bytes.len(), f.verify()));
    // C01: the stream is exactly the inserted sequence
    {
        let mut s = f.stream();
        let mut i = 0u64;
        let mut bad = 0u64;
        while let Some((k, v)) = s.next() {
            let want = key_of(i, klen - (i % 7) as usize);
            if k != &want[..] || v.value() != if map { base + 3 * i } else { 0 } {
                bad += 1;
                if bad == 1 {
                    println!(
                        "FAIL C01 stream item #{} of a {}-byte FST: key of {} bytes starting {:?}, value {} — inserted: {} bytes starting {:?}, value {}",
                        i,
                        bytes.len(),
                        k.len(),
                        String::from_utf8_lossy(&k[..k.len().min(12)]),
                        v.value(),
                        want.len(),
                        String::from_utf8_lossy(&want[..12]),
                        if map { base + 3 * i } else { 0 }
                    );
                }
            }
            i += 1;
        }
        o.check(bad == 0 && i == n, || format!("C01 stream of a {}-byte FST: {} items ({} wrong), inserted {}", bytes.len(), i, bad, n));
    }
    // C02: point lookups, early and late keys (early nodes are > 2^24 bytes behind the root)
    let mut badget = 0;
    for j in 0..3000u64 {
        let i = if j % 2 == 0 { j / 2 } else { n - 1 - j / 2 };
        let k = key_of(i, klen - (i % 7) as usize);
        let want = if map { base + 3 * i } else { 0 };
        if f.get(&k).map(|x| x.value()) != Some(want) || !f.contains_key(&k) {
            badget += 1;
        }
        let mut absent = k.clone();
        absent.push(b'!');
        if f.get(&absent).is_some() || f.contains_key(&k[..k.len() - 1]) {
            badget += 1;
        }
    }
    o.check(badget == 0, || format!("C02 {} of 6000 lookups in a {}-byte FST are wrong", badget, bytes.len()));
    // C03: ranges
    for (lo, hi) in [(5u64, 25u64), (n / 2, n / 2 + 40), (n - 30, n + 5), (0, 3)] {
        let a = key_of(lo, klen - (lo % 7) as usize);
        let z = if hi < n { key_of(hi, klen - (hi % 7) as usize) } else { key_of(n, klen) };
        let got = f.range().ge(&a).lt(&z).into_stream().into_byte_vec();
        let want: Vec<u64> = (lo..hi.min(n)).collect();
        let ok = got.len() == want.len()
            && got.iter().zip(want.iter()).all(|((k, _), i)| k == &key_of(*i, klen - (*i % 7) as usize));
        o.check(ok, || format!("C03 range [key {}, key {}) of a {}-byte FST yields {} items, want {}", lo, hi, bytes.len(), got.len(), want.len()));
    }
    // C16: strictly increasing values ⇒ get_key inverts
    if map {
        let mut bad = 0;
        for j in 0..400u64 {
            let i = (j * 7919) % n;
            let got = f.get_key(base + 3 * i);
            if got.as_deref() != Some(&key_of(i, klen - (i % 7) as usize)[..]) {
                bad += 1;
            }
            if f.get_key(base + 3 * i + 1).is_some() {
                bad += 1;
            }
        }
        o.check(bad == 0, || format!("C16 {} of 800 get_key answers on a {}-byte monotone map are wrong", bad, bytes.len()));
    }
    // C09: the format description alone
    let inv = common_inv_table();
    let mut i = 0u64;
    let mut bad = 0u64;
    let res = walk_v3(&bytes, &inv, |k, v| {
        let want = key_of(i, klen - (i % 7) as usize);
        if k != &want[..] || v != if map { base + 3 * i } else { 0 } {
            bad += 1;
        }
        i += 1;
    });
    o.check(res.is_ok() && bad == 0, || format!("C09 reading a {}-byte built file by the format description: {:?}, {} of {} entries differ", bytes.len(), res, bad, i));
    let widest = MAX_TSZ.load(std::sync::atomic::Ordering::Relaxed);
    o.note(format!("bigfile: widest address delta {} bytes", widest));
    o.check(widest >= 4 || res.is_err(), || format!("C09 the {}-byte file has no 4-byte address delta (generator problem: make it larger)", bytes.len()));
    // C10: the same content as written by earlier releases (reference encoder), read by the crate
    if !map || !old {
        return;
    }
    let kv: Kv = (0..n).map(|i| (key_of(i, klen - (i % 7) as usize), base + 3 * i)).collect();
    for v in 1..=2u64 {
        let old = crate::refenc::encode(v, 1, &kv, 0, false);
        match raw::Fst::new(&old[..]) {
            Err(e) => o.check(false, || format!("C10 a {}-byte version-{} file does not open: {:?}", old.len(), v, e)),
            Ok(g) => {
                let mut bad = 0;
                for j in 0..2000u64 {
                    let i = if j % 2 == 0 { j / 2 } else { n - 1 - j / 2 };
                    if g.get(&kv[i as usize].0).map(|x| x.value()) != Some(kv[i as usize].1) {
                        bad += 1;
                    }
                }
                let mut s = g.stream();
                let mut i = 0usize;
                while let Some((k, val)) = s.next() {
                    if i >= kv.len() || k != &kv[i].0[..] || val.value() != kv[i].1 {
                        bad += 1;
                    }
                    i += 1;
                }
                o.check(bad == 0 && i == kv.len(), || format!("C10 a {}-byte version-{} file: {} wrong answers, {} of {} entries streamed", old.len(), v, bad, i, kv.len()));
            }
        }
    }
}

/// a map of several MiB made of multi-byte nodes (random short keys, values of every width)
fn case_bigmap(o: &mut Out, nkeys: usize) {
    println!("TAGS C08 C01 C07");
    let mut rng = Rng::new(11);
    let mut keys: Vec<Vec<u8>> = (0..nkeys).map(|_| (0..(4 + rng.below(9))).map(|_| b'a' + rng.below(20) as u8).collect()).collect();
    keys.sort();
    keys.dedup();
    let kv: Kv = keys.into_iter().map(|k| { let v = rng.next() >> rng.below(64); (k, v) }).collect();
    let mut b = raw::Builder::memory();
    for (k, v) in &kv {
        b.insert(k, *v).unwrap();
    }
    let cnt = b.bytes_written();
    let bytes = b.into_inner().unwrap();
    o.note(format!("bigmap: {} keys, {} bytes", kv.len(), bytes.len()));
    o.check(bytes.len() > 5 << 20, || format!("C08 only {} bytes (generator problem)", bytes.len()));
    o.check(cnt as usize + 36 - 16 <= bytes.len() + 20, || "C07 bytes_written".to_string());
    // C08: the trailer is the masked CRC-32C of everything before it, and verify() agrees
    let n = bytes.len();
    let want = mask(crc32c_bitwise(&bytes[..n - 4]));
    let mut c = [0u8; 4];
    c.copy_from_slice(&bytes[n - 4..]);
    o.check(u32::from_le_bytes(c) == want, || format!("C08 the trailing checksum of a {}-byte built map is {:#x}, the bitwise CRC-32C of the preceding bytes gives {:#x}", n, u32::from_le_bytes(c), want));
    match raw::Fst::new(&bytes[..]) {
        Err(e) => o.check(false, || format!("C01 C08 a {}-byte built map does not open: {:?}", n, e)),
        Ok(f) => {
            o.check(f.verify().is_ok(), || format!("C08 verify() fails on a built {}-byte map: {:?}", n, f.verify()));
            let mut s = f.stream();
            let mut i = 0usize;
            let mut bad = 0;
            while let Some((k, v)) = s.next() {
                if i >= kv.len() || k != &kv[i].0[..] || v.value() != kv[i].1 {
                    bad += 1;
                }
                i += 1;
            }
            o.check(bad == 0 && i == kv.len(), || format!("C01 stream of a {}-byte map: {} items, {} wrong, inserted {}", n, i, bad, kv.len()));
        }
    }
    // the same through a buffered file-like sink: chunks of 8 KiB
    let mut b = raw::Builder::new(io::BufWriter::with_capacity(8192, Vec::new())).unwrap();
    for (k, v) in &kv {
        b.insert(k, *v).unwrap();
    }
    let w = b.into_inner().unwrap().into_inner().unwrap();
    o.check(w == bytes, || format!("C07 the same map through a BufWriter has {} bytes, in memory {} (equal: false)", w.len(), n));
}

/// keys of 64 KiB and more (depth counters, key buffers)
fn case_deepkeys(o: &mut Out, quick: bool) {
    println!("TAGS C01 C03 C04 C02");
    let lens = [65_535usize, 65_536, 65_537, 70_002, 131_080];
    let mut keys: Vec<Vec<u8>> = vec![];
    for (j, l) in lens.iter().enumerate() {
        // pairs that share a long prefix and differ near the end, and a short sibling
        let mut k: Vec<u8> = (0..*l).map(|i| b'a' + ((i * 7 + j) % 3) as u8).collect();
        k[0] = b'a' + j as u8;
        keys.push(k.clone());
        let m = k.len() - 3;
        k[m] = b'z';
        keys.push(k.clone());
        keys.push(k[..100].to_vec());
    }
    keys.sort();
    keys.dedup();
    let kv: Kv = keys.iter().enumerate().map(|(i, k)| (k.clone(), 10 + i as u64)).collect();
    let f = raw::Fst::from_iter_map(kv.iter().cloned()).unwrap();
    let got = f.stream().into_byte_vec();
    o.check(got == kv, || {
        let first = got.iter().zip(kv.iter()).position(|(a, b)| a != b);
        format!(
            "C01 C03 stream over keys of up to 131 080 bytes: {} items, first difference at #{:?} (lengths got {:?})",
            got.len(),
            first,
            got.iter().map(|x| x.0.len()).collect::<Vec<_>>()
        )
    });
    for (i, (k, v)) in kv.iter().enumerate() {
        o.check(f.get(k).map(|x| x.value()) == Some(*v), || format!("C02 get of key #{} ({} bytes)", i, k.len()));
    }
    // bounds that are themselves longer than 65 535 bytes
    for i in 0..kv.len() {
        for j in i..kv.len() {
            if quick && (i * 5 + j * 3) % 7 != 0 {
                continue;
            }
            let want: Kv = kv[i..j].to_vec();
            let g1 = f.range().ge(&kv[i].0).lt(&kv[j].0).into_stream().into_byte_vec();
            o.check(g1 == want, || format!("C03 range ge key#{} ({} bytes) lt key#{} ({} bytes): {} items, want {}", i, kv[i].0.len(), j, kv[j].0.len(), g1.len(), want.len()));
            let want2: Kv = if i < j { kv[i + 1..=j].to_vec() } else { vec![] };
            let g2 = f.range().gt(&kv[i].0).le(&kv[j].0).into_stream().into_byte_vec();
            o.check(g2 == want2, || format!("C03 range gt key#{} le key#{}: {} items, want {}", i, j, g2.len(), want2.len()));
        }
    }
    // a bound that diverges from every key deep inside
    let mut b = kv[kv.len() / 2].0.clone();
    let m = b.len() - 2;
    b[m] = b'b';
    let want: Kv = kv.iter().filter(|(k, _)| k >= &b).cloned().collect();
    let got = f.range().ge(&b).into_stream().into_byte_vec();
    o.check(got == want, || format!("C03 range ge <{}-byte bound off the keys>: {} items want {}", b.len(), got.len(), want.len()));
    // searches (with states) through the same depths
    let sub = fst::automaton::Subsequence::new("zb");
    let got = f.search(&sub).into_stream().into_byte_vec();
    let want: Kv = kv.iter().filter(|(k, _)| k.iter().position(|&c| c == b'z').map_or(false, |p| k[p..].contains(&b'b'))).cloned().collect();
    o.check(got == want, || format!("C04 search subsequence over deep keys: {} items want {}", got.len(), want.len()));
    // exact-match and prefix automata whose pattern is itself 64 KiB long
    for (i, (k, v)) in kv.iter().enumerate() {
        if quick && i % 3 != 0 {
            continue;
        }
        if let Ok(ks) = std::str::from_utf8(k) {
            let exact = fst::automaton::Str::new(ks);
            let got = f.search(&exact).into_stream().into_byte_vec();
            o.check(got == vec![(k.clone(), *v)], || format!("C04 search Str(<key #{} of {} bytes>) yields {} items (lengths {:?}), want exactly that key", i, k.len(), got.len(), got.iter().map(|x| x.0.len()).collect::<Vec<_>>()));
            if k.len() > 70_000 {
                let pre = &ks[..65_600];
                let sw = fst::automaton::Str::new(pre).starts_with();
                let mut s = f.search(&sw).into_stream();
                let mut gotk: Vec<Vec<u8>> = vec![];
                while let Some((key, _)) = s.next() {
                    gotk.push(key.to_vec());
                }
                let wantk: Vec<Vec<u8>> = kv.iter().filter(|(x, _)| x.starts_with(pre.as_bytes())).map(|x| x.0.clone()).collect();
                o.check(gotk == wantk, || format!("C04 search starts_with(<65 600 bytes>) yields {} keys (lengths {:?}), want {}", gotk.len(), gotk.iter().map(|x| x.len()).collect::<Vec<_>>(), wantk.len()));
            }
        }
    }
    let all = fst::automaton::Subsequence::new("a");
    let got = f.search(&all).gt(&kv[0].0).into_stream().into_byte_vec();
    let want: Kv = kv.iter().filter(|(k, _)| k.contains(&b'a') && k > &kv[0].0).cloned().collect();
    o.check(got == want, || format!("C04 search subsequence(a) gt <key #0>: {} items (lengths {:?}), want {}", got.len(), got.iter().map(|x| x.0.len()).collect::<Vec<_>>(), want.len()));
    let st = fst::automaton::Str::new("a").starts_with();
    let got = f.search(&st).ge(&kv[1].0).into_stream().into_byte_vec();
    let want: Kv = kv.iter().filter(|(k, _)| k.first() == Some(&b'a') && k >= &kv[1].0).cloned().collect();
    o.check(got == want, || format!("C04 search starts_with(a) ge <{} bytes>: {} items want {}", kv[1].0.len(), got.len(), want.len()));
}

/// file sizes at every residue around multiples of 64 KiB / 128 KiB
fn case_sizes(o: &mut Out) {
    println!("TAGS C08 C20");
    // a set with one key of L bytes over uncommon input bytes has a size linear in L: find L for each target size
    let size_of = |l: usize| -> usize {
        let k: Vec<u8> = (0..l).map(|i| b'a' + (i % 3) as u8).collect();
        raw::Fst::from_iter_set(vec![k]).unwrap().as_bytes().len()
    };
    let s0 = size_of(1000);
    let per = (size_of(2000) - s0) / 1000;
    let mut targets: Vec<usize> = vec![];
    for base in [65_536usize, 131_072, 196_608, 262_144] {
        for d in 0..=8usize {
            targets.push(base + d);
        }
        targets.push(base - 1);
        targets.push(base - 3);
    }
    let mut hit = 0;
    for t in targets {
        let l = 1000 + (t.saturating_sub(s0)) / per.max(1);
        // a few neighbours: the size function is linear with slope `per`
        for l2 in l.saturating_sub(2)..=l + 2 {
            let k: Vec<u8> = (0..l2).map(|i| b'a' + (i % 3) as u8).collect();
            let f = raw::Fst::from_iter_set(vec![k.clone()]).unwrap();
            let n = f.as_bytes().len();
            if n != t {
                continue;
            }
            hit += 1;
            let r = std::panic::catch_unwind(|| f.verify().is_ok()).map_err(|_| "panic");
            o.check(r == Ok(true), || format!("C08 C20 verify() of a built FST of exactly {} bytes: {:?}", n, r));
            // one altered byte, early / middle / in the last 64 KiB
            for pos in [20usize, n / 2, n - 40_000.min(n - 21), n - 6] {
                let mut b = f.as_bytes().to_vec();
                b[pos] ^= 0x20;
                let r = std::panic::catch_unwind(|| match raw::Fst::new(b) {
                    Ok(g) => g.verify().is_ok(),
                    Err(_) => false,
                })
                .map_err(|_| "panic");
                o.check(r == Ok(false), || format!("C08 C20 a {}-byte FST with byte {} altered: open+verify = {:?} (must be a clean rejection)", n, pos, r));
            }
            // untrusted truncation to the same residue
            let b = f.as_bytes()[..n - 1].to_vec();
            let r = std::panic::catch_unwind(|| raw::Fst::new(b).map(|g| g.verify().is_ok()).unwrap_or(false));
            o.check(r.is_ok(), || format!("C20 open+verify of {} bytes panicked", n - 1));
        }
    }
    o.note(format!("sizes: {} exact sizes hit", hit));
    o.check(hit >= 40, || format!("C08 the size search hit only {} of the target sizes (generator problem)", hit));
    // arbitrary bytes of those lengths, sealed with a correct checksum
    for n in [65_536usize + 4, 65_536, 65_539, 131_072 + 4, 131_075, 262_148] {
        let mut b: Vec<u8> = (0..n).map(|i| (i * 31 % 251) as u8).collect();
        b[..8].copy_from_slice(&3u64.to_le_bytes());
        let c = mask(crc32c_bitwise(&b[..n - 4]));
        b[n - 4..].copy_from_slice(&c.to_le_bytes());
        let r = std::panic::catch_unwind(|| raw::Fst::new(b).map(|g| g.verify().is_ok()));
        o.check(r.is_ok(), || format!("C20 open+verify of {} sealed garbage bytes panicked", n));
    }
}

/// more input streams than fit a 16-bit index
fn case_manystreams(o: &mut Out, k: usize) {
    println!("TAGS C05");
    // stream i holds key (i % 1000) and key 1000 + i  (values = i)
    let streams: Vec<Kv> = (0..k)
        .map(|i| {
            let mut v = vec![(format!("{:06}", i % 1000).into_bytes(), i as u64), (format!("{:06}", 1000 + i).into_bytes(), i as u64)];
            v.sort();
            v
        })
        .collect();
    let mut occ: BTreeMap<Vec<u8>, Vec<(usize, u64)>> = BTreeMap::new();
    for (i, s) in streams.iter().enumerate() {
        for (key, v) in s {
            occ.entry(key.clone()).or_default().push((i, *v));
        }
    }
    let mk = || {
        let mut ob = raw::OpBuilder::new();
        for s in &streams {
            ob.push(VecStream { items: s.clone(), i: 0 });
        }
        ob
    };
    let mut u = mk().union();
    let mut it = occ.iter();
    let mut bad = 0u64;
    let mut n = 0u64;
    while let Some((key, outs)) = u.next() {
        n += 1;
        match it.next() {
            Some((wk, wo)) => {
                let mut got: Vec<(usize, u64)> = outs.iter().map(|iv| (iv.index, iv.value)).collect();
                got.sort();
                if key != &wk[..] || &got != wo {
                    bad += 1;
                    if bad == 1 {
                        println!("FAIL C05 union over {} streams: key {:?} carries {} entries (first {:?}), want {} entries (first {:?})", k, String::from_utf8_lossy(key), got.len(), got.first(), wo.len(), wo.first());
                    }
                }
            }
            None => bad += 1,
        }
    }
    o.check(bad == 0 && n as usize == occ.len(), || format!("C05 union over {} streams: {} keys ({} wrong), want {}", k, n, bad, occ.len()));
    let mut s = mk().symmetric_difference();
    let mut got = 0u64;
    while let Some(_) = s.next() {
        got += 1;
    }
    let want = occ.values().filter(|o| o.len() % 2 == 1).count() as u64;
    o.check(got == want, || format!("C05 symmetric difference over {} streams: {} keys want {}", k, got, want));
    let mut s = mk().intersection();
    let mut got = 0;
    while let Some(_) = s.next() {
        got += 1;
    }
    o.check(got == 0, || format!("C05 intersection over {} streams: {} keys want 0", k, got));
    let mut s = mk().difference();
    let mut gotk: Vec<Vec<u8>> = vec![];
    while let Some((key, _)) = s.next() {
        gotk.push(key.to_vec());
    }
    let wantk: Vec<Vec<u8>> = streams[0].iter().filter(|(key, _)| occ[key].len() == 1).map(|x| x.0.clone()).collect();
    o.check(gotk == wantk, || format!("C05 difference over {} streams: {} keys want {}", k, gotk.len(), wantk.len()));
}

/// a difference whose first stream shares very long runs of keys with the others
fn case_bigdiff(o: &mut Out, n: u64) {
    println!("TAGS C05 C14");
    let a: Kv = (0..n).map(|i| (format!("{:09}", i).into_bytes(), i)).collect();
    let b: Kv = (0..n).filter(|i| i % 100_000 != 99_999).map(|i| (format!("{:09}", i).into_bytes(), 1)).collect();
    let mut ob = raw::OpBuilder::new();
    ob.push(VecStream { items: a.clone(), i: 0 });
    ob.push(VecStream { items: b, i: 0 });
    let mut d = ob.difference();
    let mut got: Vec<u64> = vec![];
    while let Some((_, outs)) = d.next() {
        got.push(outs[0].value);
    }
    let want: Vec<u64> = (0..n).filter(|i| i % 100_000 == 99_999).collect();
    o.check(got == want, || format!("C05 difference with runs of 99 999 shared keys: {} keys want {}", got.len(), want.len()));
    // the other three over the same long streams
    for kind in 0..3 {
        let mut ob = raw::OpBuilder::new();
        ob.push(VecStream { items: a.clone(), i: 0 });
        ob.push(VecStream { items: a.iter().filter(|(_, i)| i % 3 == 0).cloned().collect(), i: 0 });
        let (cnt, want) = match kind {
            0 => {
                let mut s = ob.union();
                let mut c = 0u64;
                while let Some(_) = s.next() {
                    c += 1;
                }
                (c, n)
            }
            1 => {
                let mut s = ob.intersection();
                let mut c = 0u64;
                while let Some(_) = s.next() {
                    c += 1;
                }
                (c, (n + 2) / 3)
            }
            _ => {
                let mut s = ob.symmetric_difference();
                let mut c = 0u64;
                while let Some(_) = s.next() {
                    c += 1;
                }
                (c, n - (n + 2) / 3)
            }
        };
        o.check(cnt == want, || format!("C05 set operation #{} over two streams of {} keys: {} keys want {}", kind, n, cnt, want));
    }
}

struct Stubborn {
    held: Vec<u8>,
    interrupts_left: u64,
    every: u64,
    calls: u64,
}
impl io::Write for Stubborn {
    fn write(&mut self, b: &[u8]) -> io::Result<usize> {
        self.calls += 1;
        // after a few calls: `interrupts_left` times Interrupted in a row, for ONE write
        if self.calls > 3 && self.interrupts_left > 0 {
            self.interrupts_left -= 1;
            return Err(io::Error::new(io::ErrorKind::Interrupted, "again"));
        }
        let _ = self.every;
        let k = b.len().min(17 + (self.calls % 23) as usize);
        self.held.extend_from_slice(&b[..k]);
        Ok(k)
    }
    fn flush(&mut self) -> io::Result<()> {
        Ok(())
    }
}

/// a sink that says Interrupted very many times in a row, and takes 17..39 bytes per call
fn case_interrupts(o: &mut Out, n: u64) {
    println!("TAGS C07");
    let keys: Vec<Vec<u8>> = (0..40u8).map(|i| vec![b'k', 0x80 + i, b'x']).chain((0..300u32).map(|i| format!("w{:05}", i).into_bytes())).collect();
    let mut ks = keys.clone();
    ks.sort();
    let want = raw::Fst::from_iter_map(ks.iter().enumerate().map(|(i, k)| (k.clone(), i as u64 * 1000))).unwrap().into_inner();
    let sink = Stubborn { held: vec![], interrupts_left: n, every: 5, calls: 0 };
    let mut b = raw::Builder::new(sink).unwrap();
    for (i, k) in ks.iter().enumerate() {
        b.insert(k, i as u64 * 1000).unwrap();
    }
    let cnt_ok = b.bytes_written();
    let sink = b.into_inner().unwrap();
    o.check(sink.held == want, || format!("C07 a sink returning Interrupted {} times in a row and taking 17..39 bytes per call holds {} bytes, the in-memory build {} (equal: false)", n, sink.held.len(), want.len()));
    o.check(cnt_ok as usize <= want.len(), || "C07 bytes_written() beyond the file".to_string());
    let ok = raw::Fst::new(sink.held.clone()).map(|f| f.verify().is_ok()).unwrap_or(false);
    o.check(ok, || "C07 C08 the bytes that reached the sink do not open+verify".to_string());
}

/// very many builds in one thread; many builders alive at once
fn case_manybuilds(o: &mut Out, n: usize) {
    println!("TAGS C15");
    let sets: Vec<Vec<Vec<u8>>> = vec![
        vec![b"bat".to_vec(), b"cat".to_vec(), b"cot".to_vec(), b"hat".to_vec()],
        vec![b"bit".to_vec(), b"bot".to_vec(), b"cab".to_vec(), b"hit".to_vec(), b"hot".to_vec(), b"zzt".to_vec()],
        (0..60u32).map(|i| format!("k{:03}s", i * 3).into_bytes()).collect(),
    ];
    let refs: Vec<Vec<u8>> = sets
        .iter()
        .map(|s| {
            let s = s.clone();
            std::thread::spawn(move || raw::Fst::from_iter_set(s.iter()).unwrap().into_inner()).join().unwrap()
        })
        .collect();
    let mut bad = 0;
    let mut first = None;
    for i in 0..n.min(3_000) {
        let j = i % sets.len();
        let b = raw::Fst::from_iter_set(sets[j].iter()).unwrap().into_inner();
        if b != refs[j] {
            bad += 1;
            if first.is_none() {
                first = Some((i, b.len(), refs[j].len()));
            }
        }
    }
    o.check(bad == 0, || format!("C15 {} of {} builds in one thread differ from a build in a fresh thread (first: build #{:?})", bad, n, first));
    if n < 66_000 {
        return;
    }
    // anything kept from one build to a later one on the same thread (a recycled cache with a
    // wrapping generation counter, …): FIRST_d is built d builds before SECOND_d, which contains an
    // equal node at a different address; the builds in between are small and unrelated
    let dists: [usize; 6] = [255, 256, 257, 65_535, 65_536, 65_537];
    let total = 65_600usize;
    // (the tails of different pairs end differently: no pair touches another pair's cache rows)
    let tail = |d: usize| -> String {
        let c = (b'g' + (dists.iter().position(|&x| x == d).unwrap() as u8)) as char;
        format!("-long-shared-suffix-{}{}{}", c, c, c)
    };
    let first_of = |d: usize| -> Vec<Vec<u8>> { vec![format!("a{}", tail(d)).into_bytes(), format!("b{}", tail(d)).into_bytes()] };
    let second_of = |d: usize| -> Vec<Vec<u8>> { vec![format!("0-another-key-that-is-written-first-{}", d).into_bytes(), format!("y{}", tail(d)).into_bytes()] };
    let fresh: Vec<Vec<u8>> = dists
        .iter()
        .map(|&d| {
            let s = second_of(d);
            std::thread::spawn(move || raw::Fst::from_iter_set(s.iter()).unwrap().into_inner()).join().unwrap()
        })
        .collect();
    // SECOND_j is build number total + 10 j, FIRST_j is build number total + 10 j - d_j (all distinct)
    for t in 0..total + 10 * dists.len() {
        if let Some(j) = (0..dists.len()).find(|&j| t == total + 10 * j) {
            let b = raw::Fst::from_iter_set(second_of(dists[j]).iter()).unwrap().into_inner();
            o.check(b == fresh[j], || {
                format!(
                    "C15 a set built exactly {} builds after a related one on the same thread has {} bytes, in a fresh thread {} bytes (equal: false)",
                    dists[j],
                    b.len(),
                    fresh[j].len()
                )
            });
        } else if let Some(j) = (0..dists.len()).find(|&j| t + dists[j] == total + 10 * j) {
            let _ = raw::Fst::from_iter_set(first_of(dists[j]).iter()).unwrap();
        } else {
            // the same two tiny sets over and over: they touch the same few cache rows each time
            let _ = raw::Fst::from_iter_set(vec![["q", "qq"][t % 2]]).unwrap();
        }
    }
}

fn case_livebuilders(o: &mut Out, n: usize) {
    println!("TAGS C15 C12");
    let mut rng = Rng::new(77);
    let mut words: Vec<Vec<u8>> = (0..60_000).map(|_| (0..(3 + rng.below(7))).map(|_| b'a' + rng.below(9) as u8).collect()).collect();
    words.sort();
    words.dedup();
    let solo = raw::Fst::from_iter_set(words.iter()).unwrap().into_inner();
    // n builders alive (fed a little), then one more does the whole input
    let mut alive: Vec<raw::Builder<Vec<u8>>> = vec![];
    for i in 0..n {
        let mut b = raw::Builder::memory();
        b.add(format!("x{}", i)).unwrap();
        alive.push(b);
    }
    let crowded = raw::Fst::from_iter_set(words.iter()).unwrap().into_inner();
    o.check(crowded == solo, || format!("C15 a build while {} other builders are alive has {} bytes, alone {} bytes", n, crowded.len(), solo.len()));
    // and concurrently from many threads
    let hs: Vec<_> = (0..24)
        .map(|_| {
            let w = words.clone();
            std::thread::spawn(move || raw::Fst::from_iter_set(w.iter()).unwrap().into_inner())
        })
        .collect();
    for h in hs {
        let b = h.join().unwrap();
        o.check(b == solo, || format!("C15 a build in one of 24 concurrent threads (with {} idle builders alive) has {} bytes, alone {} bytes", n, b.len(), solo.len()));
    }
    drop(alive);
}

/// long Levenshtein queries against the edit-distance oracle
fn case_levlong(o: &mut Out) {
    println!("TAGS C17");
    use fst::automaton::Levenshtein;
    let alpha: Vec<char> = "abcdefghijklmnopqrstuvwxyzéñ☃😀".chars().collect();
    let mut rng = Rng::new(5);
    for (len, d) in [(24usize, 1u32), (31, 1), (33, 2), (64, 1), (70, 0), (130, 1), (255, 1), (256, 1), (257, 0), (300, 1), (520, 0)] {
        let q: Vec<char> = (0..len).map(|i| alpha[(i * 7 + i / 5 + len) % alpha.len()]).collect();
        let qs: String = q.iter().collect();
        let lev = match Levenshtein::new_with_limit(&qs, d, 5_000_000) {
            Ok(l) => l,
            Err(e) => {
                o.check(false, || format!("C17 new_with_limit(<{} chars>, {}, 5M) refused: {:?}", len, d, e));
                continue;
            }
        };
        let mut bad = 0;
        let mut firstbad = String::new();
        let mut probes: Vec<Vec<char>> = vec![q.clone(), vec![], q[q.len().min(256)..].to_vec(), q[..q.len() - 1].to_vec(), q[1..].to_vec()];
        for _ in 0..120 {
            let mut k = q.clone();
            for _ in 0..rng.below(d as u64 + 2) {
                let p = rng.below(k.len() as u64) as usize;
                match rng.below(3) {
                    0 => {
                        k.remove(p);
                    }
                    1 => k.insert(p, *rng.pick(&alpha)),
                    _ => k[p] = *rng.pick(&alpha),
                }
            }
            probes.push(k);
        }
        for k in &probes {
            let ks: String = k.iter().collect();
            let mut s = lev.start();
            for b in ks.bytes() {
                s = lev.accept(&s, b);
            }
            let want = crate::auts::edit_distance(&q, k) <= d as usize;
            if lev.is_match(&s) != want {
                bad += 1;
                if firstbad.is_empty() {
                    firstbad = format!("key of {} chars (distance {}) decided {}", k.len(), crate::auts::edit_distance(&q, k), lev.is_match(&s));
                }
            }
        }
        o.check(bad == 0, || format!("C17 query of {} characters, d={}: {} of {} keys decided wrongly ({})", len, d, bad, probes.len(), firstbad));
    }
}

/// patterns of 64 KiB and more for the built-in automata
fn case_patlong(o: &mut Out) {
    println!("TAGS C18");
    use fst::automaton::{Str, Subsequence};
    for plen in [65_535usize, 65_536, 65_537, 131_073] {
        let pat: Vec<u8> = (0..plen).map(|i| b'a' + (i % 2) as u8).collect();
        let ps = String::from_utf8(pat.clone()).unwrap();
        let a = Str::new(&ps);
        let run = |w: &[u8]| {
            let mut s = a.start();
            for &b in w {
                s = a.accept(&s, b);
            }
            (a.is_match(&s), a.can_match(&s), a.will_always_match(&s))
        };
        for cut in [0usize, 1, plen - 65_536.min(plen), plen.saturating_sub(65_537), plen - 1, plen] {
            let w = &pat[..cut];
            let (m, c, wa) = run(w);
            o.check(m == (cut == plen) && c && !wa, || format!("C18 Str(<{} bytes>) after its first {} bytes: is_match={} can_match={} will_always_match={}", plen, cut, m, c, wa));
            let sw = Str::new(&ps).starts_with();
            let mut s = sw.start();
            for &b in w {
                s = sw.accept(&s, b);
            }
            o.check(sw.is_match(&s) == (cut == plen), || format!("C18 Str(<{} bytes>).starts_with() after {} bytes: is_match={}", plen, cut, sw.is_match(&s)));
        }
        let sub = Subsequence::new(&ps);
        for cut in [0usize, 1, plen - 65_536.min(plen), plen.saturating_sub(65_537), plen - 1, plen] {
            // a word that contains exactly the first `cut` pattern bytes as a subsequence (padded with 'z')
            let mut w: Vec<u8> = vec![];
            for &b in &pat[..cut] {
                w.push(b);
                if w.len() % 1000 == 0 {
                    w.push(b'z');
                }
            }
            let mut s = sub.start();
            for &b in &w {
                s = sub.accept(&s, b);
            }
            let (m, wa) = (sub.is_match(&s), sub.will_always_match(&s));
            o.check(m == (cut == plen) && wa == (cut == plen) && sub.can_match(&s), || {
                format!("C18 Subsequence(<{} bytes>) after {} of its bytes: is_match={} will_always_match={}", plen, cut, m, wa)
            });
            // complement on top: must not prune / accept wrongly
            let co = Subsequence::new(&ps).complement();
            let mut s2 = co.start();
            for &b in &w {
                s2 = co.accept(&s2, b);
            }
            o.check(co.is_match(&s2) == (cut != plen) && (co.can_match(&s2) || cut == plen), || {
                format!("C18 Subsequence(<{} bytes>).complement() after {} of its bytes: is_match={} can_match={}", plen, cut, co.is_match(&s2), co.can_match(&s2))
            });
        }
    }
}

/// the command-line tool with many batches, long lines, files of several hundred KiB
fn case_mergebig(o: &mut Out) {
    println!("TAGS C19");
    let bin = std::env::var("FST_BIN").expect("FST_BIN");
    let dir = std::env::var("FST_TMP").unwrap_or_else(|_| "/verif/target/tmp".into());
    std::fs::create_dir_all(&dir).unwrap();
    let tag = std::process::id();
    let run = |args: &[&str], input: &[u8], label: &str, o: &mut Out| -> Option<Vec<u8>> {
        let inp = format!("{}/scale-in-{}.txt", dir, tag);
        let outp = format!("{}/scale-out-{}.fst", dir, tag);
        std::fs::write(&inp, input).unwrap();
        let _ = std::fs::remove_file(&outp);
        // (positional arguments first: clap takes what follows `<input>...` as further inputs)
        let mut child = std::process::Command::new(&bin)
            .arg(args[0])
            .arg(&inp)
            .arg(&outp)
            .args(&args[1..])
            .env("TMPDIR", &dir)
            .stdout(std::process::Stdio::null())
            .stderr(std::process::Stdio::null())
            .spawn()
            .unwrap();
        let t0 = std::time::Instant::now();
        let st = loop {
            match child.try_wait().unwrap() {
                Some(st) => break Some(st),
                None => {
                    if t0.elapsed().as_secs() > 60 {
                        let _ = child.kill();
                        let _ = child.wait();
                        break None;
                    }
                    std::thread::sleep(std::time::Duration::from_millis(20));
                }
            }
        };
        let _ = std::fs::remove_file(&inp);
        let bytes = std::fs::read(&outp).ok();
        let _ = std::fs::remove_file(&outp);
        match st {
            None => {
                o.check(false, || format!("C19 `fst {}` did not terminate within 60 s ({})", args.join(" "), label));
                println!("CHECKS {}", o.checks);
                let _ = io::stdout().flush();
                std::process::exit(0) // one hang is enough: do not wait for the others
            }
            Some(s) if !s.success() => {
                o.check(false, || format!("C19 `fst {}` exited with {:?} ({})", args.join(" "), s.code(), label));
                None
            }
            _ => bytes,
        }
    };
    let check_set = |bytes: Option<Vec<u8>>, want: &std::collections::BTreeSet<Vec<u8>>, label: &str, o: &mut Out| {
        if let Some(b) = bytes {
            match raw::Fst::new(b.clone()) {
                Err(e) => o.check(false, || format!("C19 output does not open ({}): {:?}", label, e)),
                Ok(f) => {
                    let got: Vec<Vec<u8>> = f.stream().into_byte_vec().into_iter().map(|x| x.0).collect();
                    let w: Vec<Vec<u8>> = want.iter().cloned().collect();
                    o.check(got == w, || format!("C19 {}: {} keys, want {} distinct input keys", label, got.len(), w.len()));
                    o.check(f.verify().is_ok(), || format!("C19 {}: output fails verify()", label));
                    let sorted = raw::Fst::from_iter_set(w.iter()).unwrap().into_inner();
                    o.check(sorted == b, || format!("C19 {}: output differs from the sorted build", label));
                }
            }
        }
    };
    // (1) far more batches than fd-limit squared, more than 1024 per round
    let mut rng = Rng::new(3);
    let lines: Vec<Vec<u8>> = (0..3000).map(|_| format!("w{:05}", rng.below(2500)).into_bytes()).collect();
    let want: std::collections::BTreeSet<Vec<u8>> = lines.iter().cloned().collect();
    let mut text = vec![];
    for l in &lines {
        text.extend_from_slice(l);
        text.push(b'\n');
    }
    for (bs, fd, th) in [("1", "2", "3"), ("1", "3", "1"), ("2", "15", "16")] {
        let b = run(&["set", "--batch-size", bs, "--fd-limit", fd, "--threads", th], &text, "3000 lines", o);
        check_set(b, &want, &format!("3000 lines, batch-size {} fd-limit {} threads {}", bs, fd, th), o);
    }
    // (2) a file of several hundred KiB with lines of every length around the reader's buffer size
    let mut lines: Vec<Vec<u8>> = vec![];
    for i in 0..30_000u32 {
        lines.push(format!("line{:06}-{}", (i * 7919) % 30_000, "x".repeat((i % 11) as usize)).into_bytes());
    }
    for l in [8_191usize, 8_192, 8_193, 65_535, 65_536, 65_537, 70_000, 131_073] {
        lines.push(std::iter::repeat(b'L').take(l).collect());
    }
    let want: std::collections::BTreeSet<Vec<u8>> = lines.iter().cloned().collect();
    let mut text = vec![];
    for l in &lines {
        text.extend_from_slice(l);
        text.push(b'\n');
    }
    let b = run(&["set", "--batch-size", "5000", "--fd-limit", "3", "--threads", "4"], &text, "large file", o);
    check_set(b, &want, &format!("a {}-byte input with lines of up to 131 073 bytes", text.len()), o);
    // (3) batch size larger than the input, more threads than batches
    let b = run(&["set", "--batch-size", "1000000", "--fd-limit", "2", "--threads", "16"], &text, "one batch", o);
    check_set(b, &want, "one batch, 16 threads", o);
}

pub fn child_main(args: &[String]) -> i32 {
    let mut o = Out { checks: 0, fails: 0, per_tag: BTreeMap::new() };
    let a = |i: usize| -> usize { args.get(i).and_then(|x| x.parse().ok()).unwrap_or(0) };
    match args.first().map(|s| &s[..]) {
        Some("bigfile") => case_bigfile(&mut o, args.get(1).map(|s| s == "map").unwrap_or(true), a(2).max(17), args.get(3).map(|s| s == "old").unwrap_or(false)),
        Some("bigmap") => case_bigmap(&mut o, a(1).max(1000)),
        Some("deepkeys") => case_deepkeys(&mut o, args.get(1).map(|s| s == "quick").unwrap_or(false)),
        Some("sizes") => case_sizes(&mut o),
        Some("manystreams") => case_manystreams(&mut o, a(1).max(300)),
        Some("bigdiff") => case_bigdiff(&mut o, a(1).max(1000) as u64),
        Some("interrupts") => case_interrupts(&mut o, a(1) as u64),
        Some("manybuilds") => case_manybuilds(&mut o, a(1)),
        Some("livebuilders") => case_livebuilders(&mut o, a(1)),
        Some("levlong") => case_levlong(&mut o),
        Some("patlong") => case_patlong(&mut o),
        Some("mergebig") => case_mergebig(&mut o),
        other => {
            println!("FAIL unknown scale case {:?}", other);
        }
    }
    println!("CHECKS {}", o.checks);
    let _ = io::stdout().flush();
    0
}
