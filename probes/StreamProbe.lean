-- Feasibility probe for T-Stream: explicit-stack DFS = recursive denotation.
abbrev Key := List UInt8
structure Tr where
  inp : UInt8
  out : Nat
  addr : Nat
structure Node where
  fin : Bool
  fout : Nat
  trans : List Tr
abbrev Store := Nat → Node

def Acyclic (st : Store) : Prop := ∀ a, ∀ t ∈ (st a).trans, t.addr < a

def lift (b : UInt8) (o : Nat) (l : List (Key × Nat)) : List (Key × Nat) :=
  l.map fun kv => (b :: kv.1, o + kv.2)

def den (st : Store) : Nat → Nat → List (Key × Nat)
  | 0, _ => []
  | fuel+1, a =>
    let n := st a
    (if n.fin then [([], n.fout)] else []) ++
      n.trans.flatMap fun t => lift t.inp t.out (den st fuel t.addr)

structure Frame where
  addr : Nat
  i : Nat
  out : Nat

structure St where
  stack : List Frame
  inp : Key

def step (st : Store) (root : Nat) (s : St) : Option (Option (Key × Nat) × St) :=
  match s.stack with
  | [] => none
  | f :: rest =>
    let n := st f.addr
    match n.trans[f.i]? with
    | none => some (none, { stack := rest, inp := if f.addr ≠ root then s.inp.dropLast else s.inp })
    | some t =>
      let out := f.out + t.out
      let nn := st t.addr
      let inp' := s.inp ++ [t.inp]
      some (if nn.fin then some (inp', out + nn.fout) else none,
            { stack := ⟨t.addr, 0, out⟩ :: { f with i := f.i + 1 } :: rest, inp := inp' })

def run (st : Store) (root : Nat) : Nat → St → List (Key × Nat)
  | 0, _ => []
  | n+1, s =>
    match step st root s with
    | none => []
    | some (e, s') => e.toList ++ run st root n s'

/-- entries below frame ⟨a,i,o⟩ reached with path p (own final entry excluded) -/
def cont (st : Store) (fuel a i o : Nat) (p : Key) : List (Key × Nat) :=
  ((st a).trans.drop i).flatMap fun t =>
    (den st fuel t.addr).map fun kv => (p ++ t.inp :: kv.1, o + t.out + kv.2)


theorem flatMap_congr' {α β} {l : List α} {f g : α → List β} (h : ∀ a ∈ l, f a = g a) :
    l.flatMap f = l.flatMap g := by
  induction l with
  | nil => rfl
  | cons x xs ih =>
    simp only [List.flatMap_cons]
    rw [h x (by simp), ih (fun a ha => h a (by simp [ha]))]

theorem den_succ_eq (st : Store) (h : Acyclic st) :
    ∀ a fuel, a < fuel → den st fuel a = den st (a+1) a := by
  intro a
  induction a using Nat.strongRecOn with
  | _ a ih =>
    intro fuel hf
    cases fuel with
    | zero => omega
    | succ fuel =>
      simp only [den]
      congr 1
      apply flatMap_congr'
      intro t ht
      have hlt := h a t ht
      rw [ih t.addr hlt fuel (by omega), ih t.addr hlt a hlt]


theorem child_eq (st : Store) (hac : Acyclic st) (c : Nat) (p : Key) (b : UInt8) (o' : Nat) :
    (if (st c).fin then some (p ++ [b], o' + (st c).fout) else none).toList ++ cont st c c 0 o' (p ++ [b]) =
      (den st (c+1) c).map fun kv => (p ++ b :: kv.1, o' + kv.2) := by
  simp only [den, List.map_append, cont, List.drop_zero]
  congr 1
  · cases (st c).fin <;> simp
  · simp only [List.map_flatMap, lift, List.map_map]
    apply flatMap_congr'
    intro t' ht'
    rw [den_succ_eq st hac t'.addr c (hac _ _ ht')]
    simp [Function.comp_def, Nat.add_assoc]

theorem cont_cons (st : Store) (hac : Acyclic st) (a i o : Nat) (p : Key)
    (hi : i < (st a).trans.length) :
    cont st a a i o p =
      ((den st ((st a).trans[i].addr + 1) (st a).trans[i].addr).map fun kv =>
          (p ++ (st a).trans[i].inp :: kv.1, o + (st a).trans[i].out + kv.2)) ++
        cont st a a (i+1) o p := by
  have hdrop : (st a).trans.drop i = (st a).trans[i] :: (st a).trans.drop (i+1) :=
    List.drop_eq_getElem_cons hi
  simp only [cont, hdrop, List.flatMap_cons]
  rw [den_succ_eq st hac _ a (hac a _ (List.getElem_mem hi))]

theorem run_frame (st : Store) (root : Nat) (hac : Acyclic st) :
    ∀ a, a ≤ root → ∀ k i o p rest, (st a).trans.length = i + k →
      ∃ N, ∀ n, run st root (N + n) ⟨⟨a, i, o⟩ :: rest, p⟩ =
        cont st a a i o p ++ run st root n ⟨rest, if a ≠ root then p.dropLast else p⟩ := by
  intro a
  induction a using Nat.strongRecOn with
  | _ a iha =>
    intro hle k
    induction k with
    | zero =>
      intro i o p rest hlen
      refine ⟨1, fun n => ?_⟩
      have hnone : (st a).trans[i]? = none := by
        apply List.getElem?_eq_none; omega
      have hdrop : (st a).trans.drop i = [] := by
        apply List.drop_eq_nil_of_le; omega
      rw [Nat.add_comm 1 n]
      simp [run, step, hnone, cont, hdrop]
    | succ k ihk =>
      intro i o p rest hlen
      have hi : i < (st a).trans.length := by omega
      have hsome : (st a).trans[i]? = some ((st a).trans[i]) := List.getElem?_eq_getElem hi
      have hlt : (st a).trans[i].addr < a := hac a _ (List.getElem_mem hi)
      obtain ⟨N1, h1⟩ := iha _ hlt (by omega) (st (st a).trans[i].addr).trans.length 0
        (o + (st a).trans[i].out) (p ++ [(st a).trans[i].inp]) (⟨a, i+1, o⟩ :: rest) (by omega)
      obtain ⟨N2, h2⟩ := ihk (i+1) o p rest (by omega)
      refine ⟨1 + N1 + N2, fun n => ?_⟩
      have hne : (st a).trans[i].addr ≠ root := by omega
      have e1 : 1 + N1 + N2 + n = (N1 + (N2 + n)) + 1 := by omega
      rw [e1]
      simp only [run, step, hsome]
      rw [h1 (N2 + n)]
      simp only [hne, ne_eq, not_false_eq_true, ite_true, List.dropLast_concat]
      rw [h2 n, cont_cons st hac a i o p hi, ← List.append_assoc, child_eq st hac]
      simp [List.append_assoc]

/-- the whole stream from the root (own final entry of the root is the `empty_output` path) -/
theorem run_root (st : Store) (root : Nat) (hac : Acyclic st) :
    ∃ N, ∀ n, run st root (N + n) ⟨[⟨root, 0, 0⟩], []⟩ = cont st root root 0 0 [] := by
  obtain ⟨N, h⟩ := run_frame st root hac root (Nat.le_refl _) (st root).trans.length 0 0 [] [] (by omega)
  refine ⟨N, fun n => ?_⟩
  rw [h n]
  cases n <;> simp [run, step]

#print axioms run_root
