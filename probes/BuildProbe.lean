-- Feasibility probe for T-Build: the incremental builder over an abstract node store.
abbrev Key := List UInt8
abbrev KV := List (Key × Nat)

structure Tr where
  inp : UInt8
  out : Nat
  addr : Nat
deriving DecidableEq

structure Node where
  fin : Bool
  fout : Nat
  trans : List Tr
deriving DecidableEq

abbrev Store := List Node          -- node k has address k+1; address 0 = shared empty final node

def lift (b : UInt8) (o : Nat) (l : KV) : KV := l.map fun kv => (b :: kv.1, o + kv.2)

/-- denotation table: entry k is what address k+1 spells -/
def look (tbl : List KV) (a : Nat) : KV := if a = 0 then [([], 0)] else tbl.getD (a-1) []
def own (n : Node) : KV := if n.fin then [([], n.fout)] else []
def branches (tbl : List KV) (ts : List Tr) : KV := ts.flatMap fun t => lift t.inp t.out (look tbl t.addr)
def denNode (tbl : List KV) (n : Node) : KV := own n ++ branches tbl n.trans
def denAll (s : Store) : List KV := s.foldl (fun tbl n => tbl ++ [denNode tbl n]) []


def stepTbl (tbl : List KV) (n : Node) : List KV := tbl ++ [denNode tbl n]

theorem foldl_stepTbl (e : Store) (t : List KV) :
    ∃ x, e.foldl stepTbl t = t ++ x ∧ x.length = e.length := by
  induction e generalizing t with
  | nil => exact ⟨[], by simp⟩
  | cons n e ih =>
    obtain ⟨x, hx, hl⟩ := ih (stepTbl t n)
    refine ⟨denNode t n :: x, ?_, by simp [hl]⟩
    rw [List.foldl_cons, hx]; simp [stepTbl]

theorem denAll_eq (s : Store) : denAll s = s.foldl stepTbl [] := rfl

theorem denAll_append (s e : Store) : ∃ x, denAll (s ++ e) = denAll s ++ x ∧ x.length = e.length := by
  simp only [denAll_eq, List.foldl_append]
  exact foldl_stepTbl e _

theorem denAll_snoc (s : Store) (n : Node) : denAll (s ++ [n]) = denAll s ++ [denNode (denAll s) n] := by
  simp [denAll_eq, List.foldl_append, stepTbl]

theorem denAll_length (s : Store) : (denAll s).length = s.length := by
  obtain ⟨x, hx, hl⟩ := foldl_stepTbl s []
  rw [denAll_eq, hx]; simpa using hl

/-- unfinished node -/
structure UNode where
  node : Node
  last : Option (UInt8 × Nat)

def denU (tbl : List KV) : List UNode → KV
  | [] => []
  | u :: rest =>
    denNode tbl u.node ++ (match u.last with
      | none => []
      | some (b, o) => lift b o (denU tbl rest))

/-! ### compile -/
def isEmptyFinal (n : Node) : Bool := n.fin && n.trans.isEmpty && n.fout == 0

def compile (lookup : Store → Node → Option Nat) (s : Store) (n : Node) : Store × Nat :=
  if isEmptyFinal n then (s, 0)
  else match lookup s n with
    | some a => (s, a)
    | none => (s ++ [n], s.length + 1)

def Sound (lookup : Store → Node → Option Nat) : Prop :=
  ∀ s n a, lookup s n = some a → 0 < a ∧ a ≤ s.length ∧ s[a-1]? = some n

def AddrsOK (bound : Nat) (ts : List Tr) : Prop := ∀ t ∈ ts, t.addr ≤ bound

theorem getD_append_left' {α} (l x : List α) (i : Nat) (d : α) (h : i < l.length) :
    (l ++ x).getD i d = l.getD i d := by
  simp [List.getD, List.getElem?_append_left h]

theorem look_prefix (tbl x : List KV) (a : Nat) (h : a ≤ tbl.length) :
    look (tbl ++ x) a = look tbl a := by
  unfold look
  split
  · rfl
  · rw [getD_append_left']; omega

theorem branches_prefix (tbl x : List KV) (ts : List Tr) (h : AddrsOK tbl.length ts) :
    branches (tbl ++ x) ts = branches tbl ts := by
  unfold branches
  induction ts with
  | nil => rfl
  | cons t ts ih =>
    simp only [List.flatMap_cons]
    rw [look_prefix _ _ _ (h t (by simp)), ih (fun t' ht' => h t' (by simp [ht']))]

theorem denNode_prefix (tbl x : List KV) (n : Node) (h : AddrsOK tbl.length n.trans) :
    denNode (tbl ++ x) n = denNode tbl n := by
  simp [denNode, branches_prefix _ _ _ h]

/-- every stored node only points backwards -/
def Acyc (s : Store) : Prop := ∀ k (h : k < s.length), AddrsOK k (s[k]).trans

theorem denAll_get (s : Store) (hac : Acyc s) (k : Nat) (h : k < s.length) :
    (denAll s).getD k [] = denNode (denAll s) s[k] := by
  -- split s = take k ++ [s[k]] ++ drop (k+1)
  have hs : s = (s.take k ++ [s[k]]) ++ s.drop (k+1) := by
    simp [List.take_append_drop]
  obtain ⟨x, hx, _⟩ := denAll_append (s.take k ++ [s[k]]) (s.drop (k+1))
  have hlen : (denAll (s.take k)).length = k := by
    rw [denAll_length]; simp; omega
  have hsn := denAll_snoc (s.take k) s[k]
  have hfull : denAll s = denAll (s.take k) ++ ([denNode (denAll (s.take k)) s[k]] ++ x) := by
    conv => lhs; rw [hs]
    rw [hx, hsn, List.append_assoc]
  have hok : AddrsOK (denAll (s.take k)).length (s[k]).trans := by rw [hlen]; exact hac k h
  rw [hfull, denNode_prefix _ _ _ hok]
  simp [List.getD, List.getElem?_append_right, hlen]

theorem compile_den (lookup) (hs : Sound lookup) (s : Store) (hac : Acyc s) (n : Node)
    (hn : AddrsOK s.length n.trans) :
    look (denAll (compile lookup s n).1) (compile lookup s n).2 = denNode (denAll s) n ∧
      (compile lookup s n).2 ≤ (compile lookup s n).1.length ∧
      (∃ ext, (compile lookup s n).1 = s ++ ext) ∧ Acyc (compile lookup s n).1 := by
  unfold compile
  split
  · rename_i he
    simp only [isEmptyFinal, Bool.and_eq_true, List.isEmpty_iff, beq_iff_eq] at he
    obtain ⟨⟨hf, ht⟩, ho⟩ := he
    refine ⟨?_, Nat.zero_le _, ⟨[], by simp⟩, hac⟩
    simp [look, denNode, own, branches, hf, ht, ho]
  · split
    · rename_i a ha
      obtain ⟨h0, hle, hget⟩ := hs s n a ha
      refine ⟨?_, hle, ⟨[], by simp⟩, hac⟩
      have hk : a - 1 < s.length := by omega
      have hn' : s[a-1] = n := by
        have := List.getElem?_eq_getElem hk
        rw [this] at hget; exact Option.some.inj hget
      have := denAll_get s hac (a-1) hk
      simp only [look]
      rw [if_neg (by omega), this, hn']
    · refine ⟨?_, by simp, ⟨[n], rfl⟩, ?_⟩
      · rw [denAll_snoc]
        have hl := denAll_length s
        simp only [look]
        rw [if_neg (by omega)]
        simp [List.getD, List.getElem?_append_right, hl]
      · intro k hk
        by_cases hk' : k < s.length
        · simpa [List.getElem_append_left hk'] using hac k hk'
        · have : k = s.length := by simp at hk; omega
          subst this
          simpa using hn

/-! ### builder operations (mirrors of build.rs) -/

def shift (p : Nat) (l : KV) : KV := l.map fun kv => (kv.1, p + kv.2)

def addPrefix (p : Nat) (u : UNode) : UNode :=
  { node := { fin := u.node.fin
              fout := if u.node.fin then p + u.node.fout else u.node.fout
              trans := u.node.trans.map fun t => { t with out := p + t.out } }
    last := u.last.map fun bo => (bo.1, p + bo.2) }

/-- find_common_prefix_and_set_output -/
def cps : List UNode → Key → Nat → Nat × Nat × List UNode
  | u :: v :: rest, b :: bs, out =>
    match u.last with
    | some (b', o) =>
      if b' = b then
        let c := min o out
        let v' := if o - c ≠ 0 then addPrefix (o - c) v else v
        let r := cps (v' :: rest) bs (out - c)
        (r.1 + 1, r.2.1, { u with last := some (b', c) } :: r.2.2)
      else (0, out, u :: v :: rest)
    | none => (0, out, u :: v :: rest)
  | stack, _, out => (0, out, stack)

theorem lift_shift (b : UInt8) (c p : Nat) (l : KV) : lift b c (shift p l) = lift b (c + p) l := by
  simp [lift, shift, List.map_map, Function.comp_def, Nat.add_assoc]

theorem shift_lift (b : UInt8) (o p : Nat) (l : KV) : shift p (lift b o l) = lift b (p + o) l := by
  simp [lift, shift, List.map_map, Function.comp_def, Nat.add_assoc]

theorem shift_append (p : Nat) (a b : KV) : shift p (a ++ b) = shift p a ++ shift p b := by
  simp [shift]

theorem shift_zero (l : KV) : shift 0 l = l := by simp [shift]

theorem branches_addPrefix (tbl : List KV) (p : Nat) (ts : List Tr) :
    branches tbl (ts.map fun t => { t with out := p + t.out }) = shift p (branches tbl ts) := by
  induction ts with
  | nil => rfl
  | cons t ts ih =>
    simp only [branches, List.map_cons, List.flatMap_cons] at *
    rw [ih, shift_append, shift_lift]

theorem denU_addPrefix (tbl : List KV) (p : Nat) (v : UNode) (rest : List UNode) :
    denU tbl (addPrefix p v :: rest) = shift p (denU tbl (v :: rest)) := by
  simp only [denU, denNode, addPrefix, shift_append, branches_addPrefix]
  congr 1
  · congr 1
    cases hf : v.node.fin <;> simp [own, hf, shift]
  · cases hl : v.last with
    | none => simp [shift]
    | some bo => simp [shift_lift]

/-- output pushing does not change what the unfinished stack spells -/
theorem cps_den (tbl : List KV) : ∀ (key : Key) (stack : List UNode) (out : Nat),
    denU tbl (cps stack key out).2.2 = denU tbl stack := by
  intro key
  induction key with
  | nil => intro stack out; cases stack with
    | nil => simp [cps]
    | cons u st => cases st <;> simp [cps]
  | cons b bs ih =>
    intro stack out
    match stack with
    | [] => simp [cps]
    | [u] => simp [cps]
    | u :: v :: rest =>
      simp only [cps]
      cases hl : u.last with
      | none => simp
      | some bo =>
        obtain ⟨b', o⟩ := bo
        simp only
        split
        · rename_i hb
          simp only [denU, hl]
          congr 1
          rw [ih]
          by_cases hz : o - min o out = 0
          · have : min o out = o := by omega
            rw [this, Nat.sub_self]
            simp only [ne_eq, not_true_eq_false, ite_false]
            rfl
          · simp only [hz, ne_eq, not_false_eq_true, ite_true]
            rw [denU_addPrefix, lift_shift]
            congr 1
            omega
        · rfl

/-- the value bookkeeping of output pushing: outputs along the matched path + remainder = value -/
def pathSum : List UNode → Nat → Nat
  | _, 0 => 0
  | [], _ => 0
  | u :: rest, i+1 => (match u.last with | some (_, o) => o | none => 0) + pathSum rest i

theorem cps_sum : ∀ (key : Key) (stack : List UNode) (out : Nat),
    pathSum (cps stack key out).2.2 (cps stack key out).1 + (cps stack key out).2.1 = out := by
  intro key
  induction key with
  | nil => intro stack out; cases stack with
    | nil => simp [cps, pathSum]
    | cons u st => cases st <;> simp [cps, pathSum]
  | cons b bs ih =>
    intro stack out
    match stack with
    | [] => simp [cps, pathSum]
    | [u] => simp [cps, pathSum]
    | u :: v :: rest =>
      simp only [cps]
      cases hl : u.last with
      | none => simp [pathSum]
      | some bo =>
        obtain ⟨b', o⟩ := bo
        simp only
        split
        · simp only [pathSum]
          have := ih ((if o - min o out ≠ 0 then addPrefix (o - min o out) v else v) :: rest) (out - min o out)
          omega
        · simp [pathSum]

/-! ### freezing (compile_from) -/

def freeze (u : UNode) (addr : Nat) : Node :=
  match u.last with
  | none => u.node
  | some (b, o) => { u.node with trans := u.node.trans ++ [⟨b, o, addr⟩] }

/-- compile a popped tail of the stack bottom-up; returns the address of its first element -/
def compileTail (lookup : Store → Node → Option Nat) (s : Store) : List UNode → Store × Nat
  | [] => (s, 1)
  | u :: rest =>
    let r := compileTail lookup s rest
    compile lookup r.1 (freeze u r.2)

/-- all but the top node have a pending transition, the top has none -/
def WFStack : List UNode → Prop
  | [] => False
  | [u] => u.last = none
  | u :: rest => u.last.isSome ∧ WFStack rest

def StackOK (bound : Nat) (stack : List UNode) : Prop := ∀ u ∈ stack, AddrsOK bound u.node.trans

theorem branches_append (tbl : List KV) (a b : List Tr) :
    branches tbl (a ++ b) = branches tbl a ++ branches tbl b := by
  simp [branches]

theorem denU_prefix (tbl x : List KV) : ∀ (stack : List UNode), StackOK tbl.length stack →
    denU (tbl ++ x) stack = denU tbl stack := by
  intro stack
  induction stack with
  | nil => intro _; rfl
  | cons u rest ih =>
    intro h
    simp only [denU]
    rw [denNode_prefix _ _ _ (h u (by simp)), ih (fun v hv => h v (by simp [hv]))]

theorem AddrsOK_mono {a b : Nat} (h : a ≤ b) {ts : List Tr} (hts : AddrsOK a ts) : AddrsOK b ts :=
  fun t ht => Nat.le_trans (hts t ht) h

theorem compileTail_den (lookup) (hs : Sound lookup) :
    ∀ (popped : List UNode) (s : Store), Acyc s → WFStack popped → StackOK s.length popped →
      let r := compileTail lookup s popped
      look (denAll r.1) r.2 = denU (denAll s) popped ∧ r.2 ≤ r.1.length ∧
        (∃ ext, r.1 = s ++ ext) ∧ Acyc r.1 := by
  intro popped
  induction popped with
  | nil => intro s _ h; exact absurd h (by simp [WFStack])
  | cons u rest ih =>
    intro s hac hwf hok
    simp only [compileTail]
    cases rest with
    | nil =>
      -- top of the stack: nothing pending
      have hl : u.last = none := by simpa [WFStack] using hwf
      have hfz : freeze u 1 = u.node := by simp [freeze, hl]
      simp only [compileTail, hfz]
      obtain ⟨h1, h2, h3, h4⟩ := compile_den lookup hs s hac u.node (hok u (by simp))
      refine ⟨?_, h2, h3, h4⟩
      rw [h1]; simp [denU, hl]
    | cons v rest' =>
      obtain ⟨hsome, hwf'⟩ : u.last.isSome ∧ WFStack (v :: rest') := by simpa [WFStack] using hwf
      obtain ⟨i1, i2, ⟨ext, i3⟩, i4⟩ := ih s hac hwf' (fun w hw => hok w (by simp [hw]))
      generalize hr : compileTail lookup s (v :: rest') = r at i1 i2 i3 i4
      obtain ⟨bo, hbo⟩ := Option.isSome_iff_exists.mp hsome
      obtain ⟨b, o⟩ := bo
      have hlen : s.length ≤ r.1.length := by rw [i3]; simp
      have hfz : freeze u r.2 = { u.node with trans := u.node.trans ++ [⟨b, o, r.2⟩] } := by
        simp [freeze, hbo]
      have hok' : AddrsOK r.1.length (freeze u r.2).trans := by
        rw [hfz]
        intro t ht
        simp only [List.mem_append, List.mem_singleton] at ht
        cases ht with
        | inl h => exact Nat.le_trans (hok u (by simp) t h) hlen
        | inr h => subst h; exact i2
      obtain ⟨h1, h2, ⟨ext2, h3⟩, h4⟩ := compile_den lookup hs r.1 i4 (freeze u r.2) hok'
      refine ⟨?_, h2, ⟨ext ++ ext2, by rw [h3, i3, List.append_assoc]⟩, h4⟩
      rw [h1, hfz]
      obtain ⟨x, hx, _⟩ := denAll_append s ext
      have htbl : denAll r.1 = denAll s ++ x := by rw [i3]; exact hx
      have hokU : AddrsOK (denAll s).length u.node.trans := by
        rw [denAll_length]; exact hok u (by simp)
      simp only [denNode, branches_append, denU, hbo]
      rw [← List.append_assoc]
      congr 1
      · rw [htbl, branches_prefix _ _ _ hokU]; rfl
      · simp only [branches, List.flatMap_cons, List.flatMap_nil, List.append_nil]
        rw [i1]; rfl

def thaw (u : UNode) (addr : Nat) : UNode := { node := freeze u addr, last := none }

/-- compile_from(i): pop and compile everything above stack[i], freeze stack[i]'s pending transition -/
def compileFrom (lookup : Store → Node → Option Nat) (s : Store) : List UNode → Nat → Store × List UNode
  | [], _ => (s, [])
  | [u], _ => (s, [u])
  | u :: v :: rest, 0 =>
    let r := compileTail lookup s (v :: rest)
    (r.1, [thaw u r.2])
  | u :: v :: rest, i+1 =>
    let r := compileFrom lookup s (v :: rest) i
    (r.1, u :: r.2)

theorem StackOK_mono {a b : Nat} (h : a ≤ b) {st : List UNode} (hs : StackOK a st) : StackOK b st :=
  fun u hu => AddrsOK_mono h (hs u hu)

theorem WFStack_cons_cons {u v : UNode} {rest : List UNode} :
    WFStack (u :: v :: rest) ↔ u.last.isSome ∧ WFStack (v :: rest) := by simp [WFStack]

theorem compileFrom_den (lookup) (hs : Sound lookup) :
    ∀ (stack : List UNode) (i : Nat) (s : Store), Acyc s → WFStack stack → StackOK s.length stack →
      let r := compileFrom lookup s stack i
      denU (denAll r.1) r.2 = denU (denAll s) stack ∧ WFStack r.2 ∧ StackOK r.1.length r.2 ∧
        Acyc r.1 ∧ (∃ ext, r.1 = s ++ ext) := by
  intro stack
  induction stack with
  | nil => intro i s _ h; exact absurd h (by simp [WFStack])
  | cons u st ih =>
    intro i s hac hwf hok
    cases st with
    | nil => simp only [compileFrom]; exact ⟨trivial, hwf, hok, hac, ⟨[], by simp⟩⟩
    | cons v rest =>
      obtain ⟨hsome, hwf'⟩ := WFStack_cons_cons.mp hwf
      obtain ⟨bo, hbo⟩ := Option.isSome_iff_exists.mp hsome
      obtain ⟨b, o⟩ := bo
      have hokU : AddrsOK (denAll s).length u.node.trans := by
        rw [denAll_length]; exact hok u (by simp)
      cases i with
      | zero =>
        simp only [compileFrom]
        obtain ⟨i1, i2, ⟨ext, i3⟩, i4⟩ :=
          compileTail_den lookup hs (v :: rest) s hac hwf' (fun w hw => hok w (by simp [hw]))
        generalize compileTail lookup s (v :: rest) = r at i1 i2 i3 i4
        have hlen : s.length ≤ r.1.length := by rw [i3]; simp
        obtain ⟨x, hx, _⟩ := denAll_append s ext
        have htbl : denAll r.1 = denAll s ++ x := by rw [i3]; exact hx
        refine ⟨?_, by simp [WFStack, thaw], ?_, i4, ⟨ext, i3⟩⟩
        · simp only [denU, thaw, freeze, hbo, denNode, branches_append, List.append_nil]
          rw [← List.append_assoc]
          congr 1
          · rw [htbl, branches_prefix _ _ _ hokU]; rfl
          · simp only [branches, List.flatMap_cons, List.flatMap_nil, List.append_nil]
            rw [i1]; rfl
        · intro w hw
          simp only [List.mem_singleton] at hw
          subst hw
          simp only [thaw, freeze, hbo]
          intro t ht
          simp only [List.mem_append, List.mem_singleton] at ht
          cases ht with
          | inl h => exact Nat.le_trans (hok u (by simp) t h) hlen
          | inr h => subst h; exact i2
      | succ i =>
        simp only [compileFrom]
        obtain ⟨j1, j2, j3, j4, ⟨ext, j5⟩⟩ := ih i s hac hwf' (fun w hw => hok w (by simp [hw]))
        generalize compileFrom lookup s (v :: rest) i = r at j1 j2 j3 j4 j5
        have hlen : s.length ≤ r.1.length := by rw [j5]; simp
        obtain ⟨x, hx, _⟩ := denAll_append s ext
        have htbl : denAll r.1 = denAll s ++ x := by rw [j5]; exact hx
        refine ⟨?_, ?_, ?_, j4, ⟨ext, j5⟩⟩
        · simp only [denU, hbo]
          rw [j1, htbl, denNode_prefix _ _ _ hokU]
          rfl
        · cases hr : r.2 with
          | nil => rw [hr] at j2; exact absurd j2 (by simp [WFStack])
          | cons w ws => rw [hr] at j2; exact WFStack_cons_cons.mpr ⟨hsome, j2⟩
        · intro w hw
          simp only [List.mem_cons] at hw
          cases hw with
          | inl h => subst h; exact AddrsOK_mono hlen (hok w (by simp))
          | inr h => exact j3 w h

/-! ### add_suffix -/

def chain : Key → List UNode
  | [] => [⟨⟨true, 0, []⟩, none⟩]
  | b :: bs => ⟨⟨false, 0, []⟩, some (b, 0)⟩ :: chain bs

def addSuffix : List UNode → Key → Nat → List UNode
  | stack, [], _ => stack
  | [], _ :: _, _ => []
  | [u], b :: bs, out => { u with last := some (b, out) } :: chain bs
  | u :: v :: rest, b :: bs, out => u :: addSuffix (v :: rest) (b :: bs) out

theorem denU_chain (tbl : List KV) : ∀ bs : Key, denU tbl (chain bs) = [(bs, 0)] := by
  intro bs
  induction bs with
  | nil => simp [chain, denU, denNode, own, branches]
  | cons b bs ih => simp [chain, denU, denNode, own, branches, ih, lift]

theorem WFStack_chain : ∀ bs : Key, WFStack (chain bs) := by
  intro bs
  induction bs with
  | nil => simp [chain, WFStack]
  | cons b bs ih =>
    cases hc : chain bs with
    | nil => rw [hc] at ih; exact absurd ih (by simp [WFStack])
    | cons w ws => simp only [chain, hc]; rw [hc] at ih; exact WFStack_cons_cons.mpr ⟨rfl, ih⟩

theorem StackOK_chain (n : Nat) : ∀ bs : Key, StackOK n (chain bs) := by
  intro bs
  induction bs with
  | nil => intro u hu; simp [chain] at hu; subst hu; intro t ht; simp at ht
  | cons b bs ih =>
    intro u hu
    simp only [chain, List.mem_cons] at hu
    cases hu with
    | inl h => subst h; intro t ht; simp at ht
    | inr h => exact ih u h

/-- inputs and outputs along the pending path -/
def pathKey : List UNode → Key
  | [] => []
  | u :: rest => (match u.last with | some (b, _) => [b] | none => []) ++ pathKey rest
def pathOut : List UNode → Nat
  | [] => 0
  | u :: rest => (match u.last with | some (_, o) => o | none => 0) + pathOut rest

theorem lift_append (b : UInt8) (o : Nat) (x y : KV) : lift b o (x ++ y) = lift b o x ++ lift b o y := by
  simp [lift]

theorem addSuffix_den (tbl : List KV) (b : UInt8) (bs : Key) (out : Nat) :
    ∀ stack : List UNode, WFStack stack →
      denU tbl (addSuffix stack (b :: bs) out) =
        denU tbl stack ++ [(pathKey stack ++ b :: bs, pathOut stack + out)] ∧
      WFStack (addSuffix stack (b :: bs) out) := by
  intro stack
  induction stack with
  | nil => intro h; exact absurd h (by simp [WFStack])
  | cons u st ih =>
    intro hwf
    cases st with
    | nil =>
      have hl : u.last = none := by simpa [WFStack] using hwf
      constructor
      · simp [addSuffix, denU, hl, denU_chain, lift, pathKey, pathOut]
      · cases hc : chain bs with
        | nil => have := WFStack_chain bs; rw [hc] at this; exact absurd this (by simp [WFStack])
        | cons w ws =>
          simp only [addSuffix, hc]
          have := WFStack_chain bs; rw [hc] at this
          exact WFStack_cons_cons.mpr ⟨rfl, this⟩
    | cons v rest =>
      obtain ⟨hsome, hwf'⟩ := WFStack_cons_cons.mp hwf
      obtain ⟨bo, hbo⟩ := Option.isSome_iff_exists.mp hsome
      obtain ⟨b', o⟩ := bo
      obtain ⟨ih1, ih2⟩ := ih hwf'
      constructor
      · simp only [addSuffix, denU, hbo, ih1, lift_append, pathKey, pathOut]
        simp [lift, Nat.add_assoc]
      · simp only [addSuffix]
        cases hr : addSuffix (v :: rest) (b :: bs) out with
        | nil => rw [hr] at ih2; exact absurd ih2 (by simp [WFStack])
        | cons w ws => rw [hr] at ih2; exact WFStack_cons_cons.mpr ⟨hsome, ih2⟩

/-! ### one insert, and the whole build -/

theorem addPrefix_last_isSome (p : Nat) (v : UNode) : (addPrefix p v).last.isSome = v.last.isSome := by
  cases h : v.last <;> simp [addPrefix, h]

theorem WFStack_head_congr {v v' : UNode} {rest : List UNode} (h : v'.last.isSome = v.last.isSome) :
    WFStack (v :: rest) → WFStack (v' :: rest) := by
  cases rest with
  | nil =>
    intro hw
    have : v.last = none := by simpa [WFStack] using hw
    have h2 : v'.last.isSome = false := by rw [h, this]; rfl
    simp only [WFStack]
    cases hv : v'.last with
    | none => rfl
    | some x => rw [hv] at h2; simp at h2
  | cons w ws =>
    intro hw
    obtain ⟨h1, h2⟩ := WFStack_cons_cons.mp hw
    exact WFStack_cons_cons.mpr ⟨by rw [h]; exact h1, h2⟩

theorem StackOK_addPrefix {n p : Nat} {v : UNode} (h : AddrsOK n v.node.trans) :
    AddrsOK n (addPrefix p v).node.trans := by
  intro t ht
  simp only [addPrefix, List.mem_map] at ht
  obtain ⟨t0, ht0, rfl⟩ := ht
  exact h t0 ht0

theorem cps_facts (n : Nat) : ∀ (key : Key) (stack : List UNode) (out : Nat),
    WFStack stack → StackOK n stack →
      WFStack (cps stack key out).2.2 ∧ StackOK n (cps stack key out).2.2 ∧
      pathKey ((cps stack key out).2.2.take (cps stack key out).1) = key.take (cps stack key out).1 ∧
      pathOut ((cps stack key out).2.2.take (cps stack key out).1) + (cps stack key out).2.1 = out := by
  intro key
  induction key with
  | nil => intro stack out hw hk; cases stack with
    | nil => simp [cps, pathKey, pathOut, hw, hk]
    | cons u st => cases st <;> simp [cps, pathKey, pathOut, hw, hk]
  | cons b bs ih =>
    intro stack out hw hk
    match stack, hw, hk with
    | [], hw, hk => simp [cps, pathKey, pathOut, hw, hk]
    | [u], hw, hk => simp [cps, pathKey, pathOut, hw, hk]
    | u :: v :: rest, hw, hk =>
      simp only [cps]
      cases hl : u.last with
      | none => simp [pathKey, pathOut, hw, hk]
      | some bo =>
        obtain ⟨b', o⟩ := bo
        simp only
        split
        · rename_i hb
          obtain ⟨hsome, hw'⟩ := WFStack_cons_cons.mp hw
          have hwv : WFStack ((if o - min o out ≠ 0 then addPrefix (o - min o out) v else v) :: rest) := by
            split
            · exact WFStack_head_congr (addPrefix_last_isSome _ _) hw'
            · exact hw'
          have hkv : StackOK n ((if o - min o out ≠ 0 then addPrefix (o - min o out) v else v) :: rest) := by
            intro w hw2
            simp only [List.mem_cons] at hw2
            cases hw2 with
            | inl h =>
              subst h
              split
              · exact StackOK_addPrefix (hk v (by simp))
              · exact hk v (by simp)
            | inr h => exact hk w (by simp [h])
          obtain ⟨i1, i2, i3, i4⟩ := ih _ (out - min o out) hwv hkv
          generalize cps ((if o - min o out ≠ 0 then addPrefix (o - min o out) v else v) :: rest) bs
            (out - min o out) = r at i1 i2 i3 i4
          refine ⟨?_, ?_, ?_, ?_⟩
          · cases hr : r.2.2 with
            | nil => rw [hr] at i1; exact absurd i1 (by simp [WFStack])
            | cons w ws => rw [hr] at i1; exact WFStack_cons_cons.mpr ⟨rfl, i1⟩
          · intro w hw2
            simp only [List.mem_cons] at hw2
            cases hw2 with
            | inl h => subst h; exact hk u (by simp)
            | inr h => exact i2 w h
          · simp [pathKey, i3, hb]
          · simp only [List.take_succ_cons, pathOut]
            omega
        · simp [pathKey, pathOut, hw, hk]

theorem compileFrom_path (lookup) (s : Store) : ∀ (stack : List UNode) (i : Nat), WFStack stack →
    pathKey (compileFrom lookup s stack i).2 = pathKey (stack.take i) ∧
    pathOut (compileFrom lookup s stack i).2 = pathOut (stack.take i) := by
  intro stack
  induction stack with
  | nil => intro i h; exact absurd h (by simp [WFStack])
  | cons u st ih =>
    intro i hw
    cases st with
    | nil =>
      have hl : u.last = none := by simpa [WFStack] using hw
      cases i <;> simp [compileFrom, pathKey, pathOut, hl]
    | cons v rest =>
      obtain ⟨_, hw'⟩ := WFStack_cons_cons.mp hw
      cases i with
      | zero => simp [compileFrom, pathKey, pathOut, thaw]
      | succ i =>
        obtain ⟨h1, h2⟩ := ih i hw'
        simp [compileFrom, pathKey, pathOut, h1, h2]

def insert1 (lookup : Store → Node → Option Nat) (st : Store × List UNode) (kv : Key × Nat) :
    Store × List UNode :=
  let r := cps st.2 kv.1 kv.2
  let c := compileFrom lookup st.1 r.2.2 r.1
  (c.1, addSuffix c.2 (kv.1.drop r.1) r.2.1)

def BInv (st : Store × List UNode) (acc : KV) : Prop :=
  Acyc st.1 ∧ WFStack st.2 ∧ StackOK st.1.length st.2 ∧ denU (denAll st.1) st.2 = acc

theorem StackOK_addSuffix (n : Nat) (b : UInt8) (bs : Key) (out : Nat) :
    ∀ stack : List UNode, StackOK n stack → StackOK n (addSuffix stack (b :: bs) out)
  | [], h => by simpa [addSuffix] using h
  | [u], h => by
    intro w hw
    simp only [addSuffix, List.mem_cons] at hw
    cases hw with
    | inl e => rw [e]; exact h u (by simp)
    | inr e => exact StackOK_chain n bs w e
  | u :: v :: rest, h => by
    intro w hw
    simp only [addSuffix, List.mem_cons] at hw
    cases hw with
    | inl e => rw [e]; exact h u (by simp)
    | inr e =>
      exact StackOK_addSuffix n b bs out (v :: rest) (fun x hx => h x (by simp [hx])) w e

theorem insert1_inv' (lookup) (hs : Sound lookup) (st : Store × List UNode) (acc : KV) (kv : Key × Nat)
    (hinv : BInv st acc) (r) (hr : cps st.2 kv.1 kv.2 = r) (c) (hc : compileFrom lookup st.1 r.2.2 r.1 = c)
    (hprog : r.1 < kv.1.length) :
    BInv (c.1, addSuffix c.2 (kv.1.drop r.1) r.2.1) (acc ++ [kv]) := by
  obtain ⟨hac, hwf, hok, hden⟩ := hinv
  obtain ⟨c1, c2, c3, c4⟩ := cps_facts st.1.length kv.1 st.2 kv.2 hwf hok
  have c0 := cps_den (denAll st.1) kv.1 st.2 kv.2
  rw [hr] at c0 c1 c2 c3 c4
  obtain ⟨d1, d2, d3, d4, ⟨ext, d5⟩⟩ := compileFrom_den lookup hs r.2.2 r.1 st.1 hac c1 c2
  obtain ⟨p1, p2⟩ := compileFrom_path lookup st.1 r.2.2 r.1 c1
  rw [hc] at d1 d2 d3 d4 d5 p1 p2
  obtain ⟨b, bs, hdrop⟩ : ∃ b bs, kv.1.drop r.1 = b :: bs := by
    cases h : kv.1.drop r.1 with
    | nil => have := congrArg List.length h; simp at this; omega
    | cons b bs => exact ⟨b, bs, rfl⟩
  obtain ⟨a1, a2⟩ := addSuffix_den (denAll c.1) b bs r.2.1 c.2 d2
  rw [hdrop]
  refine ⟨d4, a2, StackOK_addSuffix _ b bs _ _ d3, ?_⟩
  show denU (denAll c.1) (addSuffix c.2 (b :: bs) r.2.1) = acc ++ [kv]
  rw [a1, d1, c0, hden, p1, p2, c3, ← hdrop, List.take_append_drop]
  congr 2
  obtain ⟨k, v⟩ := kv
  simp only at c4 ⊢
  rw [c4]

theorem insert1_inv (lookup) (hs : Sound lookup) (st : Store × List UNode) (acc : KV) (kv : Key × Nat)
    (hinv : BInv st acc) (hprog : (cps st.2 kv.1 kv.2).1 < kv.1.length) :
    BInv (insert1 lookup st kv) (acc ++ [kv]) :=
  insert1_inv' lookup hs st acc kv hinv _ rfl _ rfl hprog

/-- side condition discharged from strict key order in the full development -/
def StepsOK (lookup : Store → Node → Option Nat) : Store × List UNode → KV → Prop
  | _, [] => True
  | st, kv :: rest => (cps st.2 kv.1 kv.2).1 < kv.1.length ∧ StepsOK lookup (insert1 lookup st kv) rest

theorem build_inv (lookup) (hs : Sound lookup) : ∀ (kvs : KV) (st : Store × List UNode) (acc : KV),
    BInv st acc → StepsOK lookup st kvs → BInv (kvs.foldl (insert1 lookup) st) (acc ++ kvs) := by
  intro kvs
  induction kvs with
  | nil => intro st acc h _; simpa using h
  | cons kv rest ih =>
    intro st acc h hsteps
    obtain ⟨h1, h2⟩ := hsteps
    have := ih (insert1 lookup st kv) (acc ++ [kv]) (insert1_inv lookup hs st acc kv h h1) h2
    simpa [List.foldl_cons, List.append_assoc] using this

def finish (lookup : Store → Node → Option Nat) (st : Store × List UNode) : Store × Nat :=
  let c := compileFrom lookup st.1 st.2 0
  match c.2 with
  | [root] => compile lookup c.1 root.node
  | _ => (c.1, 1)

theorem finish_den (lookup) (hs : Sound lookup) (st : Store × List UNode) (acc : KV) (h : BInv st acc) :
    look (denAll (finish lookup st).1) (finish lookup st).2 = acc := by
  obtain ⟨hac, hwf, hok, hden⟩ := h
  obtain ⟨d1, d2, d3, d4, _⟩ := compileFrom_den lookup hs st.2 0 st.1 hac hwf hok
  have hlen : ∃ root, (compileFrom lookup st.1 st.2 0).2 = [root] := by
    match st.2, hwf with
    | [u], _ => exact ⟨u, by simp [compileFrom]⟩
    | u :: v :: rest, _ =>
      exact ⟨thaw u (compileTail lookup st.1 (v :: rest)).2, by simp [compileFrom]⟩
  obtain ⟨root, hroot⟩ := hlen
  unfold finish
  simp only [hroot]
  rw [hroot] at d1 d2 d3
  have hl : root.last = none := by simpa [WFStack] using d2
  obtain ⟨e1, _⟩ := compile_den lookup hs _ d4 root.node (d3 root (by simp))
  rw [e1, ← hden, ← d1]
  simp [denU, hl]

/-- initial state (no empty key) and the end-to-end statement -/
def init0 : Store × List UNode := ([], [⟨⟨false, 0, []⟩, none⟩])
def initE (v : Nat) : Store × List UNode := ([], [⟨⟨true, v, []⟩, none⟩])

theorem init0_inv : BInv init0 [] := by
  refine ⟨fun k h => absurd h (by simp [init0]), by simp [init0, WFStack], ?_, by simp [init0, denU, denNode, own, branches]⟩
  intro u hu; simp [init0] at hu; subst hu; intro t ht; simp at ht

theorem initE_inv (v : Nat) : BInv (initE v) [([], v)] := by
  refine ⟨fun k h => absurd h (by simp [initE]), by simp [initE, WFStack], ?_, by simp [initE, denU, denNode, own, branches]⟩
  intro u hu; simp [initE] at hu; subst hu; intro t ht; simp at ht

theorem build_roundtrip (lookup) (hs : Sound lookup) (kvs : KV) (hsteps : StepsOK lookup init0 kvs) :
    let r := finish lookup (kvs.foldl (insert1 lookup) init0)
    look (denAll r.1) r.2 = kvs := by
  have := build_inv lookup hs kvs init0 [] init0_inv hsteps
  simpa using finish_den lookup hs _ _ this


/-! ### discharging the progress side condition from strict key order -/

def lcp : Key → Key → Nat
  | a :: as, b :: bs => if a = b then lcp as bs + 1 else 0
  | _, _ => 0

def lexLt : Key → Key → Bool
  | [], [] => false
  | [], _ :: _ => true
  | _ :: _, [] => false
  | a :: as, b :: bs => a < b || (a == b && lexLt as bs)

theorem lcp_lt_of_lexLt : ∀ (a b : Key), lexLt a b = true → lcp b a < b.length := by
  intro a
  induction a with
  | nil => intro b h; cases b with
    | nil => simp [lexLt] at h
    | cons y ys => simp [lcp]
  | cons x xs ih =>
    intro b h
    cases b with
    | nil => simp [lexLt] at h
    | cons y ys =>
      simp only [lcp]
      split
      · rename_i hyx
        subst hyx
        simp only [lexLt, Bool.or_eq_true, decide_eq_true_eq, Bool.and_eq_true, beq_iff_eq] at h
        cases h with
        | inl h => exact absurd h (by simp [UInt8.lt_irrefl])
        | inr h => have := ih ys h.2; simp; omega
      · simp

theorem pathKey_addPrefix (p : Nat) (v : UNode) (rest : List UNode) :
    pathKey (addPrefix p v :: rest) = pathKey (v :: rest) := by
  cases h : v.last with
  | none => simp [pathKey, addPrefix, h]
  | some bo => simp [pathKey, addPrefix, h]

theorem cps_index : ∀ (key : Key) (stack : List UNode) (out : Nat), WFStack stack →
    (cps stack key out).1 = lcp key (pathKey stack) := by
  intro key
  induction key with
  | nil => intro stack out _; cases stack with
    | nil => simp [cps, lcp]
    | cons u st => cases st <;> simp [cps, lcp]
  | cons b bs ih =>
    intro stack out hw
    match stack, hw with
    | [], hw => exact absurd hw (by simp [WFStack])
    | [u], hw =>
      have hl : u.last = none := by simpa [WFStack] using hw
      simp [cps, pathKey, hl, lcp]
    | u :: v :: rest, hw =>
      obtain ⟨hsome, hw'⟩ := WFStack_cons_cons.mp hw
      obtain ⟨bo, hbo⟩ := Option.isSome_iff_exists.mp hsome
      obtain ⟨b', o⟩ := bo
      simp only [cps, hbo]
      split
      · rename_i hb
        subst hb
        have hwv : WFStack ((if o - min o out ≠ 0 then addPrefix (o - min o out) v else v) :: rest) := by
          split
          · exact WFStack_head_congr (addPrefix_last_isSome _ _) hw'
          · exact hw'
        have hpk : pathKey ((if o - min o out ≠ 0 then addPrefix (o - min o out) v else v) :: rest)
            = pathKey (v :: rest) := by
          split
          · exact pathKey_addPrefix _ _ _
          · rfl
        rw [ih _ _ hwv, hpk]
        simp [pathKey, hbo, lcp]
      · rename_i hb
        have : ¬ b = b' := fun h => hb h.symm
        simp [pathKey, hbo, lcp, this]

theorem pathKey_chain : ∀ bs : Key, pathKey (chain bs) = bs := by
  intro bs
  induction bs with
  | nil => simp [chain, pathKey]
  | cons b bs ih => simp [chain, pathKey, ih]

theorem pathKey_addSuffix (b : UInt8) (bs : Key) (out : Nat) :
    ∀ stack : List UNode, WFStack stack → pathKey (addSuffix stack (b :: bs) out) = pathKey stack ++ b :: bs
  | [], h => absurd h (by simp [WFStack])
  | [u], h => by
    have hl : u.last = none := by simpa [WFStack] using h
    simp [addSuffix, pathKey, hl, pathKey_chain]
  | u :: v :: rest, h => by
    obtain ⟨_, hw'⟩ := WFStack_cons_cons.mp h
    simp [addSuffix, pathKey, pathKey_addSuffix b bs out (v :: rest) hw', List.append_assoc]

/-- after an insert the pending path spells the inserted key -/
theorem insert1_path (lookup) (hs : Sound lookup) (st : Store × List UNode) (kv : Key × Nat)
    (hac : Acyc st.1) (hwf : WFStack st.2)
    (hok : StackOK st.1.length st.2) (hprog : (cps st.2 kv.1 kv.2).1 < kv.1.length) :
    pathKey (insert1 lookup st kv).2 = kv.1 := by
  obtain ⟨c1, c2, c3, c4⟩ := cps_facts st.1.length kv.1 st.2 kv.2 hwf hok
  obtain ⟨p1, _⟩ := compileFrom_path lookup st.1 (cps st.2 kv.1 kv.2).2.2 (cps st.2 kv.1 kv.2).1 c1
  obtain ⟨_, d2, _⟩ := compileFrom_den lookup hs (cps st.2 kv.1 kv.2).2.2 (cps st.2 kv.1 kv.2).1 st.1 hac c1 c2
  obtain ⟨b, bs, hdrop⟩ : ∃ b bs, kv.1.drop (cps st.2 kv.1 kv.2).1 = b :: bs := by
    cases h : kv.1.drop (cps st.2 kv.1 kv.2).1 with
    | nil => have := congrArg List.length h; simp at this; omega
    | cons b bs => exact ⟨b, bs, rfl⟩
  show pathKey (addSuffix _ (kv.1.drop (cps st.2 kv.1 kv.2).1) _) = kv.1
  rw [hdrop, pathKey_addSuffix b bs _ _ d2, p1, c3, ← hdrop, List.take_append_drop]

/-- strictly increasing, all keys non-empty (the empty key is handled by `initE`) -/
def Sorted : Key → KV → Prop
  | _, [] => True
  | prev, kv :: rest => lexLt prev kv.1 = true ∧ Sorted kv.1 rest

theorem stepsOK_of_sorted (lookup) (hs : Sound lookup) : ∀ (kvs : KV) (st : Store × List UNode) (acc : KV),
    BInv st acc → Sorted (pathKey st.2) kvs → StepsOK lookup st kvs := by
  intro kvs
  induction kvs with
  | nil => intro _ _ _ _; trivial
  | cons kv rest ih =>
    intro st acc hinv hsorted
    obtain ⟨hlt, hrest⟩ := hsorted
    have hprog : (cps st.2 kv.1 kv.2).1 < kv.1.length := by
      rw [cps_index kv.1 st.2 kv.2 hinv.2.1]
      exact lcp_lt_of_lexLt _ _ hlt
    refine ⟨hprog, ih _ _ (insert1_inv lookup hs st acc kv hinv hprog) ?_⟩
    rw [insert1_path lookup hs st kv hinv.1 hinv.2.1 hinv.2.2.1 hprog]
    exact hrest

/-- END-TO-END (abstract store level): strictly increasing non-empty keys, any sound cache -/
theorem build_roundtrip_sorted (lookup) (hs : Sound lookup) (kvs : KV) (h : Sorted [] kvs) :
    let r := finish lookup (kvs.foldl (insert1 lookup) init0)
    look (denAll r.1) r.2 = kvs :=
  build_roundtrip lookup hs kvs (stepsOK_of_sorted lookup hs kvs init0 [] init0_inv (by simpa [init0, pathKey] using h))

#print axioms build_roundtrip_sorted

#print axioms build_roundtrip

-- non-vacuity / sanity: run it
def noCache : Store → Node → Option Nat := fun _ _ => none
def fullCache : Store → Node → Option Nat := fun s n =>
  match s.findIdx? (· == n) with | some k => some (k+1) | none => none
def demo : KV := [([1], 5), ([1,2], 3), ([1,3], 9), ([2,3], 1)]
#eval (let r := finish fullCache (demo.foldl (insert1 fullCache) init0); (look (denAll r.1) r.2, r.1.length))
#eval (let r := finish noCache (demo.foldl (insert1 noCache) init0); (look (denAll r.1) r.2, r.1.length))
-- the hypothesis of the end-to-end theorem is satisfiable
example : Sorted [] demo := by simp [Sorted, demo, lexLt]
