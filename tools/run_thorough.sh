#!/bin/bash
cd /verif
for i in 01 02 03 04 05 06 07 08 09 10 11 12 13 14 15 16 17 18 19 20; do
  /usr/bin/time -f "C$i wall %es maxrss %MKB" ./check C$i --tier thorough 2>&1 | grep -E "VIOLATION|KNOWN|\[check\] C|wall"
done
