#!/bin/bash
# dev helper: tools/try.sh Cxx [tier] [seed]
P=$1; T=${2:-quick}; S=${3:-1}
H=/verif/target/debug/harness; M=/verif/lean/.lake/build/bin/fstmodel
export FST_BIN=/verif/target/debug/fst FST_TMP=/verif/target/tmp
mkdir -p /verif/work
/usr/bin/time -f "gen %es" $H gen $P $T $S > work/$P.cases || exit 1
echo "cases: $(wc -l < work/$P.cases) lines, $(du -h work/$P.cases | cut -f1)"
/usr/bin/time -f "impl %es" $H run work/$P.oracle < work/$P.cases > work/$P.impl
/usr/bin/time -f "model %es %MKB" $M < work/$P.cases > work/$P.model
echo "oracle: $(head -1 work/$P.oracle); fails=$(grep -c ^FAIL work/$P.oracle)"
grep ^FAIL work/$P.oracle | cut -c1-300 | head -${4:-5}
echo "diff lines: $(diff work/$P.impl work/$P.model | grep -c '^<')"
diff work/$P.impl work/$P.model | cut -c1-400 | head -${4:-6}
