#!/bin/bash
# apply a recorded seed to /repo, run one or more checks, revert. usage: try_seed.sh <seed-id> <prop> [tier]
id=$1; prop=$2; tier=${3:-quick}
cd /verif
[ -z "$(git -C /repo status --short)" ] || { echo "/repo not clean"; exit 2; }
git -C /repo apply /verif/seeded/$id/patch.diff || exit 2
./check $prop --tier $tier 2>&1 | grep -E "VIOLATION|\[check\] C" | tail -2
git -C /repo checkout -- .
git -C /repo status --short
