#!/bin/bash
# Which lines of /repo/src does the correspondence actually execute?
# Builds the harness with source-based coverage (nightly: llvm-cov / llvm-profdata ship
# with its llvm-tools component), replays the case files of every property's last run
# (work/Cxx.<tier>.cases; run ./check first), and prints per-file line coverage of the
# crate plus the uncovered functions. A measuring tool, not a registered check.
set -e
TIER=${1:-quick}
V=/verif
COV=$V/work/cov
BIN=/root/.rustup/toolchains/nightly-x86_64-unknown-linux-gnu/lib/rustlib/x86_64-unknown-linux-gnu/bin
mkdir -p $COV/prof && rm -f $COV/prof/*.profraw
cd $V/harness
LLVM_PROFILE_FILE=$COV/buildprof-%p.profraw CARGO_NET_OFFLINE=true CARGO_TARGET_DIR=$COV/target RUSTFLAGS="-C instrument-coverage --cfg burntsushi_fst_verif" \
  cargo +nightly build --offline 2>&1 | tail -1
H=$COV/target/debug/harness
export FST_TMP=$V/target/tmp FST_BIN=$V/target/debug/fst
mkdir -p $FST_TMP
for f in $V/work/C*.$TIER.cases; do
  p=$(basename $f .$TIER.cases)
  LLVM_PROFILE_FILE=$COV/prof/$p-%p.profraw $H run $COV/$p.oracle < $f > /dev/null 2>&1 || echo "run of $p aborted"
done
$BIN/llvm-profdata merge -sparse $COV/prof/*.profraw -o $COV/all.profdata
$BIN/llvm-cov report $H -instr-profile=$COV/all.profdata --ignore-filename-regex='(\.cargo|rustc|harness/src)' 2>/dev/null | tee $COV/report.txt
$BIN/llvm-cov report $H -instr-profile=$COV/all.profdata --show-functions /repo/src/*.rs /repo/src/raw/*.rs /repo/src/automaton/*.rs 2>/dev/null \
  | awk '$0 ~ /^File/ {f=$2} NF>=7 && $7=="0.00%" && $1 !~ /^(TOTAL|Name|-)/ {print f, $1}' > $COV/uncovered_functions.txt || true
echo "uncovered functions: $(wc -l < $COV/uncovered_functions.txt) (see $COV/uncovered_functions.txt)"
