#!/bin/bash
# evaluate every delivered seed not yet recorded; serial (they patch /repo's working tree)
cd /verif
for d in /tmp/seed_C*/[a-z] /tmp/seed2_C*/[a-z] /tmp/seed3_C*/[a-z] /tmp/seed4_C*/[a-z] /tmp/seed5_C*/[a-z] /tmp/seed6_C*/[a-z] /tmp/seed7_C*/[a-z]; do
  [ -f "$d/patch.diff" ] || continue
  top=$(basename $(dirname $d)); v=$(basename $d)
  case $top in
    seed2_*) prop=${top#seed2_}; id="$prop-2$v";;
    seed3_*) prop=${top#seed3_}; id="$prop-3$v";;
    seed4_*) prop=${top#seed4_}; id="$prop-4$v";;
    seed5_*) prop=${top#seed5_}; id="$prop-5$v";;
    seed6_*) prop=${top#seed6_}; id="$prop-6$v";;
    seed7_*) prop=${top#seed7_}; id="$prop-7$v";;
    *) prop=${top#seed_}; id="$prop-$v";;
  esac
  [ -f "seeded/$id/meta.json" ] && grep -q '"checks"' "seeded/$id/meta.json" && continue
  echo "=== $id"
  python3 tools/eval_seed.py $d $prop $id --checks $prop 2>&1 | tail -4
done
