#!/bin/bash
# evaluate every delivered seed not yet recorded; serial (they patch /repo's working tree)
cd /verif
for d in /tmp/seed_C*/[a-z]; do
  [ -f "$d/patch.diff" ] || continue
  prop=$(basename $(dirname $d) | sed 's/seed_//'); v=$(basename $d); id="$prop-$v"
  [ -f "seeded/$id/meta.json" ] && grep -q '"checks"' "seeded/$id/meta.json" && continue
  echo "=== $id"
  python3 tools/eval_seed.py $d $prop $id --checks $prop 2>&1 | tail -4
done
