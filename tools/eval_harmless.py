#!/usr/bin/env python3
"""eval_harmless.py <dir> <prop> <id>: a change that is supposed to KEEP the property.
Confirms that it applies, builds and passes the existing suite in a scratch worktree, then
applies it to /repo, runs the property's quick check, records exit code / kind of report,
and reverts. Result in /verif/harmless/<id>/ (patch.diff, SEEDER_README.md, meta.json)."""
import json, os, re, shutil, subprocess, sys, time
d, prop, hid = sys.argv[1], sys.argv[2], sys.argv[3]
dst = f"/verif/harmless/{hid}"
os.makedirs(dst, exist_ok=True)
shutil.copy(f"{d}/patch.diff", f"{dst}/patch.diff")
if os.path.exists(f"{d}/README.md"):
    shutil.copy(f"{d}/README.md", f"{dst}/SEEDER_README.md")
meta = {"id": hid, "property": prop}
def sh(c, **k):
    return subprocess.run(c, shell=True, capture_output=True, text=True, **k)
wt = f"/tmp/evalh_{hid}"
sh(f"git -C /repo worktree remove --force {wt}")
assert sh(f"git -C /repo worktree add --detach {wt} HEAD").returncode == 0
try:
    r = sh(f"git -C {wt} apply {dst}/patch.diff")
    meta["patch_applies"] = r.returncode == 0
    if r.returncode == 0:
        env = dict(os.environ, CARGO_NET_OFFLINE="true", CARGO_TARGET_DIR=f"{wt}/target")
        r = sh("cargo test --workspace --offline 2>&1", cwd=wt, env=env)
        passed = sum(int(x) for x in re.findall(r"test result: ok\. (\d+) passed", r.stdout))
        meta["existing_suite"] = {"passed": passed, "failed": "FAILED" in r.stdout or "error[" in r.stdout or "error:" in r.stdout}
        r2 = sh('RUSTFLAGS="--cfg burntsushi_fst_verif" cargo build --workspace --offline 2>&1', cwd=wt, env=env)
        meta["hooked_build_ok"] = r2.returncode == 0
finally:
    sh(f"git -C /repo worktree remove --force {wt}")
ok = meta.get("patch_applies") and not meta.get("existing_suite", {}).get("failed", True) and meta["existing_suite"]["passed"] >= 108
meta["usable"] = bool(ok)
if ok:
    assert sh("git -C /repo status --short").stdout.strip() == "", "/repo not clean"
    assert sh(f"git -C /repo apply {dst}/patch.diff").returncode == 0
    try:
        t0 = time.time()
        r = sh(f"/verif/check {prop} --tier quick", cwd="/verif")
        out = r.stdout + r.stderr
        viol = [l for l in out.splitlines() if l.startswith("VIOLATION")]
        res = {"exit": r.returncode, "violation": viol, "summary": [l for l in out.splitlines() if l.startswith("[check] C")], "wall_s": round(time.time() - t0, 1)}
        if viol:
            m = re.search(r"replay=(\S+)", viol[0])
            if m and os.path.exists(m.group(1)):
                rp = json.load(open(m.group(1)))
                res["replay_kind"] = rp.get("kind")
                res["observed"] = str(rp.get("observed") or rp.get("what") or (rp.get("correspondence") or [""])[0])[:500]
            res["no_failing_input_found"] = viol[0].rstrip().endswith("no-failing-input-found")
        meta["check"] = res
    finally:
        sh("git -C /repo checkout -- .")
json.dump(meta, open(f"{dst}/meta.json", "w"), indent=1)
c = meta.get("check", {})
print(hid, "usable" if ok else "UNUSABLE", "exit", c.get("exit"), c.get("replay_kind"), "nfif" if c.get("no_failing_input_found") else "", (c.get("observed") or "")[:160])
