#!/usr/bin/env python3
"""mutate.py <n> [seed]: mechanical mutation sweep. Single-token mutants of the library
source (comparison / arithmetic / boolean operators, ±1, constants) are applied one at a
time in a scratch worktree; those that still COMPILE and PASS THE EXISTING TEST SUITE
(i.e. the ones the tests cannot see) are applied to /repo, the quick checks of the
properties anchored in that file are run, and /repo is reverted.
Results: /verif/mutants/results.json (one record per mutant). A surviving mutant is not
necessarily a miss: many single-token mutants are equivalent or only affect performance."""
import json, os, random, re, subprocess, sys, time

N = int(sys.argv[1]) if len(sys.argv) > 1 else 40
SEED = int(sys.argv[2]) if len(sys.argv) > 2 else 1
WT = "/tmp/mut_wt"
OUT = "/verif/mutants/results.json"
FILES = {
    "src/raw/build.rs": ["C01", "C06", "C12"],
    "src/raw/node.rs": ["C01", "C02", "C09"],
    "src/raw/mod.rs": ["C02", "C03", "C04", "C16", "C20"],
    "src/raw/ops.rs": ["C05"],
    "src/raw/registry.rs": ["C12", "C15"],
    "src/raw/counting_writer.rs": ["C07", "C08"],
    "src/raw/crc32.rs": ["C08"],
    "src/bytes.rs": ["C01", "C09"],
    "src/automaton/mod.rs": ["C18", "C04"],
    "src/automaton/levenshtein.rs": ["C17"],
    "fst-bin/src/merge.rs": ["C19"],
}
MUTS = [
    (r"(?<![<>=!-])<=(?!=)", ["<"]), (r"(?<![<>=!-])>=(?!=)", [">"]),
    (r"(?<![<>=!\-:&])\s<\s(?![<=])", [" <= "]), (r"(?<![<>=!\-])\s>\s(?![>=])", [" >= "]),
    (r"==", ["!="]), (r"!=", ["=="]), (r"&&", ["||"]), (r"\|\|", ["&&"]),
    (r"\+ 1\b", ["- 1", "+ 2"]), (r"- 1\b", ["+ 1", "- 2"]), (r"\+= 1\b", ["+= 2"]),
    (r"\btrue\b", ["false"]), (r"\bfalse\b", ["true"]),
    (r"\b(8|16|32|64|256|255)\b", None),  # constant ± 1
    (r"\.rev\(\)", [""]), (r"\bmin\(", ["max("]), (r"\bmax\(", ["min("]),
]

def sh(c, **k):
    return subprocess.run(c, shell=True, capture_output=True, text=True, **k)

def sites():
    out = []
    for f in FILES:
        lines = open(f"/repo/{f}").read().split("\n")
        in_tests = False
        skip_next = 0
        for i, l in enumerate(lines):
            s = l.strip()
            if s.startswith("#[cfg(test)]") or s.startswith("mod tests"):
                in_tests = True
            if in_tests:
                continue
            if "burntsushi_fst_verif" in l:
                skip_next = 12
            if skip_next > 0:
                skip_next -= 1
                continue
            if s.startswith("//") or s.startswith("#[") or s.startswith("assert") or s.startswith("debug_assert") or "unreachable!" in l or "panic!" in l:
                continue
            code = l.split("//")[0]
            for pat, reps in MUTS:
                for m in re.finditer(pat, code):
                    if reps is None:
                        v = int(m.group(1))
                        rs = [str(v + 1), str(v - 1)]
                    else:
                        rs = reps
                    for r in rs:
                        out.append((f, i, m.start(), m.end(), r))
    return out

def apply(root, site):
    f, i, a, b, r = site
    p = f"{root}/{f}"
    lines = open(p).read().split("\n")
    old = lines[i]
    lines[i] = old[:a] + r + old[b:]
    open(p, "w").write("\n".join(lines))
    return old, lines[i]

def main():
    os.makedirs("/verif/mutants", exist_ok=True)
    results = json.load(open(OUT)) if os.path.exists(OUT) else []
    done = {(r["file"], r["line"], r["col"], r["replacement"]) for r in results}
    all_sites = sites()
    random.Random(SEED).shuffle(all_sites)
    sh(f"git -C /repo worktree remove --force {WT}")
    assert sh(f"git -C /repo worktree add --detach {WT} HEAD").returncode == 0
    env = dict(os.environ, CARGO_NET_OFFLINE="true", CARGO_TARGET_DIR=f"{WT}/target")
    sh("cargo test --workspace --offline --no-run 2>&1", cwd=WT, env=env)
    n = 0
    try:
        for site in all_sites:
            if n >= N:
                break
            key = (site[0], site[1] + 1, site[2], site[4])
            if key in done:
                continue
            sh("git checkout -- .", cwd=WT)
            old, new = apply(WT, site)
            rec = {"file": site[0], "line": site[1] + 1, "col": site[2], "replacement": site[4], "old": old.strip()[:160], "new": new.strip()[:160]}
            r = sh("cargo build --workspace --offline 2>&1", cwd=WT, env=env)
            if r.returncode != 0:
                rec["status"] = "does-not-compile"
            else:
                r = sh("timeout 600 cargo test --workspace --offline 2>&1", cwd=WT, env=env)
                passed = sum(int(x) for x in re.findall(r"test result: ok\. (\d+) passed", r.stdout))
                if r.returncode != 0 or passed < 108:
                    rec["status"] = "killed-by-tests"
                else:
                    rec["status"] = "survives-tests"
                    assert sh("git -C /repo status --short").stdout.strip() == ""
                    apply("/repo", site)
                    try:
                        rec["checks"] = {}
                        for c in FILES[site[0]]:
                            t0 = time.time()
                            rr = sh(f"/verif/check {c} --tier quick", cwd="/verif")
                            v = [l for l in (rr.stdout + rr.stderr).splitlines() if l.startswith("VIOLATION")]
                            rec["checks"][c] = {"exit": rr.returncode, "violation": v[:1], "wall_s": round(time.time() - t0, 1)}
                            if rr.returncode != 0:
                                break
                        rec["caught"] = any(x["exit"] != 0 for x in rec["checks"].values())
                    finally:
                        sh("git -C /repo checkout -- .")
                    n += 1
            results.append(rec)
            done.add(key)
            json.dump(results, open(OUT, "w"), indent=1)
            print(rec["status"], rec.get("caught"), rec["file"], rec["line"], rec["old"][:70], "=>", rec["replacement"], flush=True)
    finally:
        sh(f"git -C /repo worktree remove --force {WT}")

main()
