#!/usr/bin/env python3
"""eval_seed.py <seed_dir> <prop> <id> [--checks C01,C02,...]

Confirms a seeded change independently and runs the registered checks against it:
 1. scratch worktree of /repo HEAD: the demo passes on the clean tree;
    with patch.diff applied the workspace builds, the existing suite passes and
    the demo fails;
 2. the patch is applied to /repo's working tree, the quick checks are run,
    and the patch is undone (git checkout -- .);
 3. everything is recorded in /verif/seeded/<id>/ (patch.diff, demo, meta.json).
"""
import json, os, re, shutil, subprocess, sys, time

def sh(cmd, cwd=None, env=None, timeout=3600):
    r = subprocess.run(cmd, shell=True, cwd=cwd, env=env, capture_output=True, text=True, timeout=timeout)
    return r.returncode, r.stdout + r.stderr

def main():
    seed_dir, prop, sid = sys.argv[1], sys.argv[2], sys.argv[3]
    checks = [prop]
    if "--checks" in sys.argv:
        checks = sys.argv[sys.argv.index("--checks") + 1].split(",")
    env = dict(os.environ, CARGO_NET_OFFLINE="true")
    wt = f"/tmp/evalwt_{sid}"
    meta = {"id": sid, "property": prop, "seed_dir": seed_dir, "ran": []}
    patch = os.path.join(seed_dir, "patch.diff")
    demos = [f for f in os.listdir(seed_dir) if f.endswith(".rs") or f.endswith(".sh")]
    sh(f"git -C /repo worktree remove --force {wt}")
    rc, out = sh(f"git -C /repo worktree add --detach {wt} HEAD")
    assert rc == 0, out
    try:
        os.makedirs(f"{wt}/tests", exist_ok=True)
        def put_demos():
            for d in demos:
                if d.endswith(".rs"):
                    shutil.copy(os.path.join(seed_dir, d), f"{wt}/tests/{d}")
                else:
                    shutil.copy(os.path.join(seed_dir, d), f"{wt}/{d}")
        def drop_demos():
            for d in demos:
                for q in (f"{wt}/tests/{d}", f"{wt}/{d}"):
                    if os.path.exists(q):
                        os.remove(q)
        def run_demos():
            res = {}
            for d in demos:
                if d.endswith(".rs"):
                    name = d[:-3]
                    rc, out = sh(f"cargo test --offline --features levenshtein --test {name} 2>&1 | tail -15", cwd=wt, env=env)
                    ok = "test result: ok" in out and "FAILED" not in out and "error:" not in out and "error[" not in out
                    res[d] = {"pass": ok, "tail": out[-600:]}
                else:
                    rc0, _ = sh("cargo build --offline -p fst-bin 2>&1 | tail -2", cwd=wt, env=env)
                    rc, out = sh(f"bash -o pipefail -c 'bash {d} 2>&1 | tail -15'", cwd=wt, env=dict(env, FST_BIN=f"{wt}/target/debug/fst", WT=wt))
                    res[d] = {"pass": rc == 0, "tail": out[-600:]}
            return res
        put_demos()
        clean = run_demos()
        drop_demos()
        meta["demo_on_clean_tree"] = {k: v["pass"] for k, v in clean.items()}
        rc, out = sh(f"git apply {patch}", cwd=wt)
        meta["patch_applies"] = rc == 0
        if rc != 0:
            meta["error"] = out[-500:]
            return finish(meta, seed_dir, sid, demos)
        rc, out = sh("cargo test --workspace --offline 2>&1 | grep -E '^test result|FAILED|error(\\[|:)' | head -20", cwd=wt, env=env)
        passed = sum(int(m) for m in re.findall(r"test result: ok\. (\d+) passed", out))
        meta["existing_suite"] = {"passed": passed, "failed": "FAILED" in out or "error" in out, "out": out[-800:]}
        put_demos()
        seeded = run_demos()
        meta["demo_with_patch"] = {k: v["pass"] for k, v in seeded.items()}
        meta["demo_tail_with_patch"] = {k: v["tail"][-300:] for k, v in seeded.items()}
        meta["confirmed"] = (all(meta["demo_on_clean_tree"].values()) and not any(meta["demo_with_patch"].values())
                             and not meta["existing_suite"]["failed"] and passed >= 108)
    finally:
        sh(f"git -C /repo worktree remove --force {wt}")
    # run the registered checks against the change
    rc, st = sh("git -C /repo status --porcelain")
    assert st.strip() == "", "/repo working tree not clean: " + st
    rc, out = sh(f"git -C /repo apply {patch}")
    results = {}
    try:
        if rc == 0:
            for c in checks:
                t0 = time.time()
                rc2, out2 = sh(f"./check {c} --tier quick", cwd="/verif", timeout=3000)
                vio = [l for l in out2.splitlines() if l.startswith("VIOLATION")]
                results[c] = {"exit": rc2, "violation": vio[:2], "summary": [l for l in out2.splitlines() if l.startswith("[check] C")][-1:], "wall_s": round(time.time() - t0, 1)}
                if vio:
                    m = re.search(r"replay=(\S+)", vio[0])
                    if m and os.path.exists(m.group(1)):
                        rp = json.load(open(m.group(1)))
                        results[c]["replay_kind"] = rp.get("kind")
                        results[c]["observed"] = str(rp.get("observed", rp.get("what", "")))[:400]
                        os.remove(m.group(1))
    finally:
        sh("git -C /repo checkout -- .")
        rc, st = sh("git -C /repo status --porcelain")
        assert st.strip() == "", "could not restore /repo: " + st
    meta["checks"] = results
    meta["caught_by"] = [c for c, r in results.items() if r["exit"] != 0]
    finish(meta, seed_dir, sid, demos)

def finish(meta, seed_dir, sid, demos):
    dst = f"/verif/seeded/{sid}"
    os.makedirs(dst, exist_ok=True)
    shutil.copy(os.path.join(seed_dir, "patch.diff"), dst)
    for d in demos:
        shutil.copy(os.path.join(seed_dir, d), dst)
    if os.path.exists(os.path.join(seed_dir, "README.md")):
        shutil.copy(os.path.join(seed_dir, "README.md"), os.path.join(dst, "SEEDER_README.md"))
    json.dump(meta, open(os.path.join(dst, "meta.json"), "w"), indent=1)
    print(json.dumps({k: meta.get(k) for k in ("id", "confirmed", "caught_by", "demo_on_clean_tree", "demo_with_patch")}, indent=None))
    for c, r in meta.get("checks", {}).items():
        print(" ", c, r["exit"], r.get("replay_kind"), (r.get("observed") or "")[:160], r["violation"][:1])

if __name__ == "__main__":
    main()
