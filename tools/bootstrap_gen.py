#!/usr/bin/env python3
"""Bootstrap-only generator for Gen/Tables.lean (parses source text).
The checks regenerate this file from the *compiled hooked crate* via
`harness dump-gen`; this script exists only so the Lean project builds before
the harness has been built for the first time."""
import re, sys
src = open('/repo/src/raw/common_inputs.rs').read()
def arr(name):
    m = re.search(r'pub const %s: \[u8; 256\] = \[(.*?)\];' % name, src, re.S)
    body = re.sub(r'//.*', '', m.group(1))
    out = []
    for m2 in re.finditer(r"b'(\\x[0-9a-fA-F]{2}|\\.|.)'|(\d+)", body):
        if m2.group(2) is not None:
            out.append(int(m2.group(2))); continue
        s = m2.group(1)
        if s.startswith('\\x'): out.append(int(s[2:], 16))
        elif s.startswith('\\'):
            out.append({'n':10,'t':9,'r':13,'\\':92,"'":39,'0':0,'"':34}[s[1]])
        else: out.append(ord(s))
    assert len(out) == 256, (name, len(out))
    return out
ci, inv = arr('COMMON_INPUTS'), arr('COMMON_INPUTS_INV')
poly = 0x82f63b78
t = []
for i in range(256):
    c = i
    for _ in range(8):
        c = (c >> 1) ^ poly if c & 1 else c >> 1
    t.append(c)
t16 = [t]
for j in range(1, 16):
    t16.append([(t16[j-1][i] >> 8) ^ t[t16[j-1][i] & 0xff] for i in range(256)])
def lst(xs): return '[' + ', '.join(map(str, xs)) + ']'
o = ['-- GENERATED (bootstrap). Regenerated on every check run by `harness dump-gen`.',
     'namespace Fst.Gen',
     'def VERSION : Nat := 3', 'def TRANS_INDEX_THRESHOLD : Nat := 32',
     'def REGISTRY_ROWS : Nat := 10000', 'def REGISTRY_COLS : Nat := 2',
     'def LEV_DEFAULT_STATE_LIMIT : Nat := 10000',
     'def COMMON_INPUTS : List Nat := ' + lst(ci),
     'def COMMON_INPUTS_INV : List Nat := ' + lst(inv),
     'def CRC_TABLE : List Nat := ' + lst(t)]
for j in range(16):
    o.append('def CRC_T16_%d : List Nat := %s' % (j, lst(t16[j])))
o.append('def CRC_TABLE16 : List (List Nat) := [' + ', '.join('CRC_T16_%d' % j for j in range(16)) + ']')
o.append('end Fst.Gen')
open(sys.argv[1], 'w').write('\n'.join(o) + '\n')
