#!/usr/bin/env python3
"""recheck_seed.py <seed-id> [tier]: run the check of the seed's own property against the
recorded patch again (after the checks were strengthened) and record the result in
seeded/<id>/meta.json next to the first-pass result. The confirmation of the seed itself
(suite passes, demo fails) is not repeated: it does not depend on /verif."""
import json, os, re, subprocess, sys, time

sid = sys.argv[1]
tier = sys.argv[2] if len(sys.argv) > 2 else "quick"
d = f"/verif/seeded/{sid}"
meta = json.load(open(f"{d}/meta.json"))
prop = meta["property"]
assert subprocess.run("git -C /repo status --short", shell=True, capture_output=True, text=True).stdout.strip() == "", "/repo not clean"
assert subprocess.run(f"git -C /repo apply {d}/patch.diff", shell=True).returncode == 0
try:
    t0 = time.time()
    r = subprocess.run(f"/verif/check {prop} --tier {tier}", shell=True, capture_output=True, text=True, cwd="/verif")
    out = r.stdout + r.stderr
    viol = [l for l in out.splitlines() if l.startswith("VIOLATION")]
    summ = [l for l in out.splitlines() if l.startswith("[check] C")]
    res = {"exit": r.returncode, "violation": viol, "summary": summ, "wall_s": round(time.time() - t0, 1), "tier": tier}
    if viol:
        m = re.search(r"replay=(\S+)", viol[0])
        if m and os.path.exists(m.group(1)):
            rp = json.load(open(m.group(1)))
            res["replay_kind"] = rp.get("kind")
            if rp.get("observed"):
                res["observed"] = str(rp["observed"])[:400]
            elif rp.get("correspondence"):
                res["observed"] = json.dumps(rp["correspondence"][0])[:400]
            elif rp.get("what"):
                res["observed"] = str(rp["what"])[:400]
finally:
    subprocess.run("git -C /repo checkout -- .", shell=True)
meta["checks"] = {prop: res}
meta["caught_by"] = [prop] if res["exit"] != 0 else []
json.dump(meta, open(f"{d}/meta.json", "w"), indent=1)
print(sid, res["exit"], res.get("replay_kind"), (res.get("observed") or "")[:160], viol[:1])
