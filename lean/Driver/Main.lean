import FstVerif.Model.Text
import FstVerif.Model.Sink
import FstVerif.Model.Stream
import FstVerif.Model.Ops
import FstVerif.Model.Lev
import FstVerif.Model.Merge
import FstVerif.Model.Sched
import FstVerif.Model.Frontends
import FstVerif.Model.Glue
import FstVerif.Model.Lines
import FstVerif.Spec.Format
import FstVerif.Spec.Encode
import FstVerif.Spec.Utf8
/-
Line-protocol driver: one case per input line, one result line per case.
Imports `Model/` and the executable format parser only (no proofs, no Mathlib).
-/
open Fst Fst.Text

structure DrvState where
  bytes : Array UInt8 := #[]
  mta : Option Meta := none
  utf8Full : List (List (Nat × Nat)) := []

def keyOf (s : String) : Key := (bytesOfHex s).getD []

def showKey (k : Key) : String := hexOfBytes k

def showBErr : BErr → String
  | .duplicateKey g => s!"dup:{showKey g}"
  | .outOfOrder p g => s!"ooo:{showKey p}:{showKey g}"
  | .panic _ => "panic"

def showCallErr : CallErr → String
  | .fst e => showBErr e
  | .io _ => "io"

inductive Call | ins (k : Key) (v : Nat) | add (k : Key)

def parseCalls (s : String) : List Call :=
  (splitOn s ",").filterMap fun tok =>
    match tok.splitOn ":" with
    | ["i", k, v] => some (.ins (keyOf k) v.toNat!)
    | ["a", k] => some (.add (keyOf k))
    | _ => none

def applyCall (b : BState) : Call → Except BErr BState
  | .ins k v => b.insert k v
  | .add k => b.add k

/-- run calls; `stop` = stop at the first error (extend_*/from_iter semantics) -/
def runCalls (stop : Bool) : List Call → BState → List String → BState × List String
  | [], b, acc => (b, acc.reverse)
  | c :: cs, b, acc =>
    match applyCall b c with
    | .ok b' => runCalls stop cs b' ("ok" :: acc)
    | .error e => if stop then (b, (showBErr e :: acc).reverse) else runCalls stop cs b (showBErr e :: acc)

def showBytes (bs : Array UInt8) : String :=
  let d := s!"n={bs.size} h={hex64 (fnv64 bs)}"
  if bs.size ≤ 2048 then d ++ s!" hex={hexOfArray bs}" else d

def showOpen (r : Outcome OpenErr Meta) : String :=
  match r with
  | .ok m => s!"ok v={m.version} ty={m.ty} len={m.len} root={m.rootAddr}"
  | .err (.format n) => s!"err format {n}"
  | .err (.version _ g) => s!"err version {g}"
  | .panic _ => "panic"

def openBytes (st : DrvState) (bs : Array UInt8) : DrvState × String :=
  let r := fstNew (Src.ofArray bs)
  match r with
  | .ok m => ({ st with bytes := bs, mta := some m }, showOpen r)
  | _ => ({ st with bytes := bs, mta := none }, showOpen r)

def parseGeom (s : String) : Nat × Nat :=
  match s.splitOn "x" with
  | [r, c] => (r.toNat!, c.toNat!)
  | _ => (Gen.REGISTRY_ROWS, Gen.REGISTRY_COLS)

def parseFE : String → Option FrontEnd
  | "raw_iter" => some .rawIter | "raw_stream" => some .rawStream
  | "map_iter" => some .mapIter | "map_stream" => some .mapStream
  | "set_iter" => some .setIter | "set_stream" => some .setStream
  | "map_from_iter" => some .mapFromIter | "set_from_iter" => some .setFromIter
  | "raw_from_iter_map" => some .rawFromIterMap | "raw_from_iter_set" => some .rawFromIterSet
  | "set_union_stream" => some .setUnionStream
  | _ => none

def kvOfCalls (cs : List Call) : KV :=
  cs.map fun c => match c with
    | .ins k v => (k, v)
    | .add k => (k, 0)

def cmdBuild (st : DrvState) (fe : String) (ty : Nat) (geom : String) (mode : String) (ops : String) : DrvState × String :=
  let (rows, cols) := parseGeom geom
  let calls := parseCalls ops
  -- batch entry points run their own call pattern (Model/Frontends.lean); single-call
  -- entry points (raw / map / set) apply the calls one by one
  let (b, res) : BState × List String :=
    match (if mode == "stop" then parseFE fe else none) with
    | some f =>
      match f.runBatch (BState.new rows cols) (kvOfCalls calls) with
      | (b, .ok ()) => (b, ["ok"])
      | (b, .error e) => (b, [showBErr e])
    | none => runCalls (mode == "stop") calls (BState.new rows cols) []
  let stopped := mode == "stop" && res.getLast? != some "ok" && !res.isEmpty
  -- "resume": `extend_iter(&mut it)` called again and again on the SAME iterator until it is
  -- exhausted; each call ends at its first rejected item (whose error it returns) or at the
  -- end (`ok`); nothing but the rejected items is lost, so the builder sees the calls one by one
  let resS := if mode == "stop" then (if stopped then res.getLast?.getD "ok" else "ok")
    else if mode == "resume" then
      let bcalls := calls.map fun c => match c with | .ins k v => BCall.ins k v | .add k => BCall.add k
      ",".intercalate (((BState.new rows cols).resume bcalls []).2.map fun r => match r with
        | .ok () => "ok" | .error e => showBErr e)
    else ",".intercalate res
  if stopped then
    (st, s!"build {resS} | fin=skipped")
  else
  match b.fileBytes ty with
  | .error e => (st, s!"build {resS} | fin={showBErr e}")
  | .ok bytes =>
    let arr := bytes.toArray
    let (st', o) := openBytes st arr
    (st', s!"build {resS} | fin=ok | {showBytes arr} | open {o}")

def withFst (st : DrvState) (f : Meta → NodeAccess RNode → String) : String :=
  match st.mta with
  | none => "nofst"
  | some m => f m (byteAccess m.version (Src.ofArray st.bytes))

def showOptNat : Option Nat → String
  | some v => s!"some {v}"
  | none => "none"

/-! automaton specs -/
structure AnyAut where
  σ : Type
  aut : Aut σ
  showSt : σ → String

def showON : Option Nat → String
  | some n => toString n
  | none => "N"

def bitsOf (s : String) : List Bool := s.toList.map (· == '1')
def digitsOf (s : String) : List Nat := s.toList.map fun c => c.toNat - 48

def mkDfaTable (parts : List String) : Option TableDfa :=
  match parts with
  | [n, start, cls, delta, m, c, w] =>
    let classes : List UInt8 := (splitOn cls ".").filterMap fun h => (bytesOfHex h).bind List.head?
    let k := classes.length + 1
    let ds := digitsOf delta
    let rows := (List.range n.toNat!).map fun i => (ds.drop (i * k)).take k
    let t : TableDfa := { nstates := n.toNat!, start := start.toNat!,
                          cls := fun b => match classes.idxOf? b with | some i => i + 1 | none => 0,
                          delta := rows, matching := bitsOf m, canM := bitsOf c, willM := bitsOf w }
    some t
  | _ => none

def mkDfa (parts : List String) : Option AnyAut :=
  (mkDfaTable parts).map fun t => ⟨Nat, t.aut, toString⟩

/-- split "a,b" at the top-level comma -/
def splitTop (cs : List Char) : Option (List Char × List Char) :=
  let rec go (cs : List Char) (depth : Nat) (acc : List Char) : Option (List Char × List Char) :=
    match cs with
    | [] => none
    | c :: rest =>
      if c == ',' && depth == 0 then some (acc.reverse, rest)
      else if c == '(' then go rest (depth + 1) (c :: acc)
      else if c == ')' then go rest (depth - 1) (c :: acc)
      else go rest depth (c :: acc)
  go cs 0 []

def utf8Decode (bs : List UInt8) : List Nat :=
  let s := String.fromUTF8! ⟨bs.toArray⟩
  s.toList.map Char.toNat

partial def parseAut (full : List (List (Nat × Nat))) (s : String) : Option AnyAut :=
  let inner (pre : String) : Option String :=
    if s.startsWith pre && s.endsWith ")" then some ((s.drop pre.length).dropEnd 1).toString else none
  if s == "always" then some ⟨Unit, autAlways, fun _ => "u"⟩
  else if s.startsWith "str:" then some ⟨Option Nat, autStr (keyOf (s.drop 4).toString), showON⟩
  else if s.startsWith "subseq:" then some ⟨Nat, autSubseq (keyOf (s.drop 7).toString), toString⟩
  else if s.startsWith "dfa:" then mkDfa ((s.drop 4).toString.splitOn ":")
  else if s.startsWith "dfd:" then
    -- the same table as a user automaton that relies on the trait's DEFAULT hint methods:
    -- `can_match` = true and `will_always_match` = false in every state
    match (s.drop 4).toString.splitOn ":" with
    | [n, start, cls, delta, m, _, _] =>
      mkDfa [n, start, cls, delta, m, String.ofList (List.replicate n.toNat! '1'), String.ofList (List.replicate n.toNat! '0')]
    | _ => none
  else if s.startsWith "dfe:" then
    -- a table automaton that overrides `accept_eof`: last part = per state a target digit or '-'
    match (s.drop 4).toString.splitOn ":" with
    | [n, start, cls, delta, m, c, w, e] =>
      match mkDfaTable [n, start, cls, delta, m, c, w] with
      | some t =>
        let eofs : List (Option Nat) := e.toList.map fun ch => if ch == '-' then none else some (ch.toNat - 48)
        some ⟨Nat, { t.aut with acceptEof := fun x => (eofs.getD x none) }, toString⟩
      | none => none
    | _ => none
  else if s.startsWith "lev:" then
    match (s.drop 4).toString.splitOn ":" with
    | [q, d] =>
      match levNew (utf8Decode (keyOf q)) d.toNat! full Gen.LEV_DEFAULT_STATE_LIMIT 1000000 with
      | some (.ok states) => some ⟨Option Nat, levAut states, showON⟩
      | _ => none
    | _ => none
  else match inner "sw(" with
  | some a => (parseAut full a).map fun A => ⟨SW A.σ, autStartsWith A.aut, fun x => match x with | .done => "D" | .running i => "R" ++ A.showSt i⟩
  | none =>
  match inner "co(" with
  | some a => (parseAut full a).map fun A => ⟨A.σ, autCompl A.aut, A.showSt⟩
  | none =>
  match inner "un(" with
  | some ab =>
    match splitTop ab.toList with
    | some (a, b) =>
      match parseAut full (String.ofList a), parseAut full (String.ofList b) with
      | some A, some B => some ⟨A.σ × B.σ, autUnion A.aut B.aut, fun x => s!"({A.showSt x.1},{B.showSt x.2})"⟩
      | _, _ => none
    | none => none
  | none =>
  match inner "in(" with
  | some ab =>
    match splitTop ab.toList with
    | some (a, b) =>
      match parseAut full (String.ofList a), parseAut full (String.ofList b) with
      | some A, some B => some ⟨A.σ × B.σ, autInter A.aut B.aut, fun x => s!"({A.showSt x.1},{B.showSt x.2})"⟩
      | _, _ => none
    | none => none
  | none => none

def parseBound (s : String) : Bound :=
  if s.startsWith "ge:" || s.startsWith "le:" then .included (keyOf (s.drop 3).toString)
  else if s.startsWith "gt:" || s.startsWith "lt:" then .excluded (keyOf (s.drop 3).toString)
  else .unbounded

/-- bounds as a setter sequence "ge:61+gt:62" — the last of a kind wins -/
def parseRange (lo hi : String) : RangeSpec :=
  let step (r : RangeSpec) (tok : String) : RangeSpec :=
    if tok.startsWith "ge:" then r.ge (keyOf (tok.drop 3).toString)
    else if tok.startsWith "gt:" then r.gt (keyOf (tok.drop 3).toString)
    else if tok.startsWith "le:" then r.le (keyOf (tok.drop 3).toString)
    else if tok.startsWith "lt:" then r.lt (keyOf (tok.drop 3).toString)
    else r
  ((lo.splitOn "+") ++ (hi.splitOn "+")).foldl step {}

def cmdStream (st : DrvState) (withState : Bool) (autS lo hi : String) : String :=
  withFst st fun m acc =>
    match parseAut st.utf8Full autS with
    | none => "badaut"
    | some A =>
      let r := parseRange lo hi
      match streamNew acc A.aut m.rootAddr r.min r.max with
      | none => "panic"
      | some s0 =>
        match streamCollect acc A.aut m.rootAddr 1000000000 s0 [] with
        | none => "panic"
        | some items =>
          let strs := items.map fun (k, v, s) =>
            if withState then s!"{showKey k}:{v}:{A.showSt s}" else s!"{showKey k}:{v}"
          s!"items {items.length} " ++ ",".intercalate strs

def parseKV (s : String) : KV :=
  (splitOn s ",").filterMap fun tok =>
    match tok.splitOn ":" with
    | [k, v] => some (keyOf k, v.toNat!)
    | _ => none

def insertIV (x : IndexedValue) : List IndexedValue → List IndexedValue
  | [] => [x]
  | y :: ys => if x.index < y.index || (x.index == y.index && x.value ≤ y.value) then x :: y :: ys else y :: insertIV x ys

def showOpItems (items : List (Key × List IndexedValue)) : String :=
  s!"items {items.length} " ++ ";".intercalate (items.map fun (k, outs) =>
    let sorted := outs.foldr insertIV []
    showKey k ++ "=" ++ ",".intercalate (sorted.map fun iv => s!"{iv.index}:{iv.value}"))

def cmdOps (kind : String) (streams : String) : String :=
  let ss := (streams.splitOn "|").map fun s => if s == "." then [] else parseKV s
  let k := match kind with
    | "union" => some OpKind.union
    | "inter" => some OpKind.intersection
    | "symdiff" => some OpKind.symmetricDifference
    | "diff" => some OpKind.difference
    | _ => none
  match k with
  | some k =>
    match opCollect popMin k ss with
    | some items => showOpItems items
    | none => "panic"
  | none =>
    match kind, ss with
    | "disjoint", [a, b] => s!"bool {isDisjoint popMin a b}"
    | "subset", [a, b] => s!"bool {isSubset popMin a b}"
    | "superset", [a, b] => s!"bool {isSuperset popMin a b}"
    | _, _ => "badop"

def cmdAut (st : DrvState) (autS : String) (w : String) : String :=
  match parseAut st.utf8Full autS with
  | none => "badaut"
  | some A =>
    let flags (s : A.σ) : String :=
      (if A.aut.isMatch s then "1" else "0") ++ (if A.aut.canMatch s then "1" else "0")
        ++ (if A.aut.willAlwaysMatch s then "1" else "0")
    let rec go (s : A.σ) (bs : List UInt8) (acc : List String) : List String :=
      match bs with
      | [] => (flags s :: acc).reverse
      | b :: rest => go (A.aut.accept s b) rest (flags s :: acc)
    "flags " ++ ",".intercalate (go A.aut.start (keyOf w) [])

def parseScript (s : String) : List Resp :=
  (splitOn s ",").filterMap fun tok =>
    if tok == "I" then some .interrupted
    else if tok.startsWith "F" then some (.fail (tok.drop 1).toString.toNat!)
    else if tok.startsWith "T" then some (.take (tok.drop 1).toString.toNat!)
    else none

def showRes : Except CallErr Unit → String
  | .ok () => "ok"
  | .error e => showCallErr e

/-- `sink <ty> <geom> <script> <flush> <prefillhex> <ops> [front end]`: the builder of the
front end over the scripted sink. Wrapper front ends (`map*`, `set*`) use type 0 and the
default cache geometry (`MapBuilder::new` = `raw::Builder::new`); `set*` turns every call
into `add`, `map*` into `insert` (an `add` becomes `insert k 0`); `*_iter` / `*_stream`
are one `extend_*` call: the calls one by one until the first one that does not return
`Ok`, whose result is the result of the whole call. Returns the output line and, when
`finish` succeeded, the bytes the sink received after the prefill. -/
def cmdSink (ty : Nat) (geom script flush prefill ops fe : String) : String × Option (Array UInt8) :=
  let isSet := fe.startsWith "set"
  let isMap := fe.startsWith "map"
  let isBatch := fe.endsWith "_iter" || fe.endsWith "_stream"
  let (rows, cols) := if isSet || isMap then (Gen.REGISTRY_ROWS, Gen.REGISTRY_COLS) else parseGeom geom
  let ty := if isSet || isMap then 0 else ty
  let calls := (parseCalls (if ops == "-" then "" else ops)).map fun c => match c with
    | .ins k v => if isSet then Call.add k else Call.ins k v
    | .add k => if isMap then Call.ins k 0 else Call.add k
  let pre := keyOf prefill
  let sink := Sink.new pre (parseScript script) (if flush == "-" then none else some flush.toNat!)
  match IOB.new sink ty rows cols with
  | (cw, .error e) => (s!"sink new={showCallErr e} | {showBytes cw.sink.held} | calls={cw.sink.calls}", none)
  | (_, .ok x) =>
    let rec go (x : IOB) (cs : List Call) (acc : List String) : IOB × List String × Bool :=
      match cs with
      | [] => (x, acc.reverse, true)
      | c :: rest =>
        let (x', r) := match c with
          | .ins k v => x.insert k v
          | .add k => x.add k
        let s := s!"{showRes r}@{x'.bytesWritten}"
        match r with
        | .error (.io _) => (x', (s :: acc).reverse, false)
        | .error _ => if isBatch then (x', (s :: acc).reverse, false) else go x' rest (s :: acc)
        | _ => go x' rest (s :: acc)
    let (x, res, alive) :=
      if isBatch then
        -- one `extend_*` call (Model/Glue.lean `IOB.extend`): one result
        let (x', r) := x.extend (calls.map fun c => match c with | .ins k v => BCall.ins k v | .add k => BCall.add k)
        (x', [s!"{showRes r}@{x'.bytesWritten}"], match r with | .ok _ => true | _ => false)
      else go x calls []
    if !alive then (s!"sink new=ok | {",".intercalate res} | fin=skipped | {showBytes x.cw.sink.held} | calls={x.cw.sink.calls}", none)
    else
      let (s, r) := x.intoInner
      let out := s!"sink new=ok | {",".intercalate res} | fin={showRes r} | {showBytes s.held} | calls={s.calls}"
      match r with
      | .ok _ => (out, some (s.held.toList.drop pre.length).toArray)
      | _ => (out, none)

def cmdCrc (chunks : String) : String :=
  let cs := (chunks.splitOn "|").map keyOf
  let s := cs.foldl (fun (s : Summer) c => s.update c) {}
  s!"crc {s.masked.toNat}"

def parseTrans (s : String) : List Tr :=
  (splitOn s ",").filterMap fun tok =>
    match tok.splitOn ":" with
    | [b, o, a] => some ⟨UInt8.ofNat b.toNat!, o.toNat!, a.toNat!⟩
    | _ => none

def showTrans (ts : List Tr) : String :=
  ",".intercalate (ts.map fun t => s!"{t.inp.toNat}:{t.out}:{t.addr}")

/-- `node <version> <last> <addr> <fin> <fout> <trans>`: encode at offset `addr`
(after `addr` filler bytes), decode with the reader of `version` -/
def cmdNode (version last addr : Nat) (fin : Bool) (fout : Nat) (trans : String) : String :=
  let n : BNode := ⟨fin, fout, parseTrans trans⟩
  match compileNode n last addr with
  | none => "node panic"
  | some enc =>
    if enc.isEmpty then "node enc=_ | empty" else
    let data := (List.replicate addr (0xEE : UInt8)) ++ enc
    let d := Src.ofArray data.toArray
    let a := addr + enc.length - 1
    match nodeNew version d a with
    | none => s!"node enc={hexOfBytes enc} | dec=panic"
    | some rn =>
      match rn.toBNode d with
      | none => s!"node enc={hexOfBytes enc} | dec=panic"
      | some bn =>
        let finds := (List.range 256).map fun b =>
          match rn.findInput d (UInt8.ofNat b) with
          | some (some i) => toString i
          | some none => "-"
          | none => "!"
        s!"node enc={hexOfBytes enc} | dec fin={bn.fin} fout={bn.fout} end={rn.end_} trans={showTrans bn.trans} | find={hex64 (fnv64 (".".intercalate finds).toUTF8.data)}"

def showDfa (states : Array Fst.DState) : String :=
  -- rows of the states reachable from state 0, ascending by index
  let rec reach (fuel : Nat) (todo : List Nat) (seen : List Nat) : List Nat :=
    match fuel, todo with
    | 0, _ => seen
    | _, [] => seen
    | fuel+1, s :: rest =>
      if seen.contains s then reach fuel rest seen else
      let nx := match states[s]? with
        | some st => st.next.toList.filterMap id
        | none => []
      reach fuel (nx ++ rest) (s :: seen)
  let rs := (reach (states.size * 260 + 10) [0] []).toArray.qsort (· < ·) |>.toList
  let body := rs.map fun i =>
    match states[i]? with
    | some s => toString i ++ (if s.isMatch then "M" else "m") ++ ".".intercalate (s.next.toList.map showON)
    | none => toString i
  let txt := "/".intercalate body
  s!"n={states.size} r={rs.length} h={hex64 (fnv64 txt.toUTF8.data)}"

def cmdLev (st : DrvState) (q : String) (d limit : Nat) : String :=
  match levNew (utf8Decode (keyOf q)) d st.utf8Full limit 1000000 with
  | none => "lev fuel"
  | some (.error (.tooManyStates l)) => s!"lev toomany {l}"
  | some (.ok states) => s!"lev ok {showDfa states}"

def parseRows (s : String) : List (Key × Nat) := parseKV s

def showKVs (kvs : KV) : String :=
  s!"kv {kvs.length} " ++ ",".intercalate (kvs.map fun (k, v) => s!"{showKey k}:{v}")

/-- deterministic pseudo-random permutation used as schedule (seeded) -/
def permute (seed : Nat) (g : Nat) (xs : List KV) : List KV :=
  if seed = 0 then xs else
  let n := xs.length
  let keyed := xs.zipIdx.map fun (x, i) => (((i + 1) * (seed + 7 * g + 1) * 2654435761) % 1000003, x)
  let rec ins (p : Nat × KV) : List (Nat × KV) → List (Nat × KV)
    | [] => [p]
    | q :: qs => if p.1 ≤ q.1 then p :: q :: qs else q :: ins p qs
  let _ := n
  (keyed.foldr ins []).map (·.2)

/-- the events enabled in a state of the Sorters protocol (Model/Sched.lean) -/
def enabledEvents (s : Sched.St) : List Sched.Ev :=
  let ws := List.range s.workers.length
  (ws.map Sched.Ev.recv ++ ws.map Sched.Ev.work ++ [Sched.Ev.close] ++ ws.map Sched.Ev.finish).filter
    fun e => (Sched.step s e).isSome

/-- a pseudo-random interleaving of one generation: at every point one of the enabled
events, chosen by a seeded generator; stops in a terminal state (or when nothing is enabled) -/
def randomExec : Nat → Nat → Sched.St → Sched.St
  | 0, _, s => s
  | fuel+1, rng, s =>
    if s.terminal then s else
    match enabledEvents s with
    | [] => s
    | evs =>
      let rng' := (rng * 6364136223846793005 + 1442695040888963407) % 18446744073709551616
      match Sched.step s (evs.getD ((rng' / 65536) % evs.length) .close) with
      | some s' => randomExec fuel rng' s'
      | none => s

/-- the schedule of generation `g`: the order in which a random interleaving of the
protocol with `threads` workers hands back the results -/
def protoSched (threads seed : Nat) (g : Nat) (xs : List KV) : List KV :=
  let s := randomExec (2 * xs.length + threads + 2) (seed * 1000003 + g + 1) (Sched.init threads xs.length)
  if s.terminal then Sched.applyOrder s.collected xs else xs

/-- what the lines of the input files mean as rows (fst-bin/src/cmd/set.rs, util.rs
`ConcatLines`): a line ends at `\n` or `\r\n`, so the content of a `fst set` line that ends in
CR loses one CR; `rep:k:n` = the file holding the first `k` rows is listed `n` more times -/
def inputRows (mode : String) (rows : List (Key × Nat)) (opt : String) : List (Key × Nat) :=
  let opts := opt.splitOn ","
  -- `one,nonl`: a single file whose last line is not terminated
  let lastTerminated := !(opts.contains "one" && opts.contains "nonl")
  let files : List (List (Key × Nat) × Bool) :=
    match opts.filterMap (fun o => match o.splitOn ":" with | ["rep", k, n] => some (k.toNat!, n.toNat!) | _ => none) with
    | (k, n) :: _ => [(rows.take k, true), (rows.drop k, true)] ++ List.replicate n (rows.take k, true)
    | [] => [(rows, lastTerminated)]
  if mode == "set" then
    -- `fst set`: from the BYTES of each file (what the harness writes) through the line reader
    -- (Model/Lines.lean `byteLines`; equal to `fileRows true files` by `Lines.concatFilesLines_render`)
    (concatFilesLines (files.map fun (rows, t) => renderLines (rows.map (·.1)) t)).map (·, 0)
  else fileRows false files

def cmdMerge (mode : String) (batch fd threads seed : Nat) (rows : String) (opt : String := "") : String :=
  let m := match mode with
    | "sum" => MergeMode.sum | "max" => .max | "min" => .min | _ => .set
  let parseRows := fun s => inputRows mode (parseRows s) opt
  -- two schedules: an arbitrary permutation, and an interleaving of the thread protocol
  let r1 := mergeAll m batch fd (permute seed) (parseRows rows)
  let r2 := mergeAll m batch fd (protoSched (max threads 1) seed) (parseRows rows)
  if r1 != r2 then "merge schedule-dependent" else
  match r1 with
  | none => "merge stuck"
  | some kvs => "merge " ++ showKVs kvs

def cmdSpec (hex : String) : String :=
  match arrayOfHex hex with
  | none => "badhex"
  | some bs =>
    match Spec.parseFst bs.toList with
    | none => "spec none"
    | some r => s!"spec v={r.version} ty={r.ty} len={r.len} tiled={r.tiled} {showKVs r.kvs}"

def parseFull (s : String) : List (List (Nat × Nat)) :=
  (splitOn s "/").map fun seq => (splitOn seq ",").filterMap fun r =>
    match r.splitOn "-" with
    | [a, b] => some (a.toNat!, b.toNat!)
    | _ => none

def step (st : DrvState) (line : String) : DrvState × String :=
  let toks := (line.trimAscii.toString.splitOn " ").filter (· != "")
  match toks with
  | "build" :: fe :: ty :: geom :: mode :: rest => cmdBuild st fe ty.toNat! geom mode (rest.headD "")
  | ["load", hex] =>
    match arrayOfHex hex with
    | some bs => let (st', o) := openBytes st bs; (st', "load " ++ o)
    | none => (st, "badhex")
  | ["verify"] =>
    (st, withFst st fun m _ =>
      match fstVerify m (Src.ofArray st.bytes) with
      | .ok () => "verify ok"
      | .err .checksumMissing => "verify missing"
      | .err (.checksumMismatch e g) => s!"verify mismatch {e} {g}"
      | .panic _ => "verify panic")
  | ["get", k] => (st, withFst st fun m acc =>
      match fstGet acc m.rootAddr (keyOf k) with
      | none => "panic" | some r => "get " ++ showOptNat r)
  | ["has", k] => (st, withFst st fun m acc =>
      match fstContains acc m.rootAddr (keyOf k) with
      | none => "panic" | some r => s!"has {r}")
  | ["getkey", v, buf] => (st, withFst st fun m acc =>
      match fstGetKeyInto acc m.rootAddr (st.bytes.size + 2) v.toNat! (keyOf buf) with
      | none => "panic"
      | some (true, k) => "getkey true " ++ showKey k
      | some (false, _) => "getkey false")
  | ["stream", a, lo, hi] => (st, cmdStream st false a lo hi)
  | ["streamst", a, lo, hi] => (st, cmdStream st true a lo hi)
  | ["ops", kind, streams] => (st, cmdOps kind streams)
  | ["aut", a, w] => (st, cmdAut st a w)
  | "sink" :: ty :: geom :: script :: flush :: prefill :: rest =>
    -- after a successful finish the FST the sink received is the current one
    match cmdSink ty.toNat! geom script flush prefill (rest.headD "") ((rest.drop 1).headD "raw") with
    | (out, some bs) => ((openBytes st bs).1, out)
    | (out, none) => (st, out)
  | ["crc", chunks] => (st, cmdCrc chunks)
  | "node" :: v :: last :: addr :: fin :: fout :: rest =>
    (st, cmdNode v.toNat! last.toNat! addr.toNat! (fin == "1") fout.toNat! (rest.headD ""))
  | ["utf8full", s] =>
    -- the crate's Utf8Sequences(0, 10FFFF) must be the literal the C17 theorem is about
    ({ st with utf8Full := parseFull s },
     if parseFull s == Spec.utf8Full then "utf8full ok" else "utf8full differs-from-Spec.utf8Full")
  | ["lev", q, d, limit] => (st, cmdLev st q d.toNat! limit.toNat!)
  | "merge" :: mode :: batch :: fd :: threads :: seed :: rest =>
    (st, cmdMerge mode batch.toNat! fd.toNat! threads.toNat! seed.toNat! (rest.headD "") ((rest.drop 1).headD ""))
  | "sched" :: threads :: total :: rest =>
    let order := ((rest.headD "").splitOn ",").filterMap fun x => if x == "" then none else some x.toNat!
    (st, s!"sched runs={Sched.runs order} valid={Sched.validOrder threads.toNat! total.toNat! order}")
  | ["spec", hex] => (st, cmdSpec hex)
  | ["enc", v, ty, style, share, kv] =>
    (st, "enc " ++ showBytes (Spec.encodeFst v.toNat! ty.toNat! (if kv == "." then [] else parseKV kv) style.toNat! (share == "1")).toArray)
  | ["hdr", hex] =>
    match arrayOfHex hex with
    | some bs => let (st', o) := openBytes st bs; (st', "load " ++ o)
    | none => (st, "badhex")
  | ["open", hex] =>
    match arrayOfHex hex with
    | none => (st, "badhex")
    | some bs =>
      let d := Src.ofArray bs
      match fstNew d with
      | .ok m =>
        let v := match fstVerify m d with
          | .ok () => "verify ok"
          | .err .checksumMissing => "verify missing"
          | .err (.checksumMismatch e g) => s!"verify mismatch {e} {g}"
          | .panic _ => "verify panic"
        (st, s!"open ok v={m.version} ty={m.ty} len={m.len} | {v}")
      | .err (.format n) => (st, s!"open err format {n}")
      | .err (.version _ g) => (st, s!"open err version {g}")
      | .panic _ => (st, "open panic")
  | "foot" :: geom :: rest =>
    let (rows, cols) := parseGeom geom
    let (b, _) := runCalls false (parseCalls (rest.headD "")) (BState.new rows cols) []
    (st, s!"foot stack={b.stack.length} strans={(b.stack.map fun u => u.node.trans.length).sum} cells={rows * cols} ctrans={b.reg.footprint}")
  | ["expectverify", w] => (st, s!"expectverify {w}")
  | ["expect", _] => (st, "expect ok")
  | ["expect"] => (st, "expect ok")
  | ["corrupt", hex] =>
    match arrayOfHex hex with
    | none => (st, "badhex")
    | some bs =>
      let d := Src.ofArray bs
      match fstNew d with
      | .ok m =>
        let v := match fstVerify m d with
          | .ok () => "verify ok"
          | .err .checksumMissing => "verify missing"
          | .err (.checksumMismatch e g) => s!"verify mismatch {e} {g}"
          | .panic _ => "verify panic"
        (st, s!"corrupt open ok | {v}")
      | r => (st, s!"corrupt open {showOpen r}")
  | "stats" :: ty :: geom :: rest =>
    let (rows, cols) := parseGeom geom
    let (b, _) := runCalls false (parseCalls (rest.headD "")) (BState.new rows cols) []
    match b.finish with
    | .ok (b', _) => (st, s!"stats ty={ty} ev={b'.reg.evictions} nodes={b'.out.length}")
    | .error e => (st, s!"stats {showBErr e}")
  | [] => (st, "")
  | _ => (st, "bad-op")

partial def loop (h : IO.FS.Stream) (out : IO.FS.Stream) (st : DrvState) : IO Unit := do
  let line ← h.getLine
  if line.isEmpty then return ()
  if line.startsWith "!" then
    out.putStrLn "-"
    loop h out st
  else if line.startsWith "#" then
    out.putStrLn line.trimAscii.toString
    loop h out st
  else
    let (st', o) := step st line
    out.putStrLn o
    loop h out st'

def main : IO Unit := do
  let stdin ← IO.getStdin
  let stdout ← IO.getStdout
  loop stdin stdout {}
