import FstVerif.Proofs.Minimal
import FstVerif.Proofs.SpecParseBuild
/-
C12 — equivalent sub-automata are shared: minimal whenever the node cache
suffices. Statements here; proofs in Proofs/Minimal.lean (on top of
Proofs/Build.lean). `evictions` counts occupied cache cells that were
overwritten (the hook counter of the real registry is compared with it on
every run). The clause "on realistic corpora most of the achievable sharing is
realised" is a MEASUREMENT made by ./check on the shipped corpora.
-/
namespace Fst.Props
open Fst

/-- as long as nothing was evicted (and the cache has at least one cell), no two
emitted nodes are equal — maps and sets alike, at any point of the build -/
theorem C12_no_dup {s : BState} (h : Reachable s) (hnr : 1 ≤ s.reg.rows ∧ 1 ≤ s.reg.cols)
    (hev : s.reg.evictions = 0) : (s.out.map (·.node)).Nodup := Fst.C12_no_dup h hnr hev

theorem C12_no_dup_finished {s s' : BState} {root : Nat} (h : Reachable s)
    (hnr : 1 ≤ s.reg.rows ∧ 1 ≤ s.reg.cols) (hf : s.finish = .ok (s', root))
    (hev : s'.reg.evictions = 0) : (s'.out.map (·.node)).Nodup := C12_no_dup_finish h hnr hf hev

/-- a set then compiles to the minimal acyclic DFA of its keys: two states (emitted nodes
or the empty-final sentinel) with the same right language are the same state
(Myhill–Nerode), the root spells the distinct keys, and no state is dead -/
theorem C12_minimal_set (rows cols : Nat) (hr : 1 ≤ rows) (hc : 1 ≤ cols) (ks : List Key)
    (h : SortedKeysLe ks) :
    ∃ s s' root, addAll (BState.new rows cols) ks = .ok s ∧ s.finish = .ok (s', root) ∧
      denOf (storeOf s') root = zeroKV (dedupKeys ks) ∧ (root = 0 ∨ ∃ n, (root, n) ∈ storeOf s') ∧
      (∀ e ∈ s'.out, ∀ t ∈ e.node.trans, denOf (storeOf s') t.addr ≠ []) ∧
      (s'.reg.evictions = 0 → ∀ a b, (a = 0 ∨ ∃ n, (a, n) ∈ storeOf s') →
        (b = 0 ∨ ∃ m, (b, m) ∈ storeOf s') →
        denOf (storeOf s') a = denOf (storeOf s') b → a = b) :=
  Fst.C12_minimal_set rows cols hr hc ks h

/-- every state is reachable from the root (the other half of minimality) -/
theorem C12_all_reachable {s s' : BState} {root : Nat} (hr : Reachable s)
    (hf : s.finish = .ok (s', root)) :
    ∀ e ∈ s'.out, ReachFrom (storeOf s') root e.addr := finish_reach hr hf

/-- for EVERY input and EVERY cache geometry (evictions or not) the number of emitted
nodes never exceeds the number of distinct non-empty prefixes of the keys (+1 for the root) -/
theorem C12_trie_bound (rows cols : Nat) (kvs : KV) {s s' : BState} {root : Nat}
    (hb : insertAll (BState.new rows cols) kvs = .ok s) (hf : s.finish = .ok (s', root)) :
    s'.out.length ≤ prefixCount (kvs.map (·.1)) + 1 := (Fst.C12_trie_bound rows cols kvs hb hf).2

theorem C12_trie_bound_set (rows cols : Nat) (ks : List Key) {s s' : BState} {root : Nat}
    (hb : addAll (BState.new rows cols) ks = .ok s) (hf : s.finish = .ok (s', root)) :
    s'.out.length ≤ prefixCount ks + 1 := (Fst.C12_trie_bound_set rows cols ks hb hf).2

/-- the empty final node is never emitted: it is the shared address 0 -/
theorem C12_sentinel_shared (s : BState) (n : BNode) (h : isEmptyFinal n = true) :
    s.compile n = .ok (s, EMPTY_ADDRESS) := by simp [BState.compile, h]

/-- the geometry hypothesis is needed: a cache of zero cells never evicts and shares nothing -/
theorem C12_empty_cache (rows cols : Nat) (n : BNode) (h : rows = 0 ∨ cols = 0) :
    (Registry.new rows cols).entry n = (Registry.new rows cols, .rejected) := by
  simp [Registry.entry, Registry.new, h]

end Fst.Props
