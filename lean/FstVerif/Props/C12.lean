import FstVerif.Model.Build
/-
C12 — sharing. (`C12_no_dup`, `C12_trie_bound` are assembled from
Proofs/Build.lean; here: the sentinel and cache-hit steps of `compile`.)
-/
namespace Fst

/-- the empty final node is never emitted: it is the shared address 0 -/
theorem C12_sentinel_shared (s : BState) (n : BNode) (h : isEmptyFinal n = true) :
    s.compile n = .ok (s, EMPTY_ADDRESS) := by
  simp [BState.compile, h]

/-- a cache hit emits nothing and returns the cached address -/
theorem C12_hit_emits_nothing (s : BState) (n : BNode) (reg' : Registry) (a : Nat)
    (h0 : isEmptyFinal n = false) (h : s.reg.entry n = (reg', .found a)) :
    s.compile n = .ok ({ s with reg := reg' }, a) := by
  simp [BState.compile, h0, h]

/-- a cache of zero cells rejects everything (no sharing, no eviction) -/
theorem C12_empty_cache (rows cols : Nat) (n : BNode) (h : rows = 0 ∨ cols = 0) :
    (Registry.new rows cols).entry n = (Registry.new rows cols, .rejected) := by
  simp [Registry.entry, Registry.new, h]

end Fst
