import FstVerif.Proofs.Seek
import FstVerif.Proofs.Wrappers
import FstVerif.Proofs.EndToEnd
/-
C03 — range streams. Statements here; proofs in Proofs/Stream.lean (explicit
stack = denotation, cut-off at the upper bound) and Proofs/Seek.lean (lower
bound). About any node access representing a good store (builder output is
one: Proofs/Build.lean, Proofs/Codec.lean).
-/
namespace Fst.Props
open Fst
variable {N : Type} {s : Store} {den : Nat → KV} {acc : NodeAccess N}

/-- for every lower bound (none / ge / gt) and upper bound (none / le / lt) over
arbitrary byte strings, the range stream never panics, yields exactly the
entries satisfying both bounds, in the order of the denotation, and then ends -/
theorem C03_range (hg : GoodStore s den) (hr : Represents acc s) (root : Nat)
    (hroot : root = 0 ∨ ∃ n, (root, n) ∈ s) (min max : Bound) :
    ∃ s0, streamNew acc autAlways root min max = some s0 ∧
    ∃ N, ∀ fuel, N ≤ fuel →
      streamCollect acc autAlways root fuel s0 [] =
        some (((den root).filter fun kv => lowerOK min kv.1 && upperOK max kv.1).map
                fun kv => (kv.1, kv.2, ())) := stream_correct_always hg hr root hroot min max

/-- the yielded keys are strictly ascending -/
theorem C03_ascending (hg : GoodStore s den) (root : Nat) (hroot : root = 0 ∨ ∃ n, (root, n) ∈ s)
    (min max : Bound) :
    (((den root).filter fun kv => lowerOK min kv.1 && upperOK max kv.1 && autAlways.accepts kv.1).map
        fun kv => (kv.1, kv.2, autAlways.run autAlways.start kv.1)).Pairwise
      fun a b => lexLt a.1 b.1 = true := stream_result_ascending hg root hroot autAlways min max

/-- what the bound predicates mean -/
theorem C03_bounds (b k : Key) :
    lowerOK .unbounded k = true ∧ lowerOK (.included b) k = !lexLt k b ∧ lowerOK (.excluded b) k = lexLt b k ∧
    upperOK .unbounded k = true ∧ upperOK (.included b) k = !lexLt b k ∧ upperOK (.excluded b) k = lexLt k b := by
  simp [lowerOK, upperOK, Bound.exceededBy]

/-- setting the same kind of bound twice uses the last setting -/
theorem C03_last_setting_wins (r : RangeSpec) (a b : Key) :
    (r.ge a).ge b = r.ge b ∧ (r.gt a).ge b = r.ge b ∧ (r.ge a).gt b = r.gt b ∧ (r.gt a).gt b = r.gt b ∧
    (r.le a).le b = r.le b ∧ (r.lt a).le b = r.le b ∧ (r.le a).lt b = r.lt b ∧ (r.lt a).lt b = r.lt b :=
  ⟨rfl, rfl, rfl, rfl, rfl, rfl, rfl, rfl⟩

theorem C03_setters_independent (r : RangeSpec) (a b : Key) :
    ((r.ge a).le b).min = .included a ∧ ((r.le b).ge a).max = .included b ∧
    ((r.gt a).lt b).min = .excluded a ∧ ((r.lt b).gt a).max = .excluded b :=
  ⟨rfl, rfl, rfl, rfl⟩

/-- after the stream has ended it keeps returning `None` -/
theorem C03_stays_done (hg : GoodStore s den) (hr : Represents acc s) (root : Nat)
    (hroot : root = 0 ∨ ∃ n, (root, n) ∈ s) (min max : Bound) :
    ∃ s0, streamNew acc autAlways root min max = some s0 ∧
    ∃ N, ∀ fuel, N ≤ fuel → ∃ sEnd items,
      streamDrain acc autAlways root fuel s0 [] = some (items, sEnd) ∧
      ∀ fuel', streamNext acc autAlways root (fuel' + 1) sEnd = some (none, sEnd) := by
  obtain ⟨s0, h0, N, hN⟩ := stream_correct_fused (A := autAlways) hg hr root hroot
    autAlways_contract.1 autAlways_contract.2 min max
  exact ⟨s0, h0, N, fun fuel hf => by
    obtain ⟨sEnd, h1, h2⟩ := hN fuel hf
    exact ⟨sEnd, _, h1, h2⟩⟩

/-- END TO END, on the bytes of the file a builder writes: every range over every sorted map -/
theorem C03_file (rows cols ty : Nat) (hty : ty < 2^64) (kvs : KV) (hs : SortedKV kvs)
    (hv : ∀ kv ∈ kvs, kv.2 < 2^64) (hn : kvs.length < 2^64) :
    ∃ s bytes, insertAll (BState.new rows cols) kvs = .ok s ∧ s.fileBytes ty = .ok bytes ∧
      (bytes.length < 2^64 →
        ∃ m, fstNew (Src.ofList bytes) = .ok m ∧
          ∀ (min max : Bound),
            ∃ s0, streamNew (byteAccess 3 (Src.ofList bytes)) autAlways m.rootAddr min max
                = some s0 ∧
            ∃ N, ∀ fuel, N ≤ fuel →
              streamCollect (byteAccess 3 (Src.ofList bytes)) autAlways m.rootAddr fuel s0 [] =
                some ((kvs.filter fun kv => lowerOK min kv.1 && upperOK max kv.1).map
                      fun kv => (kv.1, kv.2, ()))) :=
  E2E.e2e_range rows cols ty hty kvs hs hv hn

example : GoodStore StreamExample.exStore StreamExample.exDen := StreamExample.exGood


/-! ### the wrapper layer a user calls (src/map.rs, src/set.rs; Model/Wrappers.lean) -/

/-- `map.range().ge/gt/le/lt(..)…into_stream()` for every chain of setter calls (every
`RangeSpec` is one, `C03_rangeSpec_reachable`): exactly the entries within the bounds -/
theorem C03_map_range (hg : GoodStore s den) (hr : Represents acc s) (root : Nat)
    (hroot : root = 0 ∨ ∃ n, (root, n) ∈ s) (rs : RangeSpec) :
    ∃ N, ∀ fuel, N ≤ fuel → Wrap.mapRange acc root rs fuel =
      some ((den root).filter fun kv => lowerOK rs.min kv.1 && upperOK rs.max kv.1) :=
  Wrap.mapRange_correct hg hr root hroot rs

/-- `set.range()…`: the keys of the same entries -/
theorem C03_set_range (hg : GoodStore s den) (hr : Represents acc s) (root : Nat)
    (hroot : root = 0 ∨ ∃ n, (root, n) ∈ s) (rs : RangeSpec) :
    ∃ N, ∀ fuel, N ≤ fuel → Wrap.setRange acc root rs fuel =
      some (((den root).filter fun kv => lowerOK rs.min kv.1 && upperOK rs.max kv.1).map (·.1)) :=
  Wrap.setRange_correct hg hr root hroot rs

theorem C03_rangeSpec_reachable (rs : RangeSpec) : ∃ l : List Wrap.Setter, Wrap.applySetters l = rs :=
  Wrap.rangeSpec_reachable rs

/-- `Map::keys` and `Map::values` are the two projections of `Map::stream` (same length, same order);
the `into_byte_keys` / `into_values` collectors likewise -/
theorem C03_keys_values (raw : List (Key × Nat)) :
    (Wrap.mapKeys raw).zip (Wrap.mapValues raw) = Wrap.mapStream raw ∧
    (Wrap.intoByteKeys raw).zip (Wrap.intoValues raw) = Wrap.intoByteVec raw :=
  ⟨(Wrap.keys_values_zip raw).1, (Wrap.intoByteKeys_intoValues_zip raw).1⟩


/-- END TO END at the wrapper level: `Map::range()` with any setters, over the BYTES of the file a
map builder writes, yields exactly the inserted entries within the bounds — and `Set::range()` their keys -/
theorem C03_map_range_file (rows cols ty : Nat) (hty : ty < 2^64) (kvs : KV) (hs : SortedKV kvs)
    (hv : ∀ kv ∈ kvs, kv.2 < 2^64) (hn : kvs.length < 2^64) :
    ∃ s bytes, insertAll (BState.new rows cols) kvs = .ok s ∧ s.fileBytes ty = .ok bytes ∧
      (bytes.length < 2^64 →
        ∃ m, fstNew (Src.ofList bytes) = .ok m ∧
          ∀ rs : RangeSpec, ∃ N, ∀ fuel, N ≤ fuel →
            Wrap.mapRange (byteAccess 3 (Src.ofList bytes)) m.rootAddr rs fuel =
              some (kvs.filter fun kv => lowerOK rs.min kv.1 && upperOK rs.max kv.1) ∧
            Wrap.setRange (byteAccess 3 (Src.ofList bytes)) m.rootAddr rs fuel =
              some ((kvs.filter fun kv => lowerOK rs.min kv.1 && upperOK rs.max kv.1).map (·.1))) := by
  obtain ⟨s, bytes, e1, e2, h⟩ := C03_file rows cols ty hty kvs hs hv hn
  refine ⟨s, bytes, e1, e2, fun hsz => ?_⟩
  obtain ⟨m, hm, hall⟩ := h hsz
  refine ⟨m, hm, fun rs => ?_⟩
  obtain ⟨s0, h0, N, hN⟩ := hall rs.min rs.max
  refine ⟨N, fun fuel hf => ?_⟩
  have hq : Wrap.rawQuery (byteAccess 3 (Src.ofList bytes)) autAlways m.rootAddr rs fuel =
      some ((kvs.filter fun kv => lowerOK rs.min kv.1 && upperOK rs.max kv.1).map
        fun kv => (kv.1, kv.2, ())) := by
    simp only [Wrap.rawQuery, h0, hN fuel hf]
  constructor
  · simp only [Wrap.mapRange, Wrap.mapSearch, hq, Option.map_some, Wrap.mapStream_eq]
    exact congrArg some (Wrap.rawStream_triples _ (fun _ => ()))
  · simp only [Wrap.setRange, Wrap.setSearch, hq, Option.map_some, Wrap.setStream_eq]
    exact congrArg some (congrArg (List.map (·.1)) (Wrap.rawStream_triples _ (fun _ => ())))

end Fst.Props
