import FstVerif.Model.Stream
/-
C03 — range streams. (The main theorem `C03_range` is assembled from
Proofs/Stream.lean once that file is delivered; this file holds the
statements about the bound setters and the bound predicate.)
-/
namespace Fst

/-- setting the same kind of bound twice uses the last setting -/
theorem C03_last_setting_wins_lower (r : RangeSpec) (a b : Key) :
    (r.ge a).ge b = r.ge b ∧ (r.gt a).ge b = r.ge b ∧ (r.ge a).gt b = r.gt b ∧ (r.gt a).gt b = r.gt b :=
  ⟨rfl, rfl, rfl, rfl⟩

theorem C03_last_setting_wins_upper (r : RangeSpec) (a b : Key) :
    (r.le a).le b = r.le b ∧ (r.lt a).le b = r.le b ∧ (r.le a).lt b = r.lt b ∧ (r.lt a).lt b = r.lt b :=
  ⟨rfl, rfl, rfl, rfl⟩

/-- lower and upper setters do not disturb each other -/
theorem C03_setters_independent (r : RangeSpec) (a b : Key) :
    ((r.ge a).le b).min = .included a ∧ ((r.le b).ge a).max = .included b ∧
    ((r.gt a).lt b).min = .excluded a ∧ ((r.lt b).gt a).max = .excluded b :=
  ⟨rfl, rfl, rfl, rfl⟩

/-- `exceeded_by`: an inclusive bound is exceeded by strictly greater keys only,
an exclusive bound also by the bound itself, no bound by nothing -/
theorem C03_exceededBy (v k : Key) :
    (Bound.included v).exceededBy k = lexLt v k ∧
    (Bound.excluded v).exceededBy k = !lexLt k v ∧
    Bound.unbounded.exceededBy k = false :=
  ⟨rfl, rfl, rfl⟩

example : (({} : RangeSpec).ge [1]).gt [2] = ({} : RangeSpec).gt [2] := rfl

end Fst
