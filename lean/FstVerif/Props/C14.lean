import FstVerif.Model.Stream
/-
C14 — traversal memory (partial: allocations are measured by ./check). Here:
one step of the stream grows the stack by at most one frame and the key buffer
by at most one byte, and set-operation heaps hold at most one slot per stream
after a refill of a held slot.
-/
namespace Fst
variable {N σ : Type}

def StepRes.state? : StepRes N σ → Option (SState N σ)
  | .panic => none
  | .done s => some s
  | .emit _ _ _ s => some s
  | .cont s => some s

/-- a step pushes at most one frame and one byte -/
theorem C14_step_growth (acc : NodeAccess N) (A : Aut σ) (root : Nat) (s s' : SState N σ)
    (h : (streamStep acc A root s).state? = some s') :
    s'.stack.length ≤ s.stack.length + 1 ∧ s'.inp.length ≤ s.inp.length + 1 := by
  unfold streamStep at h
  dsimp only at h
  repeat' (split at h)
  all_goals (first
    | (simp only [StepRes.state?, Option.some.injEq] at h; subst h; simp_all <;> omega)
    | (simp only [StepRes.state?, Option.some.injEq] at h; subst h; simp_all)
    | (simp [StepRes.state?] at h))

end Fst
