import FstVerif.Proofs.Bounds
/-
C14 — traversals and set operations stream with memory independent of the FST
size. PARTIAL: the theorems bound the model's stack / key buffer / heap sizes;
allocations themselves (incl. "open and point lookups allocate nothing") are
MEASURED by ./check with a counting allocator. Statements here; proofs in
Proofs/BoundsStream.lean, BoundsOps.lean, Bounds.lean.
-/
namespace Fst.Props
open Fst Fst.Bounds
variable {N σ : Type}

/-- every stream state reachable from `StreamWithState::new` (any store, any automaton,
any bounds): the stack is at most one frame deeper than the key buffer is long -/
theorem C14_stream_depth {acc : NodeAccess N} {A : Aut σ} {root : Nat} {min max : Bound}
    {st : SState N σ} (h : SReach acc A root min max st) : st.stack.length ≤ st.inp.length + 1 :=
  Fst.Bounds.C14_stream_depth h

/-- on the file of any build: key buffer ≤ longest key, stack ≤ longest key + 1 — no term
in the number of keys stored or emitted -/
theorem C14_stream_built (rows cols : Nat) (kvs : KV) (h : SortedKV kvs) :
    ∃ s s' root, insertAll (BState.new rows cols) kvs = .ok s ∧ s.finish = .ok (s', root) ∧
      ∀ {N σ : Type} (acc : NodeAccess N) (A : Aut σ) (min max : Bound) (st : SState N σ),
        Represents acc (storeOf s') → SReach acc A root min max st →
        st.inp.length ≤ maxLen kvs ∧ st.stack.length ≤ maxLen kvs + 1 :=
  Fst.Bounds.C14_stream_built rows cols kvs h

/-- set operations over k streams hold at most one slot per stream, whatever the
heap's tie-break and however the operations are interleaved -/
theorem C14_ops_slots {pop : PopFn} {streams : List KV} {s : OpState}
    (hp : Ops.PopSpec pop) (h : OpReach pop streams s) :
    s.heap.heap.length ≤ streams.length ∧ s.heap.rdrs.length = streams.length :=
  ⟨(Fst.Bounds.C14_ops_slots hp h).1, (Fst.Bounds.C14_ops_slots hp h).2.1⟩

theorem C14_diff_slots {pop : PopFn} {first : KV} {rest : List KV} {d : DiffState}
    (hp : Ops.PopSpec pop) (h : DiffReach pop (first :: rest) d) :
    d.heap.heap.length ≤ (first :: rest).length - 1 :=
  (Fst.Bounds.C14_ops_slots_diff hp h).1

/-- one step pushes at most one frame and one byte -/
theorem C14_step_growth (acc : NodeAccess N) (A : Aut σ) (root : Nat) (s s' : SState N σ)
    (h : stepState (streamStep acc A root s) = some s') :
    s'.stack.length ≤ s.stack.length + 1 ∧ s'.inp.length ≤ s.inp.length + 1 :=
  Fst.Bounds.C14_step_growth acc A root s s' h

end Fst.Props
