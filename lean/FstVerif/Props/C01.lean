import FstVerif.Proofs.EndToEnd
/-
C01 — build-then-enumerate round trip. Statements here; the proof chain is
Proofs/Build.lean (the incremental builder stores exactly the inserted map,
for every cache geometry) → Proofs/Codec.lean (the byte reader decodes what
the node encoder wrote) → Proofs/Stream.lean + Seek.lean (the explicit-stack
stream enumerates the denotation) → Proofs/EndToEnd*.lean (glue, header,
footer, checksum). The statements are about the BYTES of the complete file.
The only hypotheses are the u64 limits of the format: type tag, values and key
count < 2^64 and file length < 2^64.
-/
namespace Fst.Props
open Fst Fst.E2E

/-- MAP / RAW `insert`: for every cache geometry, every type tag, every strictly
increasing key sequence (empty key, any length, any bytes, any fan-out) with
any u64 values: the build succeeds, the file opens as version 3 with that type,
`len()` is the number of keys, `verify()` succeeds, streaming everything yields
exactly the inserted entries in order, and `get`/`contains_key` agree with the
inserted map for every probe. -/
theorem C01_map (rows cols ty : Nat) (hty : ty < 2^64) (kvs : KV) (hs : SortedKV kvs)
    (hv : ∀ kv ∈ kvs, kv.2 < 2^64) (hn : kvs.length < 2^64) :
    ∃ s bytes, insertAll (BState.new rows cols) kvs = .ok s ∧ s.fileBytes ty = .ok bytes ∧
      (bytes.length < 2^64 →
        ∃ m, fstNew (Src.ofList bytes) = .ok m ∧ m.version = 3 ∧ m.ty = ty ∧
          m.len = kvs.length ∧ fstVerify m (Src.ofList bytes) = .ok () ∧
          (∃ s0, streamNew (byteAccess 3 (Src.ofList bytes)) autAlways m.rootAddr
              .unbounded .unbounded = some s0 ∧
            ∃ N, ∀ fuel, N ≤ fuel →
              streamCollect (byteAccess 3 (Src.ofList bytes)) autAlways m.rootAddr fuel s0 [] =
                some (kvs.map fun kv => (kv.1, kv.2, ()))) ∧
          (∀ key, fstGet (byteAccess 3 (Src.ofList bytes)) m.rootAddr key =
            some (lookupKV kvs key)) ∧
          (∀ key, fstContains (byteAccess 3 (Src.ofList bytes)) m.rootAddr key =
            some (kvs.any fun kv => kv.1 == key))) :=
  e2e_map rows cols ty hty kvs hs hv hn

/-- SET / RAW `add`: non-decreasing keys, repeats collapse: the file holds the distinct keys (value 0) -/
theorem C01_set (rows cols ty : Nat) (hty : ty < 2^64) (ks : List Key) (hs : SortedKeysLe ks)
    (hn : (dedupKeys ks).length < 2^64) :
    ∃ s bytes, addAll (BState.new rows cols) ks = .ok s ∧ s.fileBytes ty = .ok bytes ∧
      (bytes.length < 2^64 →
        ∃ m, fstNew (Src.ofList bytes) = .ok m ∧ m.version = 3 ∧ m.ty = ty ∧
          m.len = (dedupKeys ks).length ∧ fstVerify m (Src.ofList bytes) = .ok () ∧
          (∃ s0, streamNew (byteAccess 3 (Src.ofList bytes)) autAlways m.rootAddr
              .unbounded .unbounded = some s0 ∧
            ∃ N, ∀ fuel, N ≤ fuel →
              streamCollect (byteAccess 3 (Src.ofList bytes)) autAlways m.rootAddr fuel s0 [] =
                some ((zeroKV (dedupKeys ks)).map fun kv => (kv.1, kv.2, ()))) ∧
          (∀ key, fstGet (byteAccess 3 (Src.ofList bytes)) m.rootAddr key =
            some (lookupKV (zeroKV (dedupKeys ks)) key)) ∧
          (∀ key, fstContains (byteAccess 3 (Src.ofList bytes)) m.rootAddr key =
            some ((zeroKV (dedupKeys ks)).any fun kv => kv.1 == key))) :=
  e2e_set rows cols ty hty ks hs hn

/-- on every state reachable by accepted calls no call panics and `finish` succeeds -/
theorem C01_no_panic {s : BState} (hr : Reachable s) :
    (∀ k v tag, s.insert k v ≠ .error (.panic tag)) ∧ (∀ k tag, s.add k ≠ .error (.panic tag)) ∧
    (∃ s' root, s.finish = .ok (s', root)) ∧ (∀ ty, ∃ bytes, s.fileBytes ty = .ok bytes) := by
  obtain ⟨_, _, h3, h4, h5, h6⟩ := e2e_no_panic_history hr
  exact ⟨h3, h4, h5, h6⟩

/-- no arithmetic of the builder exceeds the inserted values: every output stored in an
emitted node is bounded by the largest inserted value (no u64 overflow or underflow) -/
theorem C01_value_bound (rows cols : Nat) (kvs : KV) (h : SortedKV kvs) (M : Nat)
    (hM : ∀ kv ∈ kvs, kv.2 ≤ M) :
    ∃ s s' root, insertAll (BState.new rows cols) kvs = .ok s ∧ s.finish = .ok (s', root) ∧
      ∀ e ∈ s'.out, e.node.fout ≤ M ∧ ∀ t ∈ e.node.trans, t.out ≤ M :=
  build_bound rows cols kvs h M hM

/-- the key order is a strict order -/
theorem C01_lexLt_irrefl (k : Key) : lexLt k k = false := lexLt_irrefl k
theorem C01_lexLt_trans (a b c : Key) (h1 : lexLt a b = true) (h2 : lexLt b c = true) :
    lexLt a c = true := lexLt_trans h1 h2

/-- non-vacuity: the 4-key example (empty key, shared prefix), geometry 1×1, evaluated by the kernel -/
example : SortedKV exKvs ∧ (∀ kv ∈ exKvs, kv.2 < 2^64) := ⟨by simp [exKvs, SortedKV, lexLt], by decide⟩

end Fst.Props
