import FstVerif.Model.Build
/-
C01 — build-then-enumerate round trip. (The end-to-end theorem is assembled
from Proofs/Build.lean, Proofs/Codec.lean and Proofs/Stream.lean; this file
holds the key-order facts and the empty-key step.)
-/
namespace Fst

/-- the key order is irreflexive -/
theorem C01_lexLt_irrefl : ∀ k : Key, lexLt k k = false
  | [] => rfl
  | a :: as => by simp [lexLt, C01_lexLt_irrefl as, UInt8.lt_irrefl]

/-- and asymmetric -/
theorem C01_lexLt_asymm : ∀ a b : Key, lexLt a b = true → lexLt b a = false
  | [], [], h => by simp [lexLt] at h
  | [], _ :: _, _ => rfl
  | _ :: _, [], h => by simp [lexLt] at h
  | x :: xs, y :: ys, h => by
    simp only [lexLt, Bool.or_eq_true, decide_eq_true_eq, Bool.and_eq_true, beq_iff_eq] at h
    simp only [lexLt, Bool.or_eq_false_iff, decide_eq_false_iff_not, Bool.and_eq_false_iff]
    cases h with
    | inl h => exact ⟨fun h2 => absurd (UInt8.lt_trans h h2) (UInt8.lt_irrefl _), Or.inl (by
        simp only [beq_eq_false_iff_ne, ne_eq]; intro e; subst e; exact absurd h (UInt8.lt_irrefl _))⟩
    | inr h =>
      obtain ⟨e, h⟩ := h
      subst e
      exact ⟨UInt8.lt_irrefl _, Or.inr (C01_lexLt_asymm xs ys h)⟩

/-- the empty key is smaller than every other key (so it can only be inserted first) -/
theorem C01_empty_least (k : Key) (h : k ≠ []) : lexLt [] k = true := by
  cases k with
  | nil => exact absurd rfl h
  | cons _ _ => rfl

/-- inserting the empty key first makes the root final with that value and counts one key -/
theorem C01_empty_key (rows cols v : Nat) :
    ∃ s, (BState.new rows cols).insert [] v = .ok s ∧ s.len = 1 ∧
      s.stack = [⟨⟨true, v, []⟩, none⟩] ∧ s.out = [] := by
  refine ⟨_, rfl, rfl, rfl, rfl⟩

end Fst
