import FstVerif.Proofs.Open
/-
C10 — version / length gate of `Fst::new` and `verify` on old versions.
Statements only; proofs in Proofs/Open.lean. (The read-side theorems for
versions 1 and 2 are assembled from Proofs/Codec.lean, see C10_read below when present.)
-/
namespace Fst.Props
open Fst Fst.OpenProofs

/-- inputs shorter than 32 bytes are rejected with a Format error, whatever they contain -/
theorem C10_short (bs : List UInt8) (h : bs.length < 32) :
    fstNew (Src.ofList bs) = .err (.format bs.length) := OpenProofs.C10_short bs h

/-- version 0 or a version newer than supported is rejected with a Version error
(once the input is long enough to be any FST at all) -/
theorem C10_version_gate (bs : List UInt8) (h : 32 ≤ bs.length)
    (hv : versionOf bs = 0 ∨ versionOf bs > 3) :
    fstNew (Src.ofList bs) = .err (.version 3 (versionOf bs)) := by
  have := OpenProofs.C10_version bs h (by rw [version_pinned]; exact hv)
  rwa [version_pinned] at this

/-- a version-3 input shorter than 36 bytes is rejected with a Format error -/
theorem C10_v3_min_len (bs : List UInt8) (hv : versionOf bs = 3) (h : bs.length < 36) :
    fstNew (Src.ofList bs) = .err (.format bs.length) := OpenProofs.C10_v3_short bs hv h

/-- `verify()` reports ChecksumMissing for versions that carry no checksum -/
theorem C10_checksum_missing (bs : List UInt8) (m : Meta)
    (hm : fstNew (Src.ofList bs) = .ok m) (hv : m.version ≤ 2) :
    fstVerify m (Src.ofList bs) = .err .checksumMissing := OpenProofs.C10_checksum_missing bs m hm hv

/-- and never for version 3 -/
theorem C10_v3_has_checksum (bs : List UInt8) (m : Meta)
    (hm : fstNew (Src.ofList bs) = .ok m) (hv : m.version = 3) :
    fstVerify m (Src.ofList bs) ≠ .err .checksumMissing := OpenProofs.checksum_present_v3 bs m hm hv

/-- non-vacuity: the 32-byte empty version-2 file opens (the defect fixed in 31cecbb) -/
example : fstNew (Src.ofList ([2,0,0,0,0,0,0,0] ++ List.replicate 24 0)) =
    .ok { version := 2, rootAddr := 0, ty := 0, len := 0, checksum := none } := by decide

end Fst.Props
