import FstVerif.Model.Reader
/-
C10 — version / length gate of `Fst::new` and `verify` on old versions.
(The read-side theorems for versions 1 and 2 are assembled from Proofs/Codec.lean.)
-/
namespace Fst

/-- inputs shorter than 32 bytes are rejected with a Format error, whatever they contain -/
theorem C10_short (d : Src) (h : d.size < 32) : fstNew d = .err (.format d.size) := by
  simp [fstNew, h]

/-- versions without a checksum report ChecksumMissing -/
theorem C10_checksum_missing (m : Meta) (d : Src) (h : m.checksum = none) :
    fstVerify m d = .err .checksumMissing := by
  simp [fstVerify, h]

example : fstNew (Src.ofList (List.replicate 31 0)) = .err (.format 31) := by decide

end Fst
