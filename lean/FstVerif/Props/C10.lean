import FstVerif.Proofs.Open
import FstVerif.Proofs.OldVer
import FstVerif.Spec.Format
import FstVerif.Proofs.EofLift
/-
C10 — version / length gate of `Fst::new` and `verify` on old versions.
Statements only; proofs in Proofs/Open.lean. (The read-side theorems for
versions 1 and 2 are assembled from Proofs/Codec.lean, see C10_read below when present.)
-/
namespace Fst.Props
open Fst Fst.OpenProofs Fst.OldVer

/-- inputs shorter than 32 bytes are rejected with a Format error, whatever they contain -/
theorem C10_short (bs : List UInt8) (h : bs.length < 32) :
    fstNew (Src.ofList bs) = .err (.format bs.length) := OpenProofs.C10_short bs h

/-- version 0 or a version newer than supported is rejected with a Version error
(once the input is long enough to be any FST at all) -/
theorem C10_version_gate (bs : List UInt8) (h : 32 ≤ bs.length)
    (hv : versionOf bs = 0 ∨ versionOf bs > 3) :
    fstNew (Src.ofList bs) = .err (.version 3 (versionOf bs)) := by
  have := OpenProofs.C10_version bs h (by rw [version_pinned]; exact hv)
  rwa [version_pinned] at this

/-- a version-3 input shorter than 36 bytes is rejected with a Format error -/
theorem C10_v3_min_len (bs : List UInt8) (hv : versionOf bs = 3) (h : bs.length < 36) :
    fstNew (Src.ofList bs) = .err (.format bs.length) := OpenProofs.C10_v3_short bs hv h

/-- `verify()` reports ChecksumMissing for versions that carry no checksum -/
theorem C10_checksum_missing (bs : List UInt8) (m : Meta)
    (hm : fstNew (Src.ofList bs) = .ok m) (hv : m.version ≤ 2) :
    fstVerify m (Src.ofList bs) = .err .checksumMissing := OpenProofs.C10_checksum_missing bs m hm hv

/-- and never for version 3 -/
theorem C10_v3_has_checksum (bs : List UInt8) (m : Meta)
    (hm : fstNew (Src.ofList bs) = .ok m) (hv : m.version = 3) :
    fstVerify m (Src.ofList bs) ≠ .err .checksumMissing := OpenProofs.checksum_present_v3 bs m hm hv

/-- previously written files can only be read if the common-input table the reader uses is the
one they were written with: the table compiled into the crate (regenerated on every run) is
the pinned one -/
theorem C10_pinned_common_inputs : Gen.COMMON_INPUTS_INV = Spec.commonInv ∧ Gen.VERSION = 3 ∧
    Gen.TRANS_INDEX_THRESHOLD = 32 := by
  refine ⟨by decide +kernel, by decide, by decide⟩

/-- READ SIDE, versions 1, 2 and 3. `Spec.encodeFst` (Spec/Encode.lean) is the reference
encoder — version 1 without transition index, version 2 with index and without checksum,
version 3 with both; on every run its bytes are diffed against the independent Rust
reference encoder of the harness. For every sorted map, both output-placement styles, with or
without node sharing: the file opens with that version, type and key count, carries a
checksum iff version 3, `verify()` answers ChecksumMissing / Ok accordingly, and the reader
of that version represents a good store whose root spells exactly the map -/
theorem C10_read (version ty : Nat) (kvs : KV) (style : Nat) (share : Bool)
    (h : Input version ty kvs style share) :
    let bytes := Spec.encodeFst version ty kvs style share
    let st := encStore version kvs style share
    let den := encDen version kvs style share
    ∃ m, fstNew (Src.ofList bytes) = .ok m ∧ m.version = version ∧ m.ty = ty ∧
      m.len = kvs.length ∧ m.rootAddr = encRoot version kvs style share ∧
      (m.checksum = none ↔ version ≤ 2) ∧
      Represents (byteAccess version (Src.ofList bytes)) st ∧ GoodStore st den ∧
      den m.rootAddr = kvs ∧ (m.rootAddr = 0 ∨ ∃ n, (m.rootAddr, n) ∈ st) ∧
      fstVerify m (Src.ofList bytes) = (if version ≤ 2 then .err .checksumMissing else .ok ()) :=
  OldVer.C10_read version ty kvs style share h

/-- hence every query answers according to the content, for each version -/
theorem C10_get (version ty : Nat) (kvs : KV) (style : Nat) (share : Bool)
    (h : Input version ty kvs style share) :
    ∃ m, fstNew (Src.ofList (Spec.encodeFst version ty kvs style share)) = .ok m ∧
      ∀ key, fstGet (byteAccess m.version (Src.ofList (Spec.encodeFst version ty kvs style share)))
        m.rootAddr key = some (lookupKV kvs key) := OldVer.C10_get version ty kvs style share h

theorem C10_stream {σ : Type} (version ty : Nat) (kvs : KV) (style : Nat) (share : Bool)
    (h : Input version ty kvs style share) (A : Aut σ)
    (hEof : ∀ x, A.acceptEof x = none)
    (hCan : ∀ x, A.canMatch x = false → ∀ w, A.isMatch (A.run x w) = false)
    (min max : Bound) :
    ∃ m, fstNew (Src.ofList (Spec.encodeFst version ty kvs style share)) = .ok m ∧
      ∃ s0, streamNew (byteAccess m.version (Src.ofList (Spec.encodeFst version ty kvs style share)))
          A m.rootAddr min max = some s0 ∧
      ∃ N, ∀ fuel, N ≤ fuel →
        streamCollect (byteAccess m.version (Src.ofList (Spec.encodeFst version ty kvs style share)))
            A m.rootAddr fuel s0 [] =
          some ((kvs.filter fun kv =>
                  lowerOK min kv.1 && upperOK max kv.1 && A.accepts kv.1).map
                  fun kv => (kv.1, kv.2, A.run A.start kv.1)) :=
  OldVer.C10_stream version ty kvs style share h A hEof hCan min max

/-- the same for an automaton that overrides the `accept_eof` hook (no `hEof`): old-version files
are streamed by the same `next_with`; acceptance in the sense of `Aut.acceptsEof` -/
theorem C10_stream_eof {σ : Type} (version ty : Nat) (kvs : KV) (style : Nat) (share : Bool)
    (h : Input version ty kvs style share) (A : Aut σ)
    (hCan : ∀ x, A.canMatch x = false →
      ∀ w, A.isMatch (A.run x w) = false ∧ A.eofMatch (A.run x w) = false)
    (min max : Bound) :
    ∃ m, fstNew (Src.ofList (Spec.encodeFst version ty kvs style share)) = .ok m ∧
      ∃ s0, streamNew (byteAccess m.version (Src.ofList (Spec.encodeFst version ty kvs style share)))
          A m.rootAddr min max = some s0 ∧
      ∃ N, ∀ fuel, N ≤ fuel →
        streamCollect (byteAccess m.version (Src.ofList (Spec.encodeFst version ty kvs style share)))
            A m.rootAddr fuel s0 [] =
          some ((kvs.filter fun kv =>
                  lowerOK min kv.1 && upperOK max kv.1 && A.acceptsEof kv.1).map
                  fun kv => (kv.1, kv.2, A.run A.start kv.1)) := by
  obtain ⟨m, hm, hs⟩ := OldVer.C10_stream version ty kvs style share h (eofLift A)
    (fun _ => rfl) (eofLift_canSound A hCan) min max
  exact ⟨m, hm, eof_transport hs⟩

/-- the version-1 reader decodes nodes of any fan-out written without an index -/
theorem C10_codec_v1 (n : BNode) (lastAddr start : Nat) (enc pre post : List UInt8)
    (wf : WFNode n lastAddr start) (henc : Spec.compileNodeV 1 n lastAddr start = some enc)
    (hpre : pre.length = start) :
    ∃ rn, nodeNew 1 (Src.ofList (pre ++ enc ++ post)) (start + enc.length - 1) = some rn ∧
      rn.toBNode (Src.ofList (pre ++ enc ++ post)) = some n := by
  obtain ⟨_, rn, h1, _, _, _, _, _, _, _, h9⟩ := codec_roundtrip_v1 n lastAddr start enc pre post wf henc hpre
  exact ⟨rn, h1, h9⟩

/-- non-vacuity: a 42-key map with a 40-way node and the empty key, versions 1, 2, 3 -/
example : Input 1 7 ex40 1 true ∧ Input 2 7 ex40 0 false ∧ Input 3 0 ex40 1 true :=
  ⟨ex40_input_v1, ex40_input_v2, ex40_input_v3⟩

/-- non-vacuity: the 32-byte empty version-2 file opens (the defect fixed in 31cecbb) -/
example : fstNew (Src.ofList ([2,0,0,0,0,0,0,0] ++ List.replicate 24 0)) =
    .ok { version := 2, rootAddr := 0, ty := 0, len := 0, checksum := none } := by decide

end Fst.Props
