import FstVerif.Model.Merge
/-
C19 — unsorted CLI builds. (`C19_result` is assembled from Proofs/Merge.lean;
here: the algebra of the value mergers that makes batching irrelevant.)
-/
namespace Fst

theorem C19_op_comm (m : MergeMode) (x y : Nat) : m.op x y = m.op y x := by
  cases m <;> simp [MergeMode.op, Nat.add_comm, Nat.max_comm, Nat.min_comm]

theorem C19_op_assoc (m : MergeMode) (x y z : Nat) : m.op (m.op x y) z = m.op x (m.op y z) := by
  cases m <;> simp [MergeMode.op, Nat.add_assoc, Nat.max_assoc, Nat.min_assoc]

/-- the fold of a union's values starts from the first value, so `min` is not absorbed by 0 -/
theorem C19_fold_singleton (m : MergeMode) (v : Nat) (h : m ≠ .set) : m.fold [v] = v := by
  simp [MergeMode.fold, h]

theorem C19_fold_min (a b : Nat) : MergeMode.min.fold [a, b] = Nat.min a b := by
  simp [MergeMode.fold, MergeMode.op]

example : kvBatch .sum [([97], 1), ([97], 2), ([98], 5), ([97], 1)] = [([97], 4), ([98], 5)] := by decide

end Fst
