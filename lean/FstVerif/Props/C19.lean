import FstVerif.Proofs.Merge
import FstVerif.Proofs.Lines
import FstVerif.Proofs.Glue
import FstVerif.Proofs.Sched
/-
C19 — unsorted CLI builds are independent of batching, file-descriptor limit
and scheduling. PARTIAL: the theorems are about the data flow of merge.rs
(Model/Merge.lean) under every permutation of each generation's results, and
about a transition-system model of the Sorters thread/channel protocol
(Model/Sched.lean: every interleaving of hand-offs, work and result returns).
The OS scheduler, crossbeam's implementation of the channels and the temp files
are not modelled; they are exercised by running the real binary (./check,
seeded delays) whose traces are checked against the protocol model's predicate.
Statements here; proofs in Proofs/Merge.lean (with the union specification
from Proofs/Ops.lean).
-/
namespace Fst.Props
open Fst Fst.MergeProofs

/-- for every batch size, every fd limit ≥ 2 and every schedule (any permutation
of each generation's results): the merge terminates and yields the sorted
distinct keys with the merge (sum / max / min) of ALL values given for each key -/
theorem C19_result (m : MergeMode) (batchSize fd : Nat) (hfd : 2 ≤ fd)
    (sched : Nat → List KV → List KV) (hsched : ∀ g xs, (sched g xs).Perm xs)
    (rows : List (Key × Nat)) :
    mergeAll m batchSize fd sched rows = some (Spec.merged m rows) :=
  C19_result_final m batchSize fd hfd sched hsched rows

/-- what `merged` means: membership-defined, not merge-defined -/
theorem C19_spec (m : MergeMode) (rows : List (Key × Nat)) (k : Key) (v : Nat) :
    (k, v) ∈ Spec.merged m rows ↔ k ∈ rows.map (·.1) ∧ v = m.fold (valuesOf rows k) := mem_merged m rows k v

/-- the result does not depend on the order of the input rows either -/
theorem C19_row_order (m : MergeMode) (r1 r2 : List (Key × Nat)) (h : r1.Perm r2) :
    Spec.merged m r1 = Spec.merged m r2 := merged_perm m h

/-- fd-limit ≤ 1 cannot make progress (outside the contract) -/
theorem C19_fd_le_1_stuck (m : MergeMode) (fd : Nat) (hfd : fd ≤ 1) (sched : Nat → List KV → List KV)
    (hsched : ∀ g xs, (sched g xs).Perm xs) (fuel g : Nat) (results : List KV) (h : 2 ≤ results.length) :
    mergeGens m fd sched fuel g results = none := C19_no_progress_fd_le1 m fd hfd sched hsched fuel g results h

theorem C19_op_comm (m : MergeMode) (x y : Nat) : m.op x y = m.op y x := op_comm m x y
theorem C19_op_assoc (m : MergeMode) (x y z : Nat) : m.op (m.op x y) z = m.op x (m.op y z) := op_assoc m x y z

example : kvBatch .sum [([97], 1), ([97], 2), ([98], 5), ([97], 1)] = [([97], 4), ([98], 5)] := by decide


/-! ### the thread / channel protocol of `Sorters` (Model/Sched.lean) — every interleaving

`C19_result` takes the order in which a generation's results come back as an arbitrary
permutation. The theorems below derive that from a transition-system model of the two
rendezvous channels and the worker loop: whichever worker takes whichever batch, and in
whichever order the workers hand back their vectors. -/

/-- whatever the interleaving, when `Sorters::results` returns, every batch's result is there exactly once -/
theorem C19_sorters_perm {threads total : Nat} {s : Sched.St}
    (h : Sched.Reachable threads total s) (ht : s.terminal = true) :
    s.collected.Perm (List.range total) := Sched.sorters_perm h ht

/-- no interleaving deadlocks (at least one worker) … -/
theorem C19_sorters_progress {threads total : Nat} {s : Sched.St} (h1 : 1 ≤ threads)
    (h : Sched.Reachable threads total s) (ht : s.terminal = false) :
    ∃ e, (Sched.step s e).isSome := Sched.sorters_progress h1 h ht

/-- … and every interleaving is finite -/
theorem C19_sorters_terminates {threads total : Nat} {evs : List Sched.Ev} {s : Sched.St}
    (h : Sched.run (Sched.init threads total) evs = some s) : evs.length ≤ 2 * total + threads + 1 :=
  Sched.sorters_terminates h

/-- the orders in which results can come back are exactly those with at most `threads`
ascending runs (this predicate is evaluated on the trace of every real run) -/
theorem C19_sorters_orders {threads total : Nat} (h1 : 1 ≤ threads) (order : List Nat) :
    Sched.validOrder threads total order = true ↔
      ∃ s, Sched.Reachable threads total s ∧ s.terminal = true ∧ s.collected = order :=
  Sched.sorters_exact h1

/-- the merge result for every number of threads and every interleaving of every generation -/
theorem C19_threads (m : MergeMode) (batchSize fd : Nat) (hfd : 2 ≤ fd) (threads : Nat)
    (choice : Nat → Nat → List Sched.Ev) (rows : List (Key × Nat)) :
    mergeAll m batchSize fd (Sched.schedOf threads choice) rows = some (Spec.merged m rows) :=
  Sched.C19_threads m batchSize fd hfd threads choice rows


/-! ### what the input files mean as rows (Model/Glue.lean `lineKey`, `fileRows`) -/

/-- one CR before the line feed belongs to the terminator; an unterminated last line is taken as it is -/
theorem C19_line_key (c : Key) :
    lineKey (c ++ [13]) true = c ∧ lineKey (c ++ [13, 13]) true = c ++ [13] ∧ lineKey c false = c ∧
    (c.getLast? ≠ some 13 → lineKey c true = c) :=
  ⟨Glue.lineKey_cr c, Glue.lineKey_cr_cr c, Glue.lineKey_unterminated c, fun h => Glue.lineKey_no_cr c true h⟩

/-- a file listed twice is read twice -/
theorem C19_file_twice (b : Bool) (f : List (Key × Nat) × Bool) :
    fileRows b [f, f] = fileRows b [f] ++ fileRows b [f] := Glue.fileRows_twice b f


/-! ### from the BYTES of the input files to the rows (Model/Lines.lean: bstr's `byte_lines`) -/

/-- reading back a file written line by line: every row comes back as `lineKey` says, provided no
row contains a line feed and the file does not end in an EMPTY unterminated row (which leaves no
byte behind: `Lines.byteLines_render_empty_last`) -/
theorem C19_bytes_to_rows (rows : List Key) (lastTerminated : Bool) (hnl : ∀ r ∈ rows, (10 : UInt8) ∉ r)
    (hlast : lastTerminated = true ∨ rows.getLast? ≠ some []) :
    byteLines (renderLines rows lastTerminated) =
      rows.zipIdx.map (fun (c, i) => lineKey c (lastTerminated || i + 1 != rows.length)) :=
  Lines.byteLines_render rows lastTerminated hnl hlast

/-- one reader per file: lines never span files; and what chaining the readers would do instead -/
theorem C19_files_to_rows (files : List (List (Key × Nat) × Bool)) (h : ∀ f ∈ files, Lines.Renderable f) :
    concatFilesLines (files.map fun (rows, t) => renderLines (rows.map (·.1)) t) = (fileRows true files).map (·.1) :=
  Lines.concatFilesLines_render files h

example : byteLines ([97] ++ [98, 10]) = [[97, 98]] ∧ concatFilesLines [[97], [98, 10]] = [[97], [98]] := by decide

/-- a line is never split, whatever its length -/
theorem C19_long_line (n : Nat) : byteLines (List.replicate n 76 ++ [10]) = [List.replicate n 76] :=
  Lines.byteLines_long_line n

end Fst.Props
