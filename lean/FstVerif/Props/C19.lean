import FstVerif.Proofs.Merge
/-
C19 — unsorted CLI builds are independent of batching, file-descriptor limit
and scheduling. PARTIAL: the theorem is about the data flow of merge.rs
(Model/Merge.lean) with the scheduler as an adversarial permutation of each
generation's results; OS threads, channels and temp files are not modelled and
are exercised only by running the real binary (./check, seeded delays).
Statements here; proofs in Proofs/Merge.lean (with the union specification
from Proofs/Ops.lean).
-/
namespace Fst.Props
open Fst Fst.MergeProofs

/-- for every batch size, every fd limit ≥ 2 and every schedule (any permutation
of each generation's results): the merge terminates and yields the sorted
distinct keys with the merge (sum / max / min) of ALL values given for each key -/
theorem C19_result (m : MergeMode) (batchSize fd : Nat) (hfd : 2 ≤ fd)
    (sched : Nat → List KV → List KV) (hsched : ∀ g xs, (sched g xs).Perm xs)
    (rows : List (Key × Nat)) :
    mergeAll m batchSize fd sched rows = some (Spec.merged m rows) :=
  C19_result_final m batchSize fd hfd sched hsched rows

/-- what `merged` means: membership-defined, not merge-defined -/
theorem C19_spec (m : MergeMode) (rows : List (Key × Nat)) (k : Key) (v : Nat) :
    (k, v) ∈ Spec.merged m rows ↔ k ∈ rows.map (·.1) ∧ v = m.fold (valuesOf rows k) := mem_merged m rows k v

/-- the result does not depend on the order of the input rows either -/
theorem C19_row_order (m : MergeMode) (r1 r2 : List (Key × Nat)) (h : r1.Perm r2) :
    Spec.merged m r1 = Spec.merged m r2 := merged_perm m h

/-- fd-limit ≤ 1 cannot make progress (outside the contract) -/
theorem C19_fd_le_1_stuck (m : MergeMode) (fd : Nat) (hfd : fd ≤ 1) (sched : Nat → List KV → List KV)
    (hsched : ∀ g xs, (sched g xs).Perm xs) (fuel g : Nat) (results : List KV) (h : 2 ≤ results.length) :
    mergeGens m fd sched fuel g results = none := C19_no_progress_fd_le1 m fd hfd sched hsched fuel g results h

theorem C19_op_comm (m : MergeMode) (x y : Nat) : m.op x y = m.op y x := op_comm m x y
theorem C19_op_assoc (m : MergeMode) (x y z : Nat) : m.op (m.op x y) z = m.op x (m.op y z) := op_assoc m x y z

example : kvBatch .sum [([97], 1), ([97], 2), ([98], 5), ([97], 1)] = [([97], 4), ([98], 5)] := by decide

end Fst.Props
