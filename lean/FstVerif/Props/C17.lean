import FstVerif.Proofs.Lev
import FstVerif.Proofs.LevDfa
/-
C17 — the Levenshtein automaton accepts exactly the keys within the edit
distance, counted in Unicode scalar values. Statements here. Proofs:
Proofs/Lev.lean (the capped DP row decides `Spec.lev`, the edit distance
defined by structural recursion in Spec/Lev.lean and tied to edit scripts),
Proofs/LevDfa*.lean (the DFA construction of Model/Lev.lean yields the UTF-8
lifting of the DP automaton, for EVERY query). `Spec.utf8Full` is the result of
utf8-ranges' `Utf8Sequences::new(0, 0x10FFFF)`; the harness compares it with
the real crate on every run and the driver with this literal.
-/
namespace Fst.Props
open Fst Fst.Spec

/-- BYTE LEVEL, every query, every distance, every key: whenever the construction returns an
automaton (`new_with_limit` = Ok), that automaton matches the UTF-8 encoding of a key iff the
edit distance between query and key, in scalar values, is at most `dist` -/
theorem C17_dfa (query : List Nat) (dist limit fuel : Nat) (states : Array DState)
    (hq : ∀ c ∈ query, ValidScalar c)
    (hb : levNew query dist Spec.utf8Full limit fuel = some (.ok states))
    (k : List Nat) (hk : ∀ c ∈ k, ValidScalar c) :
    (levAut states).accepts (k.flatMap utf8Enc) = true ↔ Spec.lev query k ≤ dist :=
  Fst.C17_dfa query dist limit fuel states hq hb k hk

/-- its `can_match` hint is sound: once false after a key (or part-way through a
character), no extension is within the distance — so searching an FST with it prunes nothing
it should return (with `C04_search`) -/
theorem C17_dfa_can_match (query : List Nat) (dist limit fuel : Nat) (states : Array DState)
    (hq : ∀ c ∈ query, ValidScalar c)
    (hb : levNew query dist Spec.utf8Full limit fuel = some (.ok states))
    (k : List Nat) (hk : ∀ c ∈ k, ValidScalar c)
    (hdead : (levAut states).canMatch ((levAut states).run (levAut states).start (k.flatMap utf8Enc)) = false)
    (k' : List Nat) : ¬ Spec.lev query (k ++ k') ≤ dist :=
  Fst.C17_dfa_can_match query dist limit fuel states hq hb k hk hdead k'

/-- a construction that would exceed the state limit does not return an automaton -/
theorem C17_limit (query : List Nat) (dist : Nat) (full : List (List (Nat × Nat))) (limit fuel : Nat)
    (states : Array DState) (h : levNew query dist full limit fuel = some (.ok states)) :
    states.size ≤ limit := Fst.C17_limit query dist full limit fuel states h

/-- CHARACTER LEVEL: the DP row automaton decides the edit distance -/
theorem C17_dp (l : DynLev) (k : List Nat) :
    l.isMatch (k.foldl (fun st c => l.accept st (some c)) l.start) = true ↔
      Spec.lev l.query k ≤ l.dist := Fst.C17_dp l k

theorem C17_can_match_sound (l : DynLev) (st : List Nat) (h : l.canMatch st = false)
    (w : List (Option Nat)) : l.isMatch (w.foldl (fun st c => l.accept st c) st) = false :=
  Fst.C17_dp_can_opt l st h w

/-- the specification is the minimum length of an edit script (insertions, deletions, substitutions) -/
theorem C17_spec_is_edit_distance (q k : List Nat) (n : Nat) :
    Spec.lev q k = n ↔ Spec.Edit q k n ∧ ∀ m, Spec.Edit q k m → n ≤ m := Spec.lev_eq_iff q k n

/-- UTF-8: every valid scalar's encoding is matched by exactly one of the nine sequences,
encodings are injective and prefix-free -/
theorem C17_utf8_inj (a b : Nat) (ha : ValidScalar a) (hb : ValidScalar b)
    (h : utf8Enc a = utf8Enc b) : a = b := LevDfa.utf8Enc_inj a b ha hb h

example : Spec.lev [233] [234] = 1 := by decide
example : utf8Enc 0xE9 = [0xC3, 0xA9] := by decide

end Fst.Props
