import FstVerif.Proofs.Lev
/-
C17 — Levenshtein. Character level (all queries, distances, keys): statements
here, proofs in Proofs/Lev.lean against the independent definition
`Spec.lev` (Spec/Lev.lean: structural recursion, tied to edit scripts by
`Spec.lev_eq_iff`). Byte level: PARTIAL — the model of the DFA construction
(Model/Lev.lean) is compared state-for-state with the real DFA for the
enumerated (query, distance) pairs by ./check; a proof that the construction
yields the UTF-8 lifting of the DP automaton for every query is not done.
-/
namespace Fst.Props
open Fst

/-- the DP row automaton matches exactly the keys within the edit distance
(scalar values; every query, every distance, every key) -/
theorem C17_dp (l : DynLev) (k : List Nat) :
    l.isMatch (k.foldl (fun st c => l.accept st (some c)) l.start) = true ↔
      Spec.lev l.query k ≤ l.dist := Fst.C17_dp l k

/-- `can_match` is sound: once false, no continuation (through query characters or
the "any other character" step `none`) matches -/
theorem C17_can_match_sound (l : DynLev) (st : List Nat) (h : l.canMatch st = false)
    (w : List (Option Nat)) : l.isMatch (w.foldl (fun st c => l.accept st c) st) = false :=
  Fst.C17_dp_can_opt l st h w

/-- the construction's "mismatch" step stands for every character not in the query -/
theorem C17_mismatch_char (l : DynLev) (st : List Nat) (c : Nat) (hc : c ∉ l.query) :
    l.accept st none = l.accept st (some c) := Fst.accept_none_eq l st c hc

/-- the specification is the minimum length of an edit script (insertions, deletions, substitutions) -/
theorem C17_spec_is_edit_distance (q k : List Nat) (n : Nat) :
    Spec.lev q k = n ↔ Spec.Edit q k n ∧ ∀ m, Spec.Edit q k m → n ≤ m := Spec.lev_eq_iff q k n

/-- a construction that would exceed the state limit does not return an automaton -/
theorem C17_limit (query : List Nat) (dist : Nat) (full : List (List (Nat × Nat))) (limit fuel : Nat)
    (states : Array DState) (h : levNew query dist full limit fuel = some (.ok states)) :
    states.size ≤ limit := Fst.C17_limit query dist full limit fuel states h

theorem C17_utf8_len (c : Nat) :
    (utf8Enc c).length = if c < 0x80 then 1 else if c < 0x800 then 2 else if c < 0x10000 then 3 else 4 := by
  unfold utf8Enc
  split
  · rfl
  · split
    · rfl
    · split <;> rfl

example : utf8Enc 0xE9 = [0xC3, 0xA9] := by decide
example : utf8Enc 0x1F600 = [0xF0, 0x9F, 0x98, 0x80] := by decide
example : Spec.lev [233] [234] = 1 := by decide

end Fst.Props
