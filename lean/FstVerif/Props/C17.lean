import FstVerif.Model.Lev
/-
C17 — Levenshtein (partial at byte level, see DESIGN.md). (`C17_dp` for all
query/distance/key is in Proofs/Lev.lean; here: UTF-8 encoder facts used by
the DFA construction and the shape of the start row.)
-/
namespace Fst

theorem C17_start_row (q : List Nat) (d : Nat) : (DynLev.mk q d).start = List.range (q.length + 1) := rfl

/-- the empty query matches exactly when the start row's last entry (0) is within the distance -/
theorem C17_empty_query (d : Nat) : (DynLev.mk [] d).isMatch (DynLev.mk [] d).start = true := by
  simp [DynLev.isMatch, DynLev.start, List.range, List.range.loop]

/-- encoded length by code-point range -/
theorem C17_utf8_len (c : Nat) :
    (utf8Enc c).length = if c < 0x80 then 1 else if c < 0x800 then 2 else if c < 0x10000 then 3 else 4 := by
  unfold utf8Enc
  split
  · rfl
  · split
    · rfl
    · split <;> rfl

example : utf8Enc 0xE9 = [0xC3, 0xA9] := by decide
example : utf8Enc 0x2603 = [0xE2, 0x98, 0x83] := by decide
example : utf8Enc 0x1F600 = [0xF0, 0x9F, 0x98, 0x80] := by decide

end Fst
