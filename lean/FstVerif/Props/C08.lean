import FstVerif.Model.Crc
/-
C08 — checksums. (`C08_slice16`, `C08_chunking`, `C08_single_byte` are in
Proofs/Crc.lean; here: the unit laws of the checksummer.)
-/
namespace Fst

/-- updating with no bytes is the identity -/
theorem C08_update_nil (s : Summer) : s.update [] = s := by
  cases s with
  | mk sum => simp [Summer.update, crc32cSlice16, crcLoop]

/-- the checksum of a buffer shorter than 16 bytes is the plain byte fold (tail loop) -/
theorem C08_short_is_fold (prev : UInt32) (buf : List UInt8) (h : buf.length < 16) :
    crc32cSlice16 prev buf = ~~~ (buf.foldl crcByte (~~~ prev)) := by
  unfold crc32cSlice16
  congr 1
  match buf, h with
  | [], _ => rfl
  | [_], _ => rfl
  | [_, _], _ => rfl
  | [_, _, _], _ => rfl
  | [_, _, _, _], _ => rfl
  | [_, _, _, _, _], _ => rfl
  | [_, _, _, _, _, _], _ => rfl
  | [_, _, _, _, _, _, _], _ => rfl
  | [_, _, _, _, _, _, _, _], _ => rfl
  | [_, _, _, _, _, _, _, _, _], _ => rfl
  | [_, _, _, _, _, _, _, _, _, _], _ => rfl
  | [_, _, _, _, _, _, _, _, _, _, _], _ => rfl
  | [_, _, _, _, _, _, _, _, _, _, _, _], _ => rfl
  | [_, _, _, _, _, _, _, _, _, _, _, _, _], _ => rfl
  | [_, _, _, _, _, _, _, _, _, _, _, _, _, _], _ => rfl
  | [_, _, _, _, _, _, _, _, _, _, _, _, _, _, _], _ => rfl
  | _ :: _ :: _ :: _ :: _ :: _ :: _ :: _ :: _ :: _ :: _ :: _ :: _ :: _ :: _ :: _ :: _, h =>
    exact absurd h (by simp only [List.length_cons]; omega)

end Fst
