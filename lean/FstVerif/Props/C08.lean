import FstVerif.Proofs.Crc
import FstVerif.Proofs.Open
/-
C08 — checksums. Statements here; proofs in Proofs/Crc.lean against the
bit-by-bit definition of CRC-32C in Spec/Crc.lean. The tables the proofs talk
about (`Gen.CRC_TABLE`, `Gen.CRC_TABLE16`) are regenerated from the compiled
crate on every run; `C08_tables_pinned` re-proves that they are the Castagnoli
tables.
-/
namespace Fst.Props
open Fst

/-- the tables compiled into the crate are the CRC-32C (Castagnoli) tables -/
theorem C08_tables_pinned : Gen.CRC_TABLE = Spec.makeTable ∧ Gen.CRC_TABLE16 = Spec.makeTable16 :=
  Fst.tables_pinned

/-- slice-by-16 = bitwise CRC-32C, for every buffer of every length (both sides of the 16-byte fast path) -/
theorem C08_slice16 (prev : UInt32) (buf : List UInt8) :
    crc32cSlice16 prev buf = Spec.crcBitwise prev buf := Fst.C08_slice16 prev buf

/-- the mask is the Snappy-style mask -/
theorem C08_mask (x : UInt32) : maskedSum x = Spec.mask x := Fst.maskedSum_eq_mask x

/-- the checksum does not depend on how the data was chunked while being written -/
theorem C08_chunking (s : Summer) (a b : List UInt8) : (s.update a).update b = s.update (a ++ b) :=
  Fst.C08_chunking s a b

/-- altering any single byte changes the masked checksum of the data -/
theorem C08_single_byte (s : Summer) (pre post : List UInt8) (x y : UInt8) (hxy : x ≠ y) :
    (s.update (pre ++ x :: post)).masked ≠ (s.update (pre ++ y :: post)).masked :=
  Fst.C08_summer_single_byte s pre post x y hxy

/-- so does any burst of up to four bytes -/
theorem C08_burst (pre post w1 w2 : List UInt8) (hl : w1.length = w2.length) (h4 : w1.length ≤ 4)
    (hne : w1 ≠ w2) (prev : UInt32) :
    maskedSum (crc32cSlice16 prev (pre ++ w1 ++ post)) ≠ maskedSum (crc32cSlice16 prev (pre ++ w2 ++ post)) :=
  Fst.C08_masked_burst pre post w1 w2 hl h4 hne prev

/-- corruption is never certified: if a file opens and verifies, then every file that
differs from it in exactly one byte BEFORE the trailing checksum and still opens with
the same stored checksum reports a mismatch -/
theorem C08_corruption_detected (pre post : List UInt8) (x y : UInt8) (hxy : x ≠ y) (ck : List UInt8)
    (hck : ck.length = 4) (m m' : Meta)
    (ho : fstNew (Src.ofList (pre ++ x :: post ++ ck)) = .ok m)
    (ho' : fstNew (Src.ofList (pre ++ y :: post ++ ck)) = .ok m')
    (hsame : m'.checksum = m.checksum)
    (hv : fstVerify m (Src.ofList (pre ++ x :: post ++ ck)) = .ok ()) :
    fstVerify m' (Src.ofList (pre ++ y :: post ++ ck)) ≠ .ok () := by
  rw [OpenProofs.verify_eq _ _ ho] at hv
  rw [OpenProofs.verify_eq _ _ ho']
  have tk : ∀ (l : List UInt8), (l ++ ck).take ((l ++ ck).length - 4) = l := by
    intro l
    have : (l ++ ck).length - 4 = l.length := by simp [hck]
    rw [this]; simp
  have t1 := tk (pre ++ x :: post)
  have t2 := tk (pre ++ y :: post)
  simp only [List.append_assoc, List.cons_append] at t1 t2 hv ⊢
  rw [t1] at hv
  rw [t2, hsame]
  cases hc : m.checksum with
  | none => simp [hc] at hv
  | some e =>
    simp only [hc] at hv ⊢
    split at hv
    · rename_i he
      have hne := Fst.C08_masked_single_byte pre post x y hxy 0
      intro h
      split at h
      · rename_i he'
        apply hne
        have : (maskedSum (crc32cSlice16 0 (pre ++ x :: post))).toNat =
            (maskedSum (crc32cSlice16 0 (pre ++ y :: post))).toNat := by rw [← he, ← he']
        exact UInt32.toNat_inj.mp this
      · cases h
    · cases hv

end Fst.Props
