import FstVerif.Proofs.Ops
import FstVerif.Proofs.Wrappers
/-
C05 — set operations equal their mathematical definitions, for every
admissible tie-break of the heap (`PopSpec`: `BinaryHeap::pop` returns *a*
minimal slot). Statements here; proofs in Proofs/Ops.lean. The specification
side (`allKeys`, `occ`, `HasKey`) is defined from membership, not from merging.
-/
namespace Fst.Props
open Fst Fst.Ops

/-- the tie-break the driver uses is admissible -/
theorem C05_popMin : PopSpec popMin := Fst.C05_popMin

/-- union: every key present in at least one stream, once, ascending; each with
exactly one (stream index, value) entry per stream containing it -/
theorem C05_union (pop : PopFn) (hp : PopSpec pop) (streams : List KV) (hs : ∀ l ∈ streams, SortedKV l) :
    ∃ out, opCollect pop .union streams = some out ∧ out.map (·.1) = allKeys streams ∧
      ∀ k outs, (k, outs) ∈ out → outs.Perm (occ streams k) := Fst.C05_union pop hp streams hs

/-- intersection: the keys present in all streams -/
theorem C05_inter (pop : PopFn) (hp : PopSpec pop) (streams : List KV) (hs : ∀ l ∈ streams, SortedKV l) :
    ∃ out, opCollect pop .intersection streams = some out ∧
      out.map (·.1) = (allKeys streams).filter (fun k => decide ((occ streams k).length = streams.length)) ∧
      ∀ k outs, (k, outs) ∈ out → outs.Perm (occ streams k) := Fst.C05_inter pop hp streams hs

/-- symmetric difference: the keys present in an odd number of streams -/
theorem C05_symdiff (pop : PopFn) (hp : PopSpec pop) (streams : List KV) (hs : ∀ l ∈ streams, SortedKV l) :
    ∃ out, opCollect pop .symmetricDifference streams = some out ∧
      out.map (·.1) = (allKeys streams).filter (fun k => decide ((occ streams k).length % 2 = 1)) ∧
      ∀ k outs, (k, outs) ∈ out → outs.Perm (occ streams k) := Fst.C05_symdiff pop hp streams hs

/-- difference: the entries of the first stream whose key is in no other stream, with the first stream's value only -/
theorem C05_diff (pop : PopFn) (hp : PopSpec pop) (streams : List KV) (hne : streams ≠ [])
    (hs : ∀ l ∈ streams, SortedKV l) :
    opCollect pop .difference streams =
      some (((streams.head hne).filter (fun kv => !hasKeyB streams.tail kv.1)).map
        (fun kv => (kv.1, [⟨0, kv.2⟩]))) := Fst.C05_diff pop hp streams hne hs

theorem C05_disjoint (pop : PopFn) (hp : PopSpec pop) (a b : KV) (ha : SortedKV a) (hb : SortedKV b) :
    isDisjoint pop a b = true ↔ ∀ k, ¬ (KeyOf a k ∧ KeyOf b k) := Fst.C05_disjoint pop hp a b ha hb
theorem C05_subset (pop : PopFn) (hp : PopSpec pop) (a b : KV) (ha : SortedKV a) (hb : SortedKV b) :
    isSubset pop a b = true ↔ ∀ k, KeyOf a k → KeyOf b k := Fst.C05_subset pop hp a b ha hb
theorem C05_superset (pop : PopFn) (hp : PopSpec pop) (a b : KV) (ha : SortedKV a) (hb : SortedKV b) :
    isSuperset pop a b = true ↔ ∀ k, KeyOf b k → KeyOf a k := Fst.C05_superset pop hp a b ha hb

/-- the specification side: `allKeys` is the unique ascending list of the keys present somewhere -/
theorem C05_allKeys_spec (streams : List KV) :
    SortedK (allKeys streams) ∧ ∀ k, k ∈ allKeys streams ↔ HasKey streams k :=
  ⟨sorted_allKeys streams, fun k => mem_allKeys streams k⟩


/-! ### the set-level wrappers (`set::OpBuilder`, `Set::is_*`; Model/Wrappers.lean): key lists only,
specification by membership -/

theorem C05_set_union (pop : PopFn) (hp : PopSpec pop) (streams : List (List Key))
    (hs : ∀ l ∈ streams, SortedK l) :
    ∃ out, Wrap.setOp pop .union streams = some out ∧ SortedK out ∧ ∀ k, k ∈ out ↔ ∃ l ∈ streams, k ∈ l := by
  obtain ⟨out, h1, _, h3, h4⟩ := Wrap.setUnion_correct pop hp streams hs
  exact ⟨out, h1, h3, h4⟩

/-- for no streams at all the result is empty (`Wrap.setOp_inter_nil`), hence `streams ≠ []` -/
theorem C05_set_inter (pop : PopFn) (hp : PopSpec pop) (streams : List (List Key)) (hne : streams ≠ [])
    (hs : ∀ l ∈ streams, SortedK l) :
    ∃ out, Wrap.setOp pop .intersection streams = some out ∧ SortedK out ∧ ∀ k, k ∈ out ↔ ∀ l ∈ streams, k ∈ l :=
  Wrap.setInter_correct pop hp streams hne hs

theorem C05_set_symdiff (pop : PopFn) (hp : PopSpec pop) (streams : List (List Key))
    (hs : ∀ l ∈ streams, SortedK l) :
    ∃ out, Wrap.setOp pop .symmetricDifference streams = some out ∧ SortedK out ∧
      ∀ k, k ∈ out ↔ (streams.filter (k ∈ ·)).length % 2 = 1 :=
  Wrap.setSymDiff_correct pop hp streams hs

theorem C05_set_diff (pop : PopFn) (hp : PopSpec pop) (first : List Key) (rest : List (List Key))
    (hs : ∀ l ∈ first :: rest, SortedK l) :
    ∃ out, Wrap.setOp pop .difference (first :: rest) = some out ∧ SortedK out ∧
      ∀ k, k ∈ out ↔ k ∈ first ∧ ∀ l ∈ rest, k ∉ l :=
  Wrap.setDiff_correct pop hp first rest hs

theorem C05_set_predicates (pop : PopFn) (hp : PopSpec pop) (a b : List Key) (ha : SortedK a) (hb : SortedK b) :
    (Wrap.setIsDisjoint pop a b = true ↔ ∀ k, ¬ (k ∈ a ∧ k ∈ b)) ∧
    (Wrap.setIsSubset pop a b = true ↔ ∀ k ∈ a, k ∈ b) ∧
    (Wrap.setIsSuperset pop a b = true ↔ ∀ k ∈ b, k ∈ a) :=
  ⟨Wrap.setIsDisjoint_iff pop hp a b ha hb, Wrap.setIsSubset_iff pop hp a b ha hb,
   Wrap.setIsSuperset_iff pop hp a b ha hb⟩

/-- `map::OpBuilder` is the raw operation on the same streams -/
theorem C05_map_op (pop : PopFn) (kind : OpKind) (streams : List KV) :
    Wrap.mapOp pop kind streams = opCollect pop kind streams := Wrap.mapOp_eq pop kind streams

end Fst.Props
