import FstVerif.Model.Ops
/-
C05 — set operations. (The four operation theorems for every admissible
tie-break are assembled from Proofs/Ops.lean; here: facts about the driver's
`popMin` and the empty cases.)
-/
namespace Fst

/-- `popMin` fails exactly on the empty heap -/
theorem C05_popMin_none (h : List Slot) : popMin h = none ↔ h = [] := by
  cases h with
  | nil => simp [popMin]
  | cons s rest =>
    simp only [popMin]
    cases popMin rest with
    | none => simp
    | some p => obtain ⟨m, r⟩ := p; simp only []; split <;> simp

/-- `popMin` returns an element of the heap and keeps the number of the others -/
theorem C05_popMin_length : ∀ (h : List Slot) (s : Slot) (rest : List Slot),
    popMin h = some (s, rest) → rest.length + 1 = h.length ∧ s ∈ h := by
  intro h
  induction h with
  | nil => intro s rest hp; simp [popMin] at hp
  | cons x xs ih =>
    intro s rest hp
    simp only [popMin] at hp
    cases hx : popMin xs with
    | none =>
      rw [hx] at hp
      simp only [Option.some.injEq, Prod.mk.injEq] at hp
      obtain ⟨rfl, rfl⟩ := hp
      have : xs = [] := (C05_popMin_none xs).mp hx
      subst this; simp
    | some p =>
      obtain ⟨m, r⟩ := p
      rw [hx] at hp
      obtain ⟨hl, hm⟩ := ih m r hx
      simp only [] at hp
      split at hp
      · simp only [Option.some.injEq, Prod.mk.injEq] at hp
        obtain ⟨rfl, rfl⟩ := hp
        exact ⟨by simp; omega, by simp [hm]⟩
      · simp only [Option.some.injEq, Prod.mk.injEq] at hp
        obtain ⟨rfl, rfl⟩ := hp
        exact ⟨rfl, by simp⟩

/-- no streams: every operation over zero streams except `difference` (which
needs a first stream) is empty -/
theorem C05_no_streams :
    opCollect popMin .union [] = some [] ∧ opCollect popMin .intersection [] = some [] ∧
    opCollect popMin .symmetricDifference [] = some [] ∧ opCollect popMin .difference [] = none := by
  decide

example : opCollect popMin .union [[([1], 5)], [([1], 7), ([2], 0)]] =
    some [([1], [⟨0, 5⟩, ⟨1, 7⟩]), ([2], [⟨1, 0⟩])] := by decide

end Fst
