import FstVerif.Proofs.Aut
/-
C18 — built-in automata and combinators match their specifications, and the
pruning hints are sound for any component automata whose hints are sound.
Statements here; proofs in Proofs/Aut.lean. Everything is for arbitrary
component automata over arbitrary state types: no bound on sizes, strings or
nesting depth. `HintsSound A` = for every state, `can_match` false ⇒ no
continuation matches, and `will_always_match` true ⇒ every continuation matches.
-/
namespace Fst.Props
open Fst
variable {σ τ : Type}

/-- Str accepts exactly its string -/
theorem C18_str (s w : Key) : (autStr s).accepts w = true ↔ w = s := Fst.C18_str s w
/-- Subsequence accepts exactly the byte strings containing its pattern as a subsequence -/
theorem C18_subseq (s w : Key) : (autSubseq s).accepts w = isSubseq s w := Fst.C18_subseq s w
/-- AlwaysMatch accepts everything -/
theorem C18_always (w : Key) : autAlways.accepts w = true := Fst.C18_always w
/-- StartsWith(A) accepts exactly the strings having a prefix (possibly empty, possibly all) accepted by A -/
theorem C18_startswith (A : Aut σ) (w : Key) :
    (autStartsWith A).accepts w = somePrefix A A.start w := Fst.C18_startswith A w
/-- Union / Intersection / Complement are the Boolean combinations -/
theorem C18_union (A : Aut σ) (B : Aut τ) (w : Key) :
    (autUnion A B).accepts w = (A.accepts w || B.accepts w) := Fst.C18_union A B w
theorem C18_inter (A : Aut σ) (B : Aut τ) (w : Key) :
    (autInter A B).accepts w = (A.accepts w && B.accepts w) := Fst.C18_inter A B w
theorem C18_compl (A : Aut σ) (w : Key) : (autCompl A).accepts w = !A.accepts w := Fst.C18_compl A w

/-- hint soundness: the leaves … -/
theorem C18_hints_str (s : Key) : HintsSound (autStr s) := Fst.C18_hints_str s
theorem C18_hints_subseq (s : Key) : HintsSound (autSubseq s) := Fst.C18_hints_subseq s
theorem C18_hints_always : HintsSound autAlways := Fst.C18_hints_always
/-- … and closure under every combinator, for any components whose own hints are sound -/
theorem C18_hints_startswith (A : Aut σ) (hA : HintsSound A) : HintsSound (autStartsWith A) :=
  Fst.C18_hints_startswith A hA
theorem C18_hints_union (A : Aut σ) (B : Aut τ) (hA : HintsSound A) (hB : HintsSound B) :
    HintsSound (autUnion A B) := Fst.C18_hints_union A B hA hB
theorem C18_hints_inter (A : Aut σ) (B : Aut τ) (hA : HintsSound A) (hB : HintsSound B) :
    HintsSound (autInter A B) := Fst.C18_hints_inter A B hA hB
theorem C18_hints_compl (A : Aut σ) (hA : HintsSound A) : HintsSound (autCompl A) :=
  Fst.C18_hints_compl A hA

/-- the hypotheses are satisfiable: a concrete composed automaton with sound hints -/
example : HintsSound (autUnion (autStr [97, 98]) (autCompl (autStartsWith (autSubseq [97])))) :=
  C18_hints_union _ _ (C18_hints_str _) (C18_hints_compl _ (C18_hints_startswith _ (C18_hints_subseq _)))

end Fst.Props
