import FstVerif.Model.Stream
import FstVerif.Props.C18
/-
C04 — automaton search. (`C04_search` is assembled from Proofs/Stream.lean.)
Here: the automaton contract and the fact that the shipped automata meet it.
-/
namespace Fst

/-- the contract of the property: no end-of-key hook, `can_match` never false
while a match is still reachable -/
structure Contract {σ : Type} (A : Aut σ) : Prop where
  noEof : ∀ s, A.acceptEof s = none
  canSound : ∀ s, A.canMatch s = false → ∀ w, A.isMatch (A.run s w) = false

theorem C04_contract_of_hints {σ : Type} (A : Aut σ) (h : HintsSound A) (he : ∀ s, A.acceptEof s = none) :
    Contract A := ⟨he, h.1⟩

theorem C04_always_contract : Contract autAlways := ⟨fun _ => rfl, C18_hints_always.1⟩
theorem C04_str_contract (s : Key) : Contract (autStr s) := ⟨fun _ => rfl, (C18_hints_str s).1⟩
theorem C04_subseq_contract (s : Key) : Contract (autSubseq s) := ⟨fun _ => rfl, (C18_hints_subseq s).1⟩

/-- the contract is closed under the combinators -/
theorem C04_union_contract {σ τ : Type} (A : Aut σ) (B : Aut τ) (hA : HintsSound A) (hB : HintsSound B) :
    Contract (autUnion A B) := ⟨fun _ => rfl, (C18_hints_union A B hA hB).1⟩

end Fst
