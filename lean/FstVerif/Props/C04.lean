import FstVerif.Proofs.Seek
import FstVerif.Proofs.Wrappers
import FstVerif.Proofs.EndToEnd
import FstVerif.Proofs.Aut
import FstVerif.Proofs.EofLift
import FstVerif.Proofs.EofWrap
import FstVerif.Proofs.EofFused
/-
C04 — automaton search. Statements here; proofs in Proofs/Stream.lean and
Proofs/Seek.lean. The automaton is a universally quantified variable
constrained only by the contract of the property.
-/
namespace Fst.Props
open Fst
variable {N σ : Type} {s : Store} {den : Nat → KV} {acc : NodeAccess N}

/-- the contract: no end-of-key hook, `can_match` never false while a match is still reachable -/
structure Contract (A : Aut σ) : Prop where
  noEof : ∀ x, A.acceptEof x = none
  canSound : ∀ x, A.canMatch x = false → ∀ w, A.isMatch (A.run x w) = false

/-- for every contract-abiding automaton and every bounds: exactly the in-range
accepted keys, ascending, with their values and with the automaton state reached
after each key (`search_with_state`); no panic; the stream ends -/
theorem C04_search (A : Aut σ) (hA : Contract A) (hg : GoodStore s den) (hr : Represents acc s)
    (root : Nat) (hroot : root = 0 ∨ ∃ n, (root, n) ∈ s) (min max : Bound) :
    ∃ s0, streamNew acc A root min max = some s0 ∧
    ∃ N, ∀ fuel, N ≤ fuel →
      streamCollect acc A root fuel s0 [] =
        some (((den root).filter fun kv => lowerOK min kv.1 && upperOK max kv.1 && A.accepts kv.1).map
                fun kv => (kv.1, kv.2, A.run A.start kv.1)) :=
  stream_correct hg hr root hroot hA.noEof hA.canSound min max

/-- END TO END, on the bytes of the file a builder writes: every contract-abiding automaton,
every bounds, every sorted map, every cache geometry -/
theorem C04_file (rows cols ty : Nat) (hty : ty < 2^64) (kvs : KV) (hs : SortedKV kvs)
    (hv : ∀ kv ∈ kvs, kv.2 < 2^64) (hn : kvs.length < 2^64) :
    ∃ s bytes, insertAll (BState.new rows cols) kvs = .ok s ∧ s.fileBytes ty = .ok bytes ∧
      (bytes.length < 2^64 →
        ∃ m, fstNew (Src.ofList bytes) = .ok m ∧
          ∀ {σ : Type} (A : Aut σ), (∀ x, A.acceptEof x = none) →
            (∀ x, A.canMatch x = false → ∀ w, A.isMatch (A.run x w) = false) →
            ∀ (min max : Bound),
            ∃ s0, streamNew (byteAccess 3 (Src.ofList bytes)) A m.rootAddr min max = some s0 ∧
            ∃ N, ∀ fuel, N ≤ fuel →
              streamCollect (byteAccess 3 (Src.ofList bytes)) A m.rootAddr fuel s0 [] =
                some ((kvs.filter fun kv =>
                        lowerOK min kv.1 && upperOK max kv.1 && A.accepts kv.1).map
                      fun kv => (kv.1, kv.2, A.run A.start kv.1))) :=
  E2E.e2e_search rows cols ty hty kvs hs hv hn

/-! ### automata that override `accept_eof` (the hook `next_with` consults at the end of a non-empty key)

`C04_search` assumes `noEof`. The theorems below drop that assumption: for an ARBITRARY
automaton the stream yields the in-range keys accepted in the sense of `Aut.acceptsEof`
(the hook's state decides for a non-empty key when the hook fires; the empty key never consults
it — exactly what `StreamWithState::next_with` does), with the state reached BEFORE the hook.
Proof: simulation with the hook-free automaton `eofLift A` over `σ × Bool` (Proofs/EofLift.lean). -/

/-- the contract for an automaton with a hook: `can_match = false` rules out every later match,
with or without the hook -/
structure ContractEof (A : Aut σ) : Prop where
  canSound : ∀ x, A.canMatch x = false →
    ∀ w, A.isMatch (A.run x w) = false ∧ A.eofMatch (A.run x w) = false

theorem C04_search_eof (A : Aut σ) (hA : ContractEof A) (hg : GoodStore s den) (hr : Represents acc s)
    (root : Nat) (hroot : root = 0 ∨ ∃ n, (root, n) ∈ s) (min max : Bound) :
    ∃ s0, streamNew acc A root min max = some s0 ∧
    ∃ N, ∀ fuel, N ≤ fuel →
      streamCollect acc A root fuel s0 [] =
        some (((den root).filter fun kv => lowerOK min kv.1 && upperOK max kv.1 && A.acceptsEof kv.1).map
                fun kv => (kv.1, kv.2, A.run A.start kv.1)) :=
  stream_correct_eof hg hr root hroot hA.canSound min max

/-- the same through repeated `next` calls on ONE stream object, and afterwards the stream stays
done: `next` keeps returning `None` for ever (hooked automaton) -/
theorem C04_drain_then_done_eof (A : Aut σ) (hA : ContractEof A) (hg : GoodStore s den)
    (hr : Represents acc s) (root : Nat) (hroot : root = 0 ∨ ∃ n, (root, n) ∈ s) (min max : Bound) :
    ∃ s0, streamNew acc A root min max = some s0 ∧
    ∃ N, ∀ fuel, N ≤ fuel → ∃ sEnd,
      streamDrain acc A root fuel s0 [] =
        some (((den root).filter fun kv =>
                lowerOK min kv.1 && upperOK max kv.1 && A.acceptsEof kv.1).map
                fun kv => (kv.1, kv.2, A.run A.start kv.1), sEnd) ∧
      ∀ fuel', streamNext acc A root (fuel' + 1) sEnd = some (none, sEnd) :=
  stream_correct_fused_eof hg hr root hroot hA.canSound min max

/-- without a hook the two notions of acceptance coincide, and `Contract` gives `ContractEof`:
`C04_search_eof` specialises to `C04_search` -/
theorem C04_eof_conservative (A : Aut σ) (hA : Contract A) :
    A.acceptsEof = A.accepts ∧ ContractEof A := by
  refine ⟨stream_correct_eof_conservative A hA.noEof, ⟨fun x hx w => ?_⟩⟩
  have h := hA.canSound x hx w
  refine ⟨h, ?_⟩
  unfold Aut.eofMatch
  rw [hA.noEof]
  exact h

/-- one step of the real loop with a hooked automaton IS one step with the hook-free lifting
(no invariant, every state): the simulation on which `C04_search_eof` rests -/
theorem C04_eof_step (A : Aut σ) (root : Nat) (s' : SState N (σ × Bool)) :
    streamStep acc A root (projS s') = projRes (streamStep acc (eofLift A) root s') :=
  streamStep_proj acc A root s'

/-- END TO END with a hook, on the bytes of the file a builder writes -/
theorem C04_file_eof (rows cols ty : Nat) (hty : ty < 2^64) (kvs : KV) (hs : SortedKV kvs)
    (hv : ∀ kv ∈ kvs, kv.2 < 2^64) (hn : kvs.length < 2^64) :
    ∃ s bytes, insertAll (BState.new rows cols) kvs = .ok s ∧ s.fileBytes ty = .ok bytes ∧
      (bytes.length < 2^64 →
        ∃ m, fstNew (Src.ofList bytes) = .ok m ∧
          ∀ {σ : Type} (A : Aut σ), ContractEof A → ∀ (min max : Bound),
            ∃ s0, streamNew (byteAccess 3 (Src.ofList bytes)) A m.rootAddr min max = some s0 ∧
            ∃ N, ∀ fuel, N ≤ fuel →
              streamCollect (byteAccess 3 (Src.ofList bytes)) A m.rootAddr fuel s0 [] =
                some ((kvs.filter fun kv =>
                        lowerOK min kv.1 && upperOK max kv.1 && A.acceptsEof kv.1).map
                      fun kv => (kv.1, kv.2, A.run A.start kv.1))) := by
  obtain ⟨s, bytes, e1, e2, h⟩ := C04_file rows cols ty hty kvs hs hv hn
  refine ⟨s, bytes, e1, e2, fun hsz => ?_⟩
  obtain ⟨m, hm, hall⟩ := h hsz
  refine ⟨m, hm, fun {σ} A hA min max => ?_⟩
  exact eof_transport (hall (eofLift A) (fun _ => rfl) (eofLift_canSound A hA.canSound) min max)

/-- the crate's combinators do NOT forward the hook (`Union`, `Intersection`, `Complement`,
`StartsWith` keep the trait's default `accept_eof`): a hooked automaton inside a combinator is
searched by its plain language (`C04_search` applies). Observed on the real crate by the
`co(dfe:…)` / `un(dfe:…,…)` cases of the correspondence. -/
theorem C04_combinators_drop_hook {τ : Type} (A : Aut σ) (B : Aut τ) :
    (∀ x, (autUnion A B).acceptEof x = none) ∧ (∀ x, (autInter A B).acceptEof x = none) ∧
    (∀ x, (autCompl A).acceptEof x = none) ∧ (∀ x, (autStartsWith A).acceptEof x = none) :=
  ⟨fun _ => rfl, fun _ => rfl, fun _ => rfl, fun _ => rfl⟩

/-- non-vacuity: an automaton with a hook AND a pruning state meets `ContractEof`, and the hook
changes what is accepted -/
def hookPrune : Aut Nat where
  start := 0
  isMatch := fun x => x == 7
  canMatch := fun x => x != 9
  willAlwaysMatch := fun _ => false
  accept := fun x b => if x == 9 then 9 else if b == 0 then 9 else if x < 3 then x + 1 else x
  acceptEof := fun x => if x == 2 then some 7 else none

theorem hookPrune_run9 (w : Key) : hookPrune.run 9 w = 9 := by
  induction w with
  | nil => rfl
  | cons b w ih => simpa [Aut.run, hookPrune] using ih

example : ContractEof hookPrune := by
  refine ⟨fun x hx w => ?_⟩
  have hx9 : x = 9 := by simpa [hookPrune] using hx
  subst hx9
  rw [hookPrune_run9]
  decide
example : hookPrune.acceptsEof [1, 2] = true ∧ hookPrune.accepts [1, 2] = false ∧
    hookPrune.acceptsEof [1, 0, 2] = false := by decide

/-- it suffices that the hint is sound on states reachable from the start state -/
theorem C04_search_reachable (A : Aut σ) (hEof : ∀ x, A.acceptEof x = none)
    (hCan : ∀ p, A.canMatch (A.run A.start p) = false → ∀ w, A.isMatch (A.run (A.run A.start p) w) = false)
    (hg : GoodStore s den) (hr : Represents acc s)
    (root : Nat) (hroot : root = 0 ∨ ∃ n, (root, n) ∈ s) (min max : Bound) :
    ∃ s0, streamNew acc A root min max = some s0 ∧
    ∃ N, ∀ fuel, N ≤ fuel →
      streamCollect acc A root fuel s0 [] =
        some (((den root).filter fun kv => lowerOK min kv.1 && upperOK max kv.1 && A.accepts kv.1).map
                fun kv => (kv.1, kv.2, A.run A.start kv.1)) :=
  stream_correct_reach hg hr root hroot hEof hCan min max

/-- the result does not depend on how precise the pruning hints are -/
theorem C04_hint_independent (A B : Aut σ) (hA : Contract A) (hB : Contract B)
    (hstart : A.start = B.start) (hmatch : A.isMatch = B.isMatch) (haccept : A.accept = B.accept)
    (hg : GoodStore s den) (hr : Represents acc s)
    (root : Nat) (hroot : root = 0 ∨ ∃ n, (root, n) ∈ s) (min max : Bound) :
    ∃ sA sB, streamNew acc A root min max = some sA ∧ streamNew acc B root min max = some sB ∧
    ∃ N, ∀ fuel, N ≤ fuel →
      streamCollect acc A root fuel sA [] = streamCollect acc B root fuel sB [] ∧
      (streamCollect acc A root fuel sA []).isSome = true :=
  stream_hint_independent hg hr root hroot hstart hmatch haccept hA.noEof hA.canSound hB.noEof hB.canSound min max

/-- the shipped automata meet the contract, and the contract is closed under the combinators -/
theorem C04_contract_of_hints (A : Aut σ) (h : HintsSound A) (he : ∀ x, A.acceptEof x = none) : Contract A :=
  ⟨he, h.1⟩
theorem C04_always_contract : Contract autAlways := ⟨fun _ => rfl, C18_hints_always.1⟩
theorem C04_str_contract (k : Key) : Contract (autStr k) := ⟨fun _ => rfl, (C18_hints_str k).1⟩
theorem C04_subseq_contract (k : Key) : Contract (autSubseq k) := ⟨fun _ => rfl, (C18_hints_subseq k).1⟩
theorem C04_union_contract {τ : Type} (A : Aut σ) (B : Aut τ) (hA : HintsSound A) (hB : HintsSound B) :
    Contract (autUnion A B) := ⟨fun _ => rfl, (C18_hints_union A B hA hB).1⟩
theorem C04_inter_contract {τ : Type} (A : Aut σ) (B : Aut τ) (hA : HintsSound A) (hB : HintsSound B) :
    Contract (autInter A B) := ⟨fun _ => rfl, (C18_hints_inter A B hA hB).1⟩
theorem C04_compl_contract (A : Aut σ) (hA : HintsSound A) :
    Contract (autCompl A) := ⟨fun _ => rfl, (C18_hints_compl A hA).1⟩
theorem C04_startswith_contract (A : Aut σ) (hA : HintsSound A) :
    Contract (autStartsWith A) := ⟨fun _ => rfl, (C18_hints_startswith A hA).1⟩


/-! ### the wrapper layer a user calls (src/map.rs, src/set.rs; Model/Wrappers.lean) -/

/-- `map.search(aut).ge/gt/le/lt(..)…into_stream()` -/
theorem C04_map_search {A : Aut σ} (hg : GoodStore s den) (hr : Represents acc s) (root : Nat)
    (hroot : root = 0 ∨ ∃ n, (root, n) ∈ s) (hA : Contract A) (rs : RangeSpec) :
    ∃ N, ∀ fuel, N ≤ fuel → Wrap.mapSearch acc A root rs fuel =
      some ((den root).filter fun kv => lowerOK rs.min kv.1 && upperOK rs.max kv.1 && A.accepts kv.1) :=
  Wrap.mapSearch_correct hg hr root hroot hA.1 hA.2 rs

/-- `map.search_with_state(aut)…`: each entry with the automaton state reached after its key -/
theorem C04_map_search_with_state {A : Aut σ} (hg : GoodStore s den) (hr : Represents acc s) (root : Nat)
    (hroot : root = 0 ∨ ∃ n, (root, n) ∈ s) (hA : Contract A) (rs : RangeSpec) :
    ∃ N, ∀ fuel, N ≤ fuel → Wrap.mapSearchWithState acc A root rs fuel =
      some (((den root).filter fun kv => lowerOK rs.min kv.1 && upperOK rs.max kv.1 && A.accepts kv.1).map
        fun kv => (kv.1, kv.2, A.run A.start kv.1)) :=
  Wrap.mapSearchWithState_correct hg hr root hroot hA.1 hA.2 rs

/-- `set.search(aut)…` -/
theorem C04_set_search {A : Aut σ} (hg : GoodStore s den) (hr : Represents acc s) (root : Nat)
    (hroot : root = 0 ∨ ∃ n, (root, n) ∈ s) (hA : Contract A) (rs : RangeSpec) :
    ∃ N, ∀ fuel, N ≤ fuel → Wrap.setSearch acc A root rs fuel =
      some (((den root).filter fun kv => lowerOK rs.min kv.1 && upperOK rs.max kv.1 && A.accepts kv.1).map (·.1)) :=
  Wrap.setSearch_correct hg hr root hroot hA.1 hA.2 rs

/-- `set.search_with_state(aut)…` -/
theorem C04_set_search_with_state {A : Aut σ} (hg : GoodStore s den) (hr : Represents acc s) (root : Nat)
    (hroot : root = 0 ∨ ∃ n, (root, n) ∈ s) (hA : Contract A) (rs : RangeSpec) :
    ∃ N, ∀ fuel, N ≤ fuel → Wrap.setSearchWithState acc A root rs fuel =
      some (((den root).filter fun kv => lowerOK rs.min kv.1 && upperOK rs.max kv.1 && A.accepts kv.1).map
        fun kv => (kv.1, A.run A.start kv.1)) :=
  Wrap.setSearchWithState_correct hg hr root hroot hA.1 hA.2 rs


/-- the four user-facing searches with a HOOKED automaton (`Map/Set::search(_with_state)` + setters) -/
theorem C04_wrappers_eof {A : Aut σ} (hg : GoodStore s den) (hr : Represents acc s) (root : Nat)
    (hroot : root = 0 ∨ ∃ n, (root, n) ∈ s) (hA : ContractEof A) (rs : RangeSpec) :
    let F := (den root).filter fun kv => lowerOK rs.min kv.1 && upperOK rs.max kv.1 && A.acceptsEof kv.1
    (∃ N, ∀ fuel, N ≤ fuel → Wrap.mapSearch acc A root rs fuel = some F) ∧
    (∃ N, ∀ fuel, N ≤ fuel → Wrap.mapSearchWithState acc A root rs fuel =
        some (F.map fun kv => (kv.1, kv.2, A.run A.start kv.1))) ∧
    (∃ N, ∀ fuel, N ≤ fuel → Wrap.setSearch acc A root rs fuel = some (F.map (·.1))) ∧
    (∃ N, ∀ fuel, N ≤ fuel → Wrap.setSearchWithState acc A root rs fuel =
        some (F.map fun kv => (kv.1, A.run A.start kv.1))) :=
  ⟨Wrap.mapSearch_correct_eof hg hr root hroot hA.canSound rs,
   Wrap.mapSearchWithState_correct_eof hg hr root hroot hA.canSound rs,
   Wrap.setSearch_correct_eof hg hr root hroot hA.canSound rs,
   Wrap.setSearchWithState_correct_eof hg hr root hroot hA.canSound rs⟩

/-- END TO END at the wrapper level: `Map::search(aut)` / `Map::search_with_state(aut)` with any
setters, over the BYTES of the file a map builder writes, for every contract-abiding automaton -/
theorem C04_map_search_file (rows cols ty : Nat) (hty : ty < 2^64) (kvs : KV) (hs : SortedKV kvs)
    (hv : ∀ kv ∈ kvs, kv.2 < 2^64) (hn : kvs.length < 2^64) :
    ∃ s bytes, insertAll (BState.new rows cols) kvs = .ok s ∧ s.fileBytes ty = .ok bytes ∧
      (bytes.length < 2^64 →
        ∃ m, fstNew (Src.ofList bytes) = .ok m ∧
          ∀ {σ : Type} (A : Aut σ), Contract A → ∀ rs : RangeSpec, ∃ N, ∀ fuel, N ≤ fuel →
            Wrap.mapSearch (byteAccess 3 (Src.ofList bytes)) A m.rootAddr rs fuel =
              some (kvs.filter fun kv => lowerOK rs.min kv.1 && upperOK rs.max kv.1 && A.accepts kv.1) ∧
            Wrap.mapSearchWithState (byteAccess 3 (Src.ofList bytes)) A m.rootAddr rs fuel =
              some ((kvs.filter fun kv => lowerOK rs.min kv.1 && upperOK rs.max kv.1 && A.accepts kv.1).map
                fun kv => (kv.1, kv.2, A.run A.start kv.1))) := by
  obtain ⟨s, bytes, e1, e2, h⟩ := C04_file rows cols ty hty kvs hs hv hn
  refine ⟨s, bytes, e1, e2, fun hsz => ?_⟩
  obtain ⟨m, hm, hall⟩ := h hsz
  refine ⟨m, hm, fun A hA rs => ?_⟩
  obtain ⟨s0, h0, N, hN⟩ := hall A hA.noEof hA.canSound rs.min rs.max
  refine ⟨N, fun fuel hf => ?_⟩
  have hq : Wrap.rawQuery (byteAccess 3 (Src.ofList bytes)) A m.rootAddr rs fuel =
      some ((kvs.filter fun kv => lowerOK rs.min kv.1 && upperOK rs.max kv.1 && A.accepts kv.1).map
        fun kv => (kv.1, kv.2, A.run A.start kv.1)) := by
    simp only [Wrap.rawQuery, h0, hN fuel hf]
  constructor
  · simp only [Wrap.mapSearch, hq, Option.map_some, Wrap.mapStream_eq]
    exact congrArg some (Wrap.rawStream_triples _ (fun k => A.run A.start k))
  · simp only [Wrap.mapSearchWithState, hq, Option.map_some, Wrap.mapStreamWithState_eq]

end Fst.Props
