import FstVerif.Proofs.Sink
import FstVerif.Proofs.Glue
/-
C11 — I/O failures surface as errors, never as panics or silent success.
Statements here; proofs in Proofs/Sink.lean. A failing response is `take 0`
(Ok(0)) or `fail k` (any error other than Interrupted).
-/
namespace Fst.Props
open Fst Fst.SinkProofs

/-- if the sink served a failing response during an `insert`/`add` (for any
script before it, incl. short writes and Interrupted), that call returns Err(Io) -/
theorem C11_fault_call (x : IOB) (r : Except BErr BState) (used : List Resp)
    (hu : x.cw.sink.script = used ++ (x.step r).1.cw.sink.script)
    (bad : Resp) (hmem : bad ∈ used) (hbad : Bad bad) :
    ∃ e, (x.step r).2 = .error (.io e) := C11_fault_step x r used hu bad hmem hbad

/-- the same for `finish`/`into_inner` -/
theorem C11_fault_finish (x : IOB) (used : List Resp)
    (hu : x.cw.sink.script = used ++ x.intoInner.1.script)
    (bad : Resp) (hmem : bad ∈ used) (hbad : Bad bad) :
    ∃ e, x.intoInner.2 = .error (.io e) := C11_fault_intoInner x used hu bad hmem hbad

/-- the error reported is the first failure; everything served before it was benign -/
theorem C11_first_fault (c : CW) (chunks : List (List UInt8)) (e : IoErr)
    (h : (c.writeChunks chunks).2 = .error e) :
    ∃ good bad, c.sink.script = good ++ bad :: (c.writeChunks chunks).1.sink.script ∧
      Benign good ∧ Bad bad ∧ e = errOf bad := C11_fault_kind c chunks e h

/-- no build is reported as finished unless every byte was accepted and the flush succeeded -/
theorem C11_finish_ok_only_if (x : IOB) (s : Sink) (h : x.intoInner = (s, .ok ())) :
    ∃ used b' root, x.cw.sink.script = used ++ s.script ∧ Benign used ∧
      s.flushFails = none ∧ x.b.finish = .ok (b', root) ∧
      (ChunkLaw → s.held = x.cw.sink.held ++ (tailBytes x b' root).toArray) :=
  Fst.SinkProofs.C11_finish_ok_only_if x s h

/-- the model has no panic outcome on the I/O path: a step's result is ok, an
ordering error of the pure builder, or Err(Io) -/
theorem C11_step_outcomes (x : IOB) (r : Except BErr BState) :
    (x.step r).2 = .ok () ∨ (∃ e, (x.step r).2 = .error (.fst e)) ∨ (∃ e, (x.step r).2 = .error (.io e)) := by
  cases r with
  | error e => exact Or.inr (Or.inl ⟨e, rfl⟩)
  | ok b' =>
    simp only [IOB.step]
    cases h : x.cw.writeChunks (newChunks x.b b') with
    | mk cw res =>
      cases res with
      | ok u => cases u; exact Or.inl rfl
      | error e => exact Or.inr (Or.inr ⟨e, rfl⟩)


/-! ### batch entry points over a failing sink (`extend_iter` / `extend_stream`; Model/Glue.lean) -/

/-- if ANY response the sink served during a batch call is a failing one, the batch returns
Err(Io) — and (`C11_batch_stops`) nothing is called after the failing call -/
theorem C11_batch_fault (x : IOB) (calls : List BCall) (used : List Resp)
    (hu : x.cw.sink.script = used ++ (x.extend calls).1.cw.sink.script)
    (bad : Resp) (hmem : bad ∈ used) (hbad : Bad bad) :
    ∃ e, (x.extend calls).2 = .error (.io e) := Glue.extend_io_fault x calls used hu bad hmem hbad

theorem C11_batch_stops (x : IOB) (calls : List BCall) (e : CallErr) (h : (x.extend calls).2 = .error e) :
    ∃ pre c post x1, calls = pre ++ c :: post ∧ Glue.OkRun x pre x1 ∧ (x1.call c).2 = .error e ∧
      (x.extend calls).1 = (x1.call c).1 := (Glue.extend_spec x calls).2.2 e h

/-- the error a batch reports is the sink's own first failure (kind preserved: `errOf`) -/
theorem C11_batch_first_fault (x : IOB) (calls : List BCall) (e : IoErr)
    (h : (x.extend calls).2 = .error (.io e)) :
    ∃ good bad, x.cw.sink.script = good ++ bad :: (x.extend calls).1.cw.sink.script ∧
      Benign good ∧ Bad bad ∧ e = errOf bad := Glue.extend_first_fault x calls e h

theorem C11_batch_outcomes (x : IOB) (calls : List BCall) :
    (x.extend calls).2 = .ok () ∨ (∃ e, (x.extend calls).2 = .error (.fst e)) ∨
      (∃ e, (x.extend calls).2 = .error (.io e)) := Glue.extend_outcomes x calls

end Fst.Props
