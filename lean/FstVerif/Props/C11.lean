import FstVerif.Model.Sink
/-
C11 — I/O failures surface as errors. (`C11_fault` over whole call histories is
assembled from Proofs/Sink.lean; here: the `write_all` step facts.)
-/
namespace Fst

/-- a zero-length write makes `write_all` fail with WriteZero -/
theorem C11_write_zero {W : Type} (write : W → List UInt8 → W × Except IoErr Nat)
    (fuel : Nat) (w w' : W) (b : UInt8) (bs : List UInt8) (h : write w (b :: bs) = (w', .ok 0)) :
    writeAllWith write (fuel + 1) w (b :: bs) = some (w', .error .writeZero) := by
  simp [writeAllWith, h]

/-- an error other than Interrupted is returned at once -/
theorem C11_write_error {W : Type} (write : W → List UInt8 → W × Except IoErr Nat)
    (fuel : Nat) (w w' : W) (b : UInt8) (bs : List UInt8) (k : Nat)
    (h : write w (b :: bs) = (w', .error (.other (k + 1)))) :
    writeAllWith write (fuel + 1) w (b :: bs) = some (w', .error (.other (k + 1))) := by
  simp [writeAllWith, h]

/-- the first failing buffer stops the sequence: later buffers are not written -/
theorem C11_chunks_stop (c c' : CW) (b : List UInt8) (bs : List (List UInt8)) (e : IoErr)
    (h : c.writeAll b = (c', .error e)) : c.writeChunks (b :: bs) = (c', .error e) := by
  simp [CW.writeChunks, h]

/-- an I/O error during a step is reported as `Err(Io)` -/
theorem C11_step_io (x : IOB) (b' : BState) (cw : CW) (e : IoErr)
    (h : x.cw.writeChunks (newChunks x.b b') = (cw, .error e)) :
    (x.step (.ok b')).2 = .error (.io e) := by
  simp [IOB.step, h]

end Fst
