import FstVerif.Model.Sink
/-
C07 — sink independence. (`C07_bytes` for every benign script is assembled
from Proofs/Sink.lean; here: the one-call facts of the scripted sink and of
the counting writer.)
-/
namespace Fst

/-- one `write` call: what the call reports is what the sink's buffer grew by -/
theorem C07_sink_write_count (s : Sink) (buf : List UInt8) (n : Nat)
    (h : (s.write buf).2 = .ok n) :
    (s.write buf).1.held.size = s.held.size + n ∧ n ≤ buf.length := by
  unfold Sink.write at h ⊢
  cases hs : s.script with
  | nil =>
    simp only [hs] at h ⊢
    cases h; simp
  | cons r rest =>
    simp only [hs] at h ⊢
    cases r with
    | take k =>
      simp only [Except.ok.injEq] at h
      subst h
      simp
      omega
    | interrupted => simp at h
    | fail k => simp at h

/-- a failing `write` call leaves the sink's buffer unchanged -/
theorem C07_sink_write_err (s : Sink) (buf : List UInt8) (e : IoErr)
    (h : (s.write buf).2 = .error e) : (s.write buf).1.held = s.held := by
  unfold Sink.write at h ⊢
  cases hs : s.script with
  | nil => simp only [hs] at h; cases h
  | cons r rest =>
    simp only [hs] at h ⊢
    cases r with
    | take k => simp at h
    | interrupted => rfl
    | fail k => rfl

/-- the counting writer counts and checksums exactly the accepted prefix -/
theorem C07_cw_write (c : CW) (buf : List UInt8) (s' : Sink) (n : Nat)
    (h : c.sink.write buf = (s', .ok n)) :
    c.write buf = ({ sink := s', cnt := c.cnt + n, summer := c.summer.update (buf.take n) }, .ok n) := by
  simp [CW.write, h]

/-- a failed inner write changes neither the count nor the checksum -/
theorem C07_cw_write_err (c : CW) (buf : List UInt8) (s' : Sink) (e : IoErr)
    (h : c.sink.write buf = (s', .error e)) :
    (c.write buf).1.cnt = c.cnt ∧ (c.write buf).1.summer = c.summer := by
  simp [CW.write, h]

end Fst
