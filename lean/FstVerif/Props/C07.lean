import FstVerif.Proofs.Sink
import FstVerif.Proofs.Crc
/-
C07 — the bytes a sink ends up with do not depend on how it accepts writes.
Statements here; proofs in Proofs/Sink.lean (write_all over scripted sinks,
CountingWriter) with the chunking law of the checksum from Proofs/Crc.lean.
-/
namespace Fst.Props
open Fst Fst.SinkProofs

/-- the checksum's chunking law holds (Proofs/Crc.lean) -/
theorem C07_chunk_law : ChunkLaw := fun s a b => Fst.C08_chunking s a b

/-- for every benign script (each call accepts ≥ 1 byte or is Interrupted), every
prefill, every call sequence that the pure builder accepts: the builder over
that sink succeeds, and the sink holds prefill ++ the in-memory build's bytes -/
theorem C07_bytes (p : List UInt8) (script : List Resp) (hb : Benign script)
    (ty rows cols : Nat) (calls : List Call) (b : BState) (bytes : List UInt8)
    (hrun : BState.run (BState.new rows cols) calls = .ok b) (hfile : b.fileBytes ty = .ok bytes) :
    ∃ cw x0 x s, IOB.new (Sink.new p script) ty rows cols = (cw, .ok x0) ∧
      IOB.run x0 calls = some x ∧ x.b = b ∧ x.intoInner = (s, .ok ()) ∧
      s.held = (p ++ bytes).toArray :=
  Fst.SinkProofs.C07_bytes C07_chunk_law p script hb ty rows cols calls b bytes hrun hfile

/-- `bytes_written()` equals the number of bytes the sink has accepted, after any
sequence of calls (accepted, rejected or failed) over ANY script -/
theorem C07_count (prefill : Nat) (calls : List Call) (x : IOB) (h : CountInv prefill x.cw) :
    CountInv prefill (IOB.runAny x calls).cw := C07_count_runAny prefill calls x h

theorem C07_count_init (sink : Sink) (ty rows cols : Nat) :
    CountInv sink.held.size (IOB.new sink ty rows cols).1 := (C07_count_new sink ty rows cols).1

/-- `write_all` never runs out of the model's fuel -/
theorem C07_write_all_terminates (c : CW) (buf : List UInt8) :
    writeAllWith CW.write (fuelFor c.sink buf) c buf = some (c.writeAll buf) := writeAll_fuel c buf

end Fst.Props
