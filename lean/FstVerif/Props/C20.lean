import FstVerif.Proofs.Open
import FstVerif.Proofs.Glue
/-
C20 — opening and verifying untrusted bytes is total. Statements only; proofs
in Proofs/Open.lean. The "no unsafe" clause is a compiler audit run by ./check
(`-F unsafe_code` + lexical scan), not a theorem.
-/
namespace Fst.Props
open Fst Fst.OpenProofs

/-- for EVERY byte string, `Fst::new` returns Ok or Err: no slice it takes is out of bounds -/
theorem C20_open_total (bs : List UInt8) : ∀ tag, fstNew (Src.ofList bs) ≠ .panic tag :=
  OpenProofs.C20_open_total bs

/-- on anything that opens, `verify()` returns without panicking -/
theorem C20_verify_total (bs : List UInt8) (m : Meta) (hm : fstNew (Src.ofList bs) = .ok m) :
    ∀ tag, fstVerify m (Src.ofList bs) ≠ .panic tag := OpenProofs.C20_verify_total bs m hm

/-- what `verify()` computes: the masked CRC-32C of everything but the last four bytes -/
theorem C20_verify_outcome (bs : List UInt8) (m : Meta) (hm : fstNew (Src.ofList bs) = .ok m) :
    fstVerify m (Src.ofList bs) =
      match m.checksum with
      | none => .err .checksumMissing
      | some expected =>
        let got := (maskedSum (crc32cSlice16 0 (bs.take (bs.length - 4)))).toNat
        if expected = got then .ok () else .err (.checksumMismatch expected got) :=
  OpenProofs.verify_eq bs m hm

/-- the metadata accessors are field reads of the `Meta` record returned by a successful open: total -/
theorem C20_short_is_error (bs : List UInt8) (h : bs.length < 32) :
    fstNew (Src.ofList bs) = .err (.format bs.length) := OpenProofs.C10_short bs h


/-! ### `map_data` (Fst / Map / Set): the closure's bytes are opened afresh -/

theorem C20_map_data_total (f : Src → Src) (d : Src) (bs : List UInt8) (h : f d = Src.ofList bs) :
    ∀ tag, mapData f d ≠ .panic tag := Glue.mapData_total f d bs h

/-- nothing of the old bytes' header survives -/
theorem C20_map_data_forgets (b d d' : Src) : mapData (fun _ => b) d = mapData (fun _ => b) d' :=
  Glue.mapData_forgets b d d'

end Fst.Props
