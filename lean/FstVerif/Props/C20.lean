import FstVerif.Model.Reader
/-
C20 — opening untrusted bytes. (The totality theorems `C20_open_total`,
`C20_verify_total` are in Proofs/Open.lean once delivered; the "no unsafe"
clause is a compiler audit run by ./check, not a theorem.)
-/
namespace Fst

theorem C20_short_is_error (d : Src) (h : d.size < 32) : fstNew d = .err (.format d.size) := by
  simp [fstNew, h]

/-- verify never reports success without a stored checksum -/
theorem C20_verify_needs_checksum (m : Meta) (d : Src) (h : fstVerify m d = .ok ()) : m.checksum.isSome := by
  cases hc : m.checksum with
  | none => simp [fstVerify, hc] at h
  | some c => rfl

end Fst
