import FstVerif.Model.Reader
/-
C16 — get_key. (`C16_get_key` for monotone maps is assembled from
Proofs/Lookup.lean and Proofs/Build.lean; here: the termination test of the
loop, which is where the empty key is decided.)
-/
namespace Fst
variable {N : Type}

/-- the loop stops with `true`, appending nothing more, exactly when the node is
final and its final output equals the remaining value — in particular the empty
key is found at the root when its value is asked for -/
theorem C16_stop (acc : NodeAccess N) (fuel : Nat) (n : N) (value : Nat) (key : Key)
    (h : acc.isFinal n = true) (hv : value = acc.finalOutput n) :
    getKeyGo acc (fuel + 1) n value key = some (true, key) := by
  simp [getKeyGo, h, hv]

/-- a non-final node with no transition whose output is ≤ the value: not found -/
theorem C16_dead_end (acc : NodeAccess N) (fuel : Nat) (n : N) (value : Nat) (key : Key)
    (h : acc.isFinal n = false) (hl : lastLe acc n value (acc.len n) 0 none = some none) :
    getKeyGo acc (fuel + 1) n value key = some (false, key) := by
  simp [getKeyGo, h, hl]

end Fst
