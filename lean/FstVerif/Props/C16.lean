import FstVerif.Proofs.Lookup
import FstVerif.Proofs.EndToEnd
/-
C16 — get_key on maps whose values increase with the keys. Statements here,
proofs in Proofs/Lookup.lean. `Tight` (every transition output is attained
below it) is an invariant of builder output (Proofs/Build.lean, `build_tight`);
without it the statement is false even for monotone stores — see
`LookupExample.getKey_counterexample`.
-/
namespace Fst.Props
open Fst
variable {N : Type} {s : Store} {den : Nat → KV} {acc : NodeAccess N}

/-- on ANY map: never panics, only appends to the caller's buffer, and `true`
means the appended key has that value (so a value no key has is answered `false`) -/
theorem C16_sound (hg : GoodStore s den) (hr : Represents acc s) (root : Nat)
    (hroot : root = 0 ∨ ∃ n, (root, n) ∈ s) (fuel : Nat) (hf : root + 1 ≤ fuel)
    (value : Nat) (buf : Key) :
    ∃ b k, fstGetKeyInto acc root fuel value buf = some (b, buf ++ k) ∧
      (b = true → (k, value) ∈ den root) := fstGetKeyInto_sound hg hr root hroot fuel hf value buf

/-- on monotone maps: the key with that value is found (including the empty key),
and `false` is returned exactly when no key has it -/
theorem C16_get_key (hg : GoodStore s den) (hr : Represents acc s) (root : Nat)
    (hroot : root = 0 ∨ ∃ n, (root, n) ∈ s) (hm : Mono (den root)) (ht : Tight s den)
    (fuel : Nat) (hf : root + 1 ≤ fuel) (value : Nat) (buf : Key) :
    (∀ k, (k, value) ∈ den root → fstGetKeyInto acc root fuel value buf = some (true, buf ++ k)) ∧
    ((∀ k, (k, value) ∉ den root) → ∃ buf', fstGetKeyInto acc root fuel value buf = some (false, buf')) :=
  fstGetKeyInto_correct hg hr root hroot hm ht fuel hf value buf

/-- END TO END, on the bytes of the file a map builder writes: if the values strictly
increase in key order, `get_key_into` (with the fuel the driver passes) appends exactly the
key of `value` and returns true when some key — including the empty key — has it, and
returns false otherwise. `Tight` is discharged by Proofs/Build.lean (`build_tight`). -/
theorem C16_file (rows cols ty : Nat) (hty : ty < 2^64) (kvs : KV) (hs : SortedKV kvs)
    (hv : ∀ kv ∈ kvs, kv.2 < 2^64) (hn : kvs.length < 2^64) (hmono : Mono kvs) :
    ∃ s bytes, insertAll (BState.new rows cols) kvs = .ok s ∧ s.fileBytes ty = .ok bytes ∧
      (bytes.length < 2^64 →
        ∃ m, fstNew (Src.ofList bytes) = .ok m ∧
          ∀ fuel, bytes.length + 2 ≤ fuel → ∀ (value : Nat) (buf : Key),
            (∀ k, (k, value) ∈ kvs →
              fstGetKeyInto (byteAccess 3 (Src.ofList bytes)) m.rootAddr fuel value buf =
                some (true, buf ++ k)) ∧
            ((∀ k, (k, value) ∉ kvs) →
              ∃ buf', fstGetKeyInto (byteAccess 3 (Src.ofList bytes)) m.rootAddr fuel value buf =
                some (false, buf'))) :=
  E2E.e2e_get_key rows cols ty hty kvs hs hv hn hmono

/-- without `Tight` the statement is false even for a monotone good store (kernel-checked witness) -/
theorem C16_tight_needed :
    GoodStore LookupExample.badStore LookupExample.badDen ∧ Mono (LookupExample.badDen 2) ∧
    ([97], 5) ∈ LookupExample.badDen 2 ∧
    fstGetKeyInto (Fst.storeAccess LookupExample.badStore) 2 4 5 [] = some (false, [98]) := by
  obtain ⟨h1, _, _, h4, _, h6, _, h8⟩ := LookupExample.getKey_counterexample
  exact ⟨h1, h4, h6, h8⟩

example : Mono (LookupExample.exDen 3) ∧ Tight LookupExample.exStore LookupExample.exDen :=
  ⟨LookupExample.exMono, LookupExample.exTight⟩

end Fst.Props
