import FstVerif.Proofs.Lookup
/-
C16 — get_key on maps whose values increase with the keys. Statements here,
proofs in Proofs/Lookup.lean. `Tight` (every transition output is attained
below it) is an invariant of builder output (Proofs/Build.lean, `build_tight`);
without it the statement is false even for monotone stores — see
`LookupExample.getKey_counterexample`.
-/
namespace Fst.Props
open Fst
variable {N : Type} {s : Store} {den : Nat → KV} {acc : NodeAccess N}

/-- on ANY map: never panics, only appends to the caller's buffer, and `true`
means the appended key has that value (so a value no key has is answered `false`) -/
theorem C16_sound (hg : GoodStore s den) (hr : Represents acc s) (root : Nat)
    (hroot : root = 0 ∨ ∃ n, (root, n) ∈ s) (fuel : Nat) (hf : root + 1 ≤ fuel)
    (value : Nat) (buf : Key) :
    ∃ b k, fstGetKeyInto acc root fuel value buf = some (b, buf ++ k) ∧
      (b = true → (k, value) ∈ den root) := fstGetKeyInto_sound hg hr root hroot fuel hf value buf

/-- on monotone maps: the key with that value is found (including the empty key),
and `false` is returned exactly when no key has it -/
theorem C16_get_key (hg : GoodStore s den) (hr : Represents acc s) (root : Nat)
    (hroot : root = 0 ∨ ∃ n, (root, n) ∈ s) (hm : Mono (den root)) (ht : Tight s den)
    (fuel : Nat) (hf : root + 1 ≤ fuel) (value : Nat) (buf : Key) :
    (∀ k, (k, value) ∈ den root → fstGetKeyInto acc root fuel value buf = some (true, buf ++ k)) ∧
    ((∀ k, (k, value) ∉ den root) → ∃ buf', fstGetKeyInto acc root fuel value buf = some (false, buf')) :=
  fstGetKeyInto_correct hg hr root hroot hm ht fuel hf value buf

example : Mono (LookupExample.exDen 3) ∧ Tight LookupExample.exStore LookupExample.exDen :=
  ⟨LookupExample.exMono, LookupExample.exTight⟩

end Fst.Props
