import FstVerif.Model.Sink
/-
C15 — determinism and API-path independence. In the model the emitted bytes
are *by construction* a function of (type, geometry, call sequence); what is
stated here is that rejected calls do not enter that function (so the bytes
are a function of the accepted sequence) and that the type only affects the
second header word. The content of the check is the correspondence run: every
front end, thread and process of the implementation against this one function.
-/
namespace Fst

/-- run a call sequence, ignoring rejected calls (what `insert`/`add` do) -/
def runIns (s : BState) : List (Key × Nat) → BState
  | [] => s
  | (k, v) :: rest =>
    match s.insert k v with
    | .ok s' => runIns s' rest
    | .error _ => runIns s rest

/-- the accepted subsequence -/
def acceptedIns (s : BState) : List (Key × Nat) → List (Key × Nat)
  | [] => []
  | (k, v) :: rest =>
    match s.insert k v with
    | .ok s' => (k, v) :: acceptedIns s' rest
    | .error _ => acceptedIns s rest

/-- the final builder state (hence the bytes) depends only on the accepted calls -/
theorem C15_function_of_accepted (s : BState) (calls : List (Key × Nat)) :
    runIns s calls = runIns s (acceptedIns s calls) := by
  induction calls generalizing s with
  | nil => rfl
  | cons c rest ih =>
    obtain ⟨k, v⟩ := c
    simp only [runIns, acceptedIns]
    cases h : s.insert k v with
    | error e => simp only []; exact ih s
    | ok s' =>
      simp only [runIns, h]
      exact ih s'

/-- every call of the accepted subsequence is accepted again when replayed alone -/
theorem C15_accepted_replay (s : BState) (calls : List (Key × Nat)) :
    acceptedIns s (acceptedIns s calls) = acceptedIns s calls := by
  induction calls generalizing s with
  | nil => rfl
  | cons c rest ih =>
    obtain ⟨k, v⟩ := c
    simp only [acceptedIns]
    cases h : s.insert k v with
    | error e => simp only []; exact ih s
    | ok s' =>
      simp only [acceptedIns, h]
      rw [ih s']

/-- the FST type is only the second header word: all node bytes are independent of it -/
theorem C15_type_only_in_header (ty1 ty2 : Nat) (s : BState) (root : Nat) :
    (s.bodyChunks ty1 root).drop 2 = (s.bodyChunks ty2 root).drop 2 := by
  simp [BState.bodyChunks, headerChunks]

end Fst
