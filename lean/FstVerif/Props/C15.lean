import FstVerif.Proofs.EndToEnd
import FstVerif.Proofs.Sink
import FstVerif.Proofs.Crc
import FstVerif.Proofs.Frontends
/-
C15 — construction is deterministic and independent of the API path. In the
model the emitted bytes are *by construction* a function of (type, cache
geometry, call sequence). What is stated here: rejected calls do not enter
that function; writing through any benign sink gives the in-memory bytes
(API path = sink independence); the type only affects the second header word.
The tie to the real code — every front end, 8 threads, 2 processes, 3
repetitions byte-identical to this one function — is the correspondence run.
-/
namespace Fst.Props
open Fst Fst.SinkProofs

/-- run a call sequence, ignoring rejected calls (what single `insert`s do) -/
def runIns (s : BState) : List (Key × Nat) → BState
  | [] => s
  | (k, v) :: rest =>
    match s.insert k v with
    | .ok s' => runIns s' rest
    | .error _ => runIns s rest

/-- the accepted subsequence -/
def acceptedIns (s : BState) : List (Key × Nat) → List (Key × Nat)
  | [] => []
  | (k, v) :: rest =>
    match s.insert k v with
    | .ok s' => (k, v) :: acceptedIns s' rest
    | .error _ => acceptedIns s rest

/-- the final builder state (hence the bytes) depends only on the accepted calls -/
theorem C15_function_of_accepted (s : BState) (calls : List (Key × Nat)) :
    runIns s calls = runIns s (acceptedIns s calls) := by
  induction calls generalizing s with
  | nil => rfl
  | cons c rest ih =>
    obtain ⟨k, v⟩ := c
    simp only [runIns, acceptedIns]
    cases h : s.insert k v with
    | error e => simp only []; exact ih s
    | ok s' =>
      simp only [runIns, h]
      exact ih s'

/-- the accepted subsequence run through `insertAll` (the `extend_*` / `from_iter` fold)
reaches the same state as the single calls -/
theorem C15_extend_eq_single (s : BState) (calls : List (Key × Nat)) :
    insertAll s (acceptedIns s calls) = .ok (runIns s calls) := by
  induction calls generalizing s with
  | nil => rfl
  | cons c rest ih =>
    obtain ⟨k, v⟩ := c
    simp only [runIns, acceptedIns]
    cases h : s.insert k v with
    | error e => simp only []; exact ih s
    | ok s' =>
      simp only [insertAll, h]
      exact ih s'

/-- every map-like batch entry point (Builder::extend_iter / extend_stream, MapBuilder::
extend_iter / extend_stream, Map::from_iter, Fst::from_iter_map) reaches exactly the state —
hence emits exactly the bytes — of the single `insert` calls -/
theorem C15_frontends_map (fe : FrontEnd)
    (hfe : fe = .rawIter ∨ fe = .rawStream ∨ fe = .mapIter ∨ fe = .mapStream ∨ fe = .mapFromIter ∨ fe = .rawFromIterMap)
    (s s' : BState) (kvs : KV) (h : insertAll s kvs = .ok s') :
    fe.runBatch s kvs = (s', .ok ()) := frontends_map fe hfe s s' kvs h

/-- the same for the set-like entry points and single `add` calls -/
theorem C15_frontends_set (fe : FrontEnd)
    (hfe : fe = .setIter ∨ fe = .setStream ∨ fe = .setFromIter ∨ fe = .rawFromIterSet)
    (s s' : BState) (kvs : KV) (h : addAll s (kvs.map (·.1)) = .ok s') :
    fe.runBatch s kvs = (s', .ok ()) := frontends_set fe hfe s s' kvs h

/-- writing through ANY benign sink (short writes, Interrupted, prefill, buffered or
not) yields the bytes of the in-memory build -/
theorem C15_sink_independent (p : List UInt8) (script : List Resp) (hb : Benign script)
    (ty rows cols : Nat) (calls : List Call) (b : BState) (bytes : List UInt8)
    (hrun : BState.run (BState.new rows cols) calls = .ok b) (hfile : b.fileBytes ty = .ok bytes) :
    ∃ cw x0 x s, IOB.new (Sink.new p script) ty rows cols = (cw, .ok x0) ∧
      IOB.run x0 calls = some x ∧ x.b = b ∧ x.intoInner = (s, .ok ()) ∧
      s.held = (p ++ bytes).toArray :=
  Fst.SinkProofs.C07_bytes (fun s a b => Fst.C08_chunking s a b) p script hb ty rows cols calls b bytes hrun hfile

/-- the FST type is only the second header word: all node bytes are independent of it -/
theorem C15_type_only_in_header (ty1 ty2 : Nat) (s : BState) (root : Nat) :
    (s.bodyChunks ty1 root).drop 2 = (s.bodyChunks ty2 root).drop 2 := by
  simp [BState.bodyChunks, headerChunks]

end Fst.Props
