import FstVerif.Model.Sink
/-
C06 — ordering contract; rejected inserts leave no trace.
-/
namespace Fst

/-- a map builder accepts a key iff it is strictly greater than the last accepted key;
the errors carry the offending key(s) -/
theorem C06_insert_check (s : BState) (k last : Key) (h : s.last = some last) :
    s.checkLastKey k true =
      if k == last then .error (.duplicateKey k)
      else if lexLt k last then .error (.outOfOrder last k)
      else .ok { s with last := some k } := by
  simp [BState.checkLastKey, h]

/-- a set builder accepts a key iff it is greater than or equal to the last accepted key -/
theorem C06_add_check (s : BState) (k last : Key) (h : s.last = some last) :
    s.checkLastKey k false =
      if lexLt k last then .error (.outOfOrder last k) else .ok { s with last := some k } := by
  simp [BState.checkLastKey, h]

/-- the first key is always accepted -/
theorem C06_first_key (s : BState) (k : Key) (d : Bool) (h : s.last = none) :
    s.checkLastKey k d = .ok { s with last := some k } := by
  simp [BState.checkLastKey, h]

/-- a rejected `insert`/`add` is the identity on the builder (pure state and writer) -/
theorem C06_reject_identity (x : IOB) (e : BErr) : (x.step (.error e)).1 = x ∧ (x.step (.error e)).2 = .error (.fst e) :=
  ⟨rfl, rfl⟩

/-- `insert` fails with an ordering error exactly when the key check fails, and then no state is produced -/
theorem C06_insert_error_is_check (s : BState) (k : Key) (v : Nat) (e : BErr)
    (h : s.checkLastKey k true = .error e) : s.insert k v = .error e := by
  simp [BState.insert, h]

theorem C06_add_error_is_check (s : BState) (k : Key) (e : BErr)
    (h : s.checkLastKey k false = .error e) : s.add k = .error e := by
  simp [BState.add, h]

/-- hence: the writer of an `IOB` is untouched by a rejected call, whatever the sink script -/
theorem C06_rejected_call_writes_nothing (x : IOB) (k : Key) (v : Nat) (e : BErr)
    (h : x.b.checkLastKey k true = .error e) : (x.insert k v).1 = x := by
  simp [IOB.insert, C06_insert_error_is_check _ _ _ _ h, IOB.step]

example : (BState.new 2 2).checkLastKey [1] true = .ok { BState.new 2 2 with last := some [1] } := rfl

end Fst
