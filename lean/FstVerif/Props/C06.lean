import FstVerif.Proofs.EndToEnd
import FstVerif.Proofs.Glue
/-
C06 — builders enforce the ordering contract; rejected inserts leave no trace.
Statements here; proofs in Proofs/Build.lean (`insert_result`, `add_result`
on every reachable state; `Reachable` = new + accepted insert/add calls) and
by construction of the state machine (an error returns no new state).
-/
namespace Fst.Props
open Fst

/-- MAP builder, on every reachable state: `insert k v` is accepted iff `k` is strictly
greater than the last accepted key; otherwise it fails with exactly DuplicateKey{got = k}
(equal) or OutOfOrder{previous = last, got = k} (smaller) -/
theorem C06_insert_iff {s : BState} (h : Reachable s) (k : Key) (v : Nat) :
    match s.last with
    | none => ∃ s', s.insert k v = .ok s'
    | some last =>
      if lexLt last k then ∃ s', s.insert k v = .ok s'
      else if k = last then s.insert k v = .error (.duplicateKey k)
      else s.insert k v = .error (.outOfOrder last k) := insert_result h k v

/-- SET builder: `add k` is accepted iff `k` is greater than or equal to the last accepted
key (a repeat is accepted); otherwise exactly OutOfOrder{previous = last, got = k} -/
theorem C06_add_iff {s : BState} (h : Reachable s) (k : Key) :
    match s.last with
    | none => ∃ s', s.add k = .ok s'
    | some last =>
      if lexLe last k then ∃ s', s.add k = .ok s'
      else s.add k = .error (.outOfOrder last k) := add_result h k

/-- a rejected call is the identity on the whole builder (pure state AND writer): nothing
is written, counted or checksummed; the builder behaves as if the call never happened -/
theorem C06_reject_identity (x : IOB) (e : BErr) :
    (x.step (.error e)).1 = x ∧ (x.step (.error e)).2 = .error (.fst e) := ⟨rfl, rfl⟩

theorem C06_rejected_insert_writes_nothing (x : IOB) (k : Key) (v : Nat) (e : BErr)
    (h : x.b.insert k v = .error e) : (x.insert k v).1 = x := by
  simp [IOB.insert, h, IOB.step]

theorem C06_rejected_add_writes_nothing (x : IOB) (k : Key) (e : BErr)
    (h : x.b.add k = .error e) : (x.add k).1 = x := by
  simp [IOB.add, h, IOB.step]

/-- a repeated key on a set builder is a no-op on the content: after any accepted
non-decreasing sequence the file holds exactly the distinct keys -/
theorem C06_set_repeat_noop (rows cols ty : Nat) (hty : ty < 2^64) (ks : List Key)
    (hs : SortedKeysLe ks) (hn : (dedupKeys ks).length < 2^64) :
    ∃ s bytes, addAll (BState.new rows cols) ks = .ok s ∧ s.fileBytes ty = .ok bytes ∧
      (bytes.length < 2^64 → ∃ m, fstNew (Src.ofList bytes) = .ok m ∧ m.len = (dedupKeys ks).length) := by
  obtain ⟨s, bytes, h1, h2, h⟩ := E2E.e2e_set rows cols ty hty ks hs hn
  exact ⟨s, bytes, h1, h2, fun hsz => by
    obtain ⟨m, hm, _, _, hl, _⟩ := h hsz
    exact ⟨m, hm, hl⟩⟩

/-- `extend_iter` / `extend_stream` / `from_iter` are the fold of single calls that stops at
the first rejected item with that item's error (`insertAll`, `addAll`) -/
theorem C06_extend_stops_at_first (s : BState) (kv : Key × Nat) (rest : KV) (e : BErr)
    (h : s.insert kv.1 kv.2 = .error e) : insertAll s (kv :: rest) = .error e := by
  simp [insertAll, h]

theorem C06_extend_continues (s s' : BState) (kv : Key × Nat) (rest : KV)
    (h : s.insert kv.1 kv.2 = .ok s') : insertAll s (kv :: rest) = insertAll s' rest := by
  simp [insertAll, h]

example : Reachable (BState.new 2 2) := Reachable.new 2 2


/-! ### by-reference iterators (`b.extend_iter(&mut it)` again after each error; Model/Glue.lean) -/

/-- handing the SAME iterator to `extend_iter` again and again until it is exhausted loses nothing
but the rejected items: the builder ends in the state the single calls reach (a rejected call
leaves it alone), and the successive calls return exactly the errors of the rejected items, in
order, followed by `Ok` -/
theorem C06_resume (s : BState) (calls : List BCall) :
    (s.resume calls []).1 = calls.foldl Glue.step s ∧
    (s.resume calls []).2 = Glue.rejections s calls ++ [.ok ()] := Glue.resume_spec s calls

/-- with no rejected item, one `extend_iter` call is the insert loop -/
theorem C06_resume_all_accepted (s : BState) (kvs : KV) (h : Glue.rejections s (Glue.insCalls kvs) = []) :
    ∃ final, s.resume (Glue.insCalls kvs) [] = (final, [.ok ()]) ∧ s.extendInsert kvs = (final, .ok ()) ∧
      final = (Glue.insCalls kvs).foldl Glue.step s := Glue.resume_ins_eq_extendInsert s kvs h

end Fst.Props
