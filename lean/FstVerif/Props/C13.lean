import FstVerif.Model.Build
/-
C13 — construction memory (partial: the allocator and `Vec` capacity policy
are measured by ./check, not modelled). Here: the cache never grows — its
table keeps its number of buckets and every bucket its number of cells.
-/
namespace Fst

theorem promote_length (cells : List Cell) (i : Nat) : (promote cells i).length = cells.length := by
  unfold promote
  cases h : cells[i]? with
  | none => rfl
  | some c =>
    have hi : i < cells.length := by
      rcases Nat.lt_or_ge i cells.length with h' | h'
      · exact h'
      · rw [List.getElem?_eq_none h'] at h; cases h
    simp [List.length_eraseIdx, hi]; omega

/-- one cache probe keeps the bucket's size: the cache holds at most rows × cols nodes -/
theorem C13_bucket_size (cells : List Cell) (n : BNode) : (bucketEntry cells n).1.length = cells.length := by
  unfold bucketEntry
  split
  · exact promote_length _ _
  · dsimp only
    split
    · simp [promote_length]
    · rfl

/-- and the number of buckets -/
theorem C13_table_size (r : Registry) (n : BNode) : (r.entry n).1.table.size = r.table.size := by
  unfold Registry.entry
  split
  · rfl
  · simp only []
    split <;> simp

theorem C13_insert_table_size (r : Registry) (b a : Nat) : (r.insert b a).table.size = r.table.size := by
  unfold Registry.insert
  split <;> simp

end Fst
