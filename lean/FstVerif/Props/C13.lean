import FstVerif.Proofs.Bounds
/-
C13 — construction memory is bounded independently of the number of keys.
PARTIAL: the theorem bounds the sizes of the data structures the builder holds
(unfinished-node stack, node cache, last key); the allocator and `Vec`
capacity policy are not modelled and are MEASURED by ./check (counting
allocator, growing N, several key shapes and sink behaviours). `s.out` models
the bytes already handed to the writer and is deliberately not part of the
footprint. Statements here; proofs in Proofs/BoundsBuild.lean.
-/
namespace Fst.Props
open Fst Fst.Bounds

/-- on every state reachable from `BState.new rows cols` by accepted calls (`ks` = the
accepted keys): stack depth = last key length + 1, every node held has ≤ 256 transitions,
the cache keeps `rows` buckets of `cols` cells, and the footprint is bounded by a constant
of the cache geometry, the maximal fan-out (256) and the longest key — with NO term in
the number of keys inserted or bytes emitted -/
theorem C13_footprint {rows cols : Nat} {ks : List Key} {s : BState} (h : ReachableK rows cols ks s) :
    s.stack.length = (s.last.getD []).length + 1 ∧ s.stack.length ≤ maxKeyLen ks + 1 ∧
    (∀ u ∈ s.stack, u.node.trans.length ≤ 256) ∧
    s.reg.table.size = rows ∧ (∀ b ∈ s.reg.table.toList, b.length = cols) ∧
    (∀ b ∈ s.reg.table.toList, ∀ c ∈ b, c.node.trans.length ≤ 256) ∧
    footprint s ≤ (maxKeyLen ks + 1) * 257 + rows * cols * 257 + maxKeyLen ks :=
  Fst.Bounds.C13_footprint h

/-- for a whole build: keys of length ≤ L give a footprint bound independent of how many -/
theorem C13_footprint_map {rows cols L : Nat} {kvs : KV} {s : BState}
    (h : insertAll (BState.new rows cols) kvs = .ok s) (hL : ∀ kv ∈ kvs, kv.1.length ≤ L) :
    footprint s ≤ (L + 1) * 257 + rows * cols * 257 + L := C13_footprint_insertAll h hL

theorem C13_footprint_set {rows cols L : Nat} {ks : List Key} {s : BState}
    (h : addAll (BState.new rows cols) ks = .ok s) (hL : ∀ k ∈ ks, k.length ≤ L) :
    footprint s ≤ (L + 1) * 257 + rows * cols * 257 + L := C13_footprint_addAll h hL

/-- every reachable state is covered -/
theorem C13_all_reachable {s : BState} (h : Reachable s) : ∃ rows cols ks, ReachableK rows cols ks s :=
  reachable_reachableK h

end Fst.Props
