import FstVerif.Proofs.Lookup
import FstVerif.Proofs.EndToEnd
/-
C02 — point lookups, for every probe. Statements here, proofs in
Proofs/Lookup.lean. The theorems are about any node access that represents a
good store; Proofs/Build.lean shows that builder output is a good store whose
root spells the inserted map and Proofs/Codec.lean that the byte reader
represents it (assembled in C01.lean when those are present).
-/
namespace Fst.Props
open Fst
variable {N : Type} {s : Store} {den : Nat → KV} {acc : NodeAccess N}

/-- `get` returns the stored value exactly for stored keys and `None` for every other
probe (prefixes, extensions, substitutions, the empty key …) and never panics -/
theorem C02_get (hg : GoodStore s den) (hr : Represents acc s) (root : Nat)
    (hroot : root = 0 ∨ ∃ n, (root, n) ∈ s) (key : Key) :
    fstGet acc root key = some (lookupKV (den root) key) := fstGet_correct hg hr root hroot key

/-- `contains_key` is true exactly for stored keys -/
theorem C02_contains (hg : GoodStore s den) (hr : Represents acc s) (root : Nat)
    (hroot : root = 0 ∨ ∃ n, (root, n) ∈ s) (key : Key) :
    fstContains acc root key = some ((den root).any fun kv => kv.1 == key) :=
  fstContains_correct hg hr root hroot key

/-- the denotation is strictly sorted, so `lookupKV` has at most one candidate per key -/
theorem C02_den_sorted (hg : GoodStore s den) (a : Nat) (h : a = 0 ∨ ∃ n, (a, n) ∈ s) :
    SortedKV (den a) := den_sorted hg a h

/-- END TO END, on the bytes of the file a builder writes (any geometry, any sorted map,
u64 limits only): `get` / `contains_key` answer every probe by the inserted map -/
theorem C02_file (rows cols ty : Nat) (hty : ty < 2^64) (kvs : KV) (hs : SortedKV kvs)
    (hv : ∀ kv ∈ kvs, kv.2 < 2^64) (hn : kvs.length < 2^64) :
    ∃ s bytes, insertAll (BState.new rows cols) kvs = .ok s ∧ s.fileBytes ty = .ok bytes ∧
      (bytes.length < 2^64 → ∃ m, fstNew (Src.ofList bytes) = .ok m ∧
        (∀ key, fstGet (byteAccess 3 (Src.ofList bytes)) m.rootAddr key = some (lookupKV kvs key)) ∧
        (∀ key, fstContains (byteAccess 3 (Src.ofList bytes)) m.rootAddr key =
          some (kvs.any fun kv => kv.1 == key))) := by
  obtain ⟨s, bytes, h1, h2, h⟩ := E2E.e2e_map rows cols ty hty kvs hs hv hn
  exact ⟨s, bytes, h1, h2, fun hsz => by
    obtain ⟨m, hm, _, _, _, _, _, hg, hc⟩ := h hsz
    exact ⟨m, hm, hg, hc⟩⟩

/-- the byte-level `find_input` (linear scan over the reversed storage order, and the
256-entry index for nodes with more than 32 transitions, incl. exactly 256) finds the
transition on a byte iff there is one -/
theorem C02_find_input (v : Nat) (n : BNode) (lastAddr start : Nat) (enc pre post : List UInt8)
    (hv : 2 ≤ v ∨ n.trans.length ≤ Gen.TRANS_INDEX_THRESHOLD)
    (wf : WFNode n lastAddr start) (henc : compileNode n lastAddr start = some enc)
    (hpre : pre.length = start) :
    ∃ rn, nodeNew v (Src.ofList (pre ++ enc ++ post)) (start + enc.length - 1) = some rn ∧
      ∀ b, rn.findInput (Src.ofList (pre ++ enc ++ post)) b = some (transIdx n b) := by
  obtain ⟨_, rn, h1, _, _, _, _, _, _, h8, _⟩ := codec_roundtrip v n lastAddr start enc pre post hv wf henc hpre
  exact ⟨rn, h1, h8⟩

/-- non-vacuity: a concrete three-node store satisfies the hypotheses -/
example : GoodStore LookupExample.exStore LookupExample.exDen := LookupExample.exGood

end Fst.Props
