import FstVerif.Proofs.Lookup
/-
C02 — point lookups, for every probe. Statements here, proofs in
Proofs/Lookup.lean. The theorems are about any node access that represents a
good store; Proofs/Build.lean shows that builder output is a good store whose
root spells the inserted map and Proofs/Codec.lean that the byte reader
represents it (assembled in C01.lean when those are present).
-/
namespace Fst.Props
open Fst
variable {N : Type} {s : Store} {den : Nat → KV} {acc : NodeAccess N}

/-- `get` returns the stored value exactly for stored keys and `None` for every other
probe (prefixes, extensions, substitutions, the empty key …) and never panics -/
theorem C02_get (hg : GoodStore s den) (hr : Represents acc s) (root : Nat)
    (hroot : root = 0 ∨ ∃ n, (root, n) ∈ s) (key : Key) :
    fstGet acc root key = some (lookupKV (den root) key) := fstGet_correct hg hr root hroot key

/-- `contains_key` is true exactly for stored keys -/
theorem C02_contains (hg : GoodStore s den) (hr : Represents acc s) (root : Nat)
    (hroot : root = 0 ∨ ∃ n, (root, n) ∈ s) (key : Key) :
    fstContains acc root key = some ((den root).any fun kv => kv.1 == key) :=
  fstContains_correct hg hr root hroot key

/-- the denotation is strictly sorted, so `lookupKV` has at most one candidate per key -/
theorem C02_den_sorted (hg : GoodStore s den) (a : Nat) (h : a = 0 ∨ ∃ n, (a, n) ∈ s) :
    SortedKV (den a) := den_sorted hg a h

/-- non-vacuity: a concrete three-node store satisfies the hypotheses -/
example : GoodStore LookupExample.exStore LookupExample.exDen := LookupExample.exGood

end Fst.Props
