import FstVerif.Model.Reader
/-
C02 — point lookups. (`C02_get`, `C02_contains` for every probe are assembled
from Proofs/Lookup.lean; here: the end-of-key step and absent-byte step, for any node access.)
-/
namespace Fst
variable {N : Type}

/-- at the end of the probe, the answer is decided by finality alone: a proper
prefix of a key (non-final node) is never reported -/
theorem C02_end_of_key (acc : NodeAccess N) (n : N) (out : Nat) :
    getGo acc n out [] = some (if acc.isFinal n then some (out + acc.finalOutput n) else none) := rfl

/-- a probe that leaves the automaton (no transition for the next byte) is absent -/
theorem C02_no_transition (acc : NodeAccess N) (n : N) (out : Nat) (b : UInt8) (bs : Key)
    (h : acc.findInput n b = some none) : getGo acc n out (b :: bs) = some none := by
  simp [getGo, h]

theorem C02_contains_end (acc : NodeAccess N) (n : N) : containsGo acc n [] = some (acc.isFinal n) := rfl

end Fst
