import FstVerif.Proofs.SpecParseBuild
import FstVerif.Proofs.EndToEnd
/-
C09 — the builder's output conforms to the documented version-3 format.
`Spec.parseFst` (Spec/Format.lean) is a parser written from the format
description with PINNED constants; it shares no code with the model's reader.
Statements here; proofs in Proofs/SpecParse*.lean (the independent parser
inverts the model's encoder, node by node and for whole files) and
Proofs/EndToEndFile.lean (tiling through the model's own reader).
The constants regenerated from the compiled crate on every run must equal the
pinned ones: a change applied consistently to writer and reader breaks
`C09_pinned_*`.
-/
namespace Fst.Props
open Fst Fst.E2E

theorem C09_pinned_version : Gen.VERSION = Spec.VERSION_MAX := by decide
theorem C09_pinned_threshold : Gen.TRANS_INDEX_THRESHOLD = Spec.INDEX_THRESHOLD := by decide
theorem C09_pinned_common_inv : Gen.COMMON_INPUTS_INV = Spec.commonInv := by decide +kernel

/-- the writer's byte → index table is the inverse of the reader's index → byte table -/
theorem C09_common_tables_inverse :
    (List.range 256).all (fun b =>
      let v := (Gen.COMMON_INPUTS.getD b 0 + 1) % 256
      v == 0 || v > 255 || Gen.COMMON_INPUTS_INV.getD (v - 1) 0 == b) = true := by decide +kernel

/-- reading the builder's bytes by the format description alone yields version 3, the
requested type, the key count, exactly the inserted map — and the extents of the nodes
visited tile the body with no gaps or overlaps (`tiled = true`) -/
theorem C09_parse (rows cols : Nat) (kvs : KV) (h : SortedKV kvs) (M : Nat)
    (hM : ∀ kv ∈ kvs, kv.2 ≤ M) (hM64 : M < 2 ^ 64) (ty : Nat) (hty : ty < 2 ^ 64)
    (hlen : kvs.length < 2 ^ 64) :
    ∃ s bytes, insertAll (BState.new rows cols) kvs = .ok s ∧ s.fileBytes ty = .ok bytes ∧
      (bytes.length ≤ 2 ^ 64 → Spec.parseFst bytes = some ⟨3, ty, kvs.length, kvs, true⟩) :=
  spec_parseFst_build rows cols kvs h M hM hM64 ty hty hlen

theorem C09_parse_set (rows cols : Nat) (ks : List Key) (h : SortedKeysLe ks)
    (ty : Nat) (hty : ty < 2 ^ 64) (hlen : (dedupKeys ks).length < 2 ^ 64) :
    ∃ s bytes, addAll (BState.new rows cols) ks = .ok s ∧ s.fileBytes ty = .ok bytes ∧
      (bytes.length ≤ 2 ^ 64 →
        Spec.parseFst bytes = some ⟨3, ty, (dedupKeys ks).length, zeroKV (dedupKeys ks), true⟩) :=
  spec_parseFst_build_set rows cols ks h ty hty hlen

/-- every node parses under the documented layouts: the independent parser returns exactly
the node that was encoded, with its extent -/
theorem C09_node (v : Nat) (n : BNode) (lastAddr start : Nat) (enc pre post : List UInt8)
    (hv : 2 ≤ v ∨ n.trans.length ≤ Gen.TRANS_INDEX_THRESHOLD)
    (wf : WFNode n lastAddr start) (henc : compileNode n lastAddr start = some enc)
    (hpre : pre.length = start) :
    ∃ sn, Spec.parseNode v (pre ++ enc ++ post).toArray (start + enc.length - 1) = some sn ∧
      sn.fin = n.fin ∧ sn.fout = n.fout ∧
      sn.trans = n.trans.map (fun t => (t.inp, t.out, t.addr)) ∧
      sn.first = start ∧ sn.last = start + enc.length - 1 :=
  spec_parseNode_roundtrip v n lastAddr start enc pre post hv wf henc hpre _ rfl _ rfl

/-- tiling and targets, through the model's own reader: first node at 16, consecutive
extents adjacent, last node ends right before the footer, every transition target is 0
(the shared empty-final sentinel) or an earlier node -/
theorem C09_tiling (rows cols ty : Nat) (kvs : KV) (hs : SortedKV kvs)
    (hv : ∀ kv ∈ kvs, kv.2 < 2^64) :
    ∃ s s' root, insertAll (BState.new rows cols) kvs = .ok s ∧ s.finish = .ok (s', root) ∧
      s.fileBytes ty = .ok (fileOf ty s' root) ∧
      (fileOf ty s' root).length = s'.count + 20 ∧
      ((fileOf ty s' root).length < 2^64 →
        (∀ e ∈ s'.out.reverse.head?, firstByte e = 16) ∧
        (∀ pre e1 e2 post, s'.out.reverse = pre ++ e1 :: e2 :: post →
          firstByte e2 = e1.addr + 1) ∧
        (∀ e ∈ s'.out.reverse.getLast?, e.addr = s'.count - 1) ∧
        (∀ e ∈ s'.out, 1 ≤ e.size ∧ 16 ≤ firstByte e ∧ e.addr < s'.count) ∧
        (∀ e ∈ s'.out, ∃ rn, nodeNew 3 (Src.ofList (fileOf ty s' root)) e.addr = some rn ∧
          rn.start = e.addr ∧ rn.end_ = firstByte e ∧
          rn.toBNode (Src.ofList (fileOf ty s' root)) = some e.node) ∧
        (∀ e ∈ s'.out, ∀ t ∈ e.node.trans,
          t.addr = 0 ∨ ∃ e' ∈ s'.out, e'.addr = t.addr ∧ e'.addr < e.addr)) :=
  e2e_tiling rows cols ty kvs hs hv

/-- the layout of the complete file: header, nodes in emission order, key count, root
address, masked CRC-32C of everything before it -/
theorem C09_file_layout (ty : Nat) (s' : BState) (root : Nat) :
    fileOf ty s' root =
      bodyBytes ty s' root ++ u32le (crcOf (bodyBytes ty s' root)) := by rfl

/-- the root is the empty-final sentinel with nothing emitted, or the node emitted last -/
theorem C09_root {s s' : BState} {root : Nat} (hr : Reachable s) (hf : s.finish = .ok (s', root)) :
    (root = 0 ∧ s'.out = [] ∧ s'.count = 16) ∨
    (∃ e rest, s'.out = e :: rest ∧ e.addr = root ∧ root = s'.count - 1 ∧ 16 ≤ root) :=
  finish_root hr hf

end Fst.Props
