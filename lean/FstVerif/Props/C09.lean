import FstVerif.Gen.Tables
import FstVerif.Spec.Format
/-
C09 — format conformance. The constants of the on-disk format are pinned: the
values regenerated from the compiled crate on every run must equal the ones
the format description (Spec/Format.lean) was written against. A change applied
consistently to writer and reader (so that every round trip still works) breaks
these obligations.
-/
namespace Fst

theorem C09_pinned_version : Gen.VERSION = Spec.VERSION_MAX := by decide
theorem C09_pinned_threshold : Gen.TRANS_INDEX_THRESHOLD = Spec.INDEX_THRESHOLD := by decide
theorem C09_pinned_common_inv : Gen.COMMON_INPUTS_INV = Spec.commonInv := by decide +kernel

/-- the writer's byte → index table is the inverse of the reader's index → byte
table on the 63 indices a state byte can hold (0 = "not common") -/
theorem C09_common_tables_inverse :
    (List.range 256).all (fun b =>
      let v := (Gen.COMMON_INPUTS.getD b 0 + 1) % 256
      v == 0 || v > 255 || Gen.COMMON_INPUTS_INV.getD (v - 1) 0 == b) = true := by decide +kernel

/-- the empty-final sentinel parses as the documented empty final node -/
theorem C09_sentinel (v : Nat) (a : Array UInt8) :
    (Spec.parseNode v a 0).map (fun n => (n.fin, n.fout, n.trans.length)) = some (true, 0, 0) := rfl

end Fst
