import FstVerif.Proofs.CodecBytes
/-
T-Codec, part 2 of 4: `WFNode`, `Decodes`, generic unfoldings of `nodeNew`, and
the round trip of the two one-transition forms (`compileOTN`, `compileOT`).
-/
namespace Fst

/-- well-formedness of a node about to be written at byte offset `start` -/
structure WFNode (n : BNode) (lastAddr start : Nat) : Prop where
  ntrans : n.trans.length ≤ 256
  sorted : SortedInputs n
  targets : ∀ t ∈ n.trans, t.addr = 0 ∨ t.addr < start
  outs : n.fout < 2^64 ∧ ∀ t ∈ n.trans, t.out < 2^64
  small : start < 2^64
  pos : 0 < start
  notEmpty : isEmptyFinal n = false
  next : lastAddr = start - 1 ∨ ∀ t ∈ n.trans, t.addr ≠ lastAddr
  finOut : n.fin = false → n.fout = 0

/-- `rn`, read from `d`, decodes exactly `n` and occupies the bytes `start ..= addr` -/
structure Decodes (d : Src) (rn : RNode) (n : BNode) (start addr : Nat) : Prop where
  start_eq : rn.start = addr
  end_eq : rn.end_ = start
  fin : rn.fin = n.fin
  fout : rn.fout = n.fout
  ntrans : rn.ntrans = n.trans.length
  trans : ∀ i (h : i < n.trans.length),
    rn.transition d i = some n.trans[i] ∧ rn.transAddr d i = some n.trans[i].addr
  find : ∀ b, rn.findInput d b = some (transIdx n b)

theorem get_ofList (l : List UInt8) (i : Nat) : (Src.ofList l).get i = l[i]? := rfl

theorem toNat_ofNat_lt {n : Nat} (h : n < 256) : (UInt8.ofNat n).toNat = n :=
  UInt8.toNat_ofNat_of_lt' h

theorem transIdx_single (f : Bool) (o : Nat) (t : Tr) (b : UInt8) :
    transIdx ⟨f, o, [t]⟩ b = if t.inp = b then some 0 else none := by
  simp [transIdx, List.findIdx?_cons]

/-! ### generic unfoldings of `nodeNew` (state byte abstract) -/

def mkOTN (v s addr e : Nat) : RNode :=
  { version := v, kind := .otn, sb := s, start := addr, end_ := e, fin := false,
    ntrans := 1, tsize := 0, osize := 0, fout := 0 }

def mkOT (v s addr e tsize osize : Nat) : RNode :=
  { version := v, kind := .ot, sb := s, start := addr, end_ := e, fin := false,
    ntrans := 1, tsize := tsize, osize := osize, fout := 0 }

def mkAny (v s addr e : Nat) (fin : Bool) (ntrans tsize osize fout : Nat) : RNode :=
  { version := v, kind := .any, sb := s, start := addr, end_ := e, fin := fin,
    ntrans := ntrans, tsize := tsize, osize := osize, fout := fout }

/-- length of the explicit input byte as the reader computes it -/
def rIlen (s : Nat) : Nat := if (commonInput (s % 64)).isNone then 1 else 0

theorem nodeNew_otn {v : Nat} {d : Src} {addr s : Nat} {vb : UInt8} (h0 : addr ≠ 0)
    (hg : d.get addr = some vb) (hs : vb.toNat = s) (htop : s / 64 = 3) :
    nodeNew v d addr = some (mkOTN v s addr (addr - rIlen s)) := by
  subst hs
  simp only [nodeNew, EMPTY_ADDRESS, h0, if_false, hg, htop, if_true, mkOTN, rIlen]

theorem nodeNew_ot {v : Nat} {d : Src} {addr s sz : Nat} {vb szb : UInt8} (h0 : addr ≠ 0)
    (hg : d.get addr = some vb) (hs : vb.toNat = s) (htop : s / 64 = 2)
    (hgz : d.get (addr - rIlen s - 1) = some szb) (hsz : szb.toNat = sz) :
    nodeNew v d addr = some (mkOT v s addr (addr - rIlen s - 1 - sz / 16 - sz % 16) (sz / 16) (sz % 16)) := by
  subst hs hsz
  simp only [rIlen] at hgz
  simp only [nodeNew, EMPTY_ADDRESS, h0, if_false, hg, htop, if_true, hgz,
    if_neg (show ¬ (2 : Nat) = 3 by decide), mkOT, rIlen]

/-- the input byte of a one-transition node -/
theorem one_input {d : Src} {rn : RNode} {b : UInt8} (hk : rn.kind = .otn ∨ rn.kind = .ot)
    (h : commonInput (rn.sb % 64) = some b ∨
         (commonInput (rn.sb % 64) = none ∧ d.get (rn.start - 1) = some b)) :
    rn.input d 0 = some b := by
  rcases hk with hk | hk <;> rcases h with h | ⟨h, h'⟩ <;> simp [RNode.input, *]

/-- what the two one-transition encoders write for the input: `il` bytes (0 or 1) -/
theorem commonInput_cases (b : UInt8) :
    (commonIdx b 63 = 0 ∧ commonInput (commonIdx b 63) = none) ∨
    (commonIdx b 63 ≠ 0 ∧ commonInput (commonIdx b 63) = some b) := by
  by_cases hc : commonIdx b 63 = 0
  · left; exact ⟨hc, by rw [hc]; rfl⟩
  · right; exact ⟨hc, commonInput_commonIdx b hc⟩

theorem transition_of {d : Src} {rn : RNode} {i : Nat} {t : Tr} (h1 : rn.input d i = some t.inp)
    (h2 : rn.output d i = some t.out) (h3 : rn.transAddr d i = some t.addr) :
    rn.transition d i = some t := by
  simp only [RNode.transition, h1, h2, h3]

theorem delta_back {start a : Nat} (h : a = 0 ∨ a < start) :
    (if deltaVal start a = EMPTY_ADDRESS then EMPTY_ADDRESS else start - deltaVal start a) = a := by
  simp only [deltaVal, EMPTY_ADDRESS]
  by_cases h0 : a = 0
  · simp [h0]
  · simp only [h0, if_false]
    have : ¬ (start - a = 0) := by omega
    simp only [this, if_false]; omega

theorem deltaVal_lt {start a : Nat} (hs : start < 2 ^ 64) : deltaVal start a < 2 ^ 64 := by
  simp only [deltaVal, EMPTY_ADDRESS]
  by_cases h0 : a = 0
  · simp [h0]
  · simp only [h0, if_false]; omega

theorem idx_cast {l : List UInt8} {a b : Nat} {x : Option UInt8} (h : l[a]? = x) (e : a = b) :
    l[b]? = x := e ▸ h

theorem seg_cast {l : List UInt8} {a b : Nat} {x : List UInt8} (h : Seg l a x) (e : a = b) :
    Seg l b x := e ▸ h

/-! ### E. `StateOneTransNext` -/

theorem otn_core (v : Nat) (l : List UInt8) (start il s : Nat) (t : Tr) (vb : UInt8) (hpos : 0 < start)
    (hg : l[start + il]? = some vb) (hs : vb.toNat = s) (htop : s / 64 = 3)
    (hlen : rIlen s = il)
    (hin : commonInput (s % 64) = some t.inp ∨
      (commonInput (s % 64) = none ∧ l[start + il - 1]? = some t.inp))
    (hout : t.out = 0) (haddr : t.addr = start - 1) :
    ∃ rn, nodeNew v (Src.ofList l) (start + il) = some rn ∧
      Decodes (Src.ofList l) rn ⟨false, 0, [t]⟩ start (start + il) := by
  refine ⟨_, nodeNew_otn (by omega) hg hs htop, ?_⟩
  rw [hlen, show start + il - il = start by omega]
  have hinp : (mkOTN v s (start + il) start).input (Src.ofList l) 0 = some t.inp :=
    one_input (Or.inl rfl) hin
  refine ⟨rfl, rfl, rfl, rfl, rfl, ?_, ?_⟩
  · intro i hi
    have : i = 0 := by simpa using hi
    subst this
    have ha : (mkOTN v s (start + il) start).transAddr (Src.ofList l) 0 = some t.addr := by
      simp [RNode.transAddr, mkOTN, haddr]
    refine ⟨transition_of hinp ?_ ha, ha⟩
    simp [RNode.output, mkOTN, hout]
  · intro b
    simp only [RNode.findInput, mkOTN] at hinp ⊢
    simp only [hinp, transIdx_single]

theorem otn_decodes (v : Nat) (l : List UInt8) (start : Nat) (t : Tr) (hpos : 0 < start)
    (hout : t.out = 0) (haddr : t.addr = start - 1)
    (hseg : Seg l start (compileOTN t.inp)) :
    ∃ rn, nodeNew v (Src.ofList l) (start + (compileOTN t.inp).length - 1) = some rn ∧
      Decodes (Src.ofList l) rn ⟨false, 0, [t]⟩ start (start + (compileOTN t.inp).length - 1) := by
  have hci := commonIdx_lt t.inp
  have hsb : (UInt8.ofNat (0b11000000 + commonIdx t.inp 63)).toNat = 192 + commonIdx t.inp 63 :=
    toNat_ofNat_lt (by omega)
  have hmod : (192 + commonIdx t.inp 63) % 64 = commonIdx t.inp 63 := by omega
  have hdiv : (192 + commonIdx t.inp 63) / 64 = 3 := by omega
  simp only [compileOTN] at hseg ⊢
  obtain ⟨h1, h2⟩ := seg_append hseg
  have h2 := seg_single h2
  rcases commonInput_cases t.inp with ⟨hc, hn⟩ | ⟨hc, hn⟩
  · simp only [hc, if_true, List.length_cons, List.length_nil, List.length_append] at h1 h2 ⊢
    have h1 := seg_single h1
    exact otn_core v l start 1 (192 + commonIdx t.inp 63) t _ hpos h2 (hc ▸ hsb) hdiv
      (by rw [rIlen, hmod, hc]; rfl)
      (Or.inr ⟨by rw [hmod, hc]; rfl, by simpa using h1⟩) hout haddr
  · simp only [hc, if_false, List.length_cons, List.length_nil, List.length_append] at h1 h2 ⊢
    exact otn_core v l start 0 (192 + commonIdx t.inp 63) t _ hpos h2 hsb hdiv
      (by rw [rIlen, hmod, hn]; rfl)
      (Or.inl (by rw [hmod, hn])) hout haddr

/-! ### F. `StateOneTrans` -/

theorem ilen_eq (rn : RNode) : rn.ilen = rIlen rn.sb := rfl

theorem ot_core (v : Nat) (l : List UInt8) (start il s osize tsize : Nat) (t : Tr) (vb szb : UInt8)
    (hpos : 0 < start)
    (hso : Seg l start (packIn t.out osize))
    (hst : Seg l (start + osize) (packIn (deltaVal start t.addr) tsize))
    (hgz : l[start + osize + tsize]? = some szb) (hsz : szb.toNat = tsize * 16 + osize)
    (hg : l[start + osize + tsize + 1 + il]? = some vb) (hs : vb.toNat = s) (htop : s / 64 = 2)
    (hlen : rIlen s = il)
    (hin : commonInput (s % 64) = some t.inp ∨
      (commonInput (s % 64) = none ∧ l[start + osize + tsize + 1 + il - 1]? = some t.inp))
    (ht1 : 1 ≤ tsize) (ht8 : tsize ≤ 8) (hdv : deltaVal start t.addr < 256 ^ tsize)
    (ho8 : osize ≤ 8) (ho0 : osize = 0 → t.out = 0) (hov : t.out < 256 ^ osize)
    (htgt : t.addr = 0 ∨ t.addr < start) :
    ∃ rn, nodeNew v (Src.ofList l) (start + osize + tsize + 1 + il) = some rn ∧
      Decodes (Src.ofList l) rn ⟨false, 0, [t]⟩ start (start + osize + tsize + 1 + il) := by
  have hd : (tsize * 16 + osize) / 16 = tsize := by omega
  have hm : (tsize * 16 + osize) % 16 = osize := by omega
  have hnn := nodeNew_ot (v := v) (d := Src.ofList l) (addr := start + osize + tsize + 1 + il)
    (by omega) hg hs htop
    (by rw [hlen, show start + osize + tsize + 1 + il - il - 1 = start + osize + tsize by omega]; exact hgz) hsz
  rw [hd, hm, hlen, show start + osize + tsize + 1 + il - il - 1 - tsize - osize = start by omega] at hnn
  refine ⟨_, hnn, ?_⟩
  have hinp : (mkOT v s (start + osize + tsize + 1 + il) start tsize osize).input (Src.ofList l) 0
      = some t.inp := one_input (Or.inr rfl) hin
  refine ⟨rfl, rfl, rfl, rfl, rfl, ?_, ?_⟩
  · intro i hi
    have : i = 0 := by simpa using hi
    subst this
    have ha : (mkOT v s (start + osize + tsize + 1 + il) start tsize osize).transAddr (Src.ofList l) 0
        = some t.addr := by
      simp only [RNode.transAddr, ilen_eq, mkOT, hlen, unpackDelta]
      rw [show start + osize + tsize + 1 + il - il - 1 - tsize = start + osize by omega,
        seg_unpackChecked hst hdv ht1 ht8]
      simp only [ne_eq, not_true_eq_false, if_false, Option.map_some, delta_back htgt]
    refine ⟨transition_of hinp ?_ ha, ha⟩
    simp only [RNode.output, ilen_eq, mkOT, hlen]
    by_cases h0 : osize = 0
    · simp [h0, ho0 h0]
    · rw [show start + osize + tsize + 1 + il - il - 1 - tsize - osize = start by omega,
        seg_unpackChecked hso hov (by omega) ho8]
      simp [h0]
  · intro b
    simp only [RNode.findInput, mkOT] at hinp ⊢
    simp only [hinp, transIdx_single]

theorem ot_decodes (v : Nat) (l : List UInt8) (start : Nat) (t : Tr) (hpos : 0 < start)
    (hsmall : start < 2 ^ 64) (hout : t.out < 2 ^ 64) (htgt : t.addr = 0 ∨ t.addr < start)
    (hseg : Seg l start (compileOT start t)) :
    ∃ rn, nodeNew v (Src.ofList l) (start + (compileOT start t).length - 1) = some rn ∧
      Decodes (Src.ofList l) rn ⟨false, 0, [t]⟩ start (start + (compileOT start t).length - 1) := by
  have hci := commonIdx_lt t.inp
  have hsb : (UInt8.ofNat (0b10000000 + commonIdx t.inp 63)).toNat = 128 + commonIdx t.inp 63 :=
    toNat_ofNat_lt (by omega)
  have hmod : (128 + commonIdx t.inp 63) % 64 = commonIdx t.inp 63 := by omega
  have hdiv : (128 + commonIdx t.inp 63) / 64 = 2 := by omega
  simp only [compileOT] at hseg ⊢
  generalize hO : (if t.out = 0 then 0 else packSize t.out) = osize at hseg ⊢
  generalize hT : packSize (deltaVal start t.addr) = tsize at hseg ⊢
  have ht1 : 1 ≤ tsize := hT ▸ packSize_pos _
  have ht8 : tsize ≤ 8 := hT ▸ packSize_le _
  have hdv : deltaVal start t.addr < 256 ^ tsize := hT ▸ lt_pow_packSize _ (deltaVal_lt hsmall)
  have ho8 : osize ≤ 8 := by
    rw [← hO]; split
    · omega
    · exact packSize_le _
  have ho0 : osize = 0 → t.out = 0 := by
    rw [← hO]; split
    · intro _; assumption
    · have := packSize_pos t.out; omega
  have hov : t.out < 256 ^ osize := by
    rw [← hO]; split
    · rename_i h; rw [h]; decide
    · exact lt_pow_packSize _ hout
  have hszb : (UInt8.ofNat (tsize * 16 + osize)).toNat = tsize * 16 + osize :=
    toNat_ofNat_lt (by omega)
  obtain ⟨h1, h5⟩ := seg_append hseg
  obtain ⟨h1, h4⟩ := seg_append h1
  obtain ⟨h1, h3⟩ := seg_append h1
  obtain ⟨h1, h2⟩ := seg_append h1
  simp only [List.length_append, packIn_length, List.length_cons, List.length_nil] at h2 h3 h4 h5 ⊢
  have h3 := seg_single h3
  have h5 := seg_single h5
  rcases commonInput_cases t.inp with ⟨hc, hn⟩ | ⟨hc, hn⟩
  · simp only [hc, if_true, List.length_cons, List.length_nil] at h4 h5 ⊢
    have h4 := seg_single h4
    rw [show start + (osize + tsize + (0 + 1) + (0 + 1) + (0 + 1)) - 1 = start + osize + tsize + 1 + 1 by omega]
    exact ot_core v l start 1 (128 + commonIdx t.inp 63) osize tsize t _ _ hpos h1 h2
      (idx_cast h3 (by omega)) hszb (idx_cast h5 (by omega)) (hc ▸ hsb) hdiv
      (by rw [rIlen, hmod, hc]; rfl)
      (Or.inr ⟨by rw [hmod, hc]; rfl, idx_cast h4 (by omega)⟩) ht1 ht8 hdv ho8 ho0 hov htgt
  · simp only [hc, if_false, List.length_nil] at h4 h5 ⊢
    rw [show start + (osize + tsize + (0 + 1) + 0 + (0 + 1)) - 1 = start + osize + tsize + 1 + 0 by omega]
    exact ot_core v l start 0 (128 + commonIdx t.inp 63) osize tsize t _ _ hpos h1 h2
      (idx_cast h3 (by omega)) hszb (idx_cast h5 (by omega)) hsb hdiv
      (by rw [rIlen, hmod, hn]; rfl)
      (Or.inl (by rw [hmod, hn])) ht1 ht8 hdv ho8 ho0 hov htgt

end Fst
