import FstVerif.Model.Reader
/-
Shared vocabulary of the deep proofs: the abstract node store, its
denotation, and the two interfaces between the proof layers.

* `Store` — the nodes a builder emitted, as (address, node) pairs in emission
  order. Address 0 is the shared empty final node and is never in the store.
* `GoodStore s den` — what the algorithms over nodes need to know about a store
  and its denotation `den : address → sorted association list`
  (proved for builder output in Proofs/Build.lean).
* `Represents acc s` — the byte-level (or any other) node access returns
  exactly the nodes of `s` (proved for builder output in Proofs/Codec.lean).
-/
namespace Fst

abbrev Store := List (Nat × BNode)

def lift (b : UInt8) (o : Nat) (l : KV) : KV := l.map fun kv => (b :: kv.1, o + kv.2)

def own (n : BNode) : KV := if n.fin then [([], n.fout)] else []

/-- what a node spells, given what its targets spell -/
def denNodeWith (d : Nat → KV) (n : BNode) : KV :=
  own n ++ n.trans.flatMap fun t => lift t.inp t.out (d t.addr)

/-- inputs of a node strictly increasing -/
def SortedInputs (n : BNode) : Prop := n.trans.Pairwise fun a b => a.inp < b.inp

structure GoodStore (s : Store) (den : Nat → KV) : Prop where
  den_zero : den 0 = [([], 0)]
  unfold : ∀ a n, (a, n) ∈ s → den a = denNodeWith den n
  addr_pos : ∀ a n, (a, n) ∈ s → 0 < a
  functional : ∀ a n m, (a, n) ∈ s → (a, m) ∈ s → n = m
  acyclic : ∀ a n, (a, n) ∈ s → ∀ t ∈ n.trans, t.addr < a ∧ (t.addr = 0 ∨ ∃ m, (t.addr, m) ∈ s)
  sorted : ∀ a n, (a, n) ∈ s → SortedInputs n

/-- index of the transition on byte `b` -/
def transIdx (n : BNode) (b : UInt8) : Option Nat :=
  n.trans.findIdx? fun t => t.inp == b

/-- the node stored at an address (address 0 = the empty final node) -/
def nodeAt (s : Store) (a : Nat) : Option BNode :=
  if a = 0 then some ⟨true, 0, []⟩ else s.lookup a

/-- a node access that returns exactly the nodes of `s` -/
structure Represents {N : Type} (acc : NodeAccess N) (s : Store) : Prop where
  node : ∀ a n, nodeAt s a = some n → ∃ x, acc.node a = some x ∧ acc.addr x = a ∧
    acc.isFinal x = n.fin ∧ acc.finalOutput x = n.fout ∧ acc.len x = n.trans.length ∧
    (∀ i (h : i < n.trans.length), acc.transition x i = some n.trans[i] ∧
        acc.transitionAddr x i = some n.trans[i].addr) ∧
    (∀ b, acc.findInput x b = some (transIdx n b))

/-- strict key order on association lists -/
def SortedKV : KV → Prop
  | [] => True
  | [_] => True
  | a :: b :: rest => lexLt a.1 b.1 = true ∧ SortedKV (b :: rest)

def lookupKV (m : KV) (k : Key) : Option Nat := (m.find? fun kv => kv.1 == k).map (·.2)

end Fst
