import FstVerif.Proofs.CodecAny
/-
T-Codec, part 4 of 4 — main results.

* `codec_roundtrip` / `codec_seg`: `nodeNew` at the address of a node written by
  `compileNode` decodes exactly that node (extent, finality, final output,
  every transition, `find_input` on every byte, `toBNode`). Versions ≥ 2
  unconditionally; version 1 for nodes with at most `TRANS_INDEX_THRESHOLD`
  transitions (the shipped writer always emits the index, a version-1 reader
  ignores it).
* `compileNodeC_flatten`: the chunked encoder of `Model/Build.lean` writes the same bytes.
* `byteAccess_represents`: store-level corollary (`Represents` of `Proofs/Den.lean`).

`WFNode` differs from the sketch in the task in two places, both needed for truth:
`pos : 0 < start` (with `start = 0` a one-byte node would get address 0 =
`EMPTY_ADDRESS`), and `next : lastAddr = start - 1 ∨ ∀ t ∈ n.trans, t.addr ≠ lastAddr`
(with `lastAddr = NONE_ADDRESS = 1` a target equal to 1 would be written as
`StateOneTransNext` and read back as `start - 1`). `WFNode.ofBuilder` derives it
from the builder-shaped hypotheses.
-/
namespace Fst

/-! ### H. the node codec round trip -/

theorem mapM_some {α β : Type} (f : α → Option β) (g : α → β) (l : List α)
    (h : ∀ a ∈ l, f a = some (g a)) : l.mapM f = some (l.map g) := by
  induction l with
  | nil => rfl
  | cons a l ih =>
    rw [List.mapM_cons, h a List.mem_cons_self, ih (fun b hb => h b (List.mem_cons_of_mem _ hb))]
    rfl

theorem Decodes.toBNode {d : Src} {rn : RNode} {n : BNode} {start addr : Nat}
    (D : Decodes d rn n start addr) : rn.toBNode d = some n := by
  have h : rn.transitions d = some n.trans := by
    rw [RNode.transitions, D.ntrans,
      mapM_some _ (fun i => n.trans[i]?.getD default) _ (by
        intro i hi
        have hi := List.mem_range.mp hi
        rw [(D.trans i hi).1]; simp [hi])]
    congr 1
    apply List.ext_getElem
    · simp
    · intro i h1 h2; simp at h1; simp [h1]
  rw [RNode.toBNode, h, Option.map_some, D.fin, D.fout]

/-- the round trip over any byte list that contains the encoding at offset `start` -/
theorem codec_seg (v : Nat) (n : BNode) (lastAddr start : Nat) (enc l : List UInt8)
    (hv : 2 ≤ v ∨ n.trans.length ≤ Gen.TRANS_INDEX_THRESHOLD)
    (wf : WFNode n lastAddr start) (henc : compileNode n lastAddr start = some enc)
    (hseg : Seg l start enc) :
    enc ≠ [] ∧ ∃ rn, nodeNew v (Src.ofList l) (start + enc.length - 1) = some rn ∧
      Decodes (Src.ofList l) rn n start (start + enc.length - 1) := by
  unfold compileNode at henc
  rw [if_neg (by have := wf.ntrans; omega), wf.notEmpty] at henc
  simp only [Bool.false_eq_true, if_false] at henc
  split at henc
  · -- `StateAnyTrans`
    injection henc with henc
    subst henc
    refine ⟨?_, any_decodes v l start n hv wf.pos wf.small wf.ntrans wf.sorted wf.targets
      wf.outs.1 wf.outs.2 wf.finOut hseg⟩
    intro h
    have := compileAny_length start n
    rw [h] at this
    simp only [anyAddr, anyP, List.length_nil] at this
    omega
  · rename_i hne
    simp only [bne_iff_ne, ne_eq, Bool.or_eq_true, not_or, Decidable.not_not,
      Bool.not_eq_true] at hne
    obtain ⟨hlen, hfin⟩ := hne
    obtain ⟨f, fo, ts⟩ := n
    simp only at hlen hfin henc hv
    subst hfin
    have hfo : fo = 0 := wf.finOut rfl
    subst hfo
    match ts, hlen with
    | [t], _ =>
      simp only at henc
      have htgt := wf.targets t List.mem_cons_self
      split at henc
      · rename_i hc
        simp only [Bool.and_eq_true, decide_eq_true_eq] at hc
        injection henc with henc
        subst henc
        have hla : lastAddr = start - 1 := by
          rcases wf.next with h | h
          · exact h
          · exact absurd hc.1 (h t List.mem_cons_self)
        refine ⟨by simp [compileOTN], otn_decodes v l start t wf.pos hc.2 (hc.1.trans hla) hseg⟩
      · injection henc with henc
        subst henc
        refine ⟨by simp [compileOT], ot_decodes v l start t wf.pos wf.small
          (wf.outs.2 t List.mem_cons_self) htgt hseg⟩

theorem compileNode_isSome (n : BNode) (lastAddr start : Nat) (h : n.trans.length ≤ 256) :
    ∃ enc, compileNode n lastAddr start = some enc := by
  unfold compileNode
  rw [if_neg (by omega)]
  split
  · exact ⟨_, rfl⟩
  split
  · exact ⟨_, rfl⟩
  · rename_i hne
    simp only [bne_iff_ne, ne_eq, Bool.or_eq_true, not_or, Decidable.not_not] at hne
    obtain ⟨f, fo, ts⟩ := n
    match ts, hne.1 with
    | [t], _ => simp only; split <;> exact ⟨_, rfl⟩

/-- **Main theorem (node codec round trip).** For every well-formed node `n`
written at byte offset `start` (= `pre.length`) by `compileNode`, and any
surrounding bytes, `nodeNew` at the node's address (its last byte) returns a
node that decodes to exactly `n`. Versions 2 and 3 are unconditional; a
version-1 reader ignores the transition index that the shipped writer always
emits for more than `TRANS_INDEX_THRESHOLD` transitions, hence the guard `hv`. -/
theorem codec_roundtrip (v : Nat) (n : BNode) (lastAddr start : Nat) (enc pre post : List UInt8)
    (hv : 2 ≤ v ∨ n.trans.length ≤ Gen.TRANS_INDEX_THRESHOLD)
    (wf : WFNode n lastAddr start) (henc : compileNode n lastAddr start = some enc)
    (hpre : pre.length = start) :
    let d := Src.ofList (pre ++ enc ++ post)
    let addr := start + enc.length - 1
    enc ≠ [] ∧ ∃ rn, nodeNew v d addr = some rn ∧
      rn.start = addr ∧ rn.end_ = start ∧ rn.fin = n.fin ∧ rn.fout = n.fout ∧
      rn.ntrans = n.trans.length ∧
      (∀ i (h : i < n.trans.length),
        rn.transition d i = some n.trans[i] ∧ rn.transAddr d i = some n.trans[i].addr) ∧
      (∀ b, rn.findInput d b = some (transIdx n b)) ∧
      rn.toBNode d = some n := by
  intro d addr
  obtain ⟨hne, rn, hrn, D⟩ := codec_seg v n lastAddr start enc (pre ++ enc ++ post) hv wf henc
    (hpre ▸ seg_mid pre enc post)
  exact ⟨hne, rn, hrn, D.start_eq, D.end_eq, D.fin, D.fout, D.ntrans, D.trans, D.find, D.toBNode⟩

/-- `WFNode` from the builder invariant in the form of the task statement -/
theorem WFNode.ofBuilder {n : BNode} {lastAddr start : Nat}
    (ntrans : n.trans.length ≤ 256) (sorted : SortedInputs n)
    (targets : ∀ t ∈ n.trans, t.addr = 0 ∨ t.addr < start)
    (outs : n.fout < 2^64 ∧ ∀ t ∈ n.trans, t.out < 2^64)
    (small : start < 2^64) (pos : 0 < start) (notEmpty : isEmptyFinal n = false)
    (next : lastAddr = start - 1 ∨ lastAddr = NONE_ADDRESS)
    (notOne : ∀ t ∈ n.trans, t.addr ≠ NONE_ADDRESS)
    (finOut : n.fin = false → n.fout = 0) : WFNode n lastAddr start :=
  { ntrans, sorted, targets, outs, small, pos, notEmpty, finOut
    next := by
      rcases next with h | h
      · exact Or.inl h
      · exact Or.inr (fun t ht => h ▸ notOne t ht) }

/-! examples: the hypotheses of `codec_roundtrip` are satisfiable -/

/-- a final node with 40 transitions (index path), outputs and mixed targets -/
def exBig : BNode :=
  ⟨true, 77777, (List.range 40).map fun i =>
    ⟨UInt8.ofNat (3 * i + 1), 1000 * i, if i % 5 = 0 then 0 else 50 + 17 * i⟩⟩

theorem exBig_wf : WFNode exBig 99999 100000 where
  ntrans := by decide
  sorted := by unfold SortedInputs; decide +kernel
  targets := by decide +kernel
  outs := ⟨by decide, by decide +kernel⟩
  small := by decide
  pos := by decide
  notEmpty := by decide
  next := Or.inl rfl
  finOut := by decide

example : ∃ enc, compileNode exBig 99999 100000 = some enc ∧ WFNode exBig 99999 100000 ∧
    (2 ≤ 3 ∨ exBig.trans.length ≤ Gen.TRANS_INDEX_THRESHOLD) :=
  let ⟨enc, h⟩ := compileNode_isSome exBig 99999 100000 (by decide)
  ⟨enc, h, exBig_wf, Or.inl (by decide)⟩

/-- a `StateOneTransNext` node and a `StateOneTrans` node -/
example : WFNode ⟨false, 0, [⟨5, 0, 99⟩]⟩ 99 100 ∧
    compileNode ⟨false, 0, [⟨5, 0, 99⟩]⟩ 99 100 = some [5, 192] ∧
    WFNode ⟨false, 0, [⟨116, 300, 20⟩]⟩ 99 100 ∧
    compileNode ⟨false, 0, [⟨116, 300, 20⟩]⟩ 99 100 = some [44, 1, 80, 18, 129] := by
  refine ⟨⟨by decide, by unfold SortedInputs; decide, by decide, by decide, by decide, by decide,
    by decide, Or.inl rfl, by decide⟩, by decide +kernel,
    ⟨by decide, by unfold SortedInputs; decide, by decide, by decide, by decide, by decide,
    by decide, Or.inl rfl, by decide⟩, by decide +kernel⟩

/-! ### I. the chunked encoder of `Model/Build.lean` writes the same bytes -/

theorem flatten_map_single {α β : Type} (f : α → β) (l : List α) :
    (l.map fun t => [f t]).flatten = l.map f := by
  induction l with
  | nil => rfl
  | cons a l ih => simp [ih]

theorem flatten_map_eq_flatMap {α β : Type} (f : α → List β) (l : List α) :
    (l.map f).flatten = l.flatMap f := by
  induction l with
  | nil => rfl
  | cons a l ih => simp [ih]

theorem compileOTNc_flatten (b : UInt8) : (compileOTNc b).flatten = compileOTN b := by
  unfold compileOTNc compileOTN
  by_cases hc : commonIdx b 63 = 0 <;> simp [hc]

theorem compileOTc_flatten (a : Nat) (t : Tr) : (compileOTc a t).flatten = compileOT a t := by
  unfold compileOTc compileOT
  by_cases h0 : t.out = 0 <;> by_cases hc : commonIdx t.inp 63 = 0 <;> simp [h0, hc, packIn]

theorem compileAnyc_flatten (a : Nat) (n : BNode) : (compileAnyc a n).flatten = compileAny a n := by
  unfold compileAnyc compileAny
  have e1 : ∀ (f : Tr → List UInt8), (n.trans.reverse.map f).flatten = n.trans.reverse.flatMap f :=
    fun f => flatten_map_eq_flatMap f _
  have e2 : (n.trans.reverse.flatMap fun t => [t.inp]) = n.trans.reverse.map (·.inp) := by
    rw [← flatten_map_eq_flatMap]; exact flatten_map_single _ _
  by_cases h1 : anyOuts n <;> by_cases h2 : n.fin <;>
    by_cases h3 : n.trans.length > Gen.TRANS_INDEX_THRESHOLD <;>
    by_cases h4 : (if n.trans.length % 256 ≤ 63 then n.trans.length % 256 else 0) = 0 <;>
    simp only [h1, h2, h3, h4, if_true, if_false, List.flatten_append, e1, e2, List.flatten_cons,
      List.flatten_nil, List.append_nil, List.nil_append, Bool.false_eq_true]

theorem compileNodeC_flatten (n : BNode) (lastAddr a : Nat) :
    (compileNodeC n lastAddr a).map List.flatten = compileNode n lastAddr a := by
  unfold compileNodeC compileNode
  split
  · rfl
  split
  · rfl
  split
  · simp [compileAnyc_flatten]
  · obtain ⟨f, fo, ts⟩ := n
    match ts with
    | [t] => simp only; split <;> simp [compileOTNc_flatten, compileOTc_flatten]
    | [] => rfl
    | _ :: _ :: _ => rfl

/-- in the form used by `BState.compile`: the byte count it adds is the length of the encoding -/
theorem compileNodeC_flatten_some {n : BNode} {lastAddr a : Nat} {chunks : List (List UInt8)}
    (h : compileNodeC n lastAddr a = some chunks) :
    compileNode n lastAddr a = some chunks.flatten ∧
      (chunks.map List.length).sum = chunks.flatten.length := by
  refine ⟨by rw [← compileNodeC_flatten, h]; rfl, by rw [List.length_flatten]⟩

/-! ### J. store level: the bytes of consecutively emitted nodes represent the store -/

/-- `es` = emitted nodes `(addr, node, encoding)`, laid out consecutively from byte offset `start`:
each is well-formed (for some `lastAddr`), `enc` is its `compileNode` output, its address is
that of its last byte, and it is readable by a version-`v` reader. -/
def Laid (v : Nat) : Nat → List (Nat × BNode × List UInt8) → Prop
  | _, [] => True
  | start, e :: rest =>
    (∃ last, WFNode e.2.1 last start ∧ compileNode e.2.1 last start = some e.2.2) ∧
    e.1 = start + e.2.2.length - 1 ∧
    (2 ≤ v ∨ e.2.1.trans.length ≤ Gen.TRANS_INDEX_THRESHOLD) ∧
    Laid v (start + e.2.2.length) rest

theorem laid_mem (v : Nat) (es : List (Nat × BNode × List UInt8)) (start : Nat)
    (pre post : List UInt8) (hpre : pre.length = start) (hl : Laid v start es)
    (e : Nat × BNode × List UInt8) (he : e ∈ es) :
    ∃ st, Seg (pre ++ es.flatMap (·.2.2) ++ post) st e.2.2 ∧
      (∃ last, WFNode e.2.1 last st ∧ compileNode e.2.1 last st = some e.2.2) ∧
      e.1 = st + e.2.2.length - 1 ∧ (2 ≤ v ∨ e.2.1.trans.length ≤ Gen.TRANS_INDEX_THRESHOLD) := by
  induction es generalizing start pre with
  | nil => cases he
  | cons e0 rest ih =>
    obtain ⟨h1, h2, h3, h4⟩ := hl
    rcases List.mem_cons.mp he with rfl | hmem
    · refine ⟨start, ?_, h1, h2, h3⟩
      rw [List.flatMap_cons, ← hpre]
      exact ⟨pre, rest.flatMap (·.2.2) ++ post, by simp, rfl⟩
    · have := ih (start + e0.2.2.length) (pre ++ e0.2.2) (by simp [hpre]) h4 hmem
      rw [List.flatMap_cons]
      simpa [List.append_assoc] using this

theorem lookup_map_mem {es : List (Nat × BNode × List UInt8)} {a : Nat} {n : BNode}
    (h : (es.map fun e => (e.1, e.2.1)).lookup a = some n) : ∃ e ∈ es, e.1 = a ∧ e.2.1 = n := by
  induction es with
  | nil => cases h
  | cons e rest ih =>
    rw [List.map_cons, List.lookup_cons] at h
    split at h
    · rename_i heq
      exact ⟨e, List.mem_cons_self, (by simpa using heq : a = e.1).symm, by simpa using h⟩
    · obtain ⟨e', he', h'⟩ := ih h
      exact ⟨e', List.mem_cons_of_mem _ he', h'⟩

/-- **Store-level corollary.** The byte-level node access over
`header ++ (encodings of es, in order) ++ post` returns exactly the nodes of the store
`es.map (addr, node)`; address 0 is the shared empty final node. -/
theorem byteAccess_represents (v : Nat) (es : List (Nat × BNode × List UInt8))
    (header post : List UInt8) (hl : Laid v header.length es) :
    Represents (byteAccess v (Src.ofList (header ++ es.flatMap (·.2.2) ++ post)))
      (es.map fun e => (e.1, e.2.1)) := by
  constructor
  intro a n hn
  unfold nodeAt at hn
  split at hn
  · rename_i ha
    subst ha
    injection hn with hn
    subst hn
    refine ⟨RNode.emptyFinal v, by simp [byteAccess, nodeNew, EMPTY_ADDRESS], rfl, rfl, rfl, rfl,
      ?_, ?_⟩
    · intro i hi; simp at hi
    · intro b; rfl
  · obtain ⟨e, he, rfl, rfl⟩ := lookup_map_mem hn
    obtain ⟨st, hseg, ⟨last, wf, henc⟩, haddr, hv⟩ := laid_mem v es _ header post rfl hl e he
    obtain ⟨_, rn, hrn, D⟩ := codec_seg v e.2.1 last st e.2.2 _ hv wf henc hseg
    rw [← haddr] at hrn D
    exact ⟨rn, hrn, D.start_eq, D.fin, D.fout, D.ntrans, D.trans, D.find⟩

/-- the layout hypothesis is satisfiable: a final leaf with output 5 at offset 16,
followed by a `StateOneTransNext` node pointing at it -/
example : Laid 3 16 [(19, ⟨true, 5, []⟩, [5, 1, 0, 64]), (20, ⟨false, 0, [⟨97, 0, 19⟩]⟩, [197])] := by
  refine ⟨⟨NONE_ADDRESS, ⟨by decide, by unfold SortedInputs; decide, by decide, by decide, by decide,
    by decide, by decide, Or.inr (by decide), by decide⟩, by decide +kernel⟩, by decide, Or.inl (by decide),
    ⟨19, ⟨by decide, by unfold SortedInputs; decide, by decide, by decide, by decide,
    by decide, by decide, Or.inl rfl, by decide⟩, by decide +kernel⟩, by decide, Or.inl (by decide), trivial⟩

end Fst
