import FstVerif.Model.Sched
/-
Proofs about the `Sorters` thread/channel protocol (`Model/Sched.lean`), part A:
the invariant of reachable states, and from it
  * `sorters_perm`      every batch result is returned exactly once,
  * `sorters_order`     the returned order satisfies `validOrder`,
  * `sorters_progress`  deadlock freedom,
  * `sorters_terminates` every execution has at most `2*total + threads + 1` events.
-/
namespace Fst.Sched

/-! ### generic list lemmas -/

theorem set_split {α : Type} (l : List α) (i : Nat) (w : α) (h : l[i]? = some w) :
    ∃ l1 l2, l = l1 ++ w :: l2 ∧ l1.length = i ∧ ∀ x, l.set i x = l1 ++ x :: l2 := by
  induction l generalizing i with
  | nil => simp at h
  | cons a t ih =>
    cases i with
    | zero =>
      simp at h; subst h; exact ⟨[], t, rfl, rfl, fun x => rfl⟩
    | succ i =>
      simp at h
      obtain ⟨l1, l2, e, hl, hs⟩ := ih i h
      subst e
      exact ⟨a :: l1, l2, rfl, by simp [hl], fun x => by simp [hs]⟩

theorem runs_cons_le (a : Nat) (l : List Nat) : runs (a :: l) ≤ 1 + runs l := by
  cases l with
  | nil => simp [runs]
  | cons b t => simp only [runs]; split <;> omega

theorem runs_append (l1 l2 : List Nat) : runs (l1 ++ l2) ≤ runs l1 + runs l2 := by
  induction l1 with
  | nil => simp [runs]
  | cons a t ih =>
    cases t with
    | nil => simpa [runs] using runs_cons_le a l2
    | cons b r =>
      simp only [List.cons_append, runs] at ih ⊢
      split <;> omega

theorem runs_asc : ∀ (l : List Nat), l.Pairwise (· < ·) → runs l ≤ 1
  | [], _ => by simp [runs]
  | [_], _ => by simp [runs]
  | a :: b :: r, h => by
    have hab : a < b := (List.pairwise_cons.1 h).1 b (by simp)
    have := runs_asc (b :: r) (List.pairwise_cons.1 h).2
    simp only [runs, hab, if_true]; exact this

/-! ### characterisation of `step` -/

theorem step_recv {s s' : St} {w : Nat} (h : step s (.recv w) = some s') :
    ∃ rs, s.next < s.total ∧ s.closed = false ∧ s.workers[w]? = some ⟨none, rs, false⟩ ∧
      s' = { s with next := s.next + 1, workers := s.workers.set w ⟨some s.next, rs, false⟩ } := by
  simp only [step] at h
  split at h
  · rename_i hc
    split at h
    · rename_i rs hw
      exact ⟨rs, hc.1, hc.2, hw, (Option.some.inj h).symm⟩
    · cases h
  · cases h

theorem step_work {s s' : St} {w : Nat} (h : step s (.work w) = some s') :
    ∃ b rs, s.workers[w]? = some ⟨some b, rs, false⟩ ∧
      s' = { s with workers := s.workers.set w ⟨none, rs ++ [b], false⟩ } := by
  simp only [step] at h
  split at h
  · rename_i b rs hw
    exact ⟨b, rs, hw, (Option.some.inj h).symm⟩
  · cases h

theorem step_close {s s' : St} (h : step s .close = some s') :
    s.next = s.total ∧ s.closed = false ∧ s' = { s with closed := true } := by
  simp only [step] at h
  split at h
  · rename_i hc
    exact ⟨hc.1, hc.2, (Option.some.inj h).symm⟩
  · cases h

theorem step_finish {s s' : St} {w : Nat} (h : step s (.finish w) = some s') :
    ∃ rs, s.closed = true ∧ s.workers[w]? = some ⟨none, rs, false⟩ ∧
      s' = { s with workers := s.workers.set w ⟨none, rs, true⟩, collected := s.collected ++ rs } := by
  simp only [step] at h
  split at h
  · rename_i hc
    split at h
    · rename_i rs hw
      exact ⟨rs, hc, hw, (Option.some.inj h).symm⟩
    · cases h
  · cases h

theorem run_append (s : St) (e1 e2 : List Ev) :
    run s (e1 ++ e2) = (run s e1).bind (fun s' => run s' e2) := by
  induction e1 generalizing s with
  | nil => simp [run]
  | cons e es ih =>
    simp only [List.cons_append, run]
    cases step s e with
    | none => simp
    | some s' => simpa using ih s'

/-! ### the invariant -/

/-- results a worker still has to hand over (finished ones and the one in progress) -/
def Worker.pending (w : Worker) : List Nat :=
  if w.done then [] else w.results ++ w.held.toList

structure WOk (next : Nat) (closed : Bool) (w : Worker) : Prop where
  asc : w.results.Pairwise (· < ·)
  lt : ∀ x ∈ w.results, x < next
  held : ∀ b, w.held = some b → b < next ∧ ∀ x ∈ w.results, x < b
  doneClosed : w.done = true → closed = true
  doneHeld : w.done = true → w.held = none

theorem WOk.mono {n n' : Nat} {c c' : Bool} {w : Worker} (h : WOk n c w) (hn : n ≤ n')
    (hc : c = true → c' = true) : WOk n' c' w where
  asc := h.asc
  lt := fun x hx => Nat.lt_of_lt_of_le (h.lt x hx) hn
  held := fun b hb => ⟨Nat.lt_of_lt_of_le (h.held b hb).1 hn, (h.held b hb).2⟩
  doneClosed := fun hd => hc (h.doneClosed hd)
  doneHeld := h.doneHeld

structure Inv (threads total : Nat) (s : St) : Prop where
  len : s.workers.length = threads
  tot : s.total = total
  le : s.next ≤ s.total
  closed : s.closed = true → s.next = s.total
  perm : (s.collected ++ s.workers.flatMap Worker.pending).Perm (List.range s.next)
  wok : ∀ w ∈ s.workers, WOk s.next s.closed w
  runs : runs s.collected ≤ s.workers.countP (·.done)

theorem inv_init (threads total : Nat) : Inv threads total (init threads total) where
  len := by simp [init]
  tot := rfl
  le := Nat.zero_le _
  closed := by simp [init]
  perm := by
    have : (List.replicate threads (⟨none, [], false⟩ : Worker)).flatMap Worker.pending = [] := by
      rw [List.flatMap_eq_nil_iff]
      intro w hw
      rw [List.eq_of_mem_replicate hw]; rfl
    simp [init, this]
  wok := by
    intro w hw
    have : w = ⟨none, [], false⟩ := List.eq_of_mem_replicate hw
    subst this
    exact ⟨by simp, by simp, by simp, by simp, by simp⟩
  runs := by simp [init, Sched.runs]

theorem inv_step {threads total : Nat} {s s' : St} {e : Ev} (hI : Inv threads total s)
    (h : step s e = some s') : Inv threads total s' := by
  cases e with
  | recv w =>
    obtain ⟨rs, hlt, hcl, hw, rfl⟩ := step_recv h
    obtain ⟨l1, l2, hl, _, hset⟩ := set_split _ _ _ hw
    have hwok := hI.wok
    have hperm := hI.perm
    have hruns := hI.runs
    rw [hl] at hwok hperm hruns
    refine ⟨by simp [hI.len], hI.tot, Nat.succ_le_of_lt hlt, by simp [hcl], ?_, ?_, ?_⟩
    · simp only [hset, List.range_succ]
      rw [List.perm_iff_count] at hperm ⊢
      intro a
      have := hperm a
      simp only [List.flatMap_append, List.flatMap_cons, List.count_append, Worker.pending,
        Option.toList, Bool.false_eq_true, if_false, List.count_nil] at this ⊢
      omega
    · simp only [hset]
      intro x hx
      have hold : WOk s.next s.closed ⟨none, rs, false⟩ := hwok _ (by simp)
      rcases List.mem_append.1 hx with hx | hx
      · exact (hwok x (by simp [hx])).mono (Nat.le_succ _) id
      · rcases List.mem_cons.1 hx with hx | hx
        · subst hx
          exact ⟨hold.asc, fun y hy => Nat.lt_succ_of_lt (hold.lt y hy),
            fun b hb => by
              have : s.next = b := by simpa using hb
              subst this
              exact ⟨Nat.lt_succ_self _, hold.lt⟩,
            by simp, by simp⟩
        · exact (hwok x (by simp [hx])).mono (Nat.le_succ _) id
    · simp only [hset]
      simpa [List.countP_append, List.countP_cons] using hruns
  | work w =>
    obtain ⟨b, rs, hw, rfl⟩ := step_work h
    obtain ⟨l1, l2, hl, _, hset⟩ := set_split _ _ _ hw
    have hwok := hI.wok
    have hperm := hI.perm
    have hruns := hI.runs
    rw [hl] at hwok hperm hruns
    refine ⟨by simp [hI.len], hI.tot, hI.le, hI.closed, ?_, ?_, ?_⟩
    · simp only [hset]
      rw [List.perm_iff_count] at hperm ⊢
      intro a
      have := hperm a
      simp only [List.flatMap_append, List.flatMap_cons, List.count_append, Worker.pending,
        Option.toList, Bool.false_eq_true, if_false, List.count_nil] at this ⊢
      omega
    · simp only [hset]
      intro x hx
      have hold : WOk s.next s.closed ⟨some b, rs, false⟩ := hwok _ (by simp)
      rcases List.mem_append.1 hx with hx | hx
      · exact hwok x (by simp [hx])
      · rcases List.mem_cons.1 hx with hx | hx
        · subst hx
          have hb := hold.held b rfl
          refine ⟨?_, ?_, by simp, by simp, by simp⟩
          · rw [List.pairwise_append]
            refine ⟨hold.asc, by simp, ?_⟩
            intro z hz y hy
            have : y = b := by simpa using hy
            subst this
            exact hb.2 z hz
          · intro y hy
            rcases List.mem_append.1 hy with hy | hy
            · exact hold.lt y hy
            · have : y = b := by simpa using hy
              subst this
              exact hb.1
        · exact hwok x (by simp [hx])
    · simp only [hset]
      simpa [List.countP_append, List.countP_cons] using hruns
  | close =>
    obtain ⟨hn, hcl, rfl⟩ := step_close h
    exact ⟨hI.len, hI.tot, hI.le, fun _ => hn, hI.perm,
      fun w hw => (hI.wok w hw).mono (Nat.le_refl _) (fun _ => rfl), hI.runs⟩
  | finish w =>
    obtain ⟨rs, hcl, hw, rfl⟩ := step_finish h
    obtain ⟨l1, l2, hl, _, hset⟩ := set_split _ _ _ hw
    have hwok := hI.wok
    have hperm := hI.perm
    have hruns := hI.runs
    rw [hl] at hwok hperm hruns
    refine ⟨by simp [hI.len], hI.tot, hI.le, hI.closed, ?_, ?_, ?_⟩
    · simp only [hset]
      rw [List.perm_iff_count] at hperm ⊢
      intro a
      have := hperm a
      simp only [List.flatMap_append, List.flatMap_cons, List.count_append, Worker.pending,
        Option.toList, Bool.false_eq_true, if_false, if_true, List.count_nil] at this ⊢
      omega
    · simp only [hset]
      intro x hx
      have hold : WOk s.next s.closed ⟨none, rs, false⟩ := hwok _ (by simp)
      rcases List.mem_append.1 hx with hx | hx
      · exact hwok x (by simp [hx])
      · rcases List.mem_cons.1 hx with hx | hx
        · subst hx
          exact ⟨hold.asc, hold.lt, by simp, fun _ => hcl, by simp⟩
        · exact hwok x (by simp [hx])
    · simp only [hset]
      have h1 := runs_append s.collected rs
      have h2 := runs_asc rs (hwok ⟨none, rs, false⟩ (by simp)).asc
      simp only [List.countP_append, List.countP_cons, Bool.false_eq_true, if_false,
        if_true] at hruns ⊢
      omega

theorem inv_run {threads total : Nat} {s s' : St} {evs : List Ev} (hI : Inv threads total s)
    (h : run s evs = some s') : Inv threads total s' := by
  induction evs generalizing s with
  | nil => simp [run] at h; subst h; exact hI
  | cons e es ih =>
    simp only [run] at h
    cases hs : step s e with
    | none => simp [hs] at h
    | some s1 => simp only [hs] at h; exact ih (inv_step hI hs) h

/-- the states that some interleaving of the protocol reaches -/
def Reachable (threads total : Nat) (s : St) : Prop :=
  ∃ evs, run (init threads total) evs = some s

theorem reachable_inv {threads total : Nat} {s : St} (h : Reachable threads total s) :
    Inv threads total s := by
  obtain ⟨evs, h⟩ := h
  exact inv_run (inv_init threads total) h

/-! ### 1. every batch exactly once -/

theorem terminal_iff {s : St} : s.terminal = true ↔ s.closed = true ∧ ∀ w ∈ s.workers, w.done = true := by
  simp [St.terminal, List.all_eq_true]

theorem sorters_perm {threads total : Nat} {s : St} (hr : Reachable threads total s)
    (ht : s.terminal = true) : s.collected.Perm (List.range total) := by
  have hI := reachable_inv hr
  obtain ⟨hc, hd⟩ := terminal_iff.1 ht
  have hp := hI.perm
  have : s.workers.flatMap Worker.pending = [] := by
    rw [List.flatMap_eq_nil_iff]
    intro w hw
    simp [Worker.pending, hd w hw]
  rw [this, List.append_nil, hI.closed hc, hI.tot] at hp
  exact hp

/-! ### 2. the returned order is valid -/

theorem validOrder_iff {threads total : Nat} {order : List Nat} :
    validOrder threads total order = true ↔
      order.length = total ∧ (∀ i, i < total → i ∈ order) ∧ runs order ≤ threads := by
  simp [validOrder, List.all_eq_true, and_assoc]

theorem sorters_runs {threads total : Nat} {s : St} (hr : Reachable threads total s) :
    runs s.collected ≤ threads := by
  have hI := reachable_inv hr
  have := hI.runs
  have h2 : s.workers.countP (·.done) ≤ s.workers.length := List.countP_le_length
  rw [hI.len] at h2
  omega

theorem sorters_order {threads total : Nat} {s : St} (hr : Reachable threads total s)
    (ht : s.terminal = true) : validOrder threads total s.collected = true := by
  have hp := sorters_perm hr ht
  rw [validOrder_iff]
  refine ⟨by simpa using hp.length_eq, ?_, sorters_runs hr⟩
  intro i hi
  exact hp.mem_iff.2 (List.mem_range.2 hi)

/-! ### 3. deadlock freedom -/

theorem sorters_progress {threads total : Nat} {s : St} (hth : 1 ≤ threads)
    (hr : Reachable threads total s) (ht : s.terminal = false) : ∃ e, (step s e).isSome := by
  have hI := reachable_inv hr
  cases hc : s.closed with
  | false =>
    by_cases hn : s.next = s.total
    · exact ⟨.close, by simp [step, hn, hc]⟩
    · have hlt : s.next < s.total := Nat.lt_of_le_of_ne hI.le hn
      have hpos : 0 < s.workers.length := by rw [hI.len]; exact hth
      have hw0 : s.workers[0]? = some s.workers[0] := List.getElem?_eq_getElem hpos
      have hok := hI.wok s.workers[0] (List.getElem_mem hpos)
      rcases hw : s.workers[0] with ⟨held, rs, done⟩
      rw [hw] at hw0 hok
      have hd : done = false := by
        cases done with
        | false => rfl
        | true => have := hok.doneClosed rfl; simp [hc] at this
      subst hd
      cases held with
      | none => exact ⟨.recv 0, by simp [step, hlt, hc, hw0]⟩
      | some b => exact ⟨.work 0, by simp [step, hw0]⟩
  | true =>
    have hnd : ¬ ∀ w ∈ s.workers, w.done = true := by
      intro hall
      have := terminal_iff.2 ⟨hc, hall⟩
      simp [ht] at this
    have : ∃ w ∈ s.workers, w.done = false := by
      apply Classical.byContradiction
      intro hne
      apply hnd
      intro w hw
      cases hd : w.done with
      | true => rfl
      | false => exact absurd ⟨w, hw, hd⟩ hne
    obtain ⟨w, hw, hd⟩ := this
    obtain ⟨i, hi, hwi⟩ := List.getElem_of_mem hw
    have hw0 : s.workers[i]? = some w := by rw [List.getElem?_eq_getElem hi, hwi]
    rcases w with ⟨held, rs, done⟩
    simp only at hd
    subst hd
    cases held with
    | none => exact ⟨.finish i, by simp [step, hc, hw0]⟩
    | some b => exact ⟨.work i, by simp [step, hw0]⟩

/-! ### 4. termination -/

/-- a measure that every enabled event decreases -/
def μ (s : St) : Nat :=
  2 * (s.total - s.next) + s.workers.countP (·.held.isSome) + (if s.closed then 0 else 1)
    + s.workers.countP (fun w => !w.done)

theorem step_decreases {s s' : St} {e : Ev} (h : step s e = some s') : μ s' < μ s := by
  cases e with
  | recv w =>
    obtain ⟨rs, hlt, hcl, hw, rfl⟩ := step_recv h
    obtain ⟨l1, l2, hl, _, hset⟩ := set_split _ _ _ hw
    simp only [μ, hset]
    rw [hl]
    simp [List.countP_append]
    omega
  | work w =>
    obtain ⟨b, rs, hw, rfl⟩ := step_work h
    obtain ⟨l1, l2, hl, _, hset⟩ := set_split _ _ _ hw
    simp only [μ, hset]
    rw [hl]
    simp [List.countP_append]
  | close =>
    obtain ⟨hn, hcl, rfl⟩ := step_close h
    simp [μ, hcl]
  | finish w =>
    obtain ⟨rs, hcl, hw, rfl⟩ := step_finish h
    obtain ⟨l1, l2, hl, _, hset⟩ := set_split _ _ _ hw
    simp only [μ, hset]
    rw [hl]
    simp [List.countP_append]

theorem run_length {s s' : St} {evs : List Ev} (h : run s evs = some s') :
    evs.length + μ s' ≤ μ s := by
  induction evs generalizing s with
  | nil => simp [run] at h; subst h; simp
  | cons e es ih =>
    simp only [run] at h
    cases hs : step s e with
    | none => simp [hs] at h
    | some s1 =>
      simp only [hs] at h
      have := ih h
      have := step_decreases hs
      simp only [List.length_cons]; omega

theorem μ_init (threads total : Nat) : μ (init threads total) = 2 * total + threads + 1 := by
  simp [μ, init, List.countP_replicate]
  omega

/-- every event sequence enabled from the initial state is short: the protocol terminates -/
theorem sorters_terminates {threads total : Nat} {evs : List Ev} {s : St}
    (h : run (init threads total) evs = some s) : evs.length ≤ 2 * total + threads + 1 := by
  have := run_length h
  rw [μ_init] at this
  omega

end Fst.Sched
