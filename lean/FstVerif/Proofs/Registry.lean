import FstVerif.Proofs.Den
import FstVerif.Model.Registry
/-
Soundness of the node cache (`Model/Registry.lean`, mirror of `src/raw/registry.rs`)
for every geometry: every occupied cell holds an (address, node) pair of the store.
`Registry.entry` followed (on `notFound`) by `Registry.insert` is treated as one step,
exactly as `BState.compile` uses them.
-/
namespace Fst

/-- every occupied cell of the cache is an (address, node) pair of the store -/
def RegSound (reg : Registry) (store : Store) : Prop :=
  ∀ (bucket : Nat) (cells : List Cell), reg.table[bucket]? = some cells →
    ∀ c ∈ cells, c.isNone = false → (c.addr, c.node) ∈ store

theorem RegSound_new (rows cols : Nat) (st : Store) : RegSound (Registry.new rows cols) st := by
  intro b cells h c hc hn
  simp only [Registry.new, Array.getElem?_replicate] at h
  split at h
  · cases h
    have := List.eq_of_mem_replicate hc
    subst this
    simp [Cell.isNone, Cell.none] at hn
  · cases h

theorem RegSound_mono {reg : Registry} {st st' : Store} (hsub : ∀ p ∈ st, p ∈ st')
    (h : RegSound reg st) : RegSound reg st' :=
  fun b cells hb c hc hn => hsub _ (h b cells hb c hc hn)

theorem promote_mem {cells : List Cell} {i : Nat} {c : Cell} (h : c ∈ promote cells i) :
    c ∈ cells := by
  unfold promote at h
  split at h
  · rename_i c0 hc0
    simp only [List.mem_cons] at h
    cases h with
    | inl e => subst e; exact List.mem_of_getElem? hc0
    | inr e => exact List.mem_of_mem_eraseIdx e
  · exact h

/-- hit: the new bucket is a permutation of the old one and the address belongs to a
live cell holding exactly `n` -/
theorem bucketEntry_found {cells cells' : List Cell} {n : BNode} {a : Nat} {ev : Bool}
    (h : bucketEntry cells n = (cells', some a, ev)) :
    (∀ c ∈ cells', c ∈ cells) ∧ ∃ c ∈ cells, c.isNone = false ∧ c.node = n ∧ c.addr = a := by
  unfold bucketEntry at h
  split at h
  · rename_i i hi
    simp only [Prod.mk.injEq] at h
    obtain ⟨h1, h2, _⟩ := h
    subst h1
    refine ⟨fun c hc => promote_mem hc, ?_⟩
    unfold bucketFind at hi
    obtain ⟨hlt, hp, _⟩ := List.findIdx?_eq_some_iff_getElem.mp hi
    refine ⟨cells[i], List.getElem_mem hlt, ?_⟩
    simp only [Bool.and_eq_true, Bool.not_eq_true', beq_iff_eq] at hp
    simp only [List.getElem?_eq_getElem hlt, Option.map_some, Option.some.injEq] at h2
    exact ⟨hp.1, hp.2, h2⟩
  · simp only at h
    split at h
    · simp at h
    · simp at h

/-- miss: the returned bucket is either untouched-and-empty or `c0 :: rest` with `rest`
made of old cells (`c0` is the recycled cell, completed by `Registry.insert`) -/
theorem bucketEntry_notFound {cells cells' : List Cell} {n : BNode} {ev : Bool}
    (h : bucketEntry cells n = (cells', none, ev)) :
    (∀ c0 rest, cells' = c0 :: rest → c0.node = n ∧ ∀ c ∈ rest, c ∈ cells) := by
  unfold bucketEntry at h
  split at h
  · rename_i i hi
    simp only [Prod.mk.injEq] at h
    obtain ⟨_, h2, _⟩ := h
    unfold bucketFind at hi
    obtain ⟨hlt, _, _⟩ := List.findIdx?_eq_some_iff_getElem.mp hi
    simp [List.getElem?_eq_getElem hlt] at h2
  · simp only at h
    split at h
    · rename_i c hc
      simp only [Prod.mk.injEq, true_and] at h
      obtain ⟨h1, _⟩ := h
      subst h1
      intro c0 rest hcr
      have hlt : cells.length - 1 < cells.length := by
        rcases Nat.lt_or_ge (cells.length - 1) cells.length with h | h
        · exact h
        · rw [List.getElem?_eq_none h] at hc; cases hc
      unfold promote at hcr
      rw [List.getElem?_set_self (by simpa using hlt)] at hcr
      simp only [List.cons.injEq] at hcr
      obtain ⟨e1, e2⟩ := hcr
      subst e1 e2
      refine ⟨rfl, fun c' hc' => ?_⟩
      rw [List.eraseIdx_set_eq] at hc'
      exact List.mem_of_mem_eraseIdx hc'
    · simp only [Prod.mk.injEq, true_and] at h
      obtain ⟨h1, _⟩ := h
      subst h1
      rename_i hnone
      intro c0 rest hcr
      subst hcr
      exfalso
      rename_i hnone2
      rw [List.getElem?_eq_none_iff] at hnone2
      simp only [List.length_cons] at hnone2
      omega

theorem getD_table (t : Array (List Cell)) (b : Nat) :
    t.getD b [] = (t[b]?).getD [] := Array.getD_eq_getD_getElem?

theorem entry_eq (r : Registry) (n : BNode) : r.entry n =
    if r.rows = 0 ∨ r.cols = 0 then (r, .rejected) else
    match bucketEntry (r.table.getD ((fnvNode n).toNat % r.rows) []) n with
    | (cells', found, ev) =>
      match found with
      | some a => ({ r with table := r.table.setIfInBounds ((fnvNode n).toNat % r.rows) cells',
                            evictions := r.evictions + (if ev then 1 else 0) }, .found a)
      | none => ({ r with table := r.table.setIfInBounds ((fnvNode n).toNat % r.rows) cells',
                          evictions := r.evictions + (if ev then 1 else 0) },
                 .notFound ((fnvNode n).toNat % r.rows)) := rfl

theorem entry_rejected {r r' : Registry} {n : BNode} (h : r.entry n = (r', .rejected)) : r' = r := by
  rw [entry_eq] at h
  split at h
  · simp only [Prod.mk.injEq, and_true] at h; exact h.symm
  · generalize hbe : bucketEntry (r.table.getD ((fnvNode n).toNat % r.rows) []) n = be at h
    obtain ⟨cells', found, ev⟩ := be
    simp only at h
    split at h <;> simp at h

/-- cache hit: the cache stays sound and the address found holds exactly `n` -/
theorem entry_found {r r' : Registry} {n : BNode} {a : Nat} {st : Store}
    (h : r.entry n = (r', .found a)) (hs : RegSound r st) :
    RegSound r' st ∧ (a, n) ∈ st := by
  rw [entry_eq] at h
  split at h
  · simp at h
  · generalize hbe : bucketEntry (r.table.getD ((fnvNode n).toNat % r.rows) []) n = be at h
    obtain ⟨cells', found, ev⟩ := be
    simp only at h
    cases found with
    | none => simp at h
    | some a' =>
      simp only [Prod.mk.injEq, REntry.found.injEq] at h
      obtain ⟨h1, h2⟩ := h
      subst h1 h2
      obtain ⟨hsub, c, hc, hcn, hnode, haddr⟩ := bucketEntry_found hbe
      have hcells : ∀ c ∈ r.table.getD ((fnvNode n).toNat % r.rows) [], c.isNone = false →
          (c.addr, c.node) ∈ st := by
        intro c hc hn
        rw [getD_table] at hc
        cases hb : r.table[(fnvNode n).toNat % r.rows]? with
        | none => rw [hb] at hc; simp at hc
        | some cells => rw [hb] at hc; exact hs _ cells hb c hc hn
      constructor
      · intro b cells hb c' hc' hn'
        simp only [Array.getElem?_setIfInBounds] at hb
        split at hb
        · split at hb
          · cases hb
            exact hcells c' (hsub c' hc') hn'
          · cases hb
        · exact hs b cells hb c' hc' hn'
      · have := hcells c hc hcn
        rw [hnode, haddr] at this
        exact this

/-- cache miss followed by `insert` of the freshly emitted address: the cache is sound
for the extended store -/
theorem entry_notFound_insert {r r' : Registry} {n : BNode} {b addr : Nat} {st st' : Store}
    (h : r.entry n = (r', .notFound b)) (hs : RegSound r st)
    (hsub : ∀ p ∈ st, p ∈ st') (hnew : (addr, n) ∈ st') :
    RegSound (r'.insert b addr) st' := by
  rw [entry_eq] at h
  split at h
  · simp at h
  · generalize hbe : bucketEntry (r.table.getD ((fnvNode n).toNat % r.rows) []) n = be at h
    obtain ⟨cells', found, ev⟩ := be
    simp only at h
    cases found with
    | some a' => simp at h
    | none =>
      simp only [Prod.mk.injEq, REntry.notFound.injEq] at h
      obtain ⟨h1, h2⟩ := h
      subst h1 h2
      have hnf := bucketEntry_notFound hbe
      have hcells : ∀ c ∈ r.table.getD ((fnvNode n).toNat % r.rows) [], c.isNone = false →
          (c.addr, c.node) ∈ st := by
        intro c hc hn
        rw [getD_table] at hc
        cases hb : r.table[(fnvNode n).toNat % r.rows]? with
        | none => rw [hb] at hc; simp at hc
        | some cells => rw [hb] at hc; exact hs _ cells hb c hc hn
      -- soundness of the intermediate registry away from the recycled cell
      have hmid : ∀ b' cells, (r.table.setIfInBounds ((fnvNode n).toNat % r.rows) cells')[b']? = some cells →
          (b' = (fnvNode n).toNat % r.rows ∧ cells = cells') ∨
          (∀ c ∈ cells, c.isNone = false → (c.addr, c.node) ∈ st') := by
        intro b' cells hb
        simp only [Array.getElem?_setIfInBounds] at hb
        split at hb
        · rename_i e
          split at hb
          · cases hb; exact Or.inl ⟨e.symm, rfl⟩
          · cases hb
        · exact Or.inr fun c hc hn => hsub _ (hs b' cells hb c hc hn)
      unfold Registry.insert
      simp only
      split
      · rename_i c0 cs hget
        intro b' cells hb c hc hn
        simp only [Array.getElem?_setIfInBounds] at hb
        split at hb
        · split at hb
          · cases hb
            rw [getD_table] at hget
            cases hb2 : (r.table.setIfInBounds ((fnvNode n).toNat % r.rows) cells')[(fnvNode n).toNat % r.rows]? with
            | none => rw [hb2] at hget; simp at hget
            | some cells2 =>
              rw [hb2] at hget
              simp only [Option.getD_some] at hget
              subst hget
              rcases hmid _ _ hb2 with ⟨_, e⟩ | hok
              · obtain ⟨hn0, hrest⟩ := hnf c0 cs e.symm
                simp only [List.mem_cons] at hc
                cases hc with
                | inl e2 => subst e2; simp only; rw [hn0]; exact hnew
                | inr e2 => exact hsub _ (hcells c (hrest c e2) hn)
              · simp only [List.mem_cons] at hc
                cases hc with
                | inl e2 =>
                  -- cannot happen (the bucket was just overwritten), but it is sound anyway
                  subst e2
                  rw [Array.getElem?_setIfInBounds] at hb2
                  simp only [if_true] at hb2
                  split at hb2
                  · cases hb2
                    obtain ⟨hn0, _⟩ := hnf c0 cs rfl
                    simp only; rw [hn0]; exact hnew
                  · cases hb2
                | inr e2 => exact hok c (List.mem_cons_of_mem _ e2) hn
          · cases hb
        · exact hsub _ (hs b' cells hb c hc hn)
      · intro b' cells hb c hc hn
        rcases hmid _ _ hb with ⟨e1, e2⟩ | hok
        · subst e1 e2
          rename_i hget
          rw [getD_table, hb] at hget
          simp only [Option.getD_some] at hget
          subst hget
          simp at hc
        · exact hok c hc hn

end Fst
