import FstVerif.Proofs.Seek
/-
C14 (a), model level: the memory a stream holds — the frame stack and the key buffer `inp` —
is bounded by the length of the longest key (and of the lower bound), never by the number
of keys.

Part A, no hypothesis on the store or the node access at all:
* `C14_step_growth`   one `streamStep` pushes at most one frame and one byte
* `C14_stream_depth`   in every state reachable from `streamNew` by `streamStep`s
  `stack.length ≤ inp.length + 1` (every frame but the bottom one accounts for one byte)
* `streamNew_inp_le`   right after `seek_min`, `inp` is no longer than the lower-bound key

Part B, over a good store (`GoodStore`, `Represents`, valid root — the setting of
`Proofs/Seek.lean`):
* `C14_stream_depth_exact`   `stack = [] ∨ stack.length = inp.length + 1`
* `C14_stream_inp_key`   `inp` extended by any key below the top frame is a key of `den root`
* `C14_stream_inp_bound`   if no transition leads to a dead node (`Live`; true for builder
  output, see `Proofs/Bounds.lean`), `inp.length ≤ maxLen (den root)` in every reachable state,
  hence `stack.length ≤ maxLen (den root) + 1`
-/
namespace Fst
namespace Bounds

variable {N σ : Type}

/-- the state a step leaves behind (`none` = panic) -/
def stepState : StepRes N σ → Option (SState N σ)
  | .panic => none
  | .done s => some s
  | .emit _ _ _ s => some s
  | .cont s => some s

/-- states of a stream between two passes of the loop of `next_with` -/
inductive SReach (acc : NodeAccess N) (A : Aut σ) (root : Nat) (min max : Bound) :
    SState N σ → Prop
  | new {st : SState N σ} : streamNew acc A root min max = some st → SReach acc A root min max st
  | step {st st' : SState N σ} : SReach acc A root min max st →
      stepState (streamStep acc A root st) = some st' → SReach acc A root min max st'

/-- the lower-bound key of a range (`[]` if there is none) -/
def Bound.key : Bound → Key
  | .included k => k
  | .excluded k => k
  | .unbounded => []

/-! ### Part A: no store -/

theorem length_dropLast_succ {α : Type} {l : List α} (h : l.isEmpty = false) :
    l.dropLast.length + 1 = l.length := by
  cases l with
  | nil => simp at h
  | cons a l => simp

set_option linter.unusedSimpArgs false in
/-- a step pushes at most one frame and one byte -/
theorem C14_step_growth (acc : NodeAccess N) (A : Aut σ) (root : Nat) (s s' : SState N σ)
    (h : stepState (streamStep acc A root s) = some s') :
    s'.stack.length ≤ s.stack.length + 1 ∧ s'.inp.length ≤ s.inp.length + 1 := by
  unfold streamStep at h
  dsimp only at h
  repeat' (split at h)
  all_goals (first
    | (simp only [stepState, Option.some.injEq] at h; subst h; simp_all <;> omega)
    | (simp only [stepState, Option.some.injEq] at h; subst h; simp_all)
    | (simp [stepState] at h))

/-- a step keeps `stack.length ≤ inp.length + 1` -/
theorem step_depth (acc : NodeAccess N) (A : Aut σ) (root : Nat) (s s' : SState N σ)
    (h : stepState (streamStep acc A root s) = some s')
    (hd : s.stack.length ≤ s.inp.length + 1) : s'.stack.length ≤ s'.inp.length + 1 := by
  unfold streamStep at h
  dsimp only at h
  repeat' (split at h)
  all_goals (first
    | (simp [stepState] at h; done)
    | (simp only [stepState, Option.some.injEq] at h; subst h; simp_all; done)
    | (simp only [stepState, Option.some.injEq] at h; subst h; simp_all; omega)
    | skip)
  all_goals
    rename_i hs f rest _ _ hne
    simp only [stepState, Option.some.injEq] at h
    subst h
    simp only [hs, List.length_cons] at hd
    have := length_dropLast_succ (l := s.inp) (by simpa using hne)
    simp only
    omega

/-- the loop of `seek_min`: one frame per consumed byte, plus one if it stops early -/
theorem seekLoop_lengths (acc : NodeAccess N) (A : Aut σ) :
    ∀ (key : Key) (node : N) (out : Nat) (st : σ) (inp : Key) (stack : List (Frame N σ))
      (inp' : Key) (stack' : List (Frame N σ)) (fin : Option (N × Nat × σ)),
      seekLoop acc A key node out st inp stack = some (inp', stack', fin) →
      inp'.length ≤ inp.length + key.length ∧
      stack'.length + inp.length = stack.length + inp'.length + (if fin.isSome then 0 else 1)
  | [], node, out, st, inp, stack, inp', stack', fin, h => by
    simp only [seekLoop, Option.some.injEq, Prod.mk.injEq] at h
    obtain ⟨rfl, rfl, rfl⟩ := h
    simp
  | b :: bs, node, out, st, inp, stack, inp', stack', fin, h => by
    simp only [seekLoop] at h
    split at h
    · cases h
    · split at h
      · cases h
      · split at h
        · cases h
        · have := seekLoop_lengths acc A bs _ _ _ _ _ _ _ _ h
          simp only [List.length_append, List.length_cons, List.length_nil] at this ⊢
          omega
    · split at h
      · cases h
      · simp only [Option.some.injEq, Prod.mk.injEq] at h
        obtain ⟨rfl, rfl, rfl⟩ := h
        simp only [List.length_cons, Option.isSome_none]
        simp
        omega

open StreamP in
/-- the epilogue of `seek_min` -/
theorem seekFinish_depth (acc : NodeAccess N) (incl : Bool) (max : Bound) (inp : Key)
    (stack : List (Frame N σ)) (fin : Option (N × Nat × σ)) (st : SState N σ)
    (h : seekFinish acc incl max (inp, stack, fin) = some st)
    (hl : stack.length = inp.length + (if fin.isSome then 0 else 1)) :
    st.stack.length ≤ st.inp.length + 1 ∧ st.inp.length ≤ inp.length := by
  cases fin with
  | none =>
    simp only [seekFinish, Option.some.injEq] at h
    subst h
    simp at hl ⊢
    omega
  | some f =>
    obtain ⟨x, out, st'⟩ := f
    simp only [Option.isSome_some, if_true, Nat.add_zero] at hl
    cases stack with
    | nil =>
      simp only [seekFinish, Option.some.injEq] at h
      subst h
      simp
    | cons top rest =>
      simp only [seekFinish] at h
      simp only [List.length_cons] at hl
      have hne : inp.isEmpty = false := by cases inp <;> simp at hl ⊢
      have hdl := length_dropLast_succ hne
      split at h
      · split at h
        · cases h
        · simp only [Option.some.injEq] at h
          subst h
          simp only [List.length_cons]
          omega
      · split at h
        · cases h
        · split at h
          · cases h
          · split at h
            · cases h
            · simp only [Option.some.injEq] at h
              subst h
              simp only [List.length_cons]
              omega

open StreamP in
/-- right after `StreamWithState::new` + `seek_min`: the depth invariant holds and `inp` is
no longer than the lower-bound key -/
theorem streamNew_depth (acc : NodeAccess N) (A : Aut σ) (root : Nat) (min max : Bound)
    (st : SState N σ) (h : streamNew acc A root min max = some st) :
    st.stack.length ≤ st.inp.length + 1 ∧ st.inp.length ≤ (Bound.key min).length := by
  cases hr : acc.node root with
  | none => simp [streamNew, hr] at h
  | some r =>
    cases hmin : min.isEmpty with
    | true =>
      simp only [streamNew, hr, hmin, if_true, Option.some.injEq] at h
      subst h
      simp
    | false =>
      have hfin : ∀ (k : Key) (incl : Bool),
          (seekLoop acc A k r 0 A.start [] []).bind (seekFinish acc incl max) = some st →
          st.stack.length ≤ st.inp.length + 1 ∧ st.inp.length ≤ k.length := by
        intro k incl hb
        cases hs : seekLoop acc A k r 0 A.start [] [] with
        | none => rw [hs] at hb; cases hb
        | some res =>
          obtain ⟨inp, stack, fin⟩ := res
          rw [hs] at hb
          simp only [Option.bind_some] at hb
          have hl := seekLoop_lengths acc A _ _ _ _ _ _ _ _ _ hs
          simp only [List.length_nil, Nat.zero_add, Nat.add_zero] at hl
          have := seekFinish_depth acc incl max inp stack fin st hb (by omega)
          omega
      cases min with
      | unbounded => simp [Bound.isEmpty] at hmin
      | included k =>
        have hk : k ≠ [] := by intro e; simp [Bound.isEmpty, e] at hmin
        rw [streamNew_included acc A root k max hk r hr] at h
        exact hfin k true h
      | excluded k =>
        have hk : k ≠ [] := by intro e; simp [Bound.isEmpty, e] at hmin
        rw [streamNew_excluded acc A root k max hk r hr] at h
        exact hfin k false h

/-- C14 (a): in every state reachable from `streamNew` by `streamStep`s the frame stack is
at most one longer than the key buffer. No hypothesis on the store or the node access. -/
theorem C14_stream_depth {acc : NodeAccess N} {A : Aut σ} {root : Nat} {min max : Bound}
    {st : SState N σ} (h : SReach acc A root min max st) :
    st.stack.length ≤ st.inp.length + 1 := by
  induction h with
  | new h0 => exact (streamNew_depth acc A root min max _ h0).1
  | step _ hs ih => exact step_depth acc A root _ _ hs ih

/-- `inp` right after the seek is no longer than the lower-bound key -/
theorem streamNew_inp_le (acc : NodeAccess N) (A : Aut σ) (root : Nat) (min max : Bound)
    (st : SState N σ) (h : streamNew acc A root min max = some st) :
    st.inp.length ≤ (Bound.key min).length := (streamNew_depth acc A root min max st h).2

/-! ### Part B: over a good store -/

open StreamP

/-- the store node behind a `NodeRep` -/
def InStore (s : Store) (a : Nat) (n : BNode) : Prop := (a = 0 ∧ n.trans = []) ∨ (a, n) ∈ s

theorem rep_of_valid {acc : NodeAccess N} {s : Store} {den : Nat → KV}
    (hg : GoodStore s den) (hr : Represents acc s) {a : Nat} (hv : Valid s a) :
    ∃ n x, NodeRep acc s den x a n ∧ InStore s a n := by
  rcases hv with h0 | ⟨n, hn⟩
  · subst h0
    obtain ⟨x, h1, h2, h3, h4, h5, h6, h7⟩ := hr.node 0 ⟨true, 0, []⟩ (by simp [nodeAt])
    refine ⟨⟨true, 0, []⟩, x, ⟨h1, h2, h3, h4, h5, fun i h => (h6 i h).1, h7, ?_, ?_, ?_⟩,
      Or.inl ⟨rfl, rfl⟩⟩
    · rw [hg.den_zero]; simp [denNodeWith, own]
    · simp [SortedInputs]
    · intro t ht; simp at ht
  · have hpos := hg.addr_pos a n hn
    have hl : nodeAt s a = some n := by
      have : a ≠ 0 := by omega
      simp only [nodeAt, this, if_false]
      exact lookup_of_mem hn (fun m hm => hg.functional a m n hm hn)
    obtain ⟨x, h1, h2, h3, h4, h5, h6, h7⟩ := hr.node a n hl
    exact ⟨n, x, ⟨h1, h2, h3, h4, h5, fun i h => (h6 i h).1, h7, hg.unfold a n hn,
      hg.sorted a n hn, fun t ht => hg.acyclic a n hn t ht⟩, Or.inr hn⟩

/-- `p` leads from the root to `a`: whatever `a` spells, prefixed by `p`, the root spells -/
def Ext (den : Nat → KV) (root : Nat) (p : Key) (a : Nat) : Prop :=
  ∀ kv ∈ den a, ∃ v, (p ++ kv.1, v) ∈ den root

theorem ext_root (den : Nat → KV) (root : Nat) : Ext den root [] root :=
  fun kv h => ⟨kv.2, by simpa using h⟩

theorem ext_push {den : Nat → KV} {root : Nat} {p : Key} {a : Nat} {n : BNode} {t : Tr}
    (hd : den a = denNodeWith den n) (ht : t ∈ n.trans) (h : Ext den root p a) :
    Ext den root (p ++ [t.inp]) t.addr := by
  intro kv hkv
  have : (t.inp :: kv.1, t.out + kv.2) ∈ den a := by
    rw [hd]
    simp only [denNodeWith, List.mem_append, List.mem_flatMap, lift, List.mem_map]
    exact Or.inr ⟨t, ht, kv, hkv, rfl⟩
  obtain ⟨v, hv⟩ := h _ this
  exact ⟨v, by simpa using hv⟩

section Inv

variable (acc : NodeAccess N) (s : Store) (den : Nat → KV) (root : Nat)

/-- a frame holding node `x`, reached by `p`, above the frames `rest` -/
def FrameOK (x : N) (rest : List (Frame N σ)) (p : Key) : Prop :=
  ∃ a n, NodeRep acc s den x a n ∧ InStore s a n ∧ a ≤ root ∧ Ext den root p a ∧
    (a = root → rest = [])

/-- the stack is a path of the store from the root, one byte of `p` per frame above the
bottom one -/
def Chain : List (Frame N σ) → Key → Prop
  | [], _ => True
  | f :: rest, p => FrameOK acc s den root f.node rest p ∧ Chain rest p.dropLast

/-- the invariant of the stream states (`P` = what is known about the key buffer) -/
def J (P : Key → Prop) (st : SState N σ) : Prop :=
  P st.inp ∧ (st.stack = [] ∨ st.stack.length = st.inp.length + 1) ∧
    Chain acc s den root st.stack st.inp

/-- the top frame of `seek_min`'s stack was left pointing just after the transition to `x` -/
def Link (stack : List (Frame N σ)) (x : N) : Prop :=
  match stack with
  | [] => True
  | top :: _ => top.trans ≠ 0 ∧ ∃ t, acc.transition top.node (top.trans - 1) = some t ∧
      acc.node t.addr = some x

/-- what the loop of `seek_min` leaves behind -/
def SeekPost (inp : Key) (stack : List (Frame N σ)) : Option (N × Nat × σ) → Prop
  | none => Chain acc s den root stack inp ∧ stack.length = inp.length + 1
  | some (x', _, _) => FrameOK acc s den root x' stack inp ∧
      Chain acc s den root stack inp.dropLast ∧ stack.length = inp.length ∧ Link acc stack x'

end Inv

/-- what one step does to the stack and the key buffer, whatever it returns -/
theorem step_cases (acc : NodeAccess N) (A : Aut σ) (root : Nat) (st st' : SState N σ)
    (h : stepState (streamStep acc A root st) = some st') :
    (st'.inp = st.inp ∧ (st'.stack = st.stack ∨ st'.stack = [])) ∨
    (∃ f rest, st.stack = f :: rest ∧ acc.addr f.node ≠ root ∧ st.inp.isEmpty = false ∧
      st'.stack = rest ∧ st'.inp = st.inp.dropLast) ∨
    (∃ f rest, st.stack = f :: rest ∧ acc.addr f.node = root ∧ st'.stack = rest ∧
      st'.inp = st.inp) ∨
    (∃ f rest t nn, st.stack = f :: rest ∧ f.trans < acc.len f.node ∧
      acc.transition f.node f.trans = some t ∧ acc.node t.addr = some nn ∧
      st'.inp = st.inp ++ [t.inp] ∧
      (st'.stack = [] ∨ st'.stack =
        ⟨nn, 0, f.out + t.out, A.accept f.autState t.inp⟩ :: { f with trans := f.trans + 1 } :: rest)) := by
  unfold streamStep at h
  dsimp only at h
  split at h
  · -- the `empty_output` prologue
    left
    repeat' (split at h)
    all_goals (simp only [stepState, Option.some.injEq] at h; subst h; simp)
  · split at h
    · left
      simp only [stepState, Option.some.injEq] at h; subst h; simp
    · rename_i f rest hst
      split at h
      · split at h
        · split at h
          · simp [stepState] at h
          · rename_i hroot hne
            right; left
            simp only [stepState, Option.some.injEq] at h; subst h
            exact ⟨f, rest, hst, hroot, by simpa using hne, rfl, rfl⟩
        · rename_i hroot
          right; right; left
          simp only [stepState, Option.some.injEq] at h; subst h
          exact ⟨f, rest, hst, by simpa using hroot, rfl, rfl⟩
      · rename_i hcond
        have hlt : f.trans < acc.len f.node := by
          simp only [Bool.or_eq_true, decide_eq_true_eq, not_or] at hcond
          omega
        split at h
        · simp [stepState] at h
        · rename_i t ht
          split at h
          · simp [stepState] at h
          · rename_i nn hnn
            right; right; right
            refine ⟨f, rest, t, nn, hst, hlt, ht, hnn, ?_⟩
            repeat' (split at h)
            all_goals (simp only [stepState, Option.some.injEq] at h; subst h; simp)

section Preserve

variable {acc : NodeAccess N} {s : Store} {den : Nat → KV} {root : Nat} {P : Key → Prop}

theorem chain_frame_congr {f g : Frame N σ} {rest : List (Frame N σ)} {p : Key}
    (hfg : g.node = f.node) (h : Chain acc s den root (f :: rest) p) :
    Chain acc s den root (g :: rest) p := by
  simp only [Chain] at h ⊢
  rw [hfg]; exact h

/-- pushing the frame of a child -/
theorem frameOK_child (hg : GoodStore s den) (hr : Represents acc s)
    (hP : ∀ p a n t, Ext den root p a → (a, n) ∈ s → t ∈ n.trans → P (p ++ [t.inp]))
    {x : N} {rest : List (Frame N σ)} {p : Key} {i : Nat} {t : Tr} {nn : N}
    (hf : FrameOK acc s den root x rest p) (hi : i < acc.len x)
    (ht : acc.transition x i = some t) (hnn : acc.node t.addr = some nn) :
    ∀ rest' : List (Frame N σ), FrameOK acc s den root nn rest' (p ++ [t.inp]) ∧ P (p ++ [t.inp]) ∧
      ∃ a n, NodeRep acc s den x a n ∧ (∃ hi' : i < n.trans.length, t = n.trans[i]) := by
  intro rest'
  obtain ⟨a, n, R, hin, hle, hext, _⟩ := hf
  have hi' : i < n.trans.length := by rw [← R.len]; exact hi
  have htn : t = n.trans[i] := by
    have := R.trans i hi'
    rw [ht] at this
    exact Option.some.inj this
  have htm : t ∈ n.trans := by rw [htn]; exact List.getElem_mem hi'
  obtain ⟨hlt, hval⟩ := R.child t htm
  obtain ⟨n', x', R', hin'⟩ := rep_of_valid hg hr hval
  have hx : x' = nn := by
    have := R'.node
    rw [hnn] at this
    exact (Option.some.inj this).symm
  subst hx
  have hmem : (a, n) ∈ s := by
    rcases hin with ⟨_, h0⟩ | h
    · rw [h0] at htm; simp at htm
    · exact h
  refine ⟨⟨t.addr, n', R', hin', by omega, ext_push R.den_eq htm hext, fun e => by omega⟩,
    hP p a n t hext hmem htm, a, n, R, hi', htn⟩

/-- one step keeps the invariant -/
theorem step_J (hg : GoodStore s den) (hr : Represents acc s)
    (hP0 : ∀ p, P p → P p.dropLast)
    (hP : ∀ p a n t, Ext den root p a → (a, n) ∈ s → t ∈ n.trans → P (p ++ [t.inp]))
    (A : Aut σ) {st st' : SState N σ}
    (h : stepState (streamStep acc A root st) = some st') (hJ : J acc s den root P st) :
    J acc s den root P st' := by
  obtain ⟨hp, hlen, hch⟩ := hJ
  rcases step_cases acc A root st st' h with
    ⟨e1, e2⟩ | ⟨f, rest, hst, hroot, hne, e1, e2⟩ | ⟨f, rest, hst, hroot, e1, e2⟩ |
    ⟨f, rest, t, nn, hst, hlt, ht, hnn, e1, e2⟩
  · rcases e2 with e2 | e2
    · exact ⟨by rw [e1]; exact hp, by rw [e1, e2]; exact hlen, by rw [e1, e2]; exact hch⟩
    · exact ⟨by rw [e1]; exact hp, Or.inl e2, by rw [e2]; trivial⟩
  · rw [hst] at hlen hch
    obtain ⟨_, hrest⟩ := hch
    have hdl := length_dropLast_succ hne
    refine ⟨by rw [e2]; exact hP0 _ hp, ?_, by rw [e1, e2]; exact hrest⟩
    rw [e1, e2]
    rcases hlen with hl | hl
    · cases hl
    · simp only [List.length_cons] at hl
      cases rest with
      | nil => exact Or.inl rfl
      | cons g rest' => right; simp only [List.length_cons] at hl ⊢; omega
  · rw [hst] at hch
    obtain ⟨⟨a, n, R, _, _, _, hbot⟩, _⟩ := hch
    have : rest = [] := hbot (by rw [← R.addr]; exact hroot)
    subst this
    exact ⟨by rw [e2]; exact hp, Or.inl e1, by rw [e1]; trivial⟩
  · rw [hst] at hlen hch
    obtain ⟨hf, hrest⟩ := hch
    obtain ⟨hf', hp', _⟩ := frameOK_child hg hr hP hf hlt ht hnn
      ({ f with trans := f.trans + 1 } :: rest)
    refine ⟨by rw [e1]; exact hp', ?_, ?_⟩
    · rcases e2 with e2 | e2
      · exact Or.inl e2
      · right
        rw [e1, e2]
        rcases hlen with hl | hl
        · cases hl
        · simp only [List.length_cons, List.length_append, List.length_nil] at hl ⊢
          omega
    · rcases e2 with e2 | e2
      · rw [e2]; trivial
      · rw [e1, e2]
        refine ⟨hf', ?_⟩
        rw [List.dropLast_concat]
        exact chain_frame_congr (f := f) rfl ⟨hf, hrest⟩

/-- the loop of `seek_min` builds a path of the store -/
theorem seekLoop_J (hg : GoodStore s den) (hr : Represents acc s)
    (hP : ∀ p a n t, Ext den root p a → (a, n) ∈ s → t ∈ n.trans → P (p ++ [t.inp]))
    (A : Aut σ) :
    ∀ (key : Key) (x : N) (out : Nat) (q : σ) (inp : Key) (stack : List (Frame N σ))
      (inp' : Key) (stack' : List (Frame N σ)) (fin : Option (N × Nat × σ)),
      FrameOK acc s den root x stack inp → Chain acc s den root stack inp.dropLast →
      stack.length = inp.length → P inp → Link acc stack x →
      seekLoop acc A key x out q inp stack = some (inp', stack', fin) →
      P inp' ∧ SeekPost acc s den root inp' stack' fin
  | [], x, out, q, inp, stack, inp', stack', fin, hf, hc, hl, hp, hk, h => by
    simp only [seekLoop, Option.some.injEq, Prod.mk.injEq] at h
    obtain ⟨rfl, rfl, rfl⟩ := h
    exact ⟨hp, hf, hc, hl, hk⟩
  | b :: bs, x, out, q, inp, stack, inp', stack', fin, hf, hc, hl, hp, hk, h => by
    simp only [seekLoop] at h
    split at h
    · cases h
    · rename_i i hfind
      split at h
      · cases h
      · rename_i t ht
        split at h
        · cases h
        · rename_i nn hnn
          obtain ⟨a, n, R, hin, hle, hext, hbot⟩ := hf
          have hti : transIdx n b = some i := by
            have := R.find b
            rw [hfind] at this
            exact (Option.some.inj this).symm
          obtain ⟨hi, hb, _, _⟩ := transIdx_some R.sorted hti
          have hf0 : FrameOK acc s den root x stack inp := ⟨a, n, R, hin, hle, hext, hbot⟩
          obtain ⟨hf', hp', _⟩ := frameOK_child hg hr hP hf0 (by rw [R.len]; exact hi) ht hnn
            (⟨x, i + 1, out, q⟩ :: stack)
          have htb : t.inp = b := by
            have := R.trans i hi
            rw [ht] at this
            rw [Option.some.inj this]; exact hb
          rw [htb] at hf' hp'
          refine seekLoop_J hg hr hP A bs nn _ _ (inp ++ [b]) (⟨x, i + 1, out, q⟩ :: stack)
            inp' stack' fin hf' ?_ (by simp [hl]) hp' ?_ h
          · rw [List.dropLast_concat]; exact ⟨hf0, hc⟩
          · exact ⟨by simp, t, by simpa using ht, hnn⟩
    · split at h
      · cases h
      · simp only [Option.some.injEq, Prod.mk.injEq] at h
        obtain ⟨rfl, rfl, rfl⟩ := h
        exact ⟨hp, ⟨hf, hc⟩, by simp [hl]⟩

/-- the epilogue of `seek_min` -/
theorem seekFinish_J (hP0 : ∀ p, P p → P p.dropLast) (incl : Bool) (max : Bound) (inp : Key)
    (stack : List (Frame N σ)) (fin : Option (N × Nat × σ)) (st : SState N σ)
    (h : seekFinish acc incl max (inp, stack, fin) = some st)
    (hpost : P inp ∧ SeekPost acc s den root inp stack fin) :
    J acc s den root P st := by
  obtain ⟨hp, hpost⟩ := hpost
  cases fin with
  | none =>
    simp only [seekFinish, Option.some.injEq] at h
    subst h
    exact ⟨hp, Or.inr hpost.2, hpost.1⟩
  | some f =>
    obtain ⟨x, out, q⟩ := f
    obtain ⟨hf, hc, hl, hk⟩ := hpost
    cases stack with
    | nil =>
      simp only [seekFinish, Option.some.injEq] at h
      subst h
      exact ⟨hp, Or.inl rfl, trivial⟩
    | cons top rest =>
      simp only [seekFinish] at h
      simp only [List.length_cons] at hl
      have hne : inp.isEmpty = false := by cases inp <;> simp at hl ⊢
      have hdl := length_dropLast_succ hne
      obtain ⟨hk0, t', ht', hx'⟩ := hk
      simp only [if_neg hk0] at h
      cases incl with
      | true =>
        simp only [if_true, Option.some.injEq] at h
        subst h
        refine ⟨hP0 _ hp, Or.inr (by simp only [List.length_cons]; omega), ?_⟩
        exact chain_frame_congr (f := top) rfl hc
      | false =>
        simp only [Bool.false_eq_true, if_false, ht', hx', Option.some.injEq] at h
        subst h
        exact ⟨hp, Or.inr (by simp only [List.length_cons]; omega), hf, hc⟩

/-- `StreamWithState::new` + `seek_min` establish the invariant -/
theorem streamNew_J (hg : GoodStore s den) (hr : Represents acc s)
    (hroot : root = 0 ∨ ∃ n, (root, n) ∈ s) (hPnil : P [])
    (hP0 : ∀ p, P p → P p.dropLast)
    (hP : ∀ p a n t, Ext den root p a → (a, n) ∈ s → t ∈ n.trans → P (p ++ [t.inp]))
    (A : Aut σ) (min max : Bound) (st : SState N σ)
    (h : streamNew acc A root min max = some st) : J acc s den root P st := by
  obtain ⟨nr, r, R, hin⟩ := rep_of_valid hg hr (show Valid s root from hroot)
  have hr0 := R.node
  have hf0 : FrameOK acc s den root r ([] : List (Frame N σ)) [] :=
    ⟨root, nr, R, hin, Nat.le_refl _, ext_root den root, fun _ => rfl⟩
  cases hmin : min.isEmpty with
  | true =>
    simp only [streamNew, hr0, hmin, if_true, Option.some.injEq] at h
    subst h
    exact ⟨hPnil, Or.inr rfl, hf0, trivial⟩
  | false =>
    have hfin : ∀ (k : Key) (incl : Bool),
        (seekLoop acc A k r 0 A.start [] []).bind (seekFinish acc incl max) = some st →
        J acc s den root P st := by
      intro k incl hb
      cases hs : seekLoop acc A k r 0 A.start [] [] with
      | none => rw [hs] at hb; cases hb
      | some res =>
        obtain ⟨inp, stack, fin⟩ := res
        rw [hs] at hb
        simp only [Option.bind_some] at hb
        exact seekFinish_J hP0 incl max inp stack fin st hb
          (seekLoop_J hg hr hP A k r 0 A.start [] [] inp stack fin hf0 trivial rfl hPnil trivial hs)
    cases min with
    | unbounded => simp [Bound.isEmpty] at hmin
    | included k =>
      have hk : k ≠ [] := by intro e; simp [Bound.isEmpty, e] at hmin
      rw [streamNew_included acc A root k max hk r hr0] at h
      exact hfin k true h
    | excluded k =>
      have hk : k ≠ [] := by intro e; simp [Bound.isEmpty, e] at hmin
      rw [streamNew_excluded acc A root k max hk r hr0] at h
      exact hfin k false h

/-- every reachable state satisfies the invariant -/
theorem reach_J (hg : GoodStore s den) (hr : Represents acc s)
    (hroot : root = 0 ∨ ∃ n, (root, n) ∈ s) (hPnil : P [])
    (hP0 : ∀ p, P p → P p.dropLast)
    (hP : ∀ p a n t, Ext den root p a → (a, n) ∈ s → t ∈ n.trans → P (p ++ [t.inp]))
    {A : Aut σ} {min max : Bound} {st : SState N σ} (h : SReach acc A root min max st) :
    J acc s den root P st := by
  induction h with
  | new h0 => exact streamNew_J hg hr hroot hPnil hP0 hP A min max _ h0
  | step _ hs ih => exact step_J hg hr hP0 hP A hs ih

end Preserve

/-! ### the theorems over a good store -/

/-- length of the longest key of an association list -/
def maxLen : KV → Nat
  | [] => 0
  | kv :: l => max kv.1.length (maxLen l)

theorem le_maxLen : ∀ {l : KV} {k : Key} {v : Nat}, (k, v) ∈ l → k.length ≤ maxLen l
  | kv :: l, k, v, h => by
    simp only [List.mem_cons] at h
    simp only [maxLen]
    rcases h with e | e
    · subst e; simp only; omega
    · have := le_maxLen e; omega

/-- no transition of the store leads to a node that spells nothing (true for builder
output: `Bounds.live_of_tight` in `Proofs/Bounds.lean`) -/
def Live (s : Store) (den : Nat → KV) : Prop :=
  ∀ a n, (a, n) ∈ s → ∀ t ∈ n.trans, den t.addr ≠ []

section Main

variable {acc : NodeAccess N} {s : Store} {den : Nat → KV} {root : Nat}
  {A : Aut σ} {min max : Bound} {st : SState N σ}

/-- C14 (a), exact depth over a good store: while the stack is not empty it is exactly one
frame longer than the key buffer -/
theorem C14_stream_depth_exact (hg : GoodStore s den) (hr : Represents acc s)
    (hroot : root = 0 ∨ ∃ n, (root, n) ∈ s) (h : SReach acc A root min max st) :
    st.stack = [] ∨ st.stack.length = st.inp.length + 1 :=
  (reach_J (P := fun _ => True) hg hr hroot trivial (fun _ _ => trivial)
    (fun _ _ _ _ _ _ _ => trivial) h).2.1

/-- C14 (a), the key buffer is a path of the store: extended by any key below the top
frame it is a key of the root -/
theorem C14_stream_inp_key (hg : GoodStore s den) (hr : Represents acc s)
    (hroot : root = 0 ∨ ∃ n, (root, n) ∈ s) (h : SReach acc A root min max st) :
    ∀ f rest, st.stack = f :: rest →
      ∀ kv ∈ den (acc.addr f.node), ∃ v, (st.inp ++ kv.1, v) ∈ den root := by
  have hJ := reach_J (P := fun _ => True) hg hr hroot trivial (fun _ _ => trivial)
    (fun _ _ _ _ _ _ _ => trivial) h
  intro f rest hst
  have hc := hJ.2.2
  rw [hst] at hc
  obtain ⟨⟨a, n, R, _, _, hext, _⟩, _⟩ := hc
  rw [R.addr]
  exact hext

/-- C14 (a), the bound: over a good store without dead transitions, in every reachable
state the key buffer is no longer than the longest key of the map and the stack holds at
most one frame more. Nothing depends on the number of keys. -/
theorem C14_stream_inp_bound (hg : GoodStore s den) (hr : Represents acc s)
    (hroot : root = 0 ∨ ∃ n, (root, n) ∈ s) (hlive : Live s den)
    (h : SReach acc A root min max st) :
    st.inp.length ≤ maxLen (den root) ∧ st.stack.length ≤ maxLen (den root) + 1 := by
  have hJ := reach_J (P := fun p => p.length ≤ maxLen (den root)) hg hr hroot
    (Nat.zero_le _) (fun p hp => by simp only [List.length_dropLast]; omega)
    (by
      intro p a n t hext hmem ht
      have hext' := ext_push (hg.unfold a n hmem) ht hext
      have hne := hlive a n hmem t ht
      cases hd : den t.addr with
      | nil => exact absurd hd hne
      | cons kv l =>
        obtain ⟨v, hv⟩ := hext' kv (by rw [hd]; simp)
        have := le_maxLen hv
        simp only [List.length_append] at this ⊢
        omega) h
  have h1 : st.inp.length ≤ maxLen (den root) := hJ.1
  have h2 := C14_stream_depth h
  exact ⟨h1, by omega⟩

end Main

/-! ### examples -/

namespace Example
open StreamExample

theorem exLive : Live exStore exDen := by
  intro a n h t ht
  simp only [exStore, List.mem_cons, Prod.mk.injEq, List.mem_nil_iff, or_false] at h
  rcases h with ⟨rfl, rfl⟩ | ⟨rfl, rfl⟩
  · simp only [List.mem_cons, List.mem_nil_iff, or_false] at ht
    subst ht; decide
  · simp only [List.mem_cons, List.mem_nil_iff, or_false] at ht
    rcases ht with rfl | rfl <;> decide

/-- the state after `streamNew` and `k` steps -/
def runSteps (min max : Bound) : Nat → Option (SState (Nat × BNode) Unit)
  | 0 => streamNew (storeAccess exStore) autAlways 5 min max
  | k + 1 => (runSteps min max k).bind fun st =>
      stepState (streamStep (storeAccess exStore) autAlways 5 st)

theorem runSteps_reach (min max : Bound) : ∀ k st, runSteps min max k = some st →
    SReach (storeAccess exStore) autAlways 5 min max st
  | 0, st, h => .new h
  | k + 1, st, h => by
    simp only [runSteps] at h
    cases hk : runSteps min max k with
    | none => rw [hk] at h; cases h
    | some st0 => rw [hk] at h; exact .step (runSteps_reach min max k st0 hk) h

/-- (stack depth, key buffer length) along a whole traversal: the depth is `inp.length + 1`
until the stack is empty -/
def depths (min max : Bound) (k : Nat) : List (Nat × Nat) :=
  (List.range k).filterMap fun i => (runSteps min max i).map fun st => (st.stack.length, st.inp.length)

/-- info: [(1, 0), (2, 1), (3, 2), (2, 1), (1, 0), (2, 1), (1, 0), (0, 0), (0, 0)] -/
#guard_msgs in
#eval depths .unbounded .unbounded 9

-- after a seek; the last states are after `next` returned `None` (upper bound exceeded:
-- the stack is cleared, the key buffer keeps the offending path)
/-- info: [(2, 1), (3, 2), (2, 1), (1, 0), (0, 1), (0, 1), (0, 1)] -/
#guard_msgs in
#eval depths (.included [97, 98]) (.excluded [98]) 7

/-- the hypotheses of the C14 (a) theorems are satisfiable: a reachable state after the seek
and three steps, on a store with two levels -/
example : ∃ st, runSteps (.excluded [97]) .unbounded 3 = some st ∧
    SReach (storeAccess exStore) autAlways 5 (.excluded [97]) .unbounded st ∧
    (st.stack = [] ∨ st.stack.length = st.inp.length + 1) ∧
    st.inp.length ≤ maxLen (exDen 5) ∧ st.stack.length ≤ maxLen (exDen 5) + 1 := by
  have hs : (runSteps (.excluded [97]) .unbounded 3).isSome = true := by decide
  obtain ⟨st, hst⟩ := Option.isSome_iff_exists.mp hs
  have hr := runSteps_reach _ _ _ _ hst
  have hb := C14_stream_inp_bound exGood (storeAccess_represents exStore) exRoot exLive hr
  exact ⟨st, hst, hr,
    C14_stream_depth_exact exGood (storeAccess_represents exStore) exRoot hr, hb.1, hb.2⟩

end Example

end Bounds
end Fst
