import FstVerif.Model.Lev
import FstVerif.Spec.Utf8
/-
UTF-8 layer of the byte-level Levenshtein proof (C17): arithmetic facts about the model's
`utf8Enc` against `Spec.utf8Full` (`Utf8Sequences::new('\0', '\u{10FFFF}')`).

* `utf8Enc_matches`, `utf8Enc_matches_unique` — the encoding of a scalar value is matched by
  exactly one of the nine sequences.
* `utf8Enc_diverge` — two distinct scalar values have encodings that differ at a position present
  in both; hence `utf8Enc_inj` (injective) and `utf8Enc_prefix_free`.
* `utf8Full_matches_enc` — every byte string matched by one of the sequences is an encoding.
* `utf8Full_disj` — the lead-byte ranges of the sequences are pairwise disjoint.
All by case analysis on the length classes and `omega`; nothing enumerates scalar values.
-/
namespace Fst
namespace LevDfa
open Spec

theorem toNat_ofNat8 (n : Nat) : (UInt8.ofNat n).toNat = n % 256 := UInt8.toNat_ofNat'

theorem ofNat8_ne {a b : Nat} (h : a % 256 ≠ b % 256) : UInt8.ofNat a ≠ UInt8.ofNat b := by
  intro e
  have := congrArg UInt8.toNat e
  rw [toNat_ofNat8, toNat_ofNat8] at this
  exact h this

theorem utf8Enc_ne_nil (c : Nat) : utf8Enc c ≠ [] := by
  unfold utf8Enc; split
  · simp
  · split
    · simp
    · split <;> simp

/-- two byte strings differ at a position that exists in both (neither is a prefix of the other) -/
def Diverge : List UInt8 → List UInt8 → Prop
  | x :: r, x' :: r' => x ≠ x' ∨ Diverge r r'
  | _, _ => False

theorem utf8Enc_matches (c : Nat) (hc : ValidScalar c) :
    ∃ s ∈ utf8Full, SeqMatches (utf8Enc c) s := by
  obtain ⟨h1, h2⟩ := hc
  unfold utf8Enc
  split
  · refine ⟨[(0,127)], by simp [utf8Full], ?_⟩
    simp only [SeqMatches, toNat_ofNat8, and_true]
    omega
  · split
    · refine ⟨[(194,223),(128,191)], by simp [utf8Full], ?_⟩
      simp only [SeqMatches, toNat_ofNat8, and_true]
      omega
    · split
      · by_cases a : c < 0x1000
        · refine ⟨[(224,224),(160,191),(128,191)], by simp [utf8Full], ?_⟩
          simp only [SeqMatches, toNat_ofNat8, and_true]
          omega
        · by_cases a2 : c < 0xD000
          · refine ⟨[(225,236),(128,191),(128,191)], by simp [utf8Full], ?_⟩
            simp only [SeqMatches, toNat_ofNat8, and_true]
            omega
          · by_cases a3 : c < 0xE000
            · refine ⟨[(237,237),(128,159),(128,191)], by simp [utf8Full], ?_⟩
              simp only [SeqMatches, toNat_ofNat8, and_true]
              omega
            · refine ⟨[(238,239),(128,191),(128,191)], by simp [utf8Full], ?_⟩
              simp only [SeqMatches, toNat_ofNat8, and_true]
              omega
      · by_cases a : c < 0x40000
        · refine ⟨[(240,240),(144,191),(128,191),(128,191)], by simp [utf8Full], ?_⟩
          simp only [SeqMatches, toNat_ofNat8, and_true]
          omega
        · by_cases a2 : c < 0x100000
          · refine ⟨[(241,243),(128,191),(128,191),(128,191)], by simp [utf8Full], ?_⟩
            simp only [SeqMatches, toNat_ofNat8, and_true]
            omega
          · refine ⟨[(244,244),(128,143),(128,191),(128,191)], by simp [utf8Full], ?_⟩
            simp only [SeqMatches, toNat_ofNat8, and_true]
            omega

/-- the encoding with the bytes as natural numbers -/
def utf8N (c : Nat) : List Nat :=
  if c < 0x80 then [c]
  else if c < 0x800 then [0xC0 + c / 64, 0x80 + c % 64]
  else if c < 0x10000 then [0xE0 + c / 4096, 0x80 + (c / 64) % 64, 0x80 + c % 64]
  else [0xF0 + c / 262144, 0x80 + (c / 4096) % 64, 0x80 + (c / 64) % 64, 0x80 + c % 64]

theorem utf8Enc_eq_map (c : Nat) : utf8Enc c = (utf8N c).map UInt8.ofNat := by
  unfold utf8Enc utf8N
  split
  · rfl
  · split
    · rfl
    · split <;> rfl

def DivergeN : List Nat → List Nat → Prop
  | x :: r, x' :: r' => x % 256 ≠ x' % 256 ∨ DivergeN r r'
  | _, _ => False

theorem diverge_of_N (a b : List Nat) (h : DivergeN a b) :
    Diverge (a.map UInt8.ofNat) (b.map UInt8.ofNat) := by
  induction a generalizing b with
  | nil => simp [DivergeN] at h
  | cons x r ih =>
    cases b with
    | nil => simp [DivergeN] at h
    | cons x' r' =>
      simp only [DivergeN] at h
      simp only [List.map_cons, Diverge]
      rcases h with h | h
      · exact Or.inl (ofNat8_ne h)
      · exact Or.inr (ih _ h)

theorem utf8N_diverge (c c' : Nat) (hc : c < 0x110000) (hc' : c' < 0x110000) (hne : c ≠ c') :
    DivergeN (utf8N c) (utf8N c') := by
  unfold utf8N
  repeat' split
  all_goals (simp only [DivergeN, or_false]; omega)

/-- distinct scalar values have encodings that differ at a common position: `utf8Enc` is
injective and no encoding is a prefix of another -/
theorem utf8Enc_diverge (c c' : Nat) (hc : ValidScalar c) (hc' : ValidScalar c') (hne : c ≠ c') :
    Diverge (utf8Enc c) (utf8Enc c') := by
  rw [utf8Enc_eq_map, utf8Enc_eq_map]
  exact diverge_of_N _ _ (utf8N_diverge c c' hc.1 hc'.1 hne)

/-! ### the nine sequences have pairwise disjoint lead-byte ranges -/

/-- the first range of a sequence -/
def lead (s : List (Nat × Nat)) : Nat × Nat := s.headD (1, 0)

theorem lead_cons (r : Nat × Nat) (rest : List (Nat × Nat)) : lead (r :: rest) = r := rfl

def inLead (s : List (Nat × Nat)) (y : UInt8) : Prop := (lead s).1 ≤ y.toNat ∧ y.toNat ≤ (lead s).2

def leadDisj (s t : List (Nat × Nat)) : Prop := (lead s).2 < (lead t).1 ∨ (lead t).2 < (lead s).1

theorem utf8Full_ok : ∀ s ∈ utf8Full, s ≠ [] ∧ ∀ r ∈ s, r.2 < 256 := by decide

theorem utf8Full_disj : utf8Full.Pairwise leadDisj := by
  simp only [utf8Full, List.pairwise_cons, List.mem_cons, forall_eq_or_imp, leadDisj, lead,
    List.headD_cons]
  simp


instance (s t : List (Nat × Nat)) : Decidable (leadDisj s t) := by unfold leadDisj; infer_instance

theorem utf8Full_ne_disj : ∀ s ∈ utf8Full, ∀ t ∈ utf8Full, s ≠ t → leadDisj s t := by decide

theorem seqMatches_inLead (x : UInt8) (w : List UInt8) (s : List (Nat × Nat))
    (h : SeqMatches (x :: w) s) : inLead s x := by
  cases s with
  | nil => simp [SeqMatches] at h
  | cons r rest => exact ⟨h.1, h.2.1⟩

/-- a byte string is matched by at most one of the nine sequences -/
theorem utf8Full_match_unique (w : List UInt8) (s t : List (Nat × Nat)) (hs : s ∈ utf8Full)
    (ht : t ∈ utf8Full) (h1 : SeqMatches w s) (h2 : SeqMatches w t) : s = t := by
  cases w with
  | nil =>
    cases s with
    | nil => exact absurd hs (by decide)
    | cons _ _ => simp [SeqMatches] at h1
  | cons x w =>
    have a := seqMatches_inLead x w s h1
    have b := seqMatches_inLead x w t h2
    apply Classical.byContradiction
    intro hne
    have := utf8Full_ne_disj s hs t ht hne
    simp only [leadDisj] at this
    simp only [inLead] at a b
    omega

/-- so the encoding of a scalar value is matched by exactly one of them -/
theorem utf8Enc_matches_unique (c : Nat) (hc : ValidScalar c) :
    ∃ s ∈ utf8Full, SeqMatches (utf8Enc c) s ∧
      ∀ t ∈ utf8Full, SeqMatches (utf8Enc c) t → t = s := by
  obtain ⟨s, hs, hm⟩ := utf8Enc_matches c hc
  exact ⟨s, hs, hm, fun t ht hmt => utf8Full_match_unique _ t s ht hs hmt hm⟩

theorem not_diverge_self (w : List UInt8) : ¬ Diverge w w := by
  induction w with
  | nil => simp [Diverge]
  | cons x w ih => simp [Diverge, ih]

/-- `utf8Enc` is injective on scalar values -/
theorem utf8Enc_inj (c c' : Nat) (hc : ValidScalar c) (hc' : ValidScalar c')
    (h : utf8Enc c = utf8Enc c') : c = c' := by
  apply Classical.byContradiction
  intro hne
  have := utf8Enc_diverge c c' hc hc' hne
  rw [h] at this
  exact not_diverge_self _ this

theorem diverge_not_prefix (w w' : List UInt8) (h : Diverge w w') : ¬ w <+: w' := by
  induction w generalizing w' with
  | nil => simp [Diverge] at h
  | cons x w ih =>
    cases w' with
    | nil => simp [Diverge] at h
    | cons x' w' =>
      simp only [Diverge] at h
      rw [List.cons_prefix_cons]
      intro ⟨e, hp⟩
      rcases h with h | h
      · exact h e
      · exact ih w' h hp

/-- no encoding is a proper prefix of another -/
theorem utf8Enc_prefix_free (c c' : Nat) (hc : ValidScalar c) (hc' : ValidScalar c')
    (h : utf8Enc c <+: utf8Enc c') : c = c' := by
  apply Classical.byContradiction
  intro hne
  exact diverge_not_prefix _ _ (utf8Enc_diverge c c' hc hc' hne) h

theorem ofNat8_eq {n : Nat} {x : UInt8} (h : n = x.toNat) : UInt8.ofNat n = x := by
  subst h; exact UInt8.ofNat_toNat

theorem dec1 (x : UInt8) (hx : x.toNat ≤ 127) : ∃ c, ValidScalar c ∧ utf8Enc c = [x] := by
  refine ⟨x.toNat, ⟨by omega, by omega⟩, ?_⟩
  unfold utf8Enc
  rw [if_pos (by omega)]
  simp only [List.cons.injEq, and_true]
  exact ofNat8_eq rfl

theorem dec2 (x y : UInt8) (hx : 194 ≤ x.toNat ∧ x.toNat ≤ 223) (hy : 128 ≤ y.toNat ∧ y.toNat ≤ 191) :
    ∃ c, ValidScalar c ∧ utf8Enc c = [x, y] := by
  refine ⟨(x.toNat - 192) * 64 + (y.toNat - 128), ⟨by omega, by omega⟩, ?_⟩
  unfold utf8Enc
  rw [if_neg (by omega), if_pos (by omega)]
  simp only [List.cons.injEq, and_true]
  exact ⟨ofNat8_eq (by omega), ofNat8_eq (by omega)⟩

theorem dec3 (x y z : UInt8) (hx : 224 ≤ x.toNat ∧ x.toNat ≤ 239)
    (hy : 128 ≤ y.toNat ∧ y.toNat ≤ 191) (hz : 128 ≤ z.toNat ∧ z.toNat ≤ 191)
    (h224 : x.toNat = 224 → 160 ≤ y.toNat) (h237 : x.toNat = 237 → y.toNat ≤ 159) :
    ∃ c, ValidScalar c ∧ utf8Enc c = [x, y, z] := by
  refine ⟨(x.toNat - 224) * 4096 + (y.toNat - 128) * 64 + (z.toNat - 128), ⟨by omega, by omega⟩, ?_⟩
  unfold utf8Enc
  rw [if_neg (by omega), if_neg (by omega), if_pos (by omega)]
  simp only [List.cons.injEq, and_true]
  exact ⟨ofNat8_eq (by omega), ofNat8_eq (by omega), ofNat8_eq (by omega)⟩

theorem dec4 (x y z u : UInt8) (hx : 240 ≤ x.toNat ∧ x.toNat ≤ 244)
    (hy : 128 ≤ y.toNat ∧ y.toNat ≤ 191) (hz : 128 ≤ z.toNat ∧ z.toNat ≤ 191)
    (hu : 128 ≤ u.toNat ∧ u.toNat ≤ 191)
    (h240 : x.toNat = 240 → 144 ≤ y.toNat) (h244 : x.toNat = 244 → y.toNat ≤ 143) :
    ∃ c, ValidScalar c ∧ utf8Enc c = [x, y, z, u] := by
  refine ⟨(x.toNat - 240) * 262144 + (y.toNat - 128) * 4096 + (z.toNat - 128) * 64 + (u.toNat - 128),
    ⟨by omega, by omega⟩, ?_⟩
  unfold utf8Enc
  rw [if_neg (by omega), if_neg (by omega), if_neg (by omega)]
  simp only [List.cons.injEq, and_true]
  exact ⟨ofNat8_eq (by omega), ofNat8_eq (by omega), ofNat8_eq (by omega), ofNat8_eq (by omega)⟩

/-- conversely, every byte string matched by one of the nine sequences is the encoding of a
scalar value (unique by `utf8Enc_inj`) -/
theorem utf8Full_matches_enc (w : List UInt8) (s : List (Nat × Nat)) (hs : s ∈ utf8Full)
    (h : SeqMatches w s) : ∃ c, ValidScalar c ∧ utf8Enc c = w := by
  simp only [utf8Full, List.mem_cons, List.not_mem_nil, or_false] at hs
  rcases hs with rfl | rfl | rfl | rfl | rfl | rfl | rfl | rfl | rfl
  · match w, h with
    | [x], h => simp only [SeqMatches, and_true] at h; exact dec1 x h.2
  · match w, h with
    | [x, y], h => simp only [SeqMatches, and_true] at h; exact dec2 x y ⟨h.1, h.2.1⟩ h.2.2
  · match w, h with
    | [x, y, z], h =>
      simp only [SeqMatches, and_true] at h
      exact dec3 x y z (by omega) (by omega) (by omega) (by omega) (by omega)
  · match w, h with
    | [x, y, z], h =>
      simp only [SeqMatches, and_true] at h
      exact dec3 x y z (by omega) (by omega) (by omega) (by omega) (by omega)
  · match w, h with
    | [x, y, z], h =>
      simp only [SeqMatches, and_true] at h
      exact dec3 x y z (by omega) (by omega) (by omega) (by omega) (by omega)
  · match w, h with
    | [x, y, z], h =>
      simp only [SeqMatches, and_true] at h
      exact dec3 x y z (by omega) (by omega) (by omega) (by omega) (by omega)
  · match w, h with
    | [x, y, z, u], h =>
      simp only [SeqMatches, and_true] at h
      exact dec4 x y z u (by omega) (by omega) (by omega) (by omega) (by omega) (by omega)
  · match w, h with
    | [x, y, z, u], h =>
      simp only [SeqMatches, and_true] at h
      exact dec4 x y z u (by omega) (by omega) (by omega) (by omega) (by omega) (by omega)
  · match w, h with
    | [x, y, z, u], h =>
      simp only [SeqMatches, and_true] at h
      exact dec4 x y z u (by omega) (by omega) (by omega) (by omega) (by omega) (by omega)

/-- the length of the encoding is determined by the scalar value -/
theorem utf8Enc_length (c : Nat) :
    (utf8Enc c).length = if c < 0x80 then 1 else if c < 0x800 then 2 else if c < 0x10000 then 3 else 4 := by
  unfold utf8Enc
  split
  · rfl
  · split
    · rfl
    · split <;> rfl

end LevDfa
end Fst
