import FstVerif.Model.Crc
import FstVerif.Spec.Crc
/-
C08 — the slice-by-16 table-driven CRC of the model is the bitwise CRC-32C.
-/
namespace Fst
namespace CrcP
open Spec

/-- bit-level extensionality for `UInt32`/`UInt8` identities made of shifts by
literals, `|||`, `^^^`, `&&&` and width conversions -/
macro "bits32" : tactic => `(tactic| (
  apply UInt32.eq_of_toBitVec_eq
  simp only [UInt32.toBitVec_or, UInt32.toBitVec_xor, UInt32.toBitVec_and, UInt32.toBitVec_shiftLeft,
    UInt32.toBitVec_shiftRight, UInt8.toBitVec_toUInt32, UInt32.toBitVec_toUInt8, UInt32.toBitVec_ofNat,
    UInt8.toBitVec_xor]
  ext i hi
  first | (simp; done) | (simp; grind)))

macro "bits8" : tactic => `(tactic| (
  apply UInt8.eq_of_toBitVec_eq
  simp only [UInt32.toBitVec_or, UInt32.toBitVec_xor, UInt32.toBitVec_and, UInt32.toBitVec_shiftLeft,
    UInt32.toBitVec_shiftRight, UInt8.toBitVec_toUInt32, UInt32.toBitVec_toUInt8, UInt32.toBitVec_ofNat,
    UInt8.toBitVec_xor]
  ext i hi
  first | (simp; done) | (simp; grind)))

/-! ### the bit step is GF(2)-linear -/

theorem and_one_cases (c : UInt32) : c &&& 1 = 0 ∨ c &&& 1 = 1 := by
  have h : (c &&& 1).toNat = c.toNat % 2 := by simp [UInt32.toNat_and, Nat.and_one_is_mod]
  rcases Nat.mod_two_eq_zero_or_one c.toNat with h0 | h1
  · left; apply UInt32.toNat_inj.mp; rw [h, h0]; rfl
  · right; apply UInt32.toNat_inj.mp; rw [h, h1]; rfl

theorem bitStep_eq (c : UInt32) :
    bitStep c = (c >>> 1) ^^^ (if c &&& 1 = 1 then crcPoly else 0) := by
  unfold bitStep; split <;> simp

theorem xor_and_one (a b : UInt32) : (a ^^^ b) &&& 1 = (a &&& 1) ^^^ (b &&& 1) := by bits32

theorem bitStep_xor (a b : UInt32) : bitStep (a ^^^ b) = bitStep a ^^^ bitStep b := by
  simp only [bitStep_eq, xor_and_one, UInt32.shiftRight_xor]
  rcases and_one_cases a with ha | ha <;> rcases and_one_cases b with hb | hb <;>
    simp [ha, hb] <;> bits32

theorem bitStep_zero : bitStep 0 = 0 := by decide

theorem bitSteps_xor (n : Nat) (a b : UInt32) :
    bitSteps n (a ^^^ b) = bitSteps n a ^^^ bitSteps n b := by
  induction n generalizing a b with
  | zero => rfl
  | succ n ih => simp only [bitSteps, bitStep_xor, ih]

theorem bitSteps_zero (n : Nat) : bitSteps n 0 = 0 := by
  induction n with
  | zero => rfl
  | succ n ih => simp only [bitSteps, bitStep_zero, ih]

theorem bitSteps_add (m n : Nat) (c : UInt32) : bitSteps (m + n) c = bitSteps n (bitSteps m c) := by
  induction m generalizing c with
  | zero => simp [bitSteps]
  | succ m ih => rw [Nat.succ_add]; simp only [bitSteps, ih]

/-! ### feeding a byte: `bitSteps 8 x = T[x & 0xff] ^^^ (x >>> 8)` -/

theorem bitStep_even (x : UInt32) (h : x.toNat % 2 = 0) : (bitStep x).toNat = x.toNat / 2 := by
  have h1 : x &&& 1 ≠ 1 := by
    intro e
    have := congrArg UInt32.toNat e
    simp [UInt32.toNat_and, Nat.and_one_is_mod] at this
    omega
  simp [bitStep, h1, UInt32.toNat_shiftRight, Nat.shiftRight_eq_div_pow]

theorem bitSteps_low_zero (k : Nat) (x : UInt32) (h : x.toNat % 2 ^ k = 0) :
    (bitSteps k x).toNat = x.toNat / 2 ^ k := by
  induction k generalizing x with
  | zero => simp [bitSteps]
  | succ k ih =>
    obtain ⟨q, hq⟩ := Nat.dvd_of_mod_eq_zero h
    have h2 : x.toNat = 2 * (2 ^ k * q) := by rw [hq, Nat.pow_succ]; ac_rfl
    have h3 := bitStep_even x (by omega)
    have h4 : (bitStep x).toNat = 2 ^ k * q := by omega
    simp only [bitSteps]
    rw [ih _ (by rw [h4]; exact Nat.mul_mod_right _ _), h4, hq,
      Nat.mul_div_cancel_left _ (Nat.two_pow_pos k), Nat.mul_div_cancel_left _ (Nat.two_pow_pos (k+1))]

theorem bitSteps8_hi (x : UInt32) (h : x.toNat % 256 = 0) : bitSteps 8 x = x >>> 8 := by
  apply UInt32.toNat_inj.mp
  rw [bitSteps_low_zero 8 x h]
  simp [UInt32.toNat_shiftRight, Nat.shiftRight_eq_div_pow]

theorem split_lo_hi (x : UInt32) : x = x.toUInt8.toUInt32 ^^^ ((x >>> 8) <<< 8) := by bits32

theorem shl8_toNat (y : UInt32) : (y <<< 8).toNat % 256 = 0 := by
  simp [UInt32.toNat_shiftLeft, Nat.shiftLeft_eq]

theorem shr_shl_shr (x : UInt32) : ((x >>> 8) <<< 8) >>> 8 = x >>> 8 := by bits32

/-- the zero-byte step -/
theorem bitSteps8_split (x : UInt32) :
    bitSteps 8 x = bitSteps 8 x.toUInt8.toUInt32 ^^^ (x >>> 8) := by
  conv => lhs; rw [split_lo_hi x]
  rw [bitSteps_xor, bitSteps8_hi _ (shl8_toNat _), shr_shl_shr]

/-! ### the generated tables are the specified ones -/

theorem table_pinned : Gen.CRC_TABLE = Spec.makeTable := by decide +kernel
theorem table16_pinned : Gen.CRC_TABLE16 = Spec.makeTable16 := by decide +kernel

theorem makeTable_getD (i : Nat) (h : i < 256) : makeTable.getD i 0 = tableEntry i := by
  simp [makeTable, List.getD_eq_getElem?_getD, List.getElem?_map, List.getElem?_range h]

theorem makeTable_length : makeTable.length = 256 := by simp [makeTable]

theorem toUInt32_eq_ofNat (i : UInt8) : i.toUInt32 = UInt32.ofNat i.toNat := by
  apply UInt32.toNat_inj.mp
  rw [UInt8.toNat_toUInt32, UInt32.toNat_ofNat']
  have := i.toNat_lt; omega

theorem tableEntry_u8 (i : UInt8) : tableEntry i.toNat = (bitSteps 8 i.toUInt32).toNat := by
  rw [tableEntry, toUInt32_eq_ofNat]

/-- the row recurrence of `make_table16` is the zero-byte step -/
theorem nextEntry_toNat (y : UInt32) : nextEntry y.toNat = (bitSteps 8 y).toNat := by
  have h1 : y.toNat &&& 0xff = y.toUInt8.toNat := by
    rw [UInt32.toNat_toUInt8]; exact Nat.and_two_pow_sub_one_eq_mod _ 8
  rw [nextEntry, h1, makeTable_getD _ (UInt8.toNat_lt _), tableEntry_u8, bitSteps8_split y,
    UInt32.toNat_xor, UInt32.toNat_shiftRight, Nat.xor_comm]
  rfl

/-- `j` applications of the row recurrence -/
def nextN : Nat → Nat → Nat
  | 0, x => x
  | j + 1, x => nextN j (nextEntry x)

theorem nextN_toNat (j : Nat) (y : UInt32) : nextN j y.toNat = (bitSteps (8 * j) y).toNat := by
  induction j generalizing y with
  | zero => rfl
  | succ j ih =>
    rw [nextN, nextEntry_toNat, ih, show 8 * (j + 1) = 8 + 8 * j by omega, bitSteps_add]

theorem tableRows_getD (n : Nat) (row : List Nat) (j i : Nat) (hj : j < n) (hi : i < row.length) :
    ((tableRows n row).getD j []).getD i 0 = nextN j (row.getD i 0) := by
  induction n generalizing row j with
  | zero => omega
  | succ n ih =>
    cases j with
    | zero => simp [tableRows, nextN]
    | succ j =>
      simp only [tableRows, List.getD_cons_succ, nextN]
      rw [ih (row.map nextEntry) j (by omega) (by simpa using hi)]
      congr 1
      simp [List.getD_eq_getElem?_getD, List.getElem?_map, List.getElem?_eq_getElem hi]

theorem makeTable16_getD (j : Nat) (i : UInt8) (hj : j < 16) :
    (makeTable16.getD j []).getD i.toNat 0 = (bitSteps (8 * (j + 1)) i.toUInt32).toNat := by
  rw [makeTable16, tableRows_getD 16 makeTable j i.toNat hj (by rw [makeTable_length]; exact i.toNat_lt),
    makeTable_getD _ i.toNat_lt, tableEntry_u8, nextN_toNat, show 8 * (j + 1) = 8 + 8 * j by omega,
    bitSteps_add]

/-! ### the model's array accessors -/

theorem tbl_eq (i : UInt8) : tbl i = bitSteps 8 i.toUInt32 := by
  have h : (Gen.CRC_TABLE.map UInt32.ofNat)[i.toNat]?.getD 0
      = UInt32.ofNat (Gen.CRC_TABLE.getD i.toNat 0) := by
    rw [List.getElem?_map, List.getD_eq_getElem?_getD]
    cases Gen.CRC_TABLE[i.toNat]? <;> rfl
  rw [tbl, crcTableA, Array.getD_eq_getD_getElem?, List.getElem?_toArray, h, table_pinned,
    makeTable_getD _ i.toNat_lt, tableEntry_u8, UInt32.ofNat_toNat]

theorem getD_map2 (T : List (List Nat)) (j i : Nat) :
    ((T.map fun row => (row.map UInt32.ofNat).toArray).toArray.getD j #[]).getD i 0
      = UInt32.ofNat ((T.getD j []).getD i 0) := by
  simp only [Array.getD_eq_getD_getElem?, List.getElem?_toArray, List.getElem?_map,
    List.getD_eq_getElem?_getD]
  cases T[j]? with
  | none => rfl
  | some row =>
    simp only [Option.map_some, Option.getD_some, List.getElem?_toArray, List.getElem?_map]
    cases row[i]? <;> rfl

theorem tbl16_eq (j : Nat) (i : UInt8) (hj : j < 16) :
    tbl16 j i = bitSteps (8 * (j + 1)) i.toUInt32 := by
  rw [tbl16, crcT16A, getD_map2, table16_pinned, makeTable16_getD j i hj, UInt32.ofNat_toNat]

/-! ### one table-driven byte step is the bitwise byte step -/

theorem byteStep_lin (c : UInt32) (b : UInt8) :
    byteStep c b = bitSteps 8 c ^^^ bitSteps 8 b.toUInt32 := by
  rw [byteStep, bitSteps_xor]

theorem xor_byte_lo (c : UInt32) (b : UInt8) : (c ^^^ b.toUInt32).toUInt8 = c.toUInt8 ^^^ b := by bits8
theorem xor_byte_hi (c : UInt32) (b : UInt8) : (c ^^^ b.toUInt32) >>> 8 = c >>> 8 := by bits32

theorem crcByte_eq (c : UInt32) (b : UInt8) : crcByte c b = byteStep c b := by
  rw [crcByte, tbl_eq, byteStep, bitSteps8_split (c ^^^ b.toUInt32), xor_byte_lo, xor_byte_hi]

theorem foldl_crcByte (c : UInt32) (buf : List UInt8) : buf.foldl crcByte c = buf.foldl byteStep c := by
  have : crcByte = byteStep := by funext c b; exact crcByte_eq c b
  rw [this]

/-! ### one 16-byte block is 16 byte steps -/

theorem bitSteps_split (n : Nat) (x : UInt32) :
    bitSteps (8 + n) x = bitSteps (8 + n) x.toUInt8.toUInt32 ^^^ bitSteps n (x >>> 8) := by
  rw [bitSteps_add, bitSteps8_split, bitSteps_xor, ← bitSteps_add]

theorem shr_8_8 (x : UInt32) : x >>> 8 >>> 8 = x >>> 16 := by bits32
theorem shr_16_8 (x : UInt32) : x >>> 16 >>> 8 = x >>> 24 := by bits32
theorem shr_24_8 (x : UInt32) : x >>> 24 >>> 8 = 0 := by bits32

/-- 16 zero bytes fed into a state: the contributions of its four bytes -/
theorem bitSteps128_bytes (x : UInt32) :
    bitSteps 128 x = bitSteps 128 x.toUInt8.toUInt32 ^^^ bitSteps 120 (x >>> 8).toUInt8.toUInt32
      ^^^ bitSteps 112 (x >>> 16).toUInt8.toUInt32 ^^^ bitSteps 104 (x >>> 24).toUInt8.toUInt32 := by
  have e1 := bitSteps_split 120 x
  have e2 := bitSteps_split 112 (x >>> 8)
  have e3 := bitSteps_split 104 (x >>> 16)
  have e4 := bitSteps_split 96 (x >>> 24)
  simp only [Nat.reduceAdd, shr_8_8, shr_16_8, shr_24_8, bitSteps_zero, UInt32.xor_zero] at e1 e2 e3 e4
  rw [e1, e2, e3, e4]
  simp only [UInt32.xor_assoc]

theorem le_byte0 (b0 b1 b2 b3 : UInt8) : (u32OfLe b0 b1 b2 b3).toUInt8 = b0 := by
  unfold u32OfLe; bits8
theorem le_byte1 (b0 b1 b2 b3 : UInt8) : (u32OfLe b0 b1 b2 b3 >>> 8).toUInt8 = b1 := by
  unfold u32OfLe; bits8
theorem le_byte2 (b0 b1 b2 b3 : UInt8) : (u32OfLe b0 b1 b2 b3 >>> 16).toUInt8 = b2 := by
  unfold u32OfLe; bits8
theorem le_byte3 (b0 b1 b2 b3 : UInt8) : (u32OfLe b0 b1 b2 b3 >>> 24).toUInt8 = b3 := by
  unfold u32OfLe; bits8

theorem crcBlock_eq (c : UInt32) (b0 b1 b2 b3 b4 b5 b6 b7 b8 b9 b10 b11 b12 b13 b14 b15 : UInt8) :
    crcBlock c b0 b1 b2 b3 b4 b5 b6 b7 b8 b9 b10 b11 b12 b13 b14 b15
      = [b0, b1, b2, b3, b4, b5, b6, b7, b8, b9, b10, b11, b12, b13, b14, b15].foldl byteStep c := by
  have hs := bitSteps128_bytes (c ^^^ u32OfLe b0 b1 b2 b3)
  have hl := bitSteps128_bytes (u32OfLe b0 b1 b2 b3)
  rw [le_byte0, le_byte1, le_byte2, le_byte3] at hl
  rw [bitSteps_xor, hl] at hs
  simp only [crcBlock, List.foldl_cons, List.foldl_nil, byteStep_lin, bitSteps_xor, ← bitSteps_add,
    Nat.reduceAdd]
  rw [tbl16_eq 0 _ (by decide), tbl16_eq 1 _ (by decide), tbl16_eq 2 _ (by decide),
    tbl16_eq 3 _ (by decide), tbl16_eq 4 _ (by decide), tbl16_eq 5 _ (by decide),
    tbl16_eq 6 _ (by decide), tbl16_eq 7 _ (by decide), tbl16_eq 8 _ (by decide),
    tbl16_eq 9 _ (by decide), tbl16_eq 10 _ (by decide), tbl16_eq 11 _ (by decide),
    tbl16_eq 12 _ (by decide), tbl16_eq 13 _ (by decide), tbl16_eq 14 _ (by decide),
    tbl16_eq 15 _ (by decide)]
  simp only [Nat.reduceAdd, Nat.reduceMul]
  generalize bitSteps 128 (c ^^^ u32OfLe b0 b1 b2 b3).toUInt8.toUInt32 = A at hs ⊢
  generalize bitSteps 120 ((c ^^^ u32OfLe b0 b1 b2 b3) >>> 8).toUInt8.toUInt32 = B at hs ⊢
  generalize bitSteps 112 ((c ^^^ u32OfLe b0 b1 b2 b3) >>> 16).toUInt8.toUInt32 = C at hs ⊢
  generalize bitSteps 104 ((c ^^^ u32OfLe b0 b1 b2 b3) >>> 24).toUInt8.toUInt32 = D at hs ⊢
  grind

theorem crcLoop_eq (c : UInt32) (buf : List UInt8) : crcLoop c buf = buf.foldl byteStep c := by
  fun_induction crcLoop c buf with
  | case1 c b0 b1 b2 b3 b4 b5 b6 b7 b8 b9 b10 b11 b12 b13 b14 b15 rest ih =>
    rw [ih, crcBlock_eq]; rfl
  | case2 c buf _ => exact foldl_crcByte c buf

/-! ### the bit step is injective -/

theorem split_bit0 (x : UInt32) : x = ((x >>> 1) <<< 1) ||| (x &&& 1) := by bits32
theorem shr_1_31 (x : UInt32) : x >>> 1 >>> 31 = 0 := by bits32

theorem bitStep_ker (x : UInt32) (h : bitStep x = 0) : x = 0 := by
  rw [bitStep_eq] at h
  rcases and_one_cases x with h0 | h1
  · rw [h0] at h
    simp at h
    rw [split_bit0 x, h, h0]; decide
  · rw [h1] at h
    simp at h
    have h2 := congrArg (fun z : UInt32 => z >>> 31) h
    simp only [shr_1_31] at h2
    exact absurd h2 (by decide)

theorem bitSteps_ker (n : Nat) (x : UInt32) (h : bitSteps n x = 0) : x = 0 := by
  induction n generalizing x with
  | zero => exact h
  | succ n ih => exact bitStep_ker x (ih _ h)

theorem bitSteps_inj (n : Nat) (a b : UInt32) (h : bitSteps n a = bitSteps n b) : a = b := by
  apply UInt32.xor_eq_zero_iff.mp
  apply bitSteps_ker n
  rw [bitSteps_xor, h, UInt32.xor_self]

theorem toUInt32_inj (x y : UInt8) (h : x.toUInt32 = y.toUInt32) : x = y := by
  have := congrArg UInt32.toUInt8 h
  simpa [UInt8.toUInt8_toUInt32] using this

/-- for a fixed byte the byte step is injective in the state -/
theorem byteStep_inj_state (b : UInt8) (c c' : UInt32) (h : byteStep c b = byteStep c' b) : c = c' :=
  (UInt32.xor_left_inj _).mp (bitSteps_inj 8 _ _ h)

/-- for a fixed state the byte step is injective in the byte -/
theorem byteStep_inj_byte (c : UInt32) (x y : UInt8) (h : byteStep c x = byteStep c y) : x = y :=
  toUInt32_inj _ _ ((UInt32.xor_right_inj _).mp (bitSteps_inj 8 _ _ h))

theorem foldl_byteStep_inj (l : List UInt8) (c c' : UInt32)
    (h : l.foldl byteStep c = l.foldl byteStep c') : c = c' := by
  induction l generalizing c c' with
  | nil => exact h
  | cons b l ih => exact byteStep_inj_state b _ _ (ih _ _ h)

theorem not_inj (a b : UInt32) (h : ~~~a = ~~~b) : a = b := by
  have := congrArg (fun z : UInt32 => ~~~ z) h
  simpa using this

/-! ### the mask is injective -/

theorem rot_inv (x : UInt32) :
    (((x >>> 15) ||| (x <<< 17)) <<< 15) ||| (((x >>> 15) ||| (x <<< 17)) >>> 17) = x := by bits32

theorem mask_inj (x y : UInt32) (h : Spec.mask x = Spec.mask y) : x = y := by
  rw [Spec.mask, Spec.mask, UInt32.add_left_inj] at h
  rw [← rot_inv x, ← rot_inv y, h]

/-! ### bursts of at most 32 bits -/

/-- little-endian value of a window of bytes -/
def leVal : List UInt8 → UInt32
  | [] => 0
  | b :: w => b.toUInt32 ^^^ (leVal w <<< 8)

theorem leVal_lt (w : List UInt8) (h : w.length ≤ 4) : (leVal w).toNat < 2 ^ (8 * w.length) := by
  induction w with
  | nil => simp [leVal]
  | cons b w ih =>
    have ih := ih (by simp at h; omega)
    simp only [leVal, List.length_cons, UInt32.toNat_xor]
    have e : 8 * (w.length + 1) = 8 * w.length + 8 := by omega
    apply Nat.xor_lt_two_pow
    · rw [UInt8.toNat_toUInt32]
      exact Nat.lt_of_lt_of_le b.toNat_lt (Nat.pow_le_pow_right (by decide) (by omega))
    · rw [UInt32.toNat_shiftLeft]
      apply Nat.lt_of_le_of_lt (Nat.mod_le _ _)
      rw [e, Nat.pow_add]
      simp [Nat.shiftLeft_eq]
      omega

theorem shl_shr_small (v : UInt32) (h : v.toNat < 2 ^ 24) : v <<< 8 >>> 8 = v := by
  apply UInt32.toNat_inj.mp
  simp [UInt32.toNat_shiftRight, UInt32.toNat_shiftLeft, Nat.shiftLeft_eq, Nat.shiftRight_eq_div_pow]
  omega

theorem leVal_small (w : List UInt8) (h : w.length ≤ 3) : (leVal w).toNat < 2 ^ 24 :=
  Nat.lt_of_lt_of_le (leVal_lt w (by omega)) (Nat.pow_le_pow_right (by decide) (by omega))

theorem bitSteps8_shl (v : UInt32) (h : v.toNat < 2 ^ 24) : bitSteps 8 (v <<< 8) = v := by
  rw [bitSteps8_hi _ (shl8_toNat v), shl_shr_small v h]

/-- a window of at most 4 bytes is absorbed as one 32-bit word -/
theorem foldl_window (w : List UInt8) (c : UInt32) (h : w.length ≤ 4) :
    w.foldl byteStep c = bitSteps (8 * w.length) (c ^^^ leVal w) := by
  induction w generalizing c with
  | nil => simp [leVal, bitSteps]
  | cons b w ih =>
    have hw : w.length ≤ 3 := by simp at h; omega
    rw [List.foldl_cons, ih _ (by omega), List.length_cons, show 8 * (w.length + 1) = 8 + 8 * w.length by omega,
      bitSteps_add, leVal, byteStep]
    congr 1
    rw [← UInt32.xor_assoc, bitSteps_xor 8 (c ^^^ b.toUInt32), bitSteps8_shl _ (leVal_small w hw)]

theorem lo_of_cons (b : UInt8) (v : UInt32) : (b.toUInt32 ^^^ (v <<< 8)).toUInt8 = b := by bits8

theorem leVal_inj (w1 w2 : List UInt8) (hl : w1.length = w2.length) (h4 : w1.length ≤ 4)
    (h : leVal w1 = leVal w2) : w1 = w2 := by
  induction w1 generalizing w2 with
  | nil => cases w2 with
    | nil => rfl
    | cons _ _ => simp at hl
  | cons b w ih =>
    cases w2 with
    | nil => simp at hl
    | cons b' w' =>
      simp only [List.length_cons] at hl h4
      simp only [leVal] at h
      have hb : b = b' := by
        have := congrArg UInt32.toUInt8 h
        rwa [lo_of_cons, lo_of_cons] at this
      subst hb
      have hv := (UInt32.xor_right_inj _).mp h
      have hv2 : leVal w <<< 8 >>> 8 = leVal w' <<< 8 >>> 8 := by rw [hv]
      rw [shl_shr_small _ (leVal_small w (by omega)), shl_shr_small _ (leVal_small w' (by omega))] at hv2
      rw [ih w' (by omega) (by omega) hv2]

end CrcP

open Spec

/-! ## C08 -/

/-- the tables compiled into the crate are the tables generated from the definition of CRC-32C -/
theorem tables_pinned : Gen.CRC_TABLE = Spec.makeTable ∧ Gen.CRC_TABLE16 = Spec.makeTable16 :=
  ⟨CrcP.table_pinned, CrcP.table16_pinned⟩

/-- slice-by-16 over the generated tables is the bitwise CRC-32C, for every buffer -/
theorem C08_slice16 (prev : UInt32) (buf : List UInt8) :
    crc32cSlice16 prev buf = Spec.crcBitwise prev buf := by
  rw [crc32cSlice16, CrcP.crcLoop_eq, Spec.crcBitwise]

theorem maskedSum_eq_mask (x : UInt32) : maskedSum x = Spec.mask x := rfl

theorem crcBitwise_append (prev : UInt32) (a b : List UInt8) :
    Spec.crcBitwise (Spec.crcBitwise prev a) b = Spec.crcBitwise prev (a ++ b) := by
  simp only [Spec.crcBitwise, UInt32.not_not, List.foldl_append]

/-- updating with `a` then `b` is updating with `a ++ b` -/
theorem C08_chunking (s : Summer) (a b : List UInt8) : (s.update a).update b = s.update (a ++ b) := by
  simp only [Summer.update, C08_slice16, crcBitwise_append]

example : ((Summer.mk 7).update [1, 2, 3]).update [4, 5] = (Summer.mk 7).update [1, 2, 3, 4, 5] :=
  C08_chunking _ _ _

/-- two buffers that differ in exactly one byte have different CRCs -/
theorem crcBitwise_single_byte (pre post : List UInt8) (x y : UInt8) (hxy : x ≠ y) (prev : UInt32) :
    Spec.crcBitwise prev (pre ++ x :: post) ≠ Spec.crcBitwise prev (pre ++ y :: post) := by
  intro h
  simp only [Spec.crcBitwise, List.foldl_append, List.foldl_cons] at h
  exact hxy (CrcP.byteStep_inj_byte _ _ _ (CrcP.foldl_byteStep_inj _ _ _ (CrcP.not_inj _ _ h)))

theorem C08_single_byte (pre post : List UInt8) (x y : UInt8) (hxy : x ≠ y) (prev : UInt32) :
    crc32cSlice16 prev (pre ++ x :: post) ≠ crc32cSlice16 prev (pre ++ y :: post) := by
  rw [C08_slice16, C08_slice16]; exact crcBitwise_single_byte pre post x y hxy prev

/-- the Snappy mask is injective -/
theorem maskedSum_injective (x y : UInt32) (h : maskedSum x = maskedSum y) : x = y :=
  CrcP.mask_inj x y h

theorem C08_masked_single_byte (pre post : List UInt8) (x y : UInt8) (hxy : x ≠ y) (prev : UInt32) :
    maskedSum (crc32cSlice16 prev (pre ++ x :: post))
      ≠ maskedSum (crc32cSlice16 prev (pre ++ y :: post)) :=
  fun h => C08_single_byte pre post x y hxy prev (maskedSum_injective _ _ h)

example : crc32cSlice16 0 ([1, 2] ++ 3 :: [4]) ≠ crc32cSlice16 0 ([1, 2] ++ 7 :: [4]) :=
  C08_single_byte [1, 2] [4] 3 7 (by decide) 0

/-- the same through the `CheckSummer` API: the masked checksums differ -/
theorem C08_summer_single_byte (s : Summer) (pre post : List UInt8) (x y : UInt8) (hxy : x ≠ y) :
    (s.update (pre ++ x :: post)).masked ≠ (s.update (pre ++ y :: post)).masked :=
  C08_masked_single_byte pre post x y hxy s.sum

example : ((Summer.mk 0).update ([1, 2] ++ 3 :: [4])).masked ≠ ((Summer.mk 0).update ([1, 2] ++ 7 :: [4])).masked :=
  C08_summer_single_byte _ [1, 2] [4] 3 7 (by decide)

/-- two buffers that differ only inside a window of at most 4 consecutive bytes
(a burst of at most 32 bits) have different CRCs -/
theorem crcBitwise_burst (pre post w1 w2 : List UInt8) (hl : w1.length = w2.length)
    (h4 : w1.length ≤ 4) (hne : w1 ≠ w2) (prev : UInt32) :
    Spec.crcBitwise prev (pre ++ w1 ++ post) ≠ Spec.crcBitwise prev (pre ++ w2 ++ post) := by
  intro h
  simp only [Spec.crcBitwise, List.foldl_append] at h
  have h1 := CrcP.foldl_byteStep_inj _ _ _ (CrcP.not_inj _ _ h)
  rw [CrcP.foldl_window w1 _ h4, CrcP.foldl_window w2 _ (hl ▸ h4), hl] at h1
  exact hne (CrcP.leVal_inj w1 w2 hl h4 ((UInt32.xor_right_inj _).mp (CrcP.bitSteps_inj _ _ _ h1)))

theorem C08_burst (pre post w1 w2 : List UInt8) (hl : w1.length = w2.length)
    (h4 : w1.length ≤ 4) (hne : w1 ≠ w2) (prev : UInt32) :
    crc32cSlice16 prev (pre ++ w1 ++ post) ≠ crc32cSlice16 prev (pre ++ w2 ++ post) := by
  rw [C08_slice16, C08_slice16]; exact crcBitwise_burst pre post w1 w2 hl h4 hne prev

theorem C08_masked_burst (pre post w1 w2 : List UInt8) (hl : w1.length = w2.length)
    (h4 : w1.length ≤ 4) (hne : w1 ≠ w2) (prev : UInt32) :
    maskedSum (crc32cSlice16 prev (pre ++ w1 ++ post))
      ≠ maskedSum (crc32cSlice16 prev (pre ++ w2 ++ post)) :=
  fun h => C08_burst pre post w1 w2 hl h4 hne prev (maskedSum_injective _ _ h)

example : crc32cSlice16 0 ([9] ++ [1, 2, 3, 4] ++ [5, 6]) ≠ crc32cSlice16 0 ([9] ++ [1, 0, 3, 7] ++ [5, 6]) :=
  C08_burst [9] [5, 6] [1, 2, 3, 4] [1, 0, 3, 7] rfl (by decide) (by decide) 0

/-! ### test vectors (the "check" value of CRC-32C and RFC 3720 B.4) -/

example : Spec.crcBitwise 0 [0x31, 0x32, 0x33, 0x34, 0x35, 0x36, 0x37, 0x38, 0x39] = 0xE3069283 := by
  decide +kernel
example : Spec.crcBitwise 0 (List.replicate 32 0) = 0x8A9136AA := by decide +kernel
example : Spec.crcBitwise 0 (List.replicate 32 0xFF) = 0x62A8AB43 := by decide +kernel
example : Spec.crcBitwise 0 ((List.range 32).map UInt8.ofNat) = 0x46DD794E := by decide +kernel
example : Spec.crcBitwise 0 ((List.range 32).reverse.map UInt8.ofNat) = 0x113FDB5C := by decide +kernel
example : crc32cSlice16 0 [0x31, 0x32, 0x33, 0x34, 0x35, 0x36, 0x37, 0x38, 0x39] = 0xE3069283 := by
  rw [C08_slice16]; decide +kernel
example : crc32cSlice16 0 ((List.range 32).map UInt8.ofNat) = 0x46DD794E := by
  rw [C08_slice16]; decide +kernel

end Fst
