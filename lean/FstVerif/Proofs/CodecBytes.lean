import FstVerif.Proofs.Den
import FstVerif.Model.Build
/-
T-Codec, part 1 of 4 (CodecBytes → CodecOne → CodecAny → Codec): reusable
facts about `packIn`/`unpack`/`packSize`, byte segments (`Seg`) and reading them
through `Src`, the generated common-input tables, and the transition index
(`buildIndex`) / `transIdx`.
-/
namespace Fst

/-! ### A. bytes: `packIn`, `unpack`, `packSize` -/

theorem packIn_length (n k : Nat) : (packIn n k).length = k := by
  induction k generalizing n with
  | zero => rfl
  | succ k ih => simp [packIn, ih]

theorem unpack_packIn (n k : Nat) (h : n < 256 ^ k) : unpack (packIn n k) = n := by
  induction k generalizing n with
  | zero => simp at h; simp [packIn, unpack, h]
  | succ k ih =>
    have h' : n / 256 < 256 ^ k := by
      rw [Nat.div_lt_iff_lt_mul (by decide)]; rw [Nat.pow_succ] at h; exact h
    simp only [packIn, unpack, ih _ h', UInt8.toNat_ofNat']
    have : n % 256 < 2 ^ 8 := by omega
    rw [Nat.mod_eq_of_lt this]; omega

theorem packSize_pos (n : Nat) : 1 ≤ packSize n := by
  unfold packSize; split <;> (try split) <;> (try split) <;> (try split) <;> (try split) <;> (try split) <;> (try split) <;> omega

theorem packSize_le (n : Nat) : packSize n ≤ 8 := by
  unfold packSize; split <;> (try split) <;> (try split) <;> (try split) <;> (try split) <;> (try split) <;> (try split) <;> omega

theorem lt_pow_packSize (n : Nat) (h : n < 2 ^ 64) : n < 256 ^ packSize n := by
  unfold packSize
  split; · omega
  split; · omega
  split; · omega
  split; · omega
  split; · omega
  split; · omega
  split; · omega
  omega

theorem pow256_mono {a b : Nat} (h : a ≤ b) : 256 ^ a ≤ 256 ^ b :=
  Nat.pow_le_pow_right (by decide) h

theorem packSize_zero : packSize 0 = 1 := by decide

/-! ### B. segments of a byte list and reading them back -/

/-- `x` occurs in `l` at byte offset `off` -/
def Seg (l : List UInt8) (off : Nat) (x : List UInt8) : Prop :=
  ∃ a b, l = a ++ x ++ b ∧ a.length = off

theorem seg_mid (pre x post : List UInt8) : Seg (pre ++ x ++ post) pre.length x :=
  ⟨pre, post, rfl, rfl⟩

theorem seg_append {l : List UInt8} {off : Nat} {x y : List UInt8} (h : Seg l off (x ++ y)) :
    Seg l off x ∧ Seg l (off + x.length) y := by
  obtain ⟨a, b, rfl, rfl⟩ := h
  exact ⟨⟨a, y ++ b, by simp, rfl⟩, ⟨a ++ x, b, by simp, by simp⟩⟩

theorem seg_cons {l : List UInt8} {off : Nat} {b : UInt8} {x : List UInt8} (h : Seg l off (b :: x)) :
    l[off]? = some b ∧ Seg l (off + 1) x := by
  obtain ⟨a, c, rfl, rfl⟩ := h
  exact ⟨by simp, ⟨a ++ [b], c, by simp, by simp⟩⟩

theorem seg_get {l : List UInt8} {off : Nat} {x : List UInt8} (h : Seg l off x)
    (i : Nat) (hi : i < x.length) : l[off + i]? = some x[i] := by
  obtain ⟨a, c, rfl, rfl⟩ := h
  rw [List.append_assoc, List.getElem?_append_right (by omega)]
  rw [show a.length + i - a.length = i by omega, List.getElem?_append_left hi]
  simp [hi]

theorem seg_single {l : List UInt8} {off : Nat} {b : UInt8} (h : Seg l off [b]) : l[off]? = some b :=
  (seg_cons h).1

theorem seg_len {l : List UInt8} {off : Nat} {x : List UInt8} (h : Seg l off x) :
    off + x.length ≤ l.length := by
  obtain ⟨a, c, rfl, rfl⟩ := h; simp

theorem seg_read {l : List UInt8} {off : Nat} {x : List UInt8} (h : Seg l off x) :
    (Src.ofList l).read off x.length = some x := by
  induction x generalizing off with
  | nil => rfl
  | cons b x ih =>
    obtain ⟨h1, h2⟩ := seg_cons h
    simp only [List.length_cons, Src.read, Src.ofList, h1]
    have := ih h2
    simp only [Src.ofList] at this
    rw [this]

theorem seg_read' {l : List UInt8} {off k : Nat} {x : List UInt8} (h : Seg l off x) (hk : x.length = k) :
    (Src.ofList l).read off k = some x := hk ▸ seg_read h

/-- the reading helper of the task statement, in `Src.get` form -/
theorem Src.get_mid (pre x post : List UInt8) (i : Nat) (hi : i < x.length) :
    (Src.ofList (pre ++ x ++ post)).get (pre.length + i) = x[i]? := by
  have := seg_get (seg_mid pre x post) i hi
  simp only [Src.ofList]; rw [this]; simp [hi]

theorem seg_unpackAt {l : List UInt8} {off k n : Nat} (h : Seg l off (packIn n k)) (hn : n < 256 ^ k) :
    (Src.ofList l).unpackAt off k = some n := by
  simp only [Src.unpackAt, seg_read' h (packIn_length n k), Option.map_some, unpack_packIn n k hn]

theorem Src.read_mid (pre x post : List UInt8) :
    (Src.ofList (pre ++ x ++ post)).read pre.length x.length = some x :=
  seg_read (seg_mid pre x post)

theorem Src.unpackAt_mid (pre post : List UInt8) (n k : Nat) (h : n < 256 ^ k) :
    (Src.ofList (pre ++ packIn n k ++ post)).unpackAt pre.length k = some n :=
  seg_unpackAt (seg_mid pre _ post) h

theorem seg_unpackChecked {l : List UInt8} {off k n : Nat} (h : Seg l off (packIn n k)) (hn : n < 256 ^ k)
    (h1 : 1 ≤ k) (h8 : k ≤ 8) : (Src.ofList l).unpackChecked off k = some n := by
  simp only [Src.unpackChecked, h1, h8, and_self, if_true, seg_unpackAt h hn]

theorem length_flatMap_const {α β : Type} (ts : List α) (f : α → List β) (k : Nat)
    (hk : ∀ t ∈ ts, (f t).length = k) : (ts.flatMap f).length = ts.length * k := by
  induction ts with
  | nil => simp
  | cons t ts ih =>
    simp only [List.flatMap_cons, List.length_append, List.length_cons]
    rw [ih (fun t ht => hk t (List.mem_cons_of_mem _ ht)), hk t List.mem_cons_self, Nat.add_mul]; omega

theorem seg_flatMap {α : Type} {l : List UInt8} {off k : Nat} {ts : List α} {f : α → List UInt8}
    (h : Seg l off (ts.flatMap f)) (hk : ∀ t ∈ ts, (f t).length = k) (i : Nat) (hi : i < ts.length) :
    Seg l (off + i * k) (f ts[i]) := by
  induction ts generalizing off i with
  | nil => simp at hi
  | cons t ts ih =>
    rw [List.flatMap_cons] at h
    obtain ⟨h1, h2⟩ := seg_append h
    cases i with
    | zero => simpa using h1
    | succ i =>
      have := ih h2 (fun t ht => hk t (List.mem_cons_of_mem _ ht)) i (by simpa using hi)
      rw [hk t List.mem_cons_self] at this
      simp only [List.getElem_cons_succ]
      rw [show off + (i + 1) * k = off + k + i * k by rw [Nat.add_mul]; omega]
      exact this

/-! ### C. the common-input tables -/

theorem commonInputsA_getD (i : Nat) : commonInputsA.getD i 0 = Gen.COMMON_INPUTS.getD i 0 := by
  simp [commonInputsA, Array.getD, List.getD]
  split <;> simp_all

theorem commonInputsInvA_getD (i : Nat) : commonInputsInvA.getD i 0 = Gen.COMMON_INPUTS_INV.getD i 0 := by
  simp [commonInputsInvA, Array.getD, List.getD]
  split <;> simp_all

/-- the finite fact about the generated tables: every nonzero common index
`≤ 63` is mapped back to its byte by the inverse table -/
def commonTableOk : Bool :=
  (List.range 256).all fun i =>
    let val := (Gen.COMMON_INPUTS.getD i 0 + 1) % 256
    val = 0 || val > 63 || Gen.COMMON_INPUTS_INV.getD (val - 1) 0 == i

theorem commonTableOk_true : commonTableOk = true := by decide +kernel

theorem commonIdx_lt (b : UInt8) : commonIdx b 63 < 64 := by
  simp only [commonIdx]; split <;> omega

theorem commonInput_commonIdx (b : UInt8) (h : commonIdx b 63 ≠ 0) :
    commonInput (commonIdx b 63) = some b := by
  have hb : b.toNat < 256 := UInt8.toNat_lt b
  have ht := (List.all_eq_true.mp commonTableOk_true) b.toNat (List.mem_range.mpr hb)
  simp only [commonIdx, commonInputsA_getD] at h ⊢
  simp only [commonInput, commonInputsInvA_getD]
  generalize (Gen.COMMON_INPUTS.getD b.toNat 0 + 1) % 256 = val at *
  split at h
  · exact absurd rfl h
  · rename_i hle
    simp only [decide_eq_true_eq, Bool.or_eq_true, beq_iff_eq] at ht
    rcases ht with (ht | ht) | ht
    · exact absurd ht h
    · exact absurd ht hle
    · rw [if_neg hle, if_neg h, ht, UInt8.ofNat_toNat]

theorem commonInput_zero : commonInput 0 = none := rfl

/-! ### D. the transition index -/

theorem buildIndex_length (ts : List Tr) : (buildIndex ts).length = 256 := by
  simp [buildIndex]

theorem sorted_inj {n : BNode} (hs : SortedInputs n) {i j : Nat} (hi : i < n.trans.length)
    (hj : j < n.trans.length) (h : n.trans[i].inp = n.trans[j].inp) : i = j := by
  have hp := List.pairwise_iff_getElem.mp hs
  rcases Nat.lt_trichotomy i j with hlt | heq | hgt
  · have := hp i j hi hj hlt; rw [h] at this; exact absurd this (UInt8.lt_irrefl _)
  · exact heq
  · have := hp j i hj hi hgt; rw [h] at this; exact absurd this (UInt8.lt_irrefl _)

theorem transIdx_some {n : BNode} (hs : SortedInputs n) {i : Nat} (hi : i < n.trans.length) :
    transIdx n n.trans[i].inp = some i := by
  rw [transIdx, List.findIdx?_eq_some_iff_getElem]
  refine ⟨hi, by simp, ?_⟩
  intro j hji hc
  have hc' : n.trans[j].inp = n.trans[i].inp := by simpa using hc
  have := sorted_inj hs (by omega) hi hc'
  omega

theorem transIdx_some_iff {n : BNode} (hs : SortedInputs n) {b : UInt8} {i : Nat} :
    transIdx n b = some i ↔ ∃ h : i < n.trans.length, n.trans[i].inp = b := by
  constructor
  · intro h
    rw [transIdx, List.findIdx?_eq_some_iff_getElem] at h
    obtain ⟨hi, hb, _⟩ := h
    exact ⟨hi, by simpa using hb⟩
  · rintro ⟨hi, rfl⟩; exact transIdx_some hs hi

theorem transIdx_none_iff {n : BNode} {b : UInt8} :
    transIdx n b = none ↔ ∀ t ∈ n.trans, t.inp ≠ b := by
  simp [transIdx, List.findIdx?_eq_none_iff]

theorem transIdx_lt {n : BNode} {b : UInt8} {i : Nat} (h : transIdx n b = some i) : i < n.trans.length := by
  rw [transIdx, List.findIdx?_eq_some_iff_getElem] at h
  exact h.1

/-- entry `b` of the index is the position of the transition on `b`, or 255 -/
theorem buildIndex_get (n : BNode) (hs : SortedInputs n) (b : UInt8) :
    (buildIndex n.trans)[b.toNat]? =
      some (match transIdx n b with | some i => UInt8.ofNat i | none => 255) := by
  have hb : b.toNat < 256 := UInt8.toNat_lt b
  simp only [buildIndex, List.getElem?_map, List.getElem?_range hb, Option.map_some]
  congr 1
  cases hf : (n.trans.zipIdx.filter fun p => decide (p.1.inp.toNat = b.toNat)).getLast? with
  | none =>
    rw [List.getLast?_eq_none_iff] at hf
    cases ht : transIdx n b with
    | none => rfl
    | some i =>
      exfalso
      obtain ⟨hi, hb⟩ := (transIdx_some_iff hs).mp ht
      have : (n.trans[i], i) ∈ n.trans.zipIdx.filter fun p => decide (p.1.inp.toNat = b.toNat) := by
        rw [List.mem_filter, List.mem_zipIdx_iff_getElem?]
        simp [hi, hb]
      rw [hf] at this; simp at this
  | some p =>
    have hm := List.mem_of_getLast? hf
    rw [List.mem_filter, List.mem_zipIdx_iff_getElem?] at hm
    obtain ⟨h1, h2⟩ := hm
    have h2 : p.1.inp = b := UInt8.toNat_inj.mp (by simpa using h2)
    obtain ⟨hi, hp⟩ := List.getElem?_eq_some_iff.mp h1
    have : transIdx n b = some p.2 := (transIdx_some_iff hs).mpr ⟨hi, by rw [hp]; exact h2⟩
    rw [this]

/-- entry `b` of the index of a sorted node: the position of the transition on `b` … -/
theorem buildIndex_get_some (n : BNode) (hs : SortedInputs n) (i : Nat) (hi : i < n.trans.length) :
    (buildIndex n.trans)[n.trans[i].inp.toNat]? = some (UInt8.ofNat i) := by
  rw [buildIndex_get n hs, transIdx_some hs hi]

/-- … and 255 when no transition has input `b` -/
theorem buildIndex_get_none (n : BNode) (hs : SortedInputs n) (b : UInt8)
    (h : ∀ t ∈ n.trans, t.inp ≠ b) : (buildIndex n.trans)[b.toNat]? = some 255 := by
  rw [buildIndex_get n hs, transIdx_none_iff.mpr h]

end Fst
