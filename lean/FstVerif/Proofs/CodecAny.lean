import FstVerif.Proofs.CodecOne
/-
T-Codec, part 3 of 4: the round trip of `compileAny` (`StateAnyTrans`): layout
of the written bytes (`AnyLay`), `Node::new`, i-th input / output / target,
`find_input` by linear scan and by the 256-entry index.
-/
namespace Fst

/-! ### G. `StateAnyTrans` -/

theorem foldl_max_ge_init {α : Type} (f : α → Nat) (ts : List α) (m : Nat) :
    m ≤ ts.foldl (fun m t => max m (f t)) m := by
  induction ts generalizing m with
  | nil => exact Nat.le_refl _
  | cons t ts ih => exact Nat.le_trans (Nat.le_max_left _ _) (ih _)

theorem foldl_max_ge_mem {α : Type} (f : α → Nat) (ts : List α) (m : Nat) (t : α) (ht : t ∈ ts) :
    f t ≤ ts.foldl (fun m t => max m (f t)) m := by
  induction ts generalizing m with
  | nil => cases ht
  | cons u ts ih =>
    rcases List.mem_cons.mp ht with rfl | h
    · exact Nat.le_trans (Nat.le_max_right _ _) (foldl_max_ge_init f ts _)
    · exact ih _ h

theorem foldl_max_le {α : Type} (f : α → Nat) (ts : List α) (m B : Nat) (hm : m ≤ B)
    (h : ∀ t ∈ ts, f t ≤ B) : ts.foldl (fun m t => max m (f t)) m ≤ B := by
  induction ts generalizing m with
  | nil => exact hm
  | cons u ts ih =>
    exact ih _ (Nat.max_le.mpr ⟨hm, h u List.mem_cons_self⟩) (fun t ht => h t (List.mem_cons_of_mem _ ht))

theorem anyTsize_le (start : Nat) (n : BNode) : anyTsize start n ≤ 8 :=
  foldl_max_le _ _ _ _ (by decide) (fun _ _ => packSize_le _)

theorem le_anyTsize (start : Nat) (n : BNode) (t : Tr) (ht : t ∈ n.trans) :
    packSize (deltaVal start t.addr) ≤ anyTsize start n :=
  foldl_max_ge_mem (fun t => packSize (deltaVal start t.addr)) _ _ t ht

theorem anyOsize_le (n : BNode) : anyOsize n ≤ 8 :=
  foldl_max_le _ _ _ _ (packSize_le _) (fun _ _ => packSize_le _)

theorem anyOsize_pos (n : BNode) : 1 ≤ anyOsize n :=
  Nat.le_trans (packSize_pos n.fout) (foldl_max_ge_init (fun t : Tr => packSize t.out) _ _)

theorem fout_le_anyOsize (n : BNode) : packSize n.fout ≤ anyOsize n :=
  foldl_max_ge_init (fun t : Tr => packSize t.out) _ _

theorem le_anyOsize (n : BNode) (t : Tr) (ht : t ∈ n.trans) : packSize t.out ≤ anyOsize n :=
  foldl_max_ge_mem (fun t : Tr => packSize t.out) _ _ t ht

/-- the output width the reader will see -/
def aO (n : BNode) : Nat := if anyOuts n then anyOsize n else 0
/-- the transition count stored in the state byte (0 = see the extra byte) -/
def aSn (n : BNode) : Nat := if n.trans.length % 256 ≤ 63 then n.trans.length % 256 else 0
def aNb (n : BNode) : List UInt8 :=
  if aSn n = 0 then [if n.trans.length = 256 then 1 else UInt8.ofNat n.trans.length] else []
def aIdx (n : BNode) : List UInt8 :=
  if n.trans.length > Gen.TRANS_INDEX_THRESHOLD then buildIndex n.trans else []

theorem aO_le (n : BNode) : aO n ≤ 8 := by
  unfold aO; split
  · exact anyOsize_le n
  · omega

theorem aO_zero {n : BNode} (h : aO n = 0) : n.fout = 0 ∧ ∀ t ∈ n.trans, t.out = 0 := by
  unfold aO at h
  split at h
  · have := anyOsize_pos n; omega
  · rename_i ha
    simp only [anyOuts, Bool.or_eq_true, bne_iff_ne, ne_eq, List.any_eq_true, not_or, not_exists,
      not_and, Decidable.not_not] at ha
    exact ha

theorem aO_fout {n : BNode} (hf : n.fout < 2 ^ 64) : n.fout < 256 ^ aO n := by
  unfold aO; split
  · exact Nat.lt_of_lt_of_le (lt_pow_packSize _ hf) (pow256_mono (fout_le_anyOsize n))
  · rename_i h
    have := (aO_zero (n := n) (by unfold aO; rw [if_neg h])).1
    rw [this]; decide

theorem aO_out {n : BNode} {t : Tr} (ht : t ∈ n.trans) (hf : t.out < 2 ^ 64) : t.out < 256 ^ aO n := by
  unfold aO; split
  · exact Nat.lt_of_lt_of_le (lt_pow_packSize _ hf) (pow256_mono (le_anyOsize n t ht))
  · rename_i h
    have := (aO_zero (n := n) (by unfold aO; rw [if_neg h])).2 t ht
    rw [this]; decide

theorem compileAny_eq (start : Nat) (n : BNode) :
    compileAny start n =
      (if n.fin then packIn n.fout (aO n) else []) ++
      n.trans.reverse.flatMap (fun t => packIn t.out (aO n)) ++
      n.trans.reverse.flatMap (fun t => packIn (deltaVal start t.addr) (anyTsize start n)) ++
      n.trans.reverse.map (·.inp) ++ aIdx n ++
      [UInt8.ofNat (anyTsize start n * 16 + aO n)] ++ aNb n ++
      [UInt8.ofNat ((if n.fin then 64 else 0) + aSn n)] := by
  unfold compileAny aO aNb aIdx aSn
  cases anyOuts n <;> simp [packIn]


theorem nodeNew_any {v : Nat} {d : Src} {addr s sz nlen ntrans fout : Nat} {vb szb : UInt8}
    (h0 : addr ≠ 0) (hg : d.get addr = some vb) (hs : vb.toNat = s) (htop : s / 64 < 2)
    (hnlen : nlen = if s % 64 = 0 then 1 else 0)
    (hgz : d.get (addr - nlen - 1) = some szb) (hsz : szb.toNat = sz)
    (hnt : (s % 64 ≠ 0 ∧ ntrans = s % 64) ∨ (s % 64 = 0 ∧ ∃ nb, d.get (addr - 1) = some nb ∧
              ntrans = if nb.toNat = 1 then 256 else nb.toNat))
    (hfo : (if sz % 16 = 0 ∨ (!(decide (s / 64 % 2 = 1))) = true then some 0 else
        d.unpackChecked (addr - nlen - 1 - (ntrans + ntrans * (sz / 16) + indexSize v ntrans)
          - ntrans * (sz % 16) - sz % 16) (sz % 16)) = some fout) :
    nodeNew v d addr = some (mkAny v s addr
      (addr - nlen - 1 - (ntrans + ntrans * (sz / 16) + indexSize v ntrans) - ntrans * (sz % 16)
        - (if s / 64 % 2 = 1 then sz % 16 else 0))
      (decide (s / 64 % 2 = 1)) ntrans (sz / 16) (sz % 16) fout) := by
  subst hs hsz hnlen
  have h3 : ¬ vb.toNat / 64 = 3 := by omega
  have h2 : ¬ vb.toNat / 64 = 2 := by omega
  simp only [nodeNew, EMPTY_ADDRESS, h0, if_false, hg, h3, h2]
  simp only [hgz, mkAny]
  rcases hnt with ⟨hn0, rfl⟩ | ⟨hn0, nb, hnb, rfl⟩
  · simp only [hn0, ne_eq, not_false_eq_true, if_true, if_false] at hfo ⊢
    simp only [hfo]
  · simp only [hn0, ne_eq, not_true_eq_false, if_true, if_false, hnb] at hfo ⊢
    simp only [hfo]

/-! #### layout of the bytes written by `compileAny` -/

/-- offset of the sizes byte -/
def anyP (start : Nat) (n : BNode) : Nat :=
  start + (if n.fin then aO n else 0) + n.trans.length * aO n
    + n.trans.length * anyTsize start n + n.trans.length + (aIdx n).length
/-- address of the node (offset of the state byte) -/
def anyAddr (start : Nat) (n : BNode) : Nat := anyP start n + 1 + (aNb n).length
/-- the state byte -/
def anyS (n : BNode) : Nat := (if n.fin then 64 else 0) + aSn n

structure AnyLay (l : List UInt8) (start : Nat) (n : BNode) : Prop where
  sFout : Seg l start (if n.fin then packIn n.fout (aO n) else [])
  sOuts : Seg l (start + (if n.fin then aO n else 0))
    (n.trans.reverse.flatMap fun t => packIn t.out (aO n))
  sAddrs : Seg l (start + (if n.fin then aO n else 0) + n.trans.length * aO n)
    (n.trans.reverse.flatMap fun t => packIn (deltaVal start t.addr) (anyTsize start n))
  sInps : Seg l (start + (if n.fin then aO n else 0) + n.trans.length * aO n
    + n.trans.length * anyTsize start n) (n.trans.reverse.map (·.inp))
  sIdx : Seg l (start + (if n.fin then aO n else 0) + n.trans.length * aO n
    + n.trans.length * anyTsize start n + n.trans.length) (aIdx n)
  sSz : l[anyP start n]? = some (UInt8.ofNat (anyTsize start n * 16 + aO n))
  sNb : Seg l (anyP start n + 1) (aNb n)
  sSb : l[anyAddr start n]? = some (UInt8.ofNat (anyS n))

theorem fout_part_length (n : BNode) :
    (if n.fin then packIn n.fout (aO n) else []).length = if n.fin then aO n else 0 := by
  split <;> simp [packIn_length]

theorem outs_length (n : BNode) :
    (n.trans.reverse.flatMap fun t => packIn t.out (aO n)).length = n.trans.length * aO n := by
  rw [length_flatMap_const _ _ (aO n) (fun t _ => packIn_length t.out (aO n)), List.length_reverse]

theorem addrs_length (start : Nat) (n : BNode) :
    (n.trans.reverse.flatMap fun t => packIn (deltaVal start t.addr) (anyTsize start n)).length
      = n.trans.length * anyTsize start n := by
  rw [length_flatMap_const _ _ (anyTsize start n)
    (fun t _ => packIn_length (deltaVal start t.addr) (anyTsize start n)), List.length_reverse]

theorem compileAny_length (start : Nat) (n : BNode) :
    (compileAny start n).length = anyAddr start n + 1 - start := by
  rw [compileAny_eq]
  simp only [List.length_append, fout_part_length, List.length_map, List.length_reverse,
    List.length_cons, List.length_nil, outs_length, addrs_length, anyAddr, anyP]
  omega

theorem any_lay {l : List UInt8} {start : Nat} {n : BNode} (h : Seg l start (compileAny start n)) :
    AnyLay l start n := by
  rw [compileAny_eq] at h
  obtain ⟨h, h8⟩ := seg_append h
  obtain ⟨h, h7⟩ := seg_append h
  obtain ⟨h, h6⟩ := seg_append h
  obtain ⟨h, h5⟩ := seg_append h
  obtain ⟨h, h4⟩ := seg_append h
  obtain ⟨h, h3⟩ := seg_append h
  obtain ⟨h1, h2⟩ := seg_append h
  simp only [List.length_append, fout_part_length, List.length_map, List.length_reverse,
    List.length_cons, List.length_nil, outs_length, addrs_length] at h2 h3 h4 h5 h6 h7 h8
  exact ⟨h1, h2, seg_cast h3 (by omega), seg_cast h4 (by omega), seg_cast h5 (by omega),
    seg_single (seg_cast h6 (by simp only [anyP]; omega)),
    seg_cast h7 (by simp only [anyP]; omega),
    seg_single (seg_cast h8 (by simp only [anyAddr, anyP]; omega))⟩

/-! #### number facts -/

theorem aSn_le (n : BNode) : aSn n ≤ 63 := by
  unfold aSn; split <;> omega

theorem anyS_lt (n : BNode) : anyS n < 128 := by
  have := aSn_le n; unfold anyS; split <;> omega

theorem anyS_div (n : BNode) : anyS n / 64 = if n.fin then 1 else 0 := by
  have := aSn_le n; unfold anyS; split <;> omega

theorem anyS_mod (n : BNode) : anyS n % 64 = aSn n := by
  have := aSn_le n; unfold anyS; split <;> omega

theorem aNb_length (n : BNode) : (aNb n).length = if aSn n = 0 then 1 else 0 := by
  unfold aNb; split <;> rfl

theorem aIdx_length (n : BNode) :
    (aIdx n).length = if n.trans.length > Gen.TRANS_INDEX_THRESHOLD then 256 else 0 := by
  unfold aIdx; split
  · exact buildIndex_length _
  · rfl

theorem indexSize_eq {v : Nat} {n : BNode}
    (hv : 2 ≤ v ∨ n.trans.length ≤ Gen.TRANS_INDEX_THRESHOLD) :
    indexSize v n.trans.length = (aIdx n).length := by
  rw [aIdx_length, indexSize]
  by_cases h : n.trans.length > Gen.TRANS_INDEX_THRESHOLD
  · have : v ≥ 2 := by rcases hv with hv | hv <;> omega
    simp only [h, this, and_self, if_true]
  · simp only [h, and_false, if_false]

theorem mul_split {K i k : Nat} (hi : i < K) : K * k = (K - 1 - i) * k + i * k + k := by
  have : K = (K - 1 - i) + i + 1 := by omega
  conv => lhs; rw [this]
  rw [Nat.add_mul, Nat.add_mul, Nat.one_mul]

theorem rev_get {α : Type} (ts : List α) (i : Nat) (hi : i < ts.length) :
    ts.reverse[ts.length - 1 - i]'(by simp; omega) = ts[i] := by
  rw [List.getElem_reverse]; congr 1; omega

theorem seg_flatMap_rev {α : Type} {l : List UInt8} {off k : Nat} {ts : List α} {f : α → List UInt8}
    (h : Seg l off (ts.reverse.flatMap f)) (hk : ∀ t ∈ ts, (f t).length = k) (i : Nat)
    (hi : i < ts.length) : Seg l (off + (ts.length - 1 - i) * k) (f ts[i]) := by
  have := seg_flatMap h (fun t ht => hk t (List.mem_reverse.mp ht)) (ts.length - 1 - i) (by simp; omega)
  rwa [rev_get ts i hi] at this

/-- the decoded node -/
def anyRn (v start : Nat) (n : BNode) : RNode :=
  mkAny v (anyS n) (anyAddr start n) start n.fin n.trans.length (anyTsize start n) (aO n) n.fout

theorem anyRn_nlen (v start : Nat) (n : BNode) : (anyRn v start n).nlen = (aNb n).length := by
  simp only [RNode.nlen, anyRn, mkAny, anyS_mod, aNb_length]

theorem any_input {v : Nat} {l : List UInt8} {start : Nat} {n : BNode} (L : AnyLay l start n)
    (hv : 2 ≤ v ∨ n.trans.length ≤ Gen.TRANS_INDEX_THRESHOLD) (i : Nat) (hi : i < n.trans.length) :
    (anyRn v start n).input (Src.ofList l) i = some n.trans[i].inp := by
  have hn := anyRn_nlen v start n
  simp only [RNode.input, hn]
  simp only [anyRn, mkAny, indexSize_eq hv, anyAddr, anyP, get_ofList]
  have := seg_get L.sInps (n.trans.length - 1 - i) (by simp; omega)
  rw [idx_cast this (by omega)]
  simp only [List.getElem_map, rev_get n.trans i hi]

theorem any_output {v : Nat} {l : List UInt8} {start : Nat} {n : BNode} (L : AnyLay l start n)
    (hv : 2 ≤ v ∨ n.trans.length ≤ Gen.TRANS_INDEX_THRESHOLD)
    (houts : ∀ t ∈ n.trans, t.out < 2 ^ 64) (i : Nat) (hi : i < n.trans.length) :
    (anyRn v start n).output (Src.ofList l) i = some n.trans[i].out := by
  have hn := anyRn_nlen v start n
  have hmem : n.trans[i] ∈ n.trans := List.getElem_mem hi
  simp only [RNode.output, hn]
  simp only [anyRn, mkAny, indexSize_eq hv, anyAddr, anyP]
  by_cases h0 : aO n = 0
  · simp only [h0, if_true, (aO_zero h0).2 _ hmem]
  · simp only [h0, if_false]
    have hs := seg_flatMap_rev L.sOuts (fun t _ => packIn_length t.out (aO n)) i hi
    have hsplit := mul_split (k := aO n) hi
    have := seg_unpackChecked (seg_cast hs (b := start + (if n.fin then aO n else 0)
        + n.trans.length * aO n + n.trans.length * anyTsize start n + n.trans.length + (aIdx n).length
        + 1 + (aNb n).length - (aNb n).length - 1
        - (n.trans.length + n.trans.length * anyTsize start n + (aIdx n).length) - i * aO n - aO n)
        (by omega)) (aO_out hmem (houts _ hmem)) (by omega) (aO_le n)
    exact this

theorem any_transAddr {v : Nat} {l : List UInt8} {start : Nat} {n : BNode} (L : AnyLay l start n)
    (hv : 2 ≤ v ∨ n.trans.length ≤ Gen.TRANS_INDEX_THRESHOLD)
    (hsmall : start < 2 ^ 64) (htgt : ∀ t ∈ n.trans, t.addr = 0 ∨ t.addr < start)
    (i : Nat) (hi : i < n.trans.length) :
    (anyRn v start n).transAddr (Src.ofList l) i = some n.trans[i].addr := by
  have hn := anyRn_nlen v start n
  have hmem : n.trans[i] ∈ n.trans := List.getElem_mem hi
  simp only [RNode.transAddr, hn, unpackDelta]
  simp only [anyRn, mkAny, indexSize_eq hv, anyAddr, anyP]
  rw [if_neg (by omega)]
  have hs := seg_flatMap_rev L.sAddrs
    (fun t _ => packIn_length (deltaVal start t.addr) (anyTsize start n)) i hi
  have hsplit := mul_split (k := anyTsize start n) hi
  have hle := le_anyTsize start n _ hmem
  have hp := packSize_pos (deltaVal start n.trans[i].addr)
  have := seg_unpackChecked (seg_cast hs (b := start + (if n.fin then aO n else 0)
      + n.trans.length * aO n + n.trans.length * anyTsize start n + n.trans.length + (aIdx n).length
      + 1 + (aNb n).length - (aNb n).length - 1
      - (aIdx n).length - n.trans.length - i * anyTsize start n - anyTsize start n)
      (by omega))
    (Nat.lt_of_lt_of_le (lt_pow_packSize _ (deltaVal_lt hsmall)) (pow256_mono hle))
    (by omega) (anyTsize_le start n)
  rw [this]
  simp only [Option.map_some, delta_back (htgt _ hmem)]

/-! #### `find_input` -/

theorem seg_get? {l : List UInt8} {off : Nat} {x : List UInt8} (h : Seg l off x) (i : Nat) (y : UInt8)
    (hy : x[i]? = some y) : l[off + i]? = some y := by
  obtain ⟨hi, rfl⟩ := List.getElem?_eq_some_iff.mp hy
  exact seg_get h i hi

theorem sorted_lower {n : BNode} (hs : SortedInputs n) (i : Nat) (hi : i < n.trans.length) :
    i ≤ n.trans[i].inp.toNat := by
  induction i with
  | zero => omega
  | succ i ih =>
    have := List.pairwise_iff_getElem.mp hs i (i + 1) (by omega) hi (by omega)
    have := UInt8.lt_iff_toNat_lt.mp this
    have := ih (by omega)
    omega

theorem sorted_upper {n : BNode} (hs : SortedInputs n) (i j : Nat) (hij : i + j < n.trans.length) :
    n.trans[i].inp.toNat + j ≤ n.trans[i + j].inp.toNat := by
  induction j with
  | zero => simp
  | succ j ih =>
    have := List.pairwise_iff_getElem.mp hs (i + j) (i + (j + 1)) (by omega) hij (by omega)
    have := UInt8.lt_iff_toNat_lt.mp this
    have := ih (by omega)
    omega

/-- a node with 256 sorted transitions has a transition on every byte -/
theorem sorted_full {n : BNode} (hs : SortedInputs n) (hK : n.trans.length = 256) (b : UInt8) :
    transIdx n b = some b.toNat := by
  have hb := UInt8.toNat_lt b
  have hlt : b.toNat < n.trans.length := by omega
  rw [transIdx_some_iff hs]
  refine ⟨hlt, ?_⟩
  have h1 := sorted_lower hs b.toNat hlt
  have h2 := sorted_upper hs b.toNat (255 - b.toNat) (by omega)
  have h3 := UInt8.toNat_lt (n.trans[b.toNat + (255 - b.toNat)].inp)
  exact UInt8.toNat_inj.mp (by omega)

theorem any_find_index {v : Nat} {l : List UInt8} {start : Nat} {n : BNode} (L : AnyLay l start n)
    (hv : 2 ≤ v) (hK : n.trans.length > Gen.TRANS_INDEX_THRESHOLD) (hs : SortedInputs n)
    (h256 : n.trans.length ≤ 256) (b : UInt8) :
    (anyRn v start n).findInput (Src.ofList l) b = some (transIdx n b) := by
  have hn := anyRn_nlen v start n
  have hX := indexSize_eq (v := v) (n := n) (Or.inl hv)
  have hX' : (aIdx n).length = 256 := by rw [aIdx_length, if_pos hK]
  simp only [RNode.findInput, hn]
  simp only [anyRn, mkAny, hX, anyAddr, anyP, get_ofList]
  rw [if_pos ⟨hv, hK⟩]
  have hidx : aIdx n = buildIndex n.trans := by unfold aIdx; rw [if_pos hK]
  have := seg_get? L.sIdx b.toNat _ (by rw [hidx]; exact buildIndex_get n hs b)
  rw [idx_cast this (by omega)]
  cases ht : transIdx n b with
  | none =>
    have : n.trans.length ≠ 256 := by
      intro h; rw [sorted_full hs h b] at ht; cases ht
    have h255 : (255 : UInt8).toNat = 255 := rfl
    simp only [h255]
    rw [if_pos (by omega)]
  | some j =>
    have hj := transIdx_lt ht
    simp only [toNat_ofNat_lt (show j < 256 by omega)]
    rw [if_neg (by omega)]

theorem scanPos_seg {l : List UInt8} {s : Nat} {xs : List UInt8} (h : Seg l s xs) (b : UInt8) (k : Nat) :
    scanPos (Src.ofList l) b s xs.length k = some ((xs.findIdx? (· == b)).map (· + k)) := by
  induction xs generalizing s k with
  | nil => rfl
  | cons x xs ih =>
    obtain ⟨h1, h2⟩ := seg_cons h
    simp only [List.length_cons, scanPos, get_ofList, h1, List.findIdx?_cons]
    by_cases hx : x = b
    · simp [hx]
    · have hx' : (x == b) = false := by simpa using hx
      rw [if_neg hx, ih h2, hx']
      cases xs.findIdx? (· == b) with
      | none => rfl
      | some j => simp; omega

theorem rev_findIdx {n : BNode} (hs : SortedInputs n) (b : UInt8) :
    (n.trans.reverse.map (·.inp)).findIdx? (· == b)
      = (transIdx n b).map (fun i => n.trans.length - 1 - i) := by
  cases ht : transIdx n b with
  | none =>
    rw [transIdx_none_iff] at ht
    rw [Option.map_none, List.findIdx?_eq_none_iff]
    intro x hx
    obtain ⟨t, ht', rfl⟩ := List.mem_map.mp hx
    simpa using ht t (List.mem_reverse.mp ht')
  | some i =>
    obtain ⟨hi, hb⟩ := (transIdx_some_iff hs).mp ht
    rw [Option.map_some, List.findIdx?_eq_some_iff_getElem]
    refine ⟨by simp; omega, ?_, ?_⟩
    · simp only [List.getElem_map, rev_get n.trans i hi, hb, beq_self_eq_true]
    · intro j hj hc
      simp only [List.getElem_map, List.getElem_reverse, beq_iff_eq] at hc
      have := sorted_inj hs (by omega) hi (hc.trans hb.symm)
      omega

theorem any_find_scan {v : Nat} {l : List UInt8} {start : Nat} {n : BNode} (L : AnyLay l start n)
    (hK : n.trans.length ≤ Gen.TRANS_INDEX_THRESHOLD) (hs : SortedInputs n) (b : UInt8) :
    (anyRn v start n).findInput (Src.ofList l) b = some (transIdx n b) := by
  have hn := anyRn_nlen v start n
  have hX' : (aIdx n).length = 0 := by rw [aIdx_length, if_neg (by omega)]
  simp only [RNode.findInput, hn]
  simp only [anyRn, mkAny, anyAddr, anyP]
  have hc : ¬ (v ≥ 2 ∧ n.trans.length > Gen.TRANS_INDEX_THRESHOLD) := by omega
  simp only [hc, if_false]
  have := scanPos_seg (seg_cast L.sInps (b := start + (if n.fin then aO n else 0)
      + n.trans.length * aO n + n.trans.length * anyTsize start n + n.trans.length + (aIdx n).length
      + 1 + (aNb n).length - (aNb n).length - 1 - n.trans.length) (by omega)) b 0
  simp only [List.length_map, List.length_reverse] at this
  rw [this, rev_findIdx hs]
  cases ht : transIdx n b with
  | none => rfl
  | some i =>
    have hi := transIdx_lt ht
    simp only [Option.map_some, Nat.add_zero]
    congr 2; omega

/-! #### `Node::new` on a `StateAnyTrans` node -/

theorem any_ntrans {l : List UInt8} {start : Nat} {n : BNode} (L : AnyLay l start n)
    (h256 : n.trans.length ≤ 256) :
    (anyS n % 64 ≠ 0 ∧ n.trans.length = anyS n % 64) ∨
    (anyS n % 64 = 0 ∧ ∃ nb, (Src.ofList l).get (anyAddr start n - 1) = some nb ∧
      n.trans.length = if nb.toNat = 1 then 256 else nb.toNat) := by
  rw [anyS_mod]
  by_cases h0 : aSn n = 0
  · right
    refine ⟨h0, ?_⟩
    have hnb : aNb n = [if n.trans.length = 256 then 1 else UInt8.ofNat n.trans.length] := by
      unfold aNb; rw [if_pos h0]
    have hg := L.sNb
    rw [hnb] at hg
    refine ⟨_, idx_cast (seg_single hg) (by simp only [anyAddr, hnb, List.length_cons, List.length_nil]; omega), ?_⟩
    unfold aSn at h0
    by_cases hK : n.trans.length = 256
    · rw [if_pos hK]; exact hK
    · rw [if_neg hK, toNat_ofNat_lt (by omega)]
      split at h0 <;> (split <;> omega)
  · left
    refine ⟨h0, ?_⟩
    unfold aSn at h0 ⊢
    split at h0 <;> (split <;> omega)

theorem any_nodeNew {v : Nat} {l : List UInt8} {start : Nat} {n : BNode} (L : AnyLay l start n)
    (hv : 2 ≤ v ∨ n.trans.length ≤ Gen.TRANS_INDEX_THRESHOLD) (hpos : 0 < start)
    (h256 : n.trans.length ≤ 256) (hfo : n.fout < 2 ^ 64) (hfin : n.fin = false → n.fout = 0) :
    nodeNew v (Src.ofList l) (anyAddr start n) = some (anyRn v start n) := by
  have hT := anyTsize_le start n
  have hO := aO_le n
  have hd : (anyTsize start n * 16 + aO n) / 16 = anyTsize start n := by omega
  have hm : (anyTsize start n * 16 + aO n) % 16 = aO n := by omega
  have hS := anyS_lt n
  have hf2 : decide (anyS n / 64 % 2 = 1) = n.fin := by
    rw [anyS_div]; cases n.fin <;> rfl
  have hnl : (aNb n).length ≤ 1 := by rw [aNb_length]; split <;> omega
  have hX := indexSize_eq hv
  have hmain := nodeNew_any (v := v) (d := Src.ofList l) (addr := anyAddr start n) (s := anyS n)
    (sz := anyTsize start n * 16 + aO n) (nlen := (aNb n).length) (ntrans := n.trans.length)
    (fout := n.fout) (vb := UInt8.ofNat (anyS n)) (szb := UInt8.ofNat (anyTsize start n * 16 + aO n))
    (by simp only [anyAddr]; omega) L.sSb (toNat_ofNat_lt (by omega))
    (by rw [anyS_div]; split <;> omega)
    (by rw [aNb_length, anyS_mod])
    (idx_cast L.sSz (by simp only [anyAddr]; omega)) (toNat_ofNat_lt (by omega))
    (any_ntrans L h256)
    (by
      rw [hd, hm, hf2, hX]
      cases hfn : n.fin with
      | false => simp [hfin hfn]
      | true =>
        by_cases h0 : aO n = 0
        · simp [h0, (aO_zero h0).1]
        · have hc : ¬ (aO n = 0 ∨ (!true) = true) := by simp [h0]
          rw [if_neg hc]
          have hs := L.sFout
          rw [hfn, if_pos rfl] at hs
          refine seg_unpackChecked (seg_cast hs ?_) (aO_fout hfo) (by omega) hO
          simp only [anyAddr, anyP, hfn, if_true]
          omega)
  rw [hmain, hd, hm, hf2, hX]
  simp only [anyRn, mkAny, Option.some.injEq, RNode.mk.injEq, true_and, and_true]
  rw [anyS_div]
  simp only [anyAddr, anyP]
  cases n.fin <;> simp <;> omega

theorem any_decodes (v : Nat) (l : List UInt8) (start : Nat) (n : BNode)
    (hv : 2 ≤ v ∨ n.trans.length ≤ Gen.TRANS_INDEX_THRESHOLD) (hpos : 0 < start)
    (hsmall : start < 2 ^ 64) (h256 : n.trans.length ≤ 256) (hs : SortedInputs n)
    (htgt : ∀ t ∈ n.trans, t.addr = 0 ∨ t.addr < start)
    (hfo : n.fout < 2 ^ 64) (houts : ∀ t ∈ n.trans, t.out < 2 ^ 64)
    (hfin : n.fin = false → n.fout = 0)
    (hseg : Seg l start (compileAny start n)) :
    ∃ rn, nodeNew v (Src.ofList l) (start + (compileAny start n).length - 1) = some rn ∧
      Decodes (Src.ofList l) rn n start (start + (compileAny start n).length - 1) := by
  have L := any_lay hseg
  have haddr : start + (compileAny start n).length - 1 = anyAddr start n := by
    rw [compileAny_length]; simp only [anyAddr, anyP]; omega
  rw [haddr]
  refine ⟨_, any_nodeNew L hv hpos h256 hfo hfin, rfl, rfl, rfl, rfl, rfl, ?_, ?_⟩
  · intro i hi
    have ha := any_transAddr (v := v) L hv hsmall htgt i hi
    exact ⟨transition_of (any_input L hv i hi) (any_output L hv houts i hi) ha, ha⟩
  · intro b
    by_cases hK : n.trans.length ≤ Gen.TRANS_INDEX_THRESHOLD
    · exact any_find_scan L hK hs b
    · have hv2 : 2 ≤ v := by rcases hv with hv | hv <;> omega
      exact any_find_index L hv2 (by omega) hs h256 b

end Fst
