import FstVerif.Proofs.Ops
/-
C14 (b), model level: a set operation over `n` streams holds at most `n` heap slots — at
most one per stream, each slot being an item of its own stream — and exactly `n` readers,
each holding a suffix of its stream, in every state reachable by `next` calls, for every
`pop` obeying `PopSpec`. Nothing grows with the number of keys already returned.

Main results
* `OpReach pop streams s`   `s` reachable from `OpState.new streams` by `unionNext` /
  `intersectionNext` / `symDiffNext`
* `DiffReach pop streams d`   `d` reachable from `DiffState.new streams` by `differenceNext`
* `C14_ops_slots`, `C14_ops_slots_diff`
-/
namespace Fst
namespace Bounds

open Fst.Ops

/-! ### the structural heap invariant -/

/-- `h` is a heap over `streams`: one reader per stream holding a suffix of it, at most one
slot per stream, each slot an item of its stream; streams in `U` hold no slot -/
structure HInv (streams : List KV) (h : SHeap) (U : Nat → Prop) : Prop where
  len : h.rdrs.length = streams.length
  nodup : (h.heap.map (·.idx)).Nodup
  slot : ∀ s ∈ h.heap, ¬ U s.idx ∧ s.idx < streams.length ∧
    (s.input, s.output) ∈ nth streams s.idx
  suffix : ∀ i, nth h.rdrs i <:+ nth streams i

theorem HInv.mono {streams h U U'} (r : HInv streams h U) (h1 : ∀ i, U' i → U i) :
    HInv streams h U' :=
  ⟨r.len, r.nodup, fun s hs => ⟨fun hu => (r.slot s hs).1 (h1 _ hu), (r.slot s hs).2⟩, r.suffix⟩

/-- at most one slot per stream -/
theorem HInv.heap_le {streams h U} (r : HInv streams h U) : h.heap.length ≤ streams.length := by
  have h1 : (h.heap.map (·.idx)) ⊆ List.range streams.length := by
    intro i hi
    obtain ⟨s, hs, rfl⟩ := List.mem_map.1 hi
    exact List.mem_range.2 (r.slot s hs).2.1
  have := r.nodup.length_le_of_subset h1
  simpa using this

theorem HInv.refill {streams h U} (r : HInv streams h U) (i : Nat) (hU : U i) :
    HInv streams (h.refill i) (fun j => U j ∧ j ≠ i) := by
  have hno : ∀ s ∈ h.heap, s.idx ≠ i := fun s hs e => (r.slot s hs).1 (e ▸ hU)
  rcases refill_cases h i with ⟨e, hn⟩ | ⟨k, v, t, hn, hi, e⟩
  · rw [e]; exact r.mono (fun j hj => hj.1)
  · rw [e]
    have hsuf := r.suffix i
    rw [hn] at hsuf
    refine ⟨by simp [r.len], ?_, ?_, ?_⟩
    · simp only [List.map_cons, List.nodup_cons, List.mem_map, not_exists, not_and]
      exact ⟨fun s hs => hno s hs, r.nodup⟩
    · intro s hs
      rcases List.mem_cons.1 hs with rfl | hs
      · refine ⟨fun hh => hh.2 rfl, by rw [← r.len]; exact hi, ?_⟩
        exact hsuf.subset (by simp)
      · obtain ⟨a, b⟩ := r.slot s hs
        exact ⟨fun hh => a hh.1, b⟩
    · intro j
      simp only [nth_set _ _ _ _ hi]
      split
      · rename_i e; subst e
        exact (List.suffix_cons _ _).trans hsuf
      · exact r.suffix j

theorem HInv.pop {pop streams h U} (hp : PopSpec pop) (r : HInv streams h U) {s rest}
    (e : pop h.heap = some (s, rest)) :
    HInv streams ⟨h.rdrs, rest⟩ (fun j => U j ∨ j = s.idx) ∧ ¬ U s.idx ∧
      s.idx < streams.length ∧ (s.input, s.output) ∈ nth streams s.idx := by
  obtain ⟨hperm, _⟩ := hp.2 _ _ _ e
  have hs : s ∈ h.heap := hperm.subset (by simp)
  have hnd : ((s :: rest).map (·.idx)).Nodup := (hperm.map _).nodup_iff.2 r.nodup
  simp only [List.map_cons, List.nodup_cons, List.mem_map, not_exists, not_and] at hnd
  refine ⟨⟨r.len, hnd.2, ?_, r.suffix⟩, (r.slot s hs).1, (r.slot s hs).2⟩
  intro x hx
  have hx' : x ∈ h.heap := hperm.subset (List.mem_cons_of_mem _ hx)
  obtain ⟨a, b⟩ := r.slot x hx'
  exact ⟨fun hh => hh.elim a (hnd.1 x hx), b⟩

/-- pop a slot and refill its stream: the set of slot-less streams is unchanged -/
theorem HInv.pop_refill {pop streams h U} (hp : PopSpec pop) (r : HInv streams h U) {s rest}
    (e : pop h.heap = some (s, rest)) :
    HInv streams ((⟨h.rdrs, rest⟩ : SHeap).refill s.idx) U := by
  obtain ⟨r1, hnu, _⟩ := r.pop hp e
  exact (r1.refill s.idx (Or.inr rfl)).mono
    (fun j hj => ⟨Or.inl hj, fun e => hnu (e ▸ hj)⟩)

theorem hinv_new_aux (streams : List KV) (m : Nat) :
    HInv streams ((List.range m).foldl (fun (h : SHeap) i => h.refill i) ⟨streams, []⟩)
      (fun i => m ≤ i) := by
  induction m with
  | zero =>
    exact ⟨rfl, by simp, by simp, fun i => List.suffix_refl _⟩
  | succ m ih =>
    rw [List.range_succ, List.foldl_append]
    simp only [List.foldl_cons, List.foldl_nil]
    exact (ih.refill m (Nat.le_refl m)).mono (fun i hi => ⟨by omega, by omega⟩)

theorem hinv_new (streams : List KV) : HInv streams (SHeap.new streams) (fun _ => False) :=
  (hinv_new_aux streams streams.length).mono (fun _ h => h.elim)

/-! ### the loops -/

theorem pop_eq {pop : PopFn} {h : SHeap} {s : Slot} {h' : SHeap} (e : h.pop pop = some (s, h')) :
    ∃ rest, pop h.heap = some (s, rest) ∧ h' = ⟨h.rdrs, rest⟩ := by
  unfold SHeap.pop at e
  cases hp : pop h.heap with
  | none => rw [hp] at e; cases e
  | some x =>
    obtain ⟨s0, rest⟩ := x
    rw [hp] at e
    simp only [Option.map_some, Option.some.injEq, Prod.mk.injEq] at e
    exact ⟨rest, by rw [e.1], e.2.symm⟩

theorem drainEqual_hinv {pop} (hp : PopSpec pop) {streams : List KV} {U : Nat → Prop} (key : Key) :
    ∀ (fuel : Nat) (h : SHeap) (outs : List IndexedValue), HInv streams h U →
      HInv streams (drainEqual pop key fuel h outs).1 U
  | 0, h, outs, r => r
  | fuel + 1, h, outs, r => by
    simp only [drainEqual]
    split
    · rename_i s h' he
      unfold SHeap.popIfEqual at he
      split at he
      · rename_i s0 h0 hpop
        split at he
        · cases he
          obtain ⟨rest, e1, rfl⟩ := pop_eq hpop
          exact drainEqual_hinv hp key fuel _ _ (r.pop_refill hp e1)
        · cases he
      · cases he
    · exact r

theorem drainLe_hinv {pop} (hp : PopSpec pop) {streams : List KV} {U : Nat → Prop} (key : Key) :
    ∀ (fuel : Nat) (h : SHeap) (u : Bool), HInv streams h U →
      HInv streams (drainLe pop key fuel h u).1 U
  | 0, h, u, r => r
  | fuel + 1, h, u, r => by
    simp only [drainLe]
    split
    · rename_i s h' he
      unfold SHeap.popIfLe at he
      split at he
      · rename_i s0 h0 hpop
        split at he
        · cases he
          obtain ⟨rest, e1, rfl⟩ := pop_eq hpop
          exact drainLe_hinv hp key fuel _ _ (r.pop_refill hp e1)
        · cases he
      · cases he
    · exact r

/-! ### the states of union / intersection / symmetric difference -/

/-- the invariant of an `OpState`: the heap is full except for the stream whose slot is
lent out as `cur_slot`, and that slot is an item of its stream too -/
structure OpInv (streams : List KV) (s : OpState) : Prop where
  heap : HInv streams s.heap (lentOf s.curSlot)
  cur : ∀ sl, s.curSlot = some sl → sl.idx < streams.length ∧
    (sl.input, sl.output) ∈ nth streams sl.idx

theorem opInv_new (streams : List KV) : OpInv streams (OpState.new streams) :=
  ⟨(hinv_new streams).mono (by rintro i ⟨sl, h, _⟩; cases h), fun sl h => by cases h⟩

theorem refillCur_hinv {streams : List KV} {s : OpState} (r : OpInv streams s) :
    HInv streams s.refillCur (fun _ => False) := by
  unfold OpState.refillCur
  cases hc : s.curSlot with
  | none =>
    exact r.heap.mono (fun _ h => h.elim)
  | some sl =>
    simp only
    exact (r.heap.refill sl.idx ⟨sl, hc, rfl⟩).mono (fun _ h => h.elim)

/-- what one round (pop the minimum, drain its equals) leaves -/
theorem round_hinv {pop} (hp : PopSpec pop) {streams : List KV} {h h' : SHeap} {slot : Slot}
    (r : HInv streams h (fun _ => False)) (e : h.pop pop = some (slot, h')) (fuel : Nat)
    (outs : List IndexedValue) :
    OpInv streams ⟨(drainEqual pop slot.input fuel h' outs).1, some slot⟩ := by
  obtain ⟨rest, e1, rfl⟩ := pop_eq e
  obtain ⟨r1, _, h2, h3⟩ := r.pop hp e1
  refine ⟨(drainEqual_hinv hp slot.input fuel _ outs r1).mono ?_, ?_⟩
  · rintro i ⟨sl, hsl, rfl⟩
    cases hsl
    exact Or.inr rfl
  · intro sl hsl
    cases hsl
    exact ⟨h2, h3⟩

theorem unionNext_inv {pop} (hp : PopSpec pop) {streams : List KV} {s s' : OpState}
    {item : Key × List IndexedValue} (r : OpInv streams s)
    (e : unionNext pop s = some (item, s')) : OpInv streams s' := by
  unfold unionNext at e
  simp only at e
  split at e
  · cases e
  · rename_i slot h' hpop
    simp only [Option.some.injEq, Prod.mk.injEq] at e
    rw [← e.2]
    exact round_hinv hp (refillCur_hinv r) hpop _ _

theorem filterLoop_inv {pop} (hp : PopSpec pop) (keep : Nat → Nat → Bool) {streams : List KV} :
    ∀ (fuel : Nat) (h : SHeap) (item : Key × List IndexedValue) (s' : OpState),
      HInv streams h (fun _ => False) → filterLoop pop keep fuel h = some (item, s') →
      OpInv streams s'
  | 0, h, item, s', r, e => by simp [filterLoop] at e
  | fuel + 1, h, item, s', r, e => by
    simp only [filterLoop] at e
    split at e
    · cases e
    · rename_i slot h' hpop
      have hround := round_hinv hp r hpop (h'.rdrs.length + 1) [slot.iv]
      split at e
      · simp only [Option.some.injEq, Prod.mk.injEq] at e
        rw [← e.2]
        exact hround
      · refine filterLoop_inv hp keep fuel _ item s' ?_ e
        exact (hround.heap.refill slot.idx ⟨slot, rfl, rfl⟩).mono (fun _ h => h.elim)

theorem intersectionNext_inv {pop} (hp : PopSpec pop) {streams : List KV} {s s' : OpState}
    {item : Key × List IndexedValue} (r : OpInv streams s)
    (e : intersectionNext pop s = some (item, s')) : OpInv streams s' :=
  filterLoop_inv hp _ _ _ item s' (refillCur_hinv r) e

theorem symDiffNext_inv {pop} (hp : PopSpec pop) {streams : List KV} {s s' : OpState}
    {item : Key × List IndexedValue} (r : OpInv streams s)
    (e : symDiffNext pop s = some (item, s')) : OpInv streams s' :=
  filterLoop_inv hp _ _ _ item s' (refillCur_hinv r) e

/-- states of a `Union` / `Intersection` / `SymmetricDifference` between `next` calls -/
inductive OpReach (pop : PopFn) (streams : List KV) : OpState → Prop
  | new : OpReach pop streams (OpState.new streams)
  | union {s s' : OpState} {item : Key × List IndexedValue} :
      OpReach pop streams s → unionNext pop s = some (item, s') → OpReach pop streams s'
  | intersection {s s' : OpState} {item : Key × List IndexedValue} :
      OpReach pop streams s → intersectionNext pop s = some (item, s') → OpReach pop streams s'
  | symDiff {s s' : OpState} {item : Key × List IndexedValue} :
      OpReach pop streams s → symDiffNext pop s = some (item, s') → OpReach pop streams s'

theorem opReach_inv {pop} (hp : PopSpec pop) {streams : List KV} {s : OpState}
    (h : OpReach pop streams s) : OpInv streams s := by
  induction h with
  | new => exact opInv_new streams
  | union _ e ih => exact unionNext_inv hp ih e
  | intersection _ e ih => exact intersectionNext_inv hp ih e
  | symDiff _ e ih => exact symDiffNext_inv hp ih e

/-- C14 (b): in every reachable state of a union / intersection / symmetric difference over
`streams`, for every `pop` obeying `PopSpec`: at most one heap slot per stream, one reader
per stream, every slot (and the lent `cur_slot`) is an item of its own stream, no two slots
belong to the same stream, and every reader holds a suffix of its stream. -/
theorem C14_ops_slots {pop : PopFn} (hp : PopSpec pop) {streams : List KV} {s : OpState}
    (h : OpReach pop streams s) :
    s.heap.heap.length ≤ streams.length ∧
    s.heap.rdrs.length = streams.length ∧
    (∀ sl ∈ s.heap.heap, sl.idx < streams.length ∧ (sl.input, sl.output) ∈ nth streams sl.idx) ∧
    (∀ sl, s.curSlot = some sl →
      sl.idx < streams.length ∧ (sl.input, sl.output) ∈ nth streams sl.idx ∧
      ∀ x ∈ s.heap.heap, x.idx ≠ sl.idx) ∧
    (s.heap.heap.map (·.idx)).Nodup ∧
    (∀ i, nth s.heap.rdrs i <:+ nth streams i) := by
  have r := opReach_inv hp h
  refine ⟨r.heap.heap_le, r.heap.len, fun sl hsl => (r.heap.slot sl hsl).2, ?_, r.heap.nodup,
    r.heap.suffix⟩
  intro sl hsl
  refine ⟨(r.cur sl hsl).1, (r.cur sl hsl).2, ?_⟩
  intro x hx e
  exact (r.heap.slot x hx).1 ⟨sl, hsl, e⟩

/-! ### difference -/

/-- the invariant of a `DiffState` over `first :: rest` -/
structure DiffInv (first : KV) (rest : List KV) (d : DiffState) : Prop where
  heap : HInv (swapRemoved rest) d.heap (fun _ => False)
  set : d.set <:+ first

theorem diffNew_eq (first : KV) (rest : List KV) :
    DiffState.new (first :: rest) = some ⟨first, SHeap.new (swapRemoved rest)⟩ := rfl

theorem differenceNext_inv {pop} (hp : PopSpec pop) {first : KV} {rest : List KV} :
    ∀ (fuel : Nat) (d d' : DiffState) (item : Key × List IndexedValue), DiffInv first rest d →
      differenceNext pop fuel d = some (item, d') → DiffInv first rest d'
  | 0, d, d', item, r, e => by simp [differenceNext] at e
  | fuel + 1, d, d', item, r, e => by
    simp only [differenceNext] at e
    split at e
    · cases e
    · rename_i k v tl hset
      have hsuf : tl <:+ first := by
        have := r.set
        rw [hset] at this
        exact (List.suffix_cons _ _).trans this
      have hh := drainLe_hinv hp k (totalItems d.heap + 1) d.heap true r.heap
      split at e
      · simp only [Option.some.injEq, Prod.mk.injEq] at e
        rw [← e.2]
        exact ⟨hh, hsuf⟩
      · exact differenceNext_inv hp fuel _ d' item ⟨hh, hsuf⟩ e

/-- states of a `Difference` between `next` calls (any fuel for the inner loop) -/
inductive DiffReach (pop : PopFn) (streams : List KV) : DiffState → Prop
  | new {d : DiffState} : DiffState.new streams = some d → DiffReach pop streams d
  | next {d d' : DiffState} {item : Key × List IndexedValue} (fuel : Nat) :
      DiffReach pop streams d → differenceNext pop fuel d = some (item, d') →
      DiffReach pop streams d'

theorem length_swapRemoved (rest : List KV) : (swapRemoved rest).length = rest.length := by
  unfold swapRemoved
  cases h : rest.getLast? with
  | none => rw [List.getLast?_eq_none_iff] at h; simp [h]
  | some a =>
    obtain ⟨ys, rfl⟩ := List.getLast?_eq_some_iff.1 h
    simp

/-- C14 (b) for `Difference` over `first :: rest`: the heap runs over the other streams (in
the order `swap_remove(0)` leaves them, `swapRemoved rest`): at most one slot for each,
`streams.length - 1` readers, every slot an item of its stream, readers hold suffixes, and
the subtrahend-free first stream is consumed front to back. -/
theorem C14_ops_slots_diff {pop : PopFn} (hp : PopSpec pop) {first : KV} {rest : List KV}
    {d : DiffState} (h : DiffReach pop (first :: rest) d) :
    d.heap.heap.length ≤ (first :: rest).length - 1 ∧
    d.heap.rdrs.length = (first :: rest).length - 1 ∧
    (∀ sl ∈ d.heap.heap, sl.idx < rest.length ∧
      (sl.input, sl.output) ∈ nth (swapRemoved rest) sl.idx) ∧
    (d.heap.heap.map (·.idx)).Nodup ∧
    (∀ i, nth d.heap.rdrs i <:+ nth (swapRemoved rest) i) ∧
    d.set <:+ first := by
  have r : DiffInv first rest d := by
    induction h with
    | new e =>
      rw [diffNew_eq] at e
      cases e
      exact ⟨hinv_new _, List.suffix_refl _⟩
    | next fuel _ e ih => exact differenceNext_inv hp fuel _ _ _ ih e
  have hl := length_swapRemoved rest
  refine ⟨?_, ?_, ?_, r.heap.nodup, r.heap.suffix, r.set⟩
  · have := r.heap.heap_le
    simp only [List.length_cons, Nat.add_sub_cancel]; omega
  · have := r.heap.len
    simp only [List.length_cons, Nat.add_sub_cancel]; omega
  · intro sl hsl
    obtain ⟨_, a, b⟩ := r.heap.slot sl hsl
    exact ⟨by omega, b⟩

/-- `Difference` over no stream at all does not exist (`swap_remove(0)` panics) -/
theorem diffReach_nil {pop : PopFn} {d : DiffState} : ¬ DiffReach pop [] d := by
  intro h
  induction h with
  | new e => cases e
  | next _ _ _ ih => exact ih

/-! ### examples -/

/-- the states after `k` successful `next` calls of a union -/
def unionSteps (streams : List KV) : Nat → Option OpState
  | 0 => some (OpState.new streams)
  | k + 1 => (unionSteps streams k).bind fun s => (unionNext popMin s).map (·.2)

theorem unionSteps_reach (streams : List KV) : ∀ k s, unionSteps streams k = some s →
    OpReach popMin streams s
  | 0, s, h => by cases h; exact .new
  | k + 1, s, h => by
    simp only [unionSteps] at h
    cases hk : unionSteps streams k with
    | none => rw [hk] at h; cases h
    | some s0 =>
      rw [hk] at h
      simp only [Option.bind_some] at h
      cases hn : unionNext popMin s0 with
      | none => rw [hn] at h; cases h
      | some x =>
        obtain ⟨item, s1⟩ := x
        rw [hn] at h
        cases h
        exact .union (unionSteps_reach streams k s0 hk) hn

/-- heap sizes along a union of the three example streams of `Proofs/Ops.lean` -/
def heapSizes (streams : List KV) (k : Nat) : List Nat :=
  (List.range k).filterMap fun i => (unionSteps streams i).map fun s => s.heap.heap.length

/-- info: [3, 2, 2, 2, 2, 1, 0] -/
#guard_msgs in
#eval heapSizes exStreams 8

/-- the hypotheses of `C14_ops_slots` are satisfiable: the state after two `next` calls -/
example : ∃ s, unionSteps exStreams 2 = some s ∧ OpReach popMin exStreams s ∧
    s.heap.heap.length ≤ exStreams.length ∧ s.heap.rdrs.length = exStreams.length := by
  have hs : (unionSteps exStreams 2).isSome = true := by decide
  obtain ⟨s, hst⟩ := Option.isSome_iff_exists.mp hs
  have hr := unionSteps_reach _ _ _ hst
  have hb := C14_ops_slots popSpec_popMin hr
  exact ⟨s, hst, hr, hb.1, hb.2.1⟩

/-- and those of `C14_ops_slots_diff` -/
example : ∃ d, DiffReach popMin exStreams d ∧ d.heap.heap.length ≤ exStreams.length - 1 := by
  have hs : (DiffState.new exStreams).isSome = true := by decide
  obtain ⟨d, hd⟩ := Option.isSome_iff_exists.mp hs
  have hr : DiffReach popMin exStreams d := .new hd
  refine ⟨d, hr, ?_⟩
  have : exStreams = exStreams.head! :: exStreams.tail := by decide
  rw [this] at hr
  have := (C14_ops_slots_diff popSpec_popMin hr).1
  simpa using this

end Bounds
end Fst
