import FstVerif.Proofs.OldVerTrie
import FstVerif.Proofs.Open
/-
C10 (old format versions), part 3 of 4: the bytes of the reference encoder as a file.

* `encodeFst_eq`      header ++ node bytes ++ len ++ root ++ (version 3: masked CRC)
* `encode_open`       `Fst::new` accepts the file with exactly the written metadata, for
                      versions 1, 2 and 3; `verify` is `ChecksumMissing` / `Ok`
* `encode_represents` the version-`v` node access over the file returns exactly the written nodes
-/
namespace Fst
namespace OldVer
open Spec OpenProofs

/-- the checksum trailer: only version ≥ 3 has one -/
def trailer (version : Nat) (body : List UInt8) : List UInt8 :=
  if version ≥ 3 then u32le (maskedSum (crc32cSlice16 0 body)).toNat else []

theorem encodeFst_eq (version ty : Nat) (kvs : KV) (style : Nat) (share : Bool) :
    encodeFst version ty kvs style share =
      encodeBody version ty kvs style share ++ trailer version (encodeBody version ty kvs style share) := by
  unfold encodeFst trailer
  split <;> simp

theorem u64le_length (n : Nat) : (u64le n).length = 8 := packIn_length n 8
theorem u32le_length (n : Nat) : (u32le n).length = 4 := packIn_length n 4

theorem trailer_length (version : Nat) (body : List UInt8) :
    (trailer version body).length = if version ≥ 3 then 4 else 0 := by
  unfold trailer; split <;> simp [u32le_length]

theorem drop_take_seg (a x b : List UInt8) (i k : Nat) (hi : a.length = i) (hk : x.length = k) :
    ((a ++ x ++ b).drop i).take k = x := by
  subst hi hk
  rw [List.append_assoc, List.drop_left' rfl, List.take_left' rfl]

theorem unpack_u64le {n : Nat} (h : n < 2^64) : unpack (u64le n) = n :=
  unpack_packIn n 8 (by simpa using h)

theorem unpack_u32le {n : Nat} (h : n < 2^32) : unpack (u32le n) = n :=
  unpack_packIn n 4 (by simpa using h)

/-- FILE OPEN, versions 1–3. `Fst::new` on the bytes of the reference encoder returns exactly the
written metadata (version, root address, type, number of keys; a checksum iff version 3), and
`Fst::verify` reports `ChecksumMissing` for versions 1 and 2 and succeeds for version 3. -/
theorem encode_open (version ty : Nat) (kvs : KV) (style : Nat) (share : Bool)
    (hv1 : 1 ≤ version) (hv3 : version ≤ 3)
    (hs : SortedKV kvs) (hval : ∀ kv ∈ kvs, kv.2 < 2^64)
    (hty : ty < 2^64) (hlen : kvs.length < 2^64)
    (hsz : (encodeFst version ty kvs style share).length < 2^64) :
    ∃ m, fstNew (Src.ofList (encodeFst version ty kvs style share)) = .ok m ∧
      m.version = version ∧ m.ty = ty ∧ m.len = kvs.length ∧
      m.rootAddr = (encodeState version kvs style share).1 ∧
      (m.checksum = none ↔ version ≤ 2) ∧
      fstVerify m (Src.ofList (encodeFst version ty kvs style share)) =
        (if version ≤ 2 then .err .checksumMissing else .ok ()) := by
  obtain ⟨hinv, _, haddr, _, hroot0⟩ := encode_spec version kvs style share hs hval
  have hnb := emOK_len hinv.ok
  have h16 := EmOK_count_ge hinv.ok
  rw [encodeFst_eq] at hsz ⊢
  generalize hB : encodeBody version ty kvs style share = body at *
  generalize hR : encodeState version kvs style share = r at *
  generalize hT : trailer version body = ck at *
  have hckl : ck.length = if version ≥ 3 then 4 else 0 := hT ▸ trailer_length version body
  have hbody : body = u64le version ++ u64le ty ++ nodeBytes r.2 ++ u64le kvs.length ++ u64le r.1 := by
    rw [← hB, ← hR]; rfl
  have hnl : (nodeBytes r.2).length + 16 = r.2.len := by
    unfold nodeBytes; exact (Nat.add_comm _ _).trans hnb
  have hbl : body.length = r.2.len + 16 := by
    rw [hbody]; simp only [List.length_append, u64le_length]; omega
  generalize hby : body ++ ck = bytes at *
  have hlenB : bytes.length = r.2.len + 16 + ck.length := by
    rw [← hby, List.length_append, hbl]
  have hroot64 : r.1 < 2^64 := by have := haddr.1; omega
  have hA : (u64le version ++ u64le ty ++ nodeBytes r.2).length = r.2.len := by
    simp only [List.length_append, u64le_length]; omega
  -- the views of the file
  have e1 : bytes = [] ++ u64le version ++ (u64le ty ++ nodeBytes r.2 ++ u64le kvs.length ++ u64le r.1 ++ ck) := by
    rw [← hby, hbody]; simp [List.append_assoc]
  have e2 : bytes = u64le version ++ u64le ty ++ (nodeBytes r.2 ++ u64le kvs.length ++ u64le r.1 ++ ck) := by
    rw [← hby, hbody]; simp [List.append_assoc]
  have e3 : bytes = (u64le version ++ u64le ty ++ nodeBytes r.2) ++ u64le kvs.length ++ (u64le r.1 ++ ck) := by
    rw [← hby, hbody]; simp [List.append_assoc]
  have e4 : bytes = (u64le version ++ u64le ty ++ nodeBytes r.2 ++ u64le kvs.length) ++ u64le r.1 ++ ck := by
    rw [← hby, hbody]
  have hver : versionOf bytes = version := by
    have := drop_take_seg [] (u64le version)
      (u64le ty ++ nodeBytes r.2 ++ u64le kvs.length ++ u64le r.1 ++ ck) 0 8 rfl (u64le_length _)
    rw [← e1, List.drop_zero] at this
    rw [versionOf, this]
    exact unpack_u64le (by omega)
  have hty' : unpack ((bytes.drop 8).take 8) = ty := by
    have := drop_take_seg (u64le version) (u64le ty)
      (nodeBytes r.2 ++ u64le kvs.length ++ u64le r.1 ++ ck) 8 8 (u64le_length _) (u64le_length _)
    rw [← e2] at this
    rw [this, unpack_u64le hty]
  have hend : (if version ≤ 2 then bytes.length else bytes.length - 4) = bytes.length - ck.length := by
    rw [hckl]; split <;> split <;> omega
  have hlen' : unpack ((bytes.drop (bytes.length - ck.length - 16)).take 8) = kvs.length := by
    have := drop_take_seg (u64le version ++ u64le ty ++ nodeBytes r.2) (u64le kvs.length)
      (u64le r.1 ++ ck) (bytes.length - ck.length - 16) 8 (by rw [hA]; omega) (u64le_length _)
    rw [← e3] at this
    rw [this, unpack_u64le hlen]
  have hroot' : unpack ((bytes.drop (bytes.length - ck.length - 8)).take 8) = r.1 := by
    have := drop_take_seg (u64le version ++ u64le ty ++ nodeBytes r.2 ++ u64le kvs.length) (u64le r.1)
      ck (bytes.length - ck.length - 8) 8
      (by rw [List.length_append, hA, u64le_length]; omega) (u64le_length _)
    rw [← e4] at this
    rw [this, unpack_u64le hroot64]
  have hnew := fstNew_eq bytes (by omega) (by omega) (by omega)
    (by intro h3; rw [hver] at h3; rw [hlenB, hckl, if_pos (by omega)]; omega)
  simp only [hver, hend, hty', hlen', hroot'] at hnew
  rw [if_neg] at hnew
  · obtain ⟨m, hm⟩ : ∃ m : Meta, m = ⟨version, r.1, ty, kvs.length,
        if version ≤ 2 then none else some (unpack ((bytes.drop (bytes.length - 4)).take 4))⟩ :=
      ⟨_, rfl⟩
    rw [← hm] at hnew
    refine ⟨m, hnew, by rw [hm], by rw [hm], by rw [hm], by rw [hm], ?_, ?_⟩
    · rw [hm]
      simp only
      constructor
      · intro h; split at h
        · assumption
        · cases h
      · intro h; rw [if_pos h]
    · by_cases h2 : version ≤ 2
      · rw [if_pos h2]
        exact C10_checksum_missing bytes m hnew (by rw [hm]; exact h2)
      · rw [if_neg h2, verify_eq bytes m hnew]
        have hmc : m.checksum = some (unpack ((bytes.drop (bytes.length - 4)).take 4)) := by
          rw [hm]; simp only [h2, if_false]
        rw [hmc]
        simp only
        have hv3' : version ≥ 3 := by omega
        have hck : ck = u32le (maskedSum (crc32cSlice16 0 body)).toNat := by
          rw [← hT, trailer, if_pos hv3']
        have hck4 : ck.length = 4 := by rw [hckl, if_pos hv3']
        have htake : bytes.take (bytes.length - 4) = body := by
          rw [← hby]
          exact List.take_left' (by rw [List.length_append, hck4]; omega)
        have hdrop : (bytes.drop (bytes.length - 4)).take 4 = ck := by
          have := drop_take_seg body ck [] (bytes.length - 4) 4
            (by rw [hlenB, hbl, hck4]; omega) hck4
          rw [List.append_nil, hby] at this
          exact this
        rw [htake, hdrop, hck, unpack_u32le (UInt32.toNat_lt _), if_pos rfl]
  · rintro ⟨⟨h0, hne⟩, _⟩
    apply hne
    simp only [EMPTY_ADDRESS] at h0
    have hem := hroot0 h0
    have : nodeBytes r.2 = [] := by unfold nodeBytes; rw [hem]; rfl
    rw [this] at hnl
    simp only [List.length_nil] at hnl
    rw [hlenB, hckl]
    split <;> split <;> omega

/-- FILE REPRESENTS, versions 1–3. The node access of a version-`version` reader over the bytes
of the version-`version` reference encoder returns exactly the written nodes. -/
theorem encode_represents (version ty : Nat) (kvs : KV) (style : Nat) (share : Bool)
    (hs : SortedKV kvs) (hval : ∀ kv ∈ kvs, kv.2 < 2^64)
    (hsz : (encodeFst version ty kvs style share).length < 2^64) :
    Represents (byteAccess version (Src.ofList (encodeFst version ty kvs style share)))
      (rst (encodeState version kvs style share).2.emits).reverse := by
  obtain ⟨hinv, hver, _, _, _⟩ := encode_spec version kvs style share hs hval
  have hnb : 16 + (nodeBytes (encodeState version kvs style share).2).length =
      (encodeState version kvs style share).2.len := emOK_len hinv.ok
  rw [encodeFst_eq] at hsz ⊢
  generalize hT : trailer version (encodeBody version ty kvs style share) = ck at *
  have hbody : encodeBody version ty kvs style share =
      u64le version ++ u64le ty ++ nodeBytes (encodeState version kvs style share).2 ++
        u64le kvs.length ++ u64le (encodeState version kvs style share).1 := rfl
  rw [hbody] at hsz ⊢
  generalize encodeState version kvs style share = r at *
  have hlaid := emOK_laid hinv.ok (by
    simp only [List.length_append, u64le_length] at hsz
    omega)
  rw [hver] at hlaid
  have := byteAccess_representsV version r.2.emits.reverse (u64le version ++ u64le ty)
    (u64le kvs.length ++ u64le r.1 ++ ck)
    (by simpa [u64le_length] using hlaid)
  have hst : (r.2.emits.reverse.map fun e => (e.1, e.2.1)) = (rst r.2.emits).reverse := by
    simp [rst, List.map_reverse]
  rw [hst] at this
  have hb : u64le version ++ u64le ty ++ nodeBytes r.2 ++ u64le kvs.length ++ u64le r.1 ++ ck =
      u64le version ++ u64le ty ++ r.2.emits.reverse.flatMap (·.2.2) ++
        (u64le kvs.length ++ u64le r.1 ++ ck) := by
    simp [nodeBytes, List.append_assoc]
  rw [hb]
  exact this

/-- the hypotheses of `encode_open` / `encode_represents` are satisfiable (version 1, a 4-key map;
larger examples in `Proofs/OldVer.lean`) -/
example : SortedKV [([97], 1), ([97, 98], 2), ([98], 7), ([98, 98], 8)] ∧
    (∀ kv ∈ [([97], 1), ([97, 98], 2), ([98], 7), ([98, 98], 8)], kv.2 < 2^64) ∧
    (encodeFst 1 5 [([97], 1), ([97, 98], 2), ([98], 7), ([98, 98], 8)] 0 true).length < 2^64 := by
  refine ⟨by simp only [SortedKV]; decide, by decide, by decide +kernel⟩

end OldVer
end Fst
