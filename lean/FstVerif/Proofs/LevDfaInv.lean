import FstVerif.Proofs.LevDfaSeq
import FstVerif.Proofs.LevDfaRow
/-
The invariant of the DFA construction (`levBuild`): vocabulary and the effect of `cached`
and of the mismatch sequences.

* `Processed l b i R` — from row state `i` (DP row `R`) the encoding of every scalar value `c`
  leads, through intermediate (non-row) states, to the state of the row `R.accept (some c)` —
  or to `none` when that row cannot match.
* `Ext b b' i` — a construction step only appends states, extends the cache by fresh states and
  changes no old table except that of `i`; `Processed`/`Blank` of other row states survive.
* `addSeqs_false_walk` — `add_utf8_sequences(false, …)` on a state whose lead-byte entries are
  still `none`.
* `Base`, `MBase` — the bookkeeping invariant (cache, `seen`, stack) while one row is processed;
  `cached_some` — what `cached` followed by the conditional push does to it.
-/
namespace Fst
namespace LevDfa
open Spec

/-! ### vocabulary of the construction invariant -/

/-- `m` is the DFA state of some DP row -/
def IsRow (b : DfaB) (m : Nat) : Prop := ∃ R, b.cache.lookup R = some m

/-- `m` is an intermediate state (inside the encoding of one character) -/
def okI (b : DfaB) (m : Nat) : Prop := m < b.states.size ∧ ¬ IsRow b m

/-- `o` is the DFA state standing for the row `R`: its cached index, or `none` when the row cannot match -/
def Tgt (l : DynLev) (b : DfaB) (R : List Nat) (o : Option Nat) : Prop :=
  (l.canMatch R = false ∧ o = none) ∨ ∃ t, b.cache.lookup R = some t ∧ o = some t

/-- reading the bytes `w` from state `i` passes through intermediate states only and ends in `o` -/
def WalkTo (b : DfaB) (i : Nat) (w : List UInt8) (o : Option Nat) : Prop :=
  match w with
  | [] => False
  | x :: r => Walk b.states (okI b) (stepS b.states i x) r o

/-- all transitions of row state `i` are in place -/
def Processed (l : DynLev) (b : DfaB) (i : Nat) (R : List Nat) : Prop :=
  ∀ c, ValidScalar c → ∃ o, WalkTo b i (utf8Enc c) o ∧ Tgt l b (l.accept R (some c)) o

def Blank (b : DfaB) (i : Nat) : Prop := ∀ y, stepS b.states i y = none

/-- what a construction step leaves alone (`i`: the only old state whose table may change) -/
structure Ext (b b' : DfaB) (i : Nat) : Prop where
  size : b.states.size ≤ b'.states.size
  other : ∀ m, m < b.states.size → m ≠ i → b'.states[m]? = b.states[m]?
  isM : ∀ m, m < b.states.size → (b'.states[m]?).map (·.isMatch) = (b.states[m]?).map (·.isMatch)
  cacheMono : ∀ R j, b.cache.lookup R = some j → b'.cache.lookup R = some j
  cacheNew : ∀ R j, b'.cache.lookup R = some j → b.cache.lookup R = some j ∨ b.states.size ≤ j

theorem Ext.refl (b : DfaB) (i : Nat) : Ext b b i :=
  ⟨Nat.le_refl _, fun _ _ _ => rfl, fun _ _ => rfl, fun _ _ h => h, fun _ _ h => Or.inl h⟩

theorem Ext.trans {b b' b'' : DfaB} {i : Nat} (h1 : Ext b b' i) (h2 : Ext b' b'' i) : Ext b b'' i := by
  refine ⟨Nat.le_trans h1.size h2.size, ?_, ?_, ?_, ?_⟩
  · intro m hm hne
    rw [h2.other m (Nat.lt_of_lt_of_le hm h1.size) hne, h1.other m hm hne]
  · intro m hm
    rw [h2.isM m (Nat.lt_of_lt_of_le hm h1.size), h1.isM m hm]
  · intro R j h; exact h2.cacheMono R j (h1.cacheMono R j h)
  · intro R j h
    rcases h2.cacheNew R j h with h | h
    · exact h1.cacheNew R j h
    · exact Or.inr (Nat.le_trans h1.size h)

theorem SeqFrame.ext {b b' : DfaB} {f : Nat} (h : SeqFrame b b' f) : Ext b b' f := by
  refine ⟨h.size, h.other, ?_, ?_, ?_⟩
  · intro m hm
    by_cases e : m = f
    · subst e; exact h.isM
    · rw [h.other m hm e]
  · intro R j hl; rw [h.cache]; exact hl
  · intro R j hl; rw [h.cache] at hl; exact Or.inl hl

theorem Ext.step {b b' : DfaB} {i : Nat} (h : Ext b b' i) (m : Nat) (hm : m < b.states.size)
    (hne : m ≠ i) (y : UInt8) : stepS b'.states m y = stepS b.states m y := by
  simp only [stepS, h.other m hm hne]

theorem Ext.presOk {b b' : DfaB} {i : Nat} (h : Ext b b' i) {m : Nat} (hm : okI b m) : okI b' m := by
  refine ⟨Nat.lt_of_lt_of_le hm.1 h.size, ?_⟩
  intro ⟨R, hR⟩
  rcases h.cacheNew R m hR with h' | h'
  · exact hm.2 ⟨R, h'⟩
  · exact absurd hm.1 (by omega)

theorem Ext.walk {b b' : DfaB} {i : Nat} (h : Ext b b' i) (hi : ¬ okI b i) (cur : Option Nat)
    (r : List UInt8) (o : Option Nat) (hw : Walk b.states (okI b) cur r o) :
    Walk b'.states (okI b') cur r o :=
  Walk_frame _ _ _ _ (fun m hm => ⟨h.presOk hm, h.step m hm.1 (fun e => hi (e ▸ hm))⟩) _ _ _ hw

theorem Ext.walkTo {b b' : DfaB} {i : Nat} (h : Ext b b' i) (hi : ¬ okI b i) (i' : Nat)
    (hst : ∀ y, stepS b'.states i' y = stepS b.states i' y) (w : List UInt8) (o : Option Nat)
    (hw : WalkTo b i' w o) : WalkTo b' i' w o := by
  cases w with
  | nil => exact hw
  | cons x r =>
    simp only [WalkTo] at *
    rw [hst]
    exact h.walk hi _ _ _ hw

theorem Ext.tgt {b b' : DfaB} {i : Nat} (h : Ext b b' i) (l : DynLev) (R : List Nat) (o : Option Nat)
    (ht : Tgt l b R o) : Tgt l b' R o := by
  rcases ht with ht | ⟨t, h1, h2⟩
  · exact Or.inl ht
  · exact Or.inr ⟨t, h.cacheMono R t h1, h2⟩

theorem Ext.processed {b b' : DfaB} {i : Nat} (h : Ext b b' i) (hi : ¬ okI b i) (l : DynLev)
    (i' : Nat) (hi' : i' < b.states.size) (hne : i' ≠ i) (R : List Nat)
    (hp : Processed l b i' R) : Processed l b' i' R := by
  intro c hc
  obtain ⟨o, h1, h2⟩ := hp c hc
  exact ⟨o, h.walkTo hi i' (h.step i' hi' hne) _ _ h1, h.tgt l _ _ h2⟩

theorem Ext.blank {b b' : DfaB} {i : Nat} (h : Ext b b' i) (i' : Nat) (hi' : i' < b.states.size)
    (hne : i' ≠ i) (hb : Blank b i') : Blank b' i' := by
  intro y
  rw [h.step i' hi' hne]
  exact hb y

/-! ### `addSeqs false` on a blank row state -/

theorem SeqFrame.trans {b b' b'' : DfaB} {f : Nat} (h1 : SeqFrame b b' f) (h2 : SeqFrame b' b'' f) :
    SeqFrame b b'' f := by
  refine ⟨by rw [h2.cache, h1.cache], Nat.le_trans h1.size h2.size, h2.allSz, ?_, by rw [h2.isM, h1.isM]⟩
  intro m hm hne
  rw [h2.other m (Nat.lt_of_lt_of_le hm h1.size) hne, h1.other m hm hne]

theorem addSeqs_false_walk (to : Nat) (seqs : List (List (Nat × Nat))) :
    ∀ (b : DfaB) (f : Nat), AllSz b → f < b.states.size →
    (∀ s ∈ seqs, s ≠ [] ∧ ∀ r ∈ s, r.2 < 256) → seqs.Pairwise leadDisj →
    (∀ s ∈ seqs, ∀ y, inLead s y → stepS b.states f y = none) →
    (rows : Nat → Prop) → (∀ m, rows m → m < b.states.size) → rows f →
    SeqFrame b (b.addSeqs false f to seqs) f ∧
    (∀ y, (∀ s ∈ seqs, ¬ inLead s y) →
      stepS (b.addSeqs false f to seqs).states f y = stepS b.states f y) ∧
    ∀ s ∈ seqs, ∀ x w, SeqMatches (x :: w) s →
      Walk (b.addSeqs false f to seqs).states
        (fun m => m < (b.addSeqs false f to seqs).states.size ∧ ¬ rows m)
        (stepS (b.addSeqs false f to seqs).states f x) w (some to) := by
  induction seqs with
  | nil =>
    intro b f hsz hf _ _ _ rows _ _
    exact ⟨⟨rfl, Nat.le_refl _, hsz, fun _ _ _ => rfl, rfl⟩, fun _ _ => rfl,
      fun s hs => by simp at hs⟩
  | cons s ss ih =>
    intro b f hsz hf hss hpw hblank rows hrows hrf
    have e : b.addSeqs false f to (s :: ss) = (b.addSeq false f to s).addSeqs false f to ss := by
      simp only [DfaB.addSeqs, List.foldl_cons]
    rw [e]
    obtain ⟨hsne, hsr⟩ := hss s (by simp)
    obtain ⟨r, rest, rfl⟩ := List.exists_cons_of_ne_nil hsne
    obtain ⟨fr1, hstep1⟩ := addSeq_frame false to (r :: rest) b f hsz hf hsr
    have hstep1 := hstep1 r rest rfl
    rw [List.pairwise_cons] at hpw
    have hblank1 : ∀ t ∈ ss, ∀ y, inLead t y → stepS (b.addSeq false f to (r :: rest)).states f y = none := by
      intro t ht y hy
      rw [hstep1 y, if_neg, hblank t (List.mem_cons_of_mem _ ht) y hy]
      intro ⟨h1, h2, _⟩
      have := hpw.1 t ht
      simp only [leadDisj, lead_cons] at this
      simp only [inLead] at hy
      omega
    obtain ⟨fr2, hstep2, hwalk2⟩ := ih (b.addSeq false f to (r :: rest)) f fr1.allSz
      (Nat.lt_of_lt_of_le hf fr1.size) (fun t ht => hss t (List.mem_cons_of_mem _ ht)) hpw.2 hblank1
      rows (fun m hm => Nat.lt_of_lt_of_le (hrows m hm) fr1.size) hrf
    refine ⟨fr1.trans fr2, ?_, ?_⟩
    · intro y hy
      rw [hstep2 y (fun t ht => hy t (List.mem_cons_of_mem _ ht)), hstep1 y, if_neg]
      intro ⟨h1, h2, _⟩
      exact hy (r :: rest) (by simp) (by simp only [inLead, lead_cons]; exact ⟨h1, h2⟩)
    · intro t ht x w hm
      rw [List.mem_cons] at ht
      rcases ht with rfl | ht
      · have hx : inLead (r :: rest) x := by
          cases w <;> cases rest <;> simp only [SeqMatches] at hm <;> exact ⟨hm.1, hm.2.1⟩
        have hw1 := addSeq_walk_new false to (r :: rest) b f hsz hf hsr
          (fun m => m < (b.addSeq false f to (r :: rest)).states.size ∧ ¬ rows m)
          (fun m h1 h2 => ⟨h2, fun hr => by have := hrows m hr; omega⟩) x w hm
          (Or.inr (hblank _ (by simp) x hx))
        rw [hstep2 x (fun t ht hy => by
          have := hpw.1 t ht
          simp only [leadDisj, lead_cons] at this
          simp only [inLead, lead_cons] at hy hx
          omega)]
        exact Walk_frame _ _ _ _ (fun m hm => ⟨⟨Nat.lt_of_lt_of_le hm.1 fr2.size, hm.2⟩,
          fr2.step m hm.1 (fun e => hm.2 (e ▸ hrf))⟩) _ _ _ hw1
      · exact hwalk2 t ht x w hm

/-! ### the invariant -/

structure Base (l : DynLev) (b : DfaB) (seen : List Nat) : Prop where
  allSz : AllSz b
  cacheOk : ∀ R i, b.cache.lookup R = some i →
    i < b.states.size ∧ l.canMatch R = true ∧ (b.states[i]?).map (·.isMatch) = some (l.isMatch R)
  cacheInj : ∀ R R' i, b.cache.lookup R = some i → b.cache.lookup R' = some i → R = R'
  start0 : b.cache.lookup l.start = some 0
  seenOk : ∀ R i, b.cache.lookup R = some i → i = 0 ∨ i ∈ seen
  seenLt : ∀ i ∈ seen, i < b.states.size

/-- while the row `R` (state `i`, popped from the stack) is being processed -/
structure MBase (l : DynLev) (b : DfaB) (stack : List (List Nat)) (seen : List Nat)
    (R : List Nat) (i : Nat) : Prop where
  base : Base l b seen
  nodup : stack.Nodup
  notin : R ∉ stack
  cur : b.cache.lookup R = some i
  stk : ∀ R' ∈ stack, ∃ i', b.cache.lookup R' = some i' ∧ Blank b i'
  done : ∀ R' i', b.cache.lookup R' = some i' → R' ∉ stack → R' ≠ R → Processed l b i' R'

theorem MBase.isRow {l b stack seen R i} (h : MBase l b stack seen R i) : ¬ okI b i :=
  fun hk => hk.2 ⟨R, h.cur⟩

/-- steps that keep the cache and change only the table of `i` (and add states) keep `MBase` -/
theorem MBase.ext {l b stack seen R i} (h : MBase l b stack seen R i) (b' : DfaB)
    (he : Ext b b' i) (hc : b'.cache = b.cache) (hsz : AllSz b') : MBase l b' stack seen R i := by
  have hne : ∀ R' i', b.cache.lookup R' = some i' → R' ≠ R → i' ≠ i := by
    intro R' i' h1 h2 e
    subst e
    exact h2 (h.base.cacheInj R' R i' h1 h.cur)
  refine ⟨⟨hsz, ?_, ?_, ?_, ?_, ?_⟩, h.nodup, h.notin, by rw [hc]; exact h.cur, ?_, ?_⟩
  · intro R' i' hl
    rw [hc] at hl
    obtain ⟨h1, h2, h3⟩ := h.base.cacheOk R' i' hl
    exact ⟨Nat.lt_of_lt_of_le h1 he.size, h2, by rw [he.isM i' h1]; exact h3⟩
  · rw [hc]; exact h.base.cacheInj
  · rw [hc]; exact h.base.start0
  · rw [hc]; exact h.base.seenOk
  · intro j hj; exact Nat.lt_of_lt_of_le (h.base.seenLt j hj) he.size
  · intro R' hR'
    obtain ⟨i', h1, h2⟩ := h.stk R' hR'
    refine ⟨i', by rw [hc]; exact h1, ?_⟩
    exact he.blank i' (h.base.cacheOk R' i' h1).1
      (hne R' i' h1 (fun e => h.notin (e ▸ hR'))) h2
  · intro R' i' hl hns hneR
    rw [hc] at hl
    exact he.processed h.isRow l i' (h.base.cacheOk R' i' hl).1 (hne R' i' hl hneR) R'
      (h.done R' i' hl hns hneR)

/-- the bookkeeping after `cached`: push the row unless its state was seen -/
def pushSt (stack : List (List Nat)) (seen : List Nat) (R' : List Nat) (j : Nat) :
    List (List Nat) × List Nat :=
  if seen.contains j then (stack, seen) else (R' :: stack, j :: seen)

theorem cached_none (l : DynLev) (b b1 : DfaB) (R' : List Nat)
    (h : b.cached l R' = (b1, none)) : b1 = b ∧ l.canMatch R' = false := by
  unfold DfaB.cached at h
  split at h
  · next hc =>
    simp only [Prod.mk.injEq, and_true] at h
    exact ⟨h.symm, by simpa using hc⟩
  · split at h <;> simp at h

theorem lookup_cons_self (R' : List Nat) (j : Nat) (cache : List (List Nat × Nat)) :
    ((R', j) :: cache).lookup R' = some j := by
  simp

theorem lookup_cons_ne (R' R : List Nat) (j : Nat) (cache : List (List Nat × Nat)) (h : R ≠ R') :
    ((R', j) :: cache).lookup R = cache.lookup R := by
  have : (R == R') = false := by simpa using h
  simp [List.lookup_cons, this]

theorem cached_cases (l : DynLev) (b b1 : DfaB) (R' : List Nat) (j : Nat) (fl : Bool)
    (h : b.cached l R' = (b1, some (j, fl))) :
    l.canMatch R' = true ∧
    ((b1 = b ∧ b.cache.lookup R' = some j) ∨
     (b.cache.lookup R' = none ∧ j = b.states.size ∧
      b1 = { states := b.states.push (DState.fresh (l.isMatch R')), cache := (R', j) :: b.cache })) := by
  unfold DfaB.cached at h
  split at h
  · simp at h
  · next hc =>
    refine ⟨by simpa using hc, ?_⟩
    split at h
    · next si hl =>
      simp only [Prod.mk.injEq, Option.some.injEq] at h
      obtain ⟨rfl, rfl, -⟩ := h
      exact Or.inl ⟨rfl, hl⟩
    · next hl =>
      simp only [Prod.mk.injEq, Option.some.injEq] at h
      obtain ⟨rfl, rfl, -⟩ := h
      exact Or.inr ⟨hl, rfl, rfl⟩

theorem cached_some {l : DynLev} {b : DfaB} {stack : List (List Nat)} {seen : List Nat}
    {R : List Nat} {i : Nat} (h : MBase l b stack seen R i) (R' : List Nat) (b1 : DfaB) (j : Nat)
    (fl : Bool) (hc : b.cached l R' = (b1, some (j, fl))) (hneR : R' ≠ R) (hneS : R' ≠ l.start) :
    MBase l b1 (pushSt stack seen R' j).1 (pushSt stack seen R' j).2 R i ∧
    Ext b b1 b.states.size ∧ b1.cache.lookup R' = some j ∧ j ≠ i := by
  obtain ⟨hcm, ⟨rfl, hl⟩ | ⟨hl, rfl, rfl⟩⟩ := cached_cases l b b1 R' j fl hc
  · -- already cached: its state is in `seen`
    have hj0 : j ≠ 0 := by
      intro e; subst e
      exact hneS (h.base.cacheInj R' l.start 0 hl h.base.start0)
    have hseen : j ∈ seen := by
      rcases h.base.seenOk R' j hl with e | e
      · exact absurd e hj0
      · exact e
    have hp : pushSt stack seen R' j = (stack, seen) := by
      simp [pushSt, hseen]
    rw [hp]
    refine ⟨h, Ext.refl _ _, hl, ?_⟩
    intro e; subst e
    exact hneR (h.base.cacheInj R' R j hl h.cur)
  · -- a new row state
    have hns : ¬ b.states.size ∈ seen := fun hm => Nat.lt_irrefl _ (h.base.seenLt _ hm)
    have hp : pushSt stack seen R' b.states.size = (R' :: stack, b.states.size :: seen) := by
      simp [pushSt, hns]
    rw [hp]
    have hlk : ∀ R'' i'', ((R', b.states.size) :: b.cache).lookup R'' = some i'' →
        (R'' = R' ∧ i'' = b.states.size) ∨ (R'' ≠ R' ∧ b.cache.lookup R'' = some i'') := by
      intro R'' i'' hl''
      by_cases e : R'' = R'
      · subst e
        rw [lookup_cons_self] at hl''
        exact Or.inl ⟨rfl, by simpa using hl''.symm⟩
      · rw [lookup_cons_ne _ _ _ _ e] at hl''
        exact Or.inr ⟨e, hl''⟩
    have hext : Ext b (DfaB.mk (b.states.push (DState.fresh (l.isMatch R')))
        ((R', b.states.size) :: b.cache)) b.states.size := by
      refine ⟨by simp, ?_, ?_, ?_, ?_⟩
      · intro m hm _
        simp only [Array.getElem?_push, if_neg (Nat.ne_of_lt hm)]
      · intro m hm
        simp only [Array.getElem?_push, if_neg (Nat.ne_of_lt hm)]
      · intro R'' j'' hl''
        have : R'' ≠ R' := by intro e; subst e; rw [hl] at hl''; simp at hl''
        simp only [lookup_cons_ne _ _ _ _ this]
        exact hl''
      · intro R'' j'' hl''
        rcases hlk R'' j'' hl'' with ⟨_, e⟩ | ⟨_, e⟩
        · exact Or.inr (Nat.le_of_eq e.symm)
        · exact Or.inl e
    have hnok : ¬ okI b b.states.size := fun hk => Nat.lt_irrefl _ hk.1
    have hRne : R ≠ R' := fun e => hneR e.symm
    refine ⟨⟨⟨?_, ?_, ?_, ?_, ?_, ?_⟩, ?_, ?_, ?_, ?_, ?_⟩, hext, lookup_cons_self _ _ _, ?_⟩
    · intro m s hs
      simp only [Array.getElem?_push] at hs
      split at hs
      · simp only [Option.some.injEq] at hs; subst hs; exact fresh_size _
      · exact h.base.allSz m s hs
    · intro R'' i'' hl''
      rcases hlk R'' i'' hl'' with ⟨rfl, rfl⟩ | ⟨_, e⟩
      · refine ⟨by simp, hcm, ?_⟩
        simp [DState.fresh]
      · obtain ⟨h1, h2, h3⟩ := h.base.cacheOk R'' i'' e
        refine ⟨by simp only [Array.size_push]; omega, h2, ?_⟩
        simp only [Array.getElem?_push, if_neg (Nat.ne_of_lt h1)]
        exact h3
    · intro R1 R2 i1 h1 h2
      rcases hlk R1 i1 h1 with ⟨rfl, rfl⟩ | ⟨_, e1⟩ <;> rcases hlk R2 _ h2 with ⟨rfl, e2'⟩ | ⟨_, e2⟩
      · rfl
      · exact absurd (h.base.cacheOk R2 _ e2).1 (Nat.lt_irrefl _)
      · subst e2'; exact absurd (h.base.cacheOk R1 _ e1).1 (Nat.lt_irrefl _)
      · exact h.base.cacheInj R1 R2 i1 e1 e2
    · simp only [lookup_cons_ne _ _ _ _ (fun e => hneS e.symm)]
      exact h.base.start0
    · intro R'' i'' hl''
      rcases hlk R'' i'' hl'' with ⟨rfl, rfl⟩ | ⟨_, e⟩
      · exact Or.inr List.mem_cons_self
      · rcases h.base.seenOk R'' i'' e with e | e
        · exact Or.inl e
        · exact Or.inr (List.mem_cons_of_mem _ e)
    · intro j hj
      simp only [Array.size_push]
      rw [List.mem_cons] at hj
      rcases hj with rfl | hj
      · omega
      · have := h.base.seenLt j hj; omega
    · rw [List.nodup_cons]
      refine ⟨?_, h.nodup⟩
      intro hm
      obtain ⟨i', h1, _⟩ := h.stk R' hm
      rw [hl] at h1; simp at h1
    · intro hm
      rw [List.mem_cons] at hm
      rcases hm with e | hm
      · exact hRne e
      · exact h.notin hm
    · simp only [lookup_cons_ne _ _ _ _ hRne]
      exact h.cur
    · intro R'' hm
      rw [List.mem_cons] at hm
      rcases hm with rfl | hm
      · refine ⟨b.states.size, lookup_cons_self _ _ _, ?_⟩
        intro y
        rw [stepS_push_new, fresh_getD]
      · obtain ⟨i', h1, h2⟩ := h.stk R'' hm
        refine ⟨i', hext.cacheMono _ _ h1, ?_⟩
        have hlt := (h.base.cacheOk R'' i' h1).1
        exact hext.blank i' hlt (Nat.ne_of_lt hlt) h2
    · intro R'' i'' hl'' hns' hne'
      rcases hlk R'' i'' hl'' with ⟨rfl, rfl⟩ | ⟨_, e⟩
      · exact absurd List.mem_cons_self hns'
      · have hlt := (h.base.cacheOk R'' i'' e).1
        exact hext.processed hnok l i'' hlt (Nat.ne_of_lt hlt) R''
          (h.done R'' i'' e (fun hm => hns' (List.mem_cons_of_mem _ hm)) hne')
    · have := (h.base.cacheOk R i h.cur).1
      omega

end LevDfa
end Fst
