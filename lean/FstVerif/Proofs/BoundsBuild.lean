import FstVerif.Proofs.Build
/-
C13 (model level): the data the builder holds between two public calls is bounded by the
length of the longest key accepted so far and by the geometry of the node cache — there
is no term in the number of keys inserted or in the number of bytes emitted.

`footprint` counts everything `BState` holds EXCEPT `s.out` (and the three counters
`count`, `lastAddr`, `len`, one machine word each): `s.out` models the bytes already
handed to the writer, which the Rust builder does not keep. That exclusion is on purpose.

Main results
* `ReachableK rows cols ks s`   `s` is reachable from `BState.new rows cols`, `ks` = accepted keys
* `reachableK_reachable` / `reachable_reachableK`   it is `Reachable` with a history
* `regShape_reachable`   the cache keeps `rows` buckets of exactly `cols` cells, every cached
  node has at most 256 transitions (`Registry.entry` / `Registry.insert` preserve it)
* `stack_length_reachable`   `s.stack.length = (last key).length + 1`
* `stack_trans_reachable`   every unfinished node has at most 256 transitions
* `C13_footprint`   the bound
-/
namespace Fst
namespace Bounds

/-! ### sums -/

theorem sum_map_le {α : Type} (f : α → Nat) (k : Nat) : ∀ (l : List α), (∀ x ∈ l, f x ≤ k) →
    (l.map f).sum ≤ l.length * k
  | [], _ => by simp
  | a :: l, h => by
    have h1 := h a (by simp)
    have h2 := sum_map_le f k l (fun x hx => h x (List.mem_cons_of_mem _ hx))
    simp only [List.map_cons, List.sum_cons, List.length_cons, Nat.add_mul, Nat.one_mul]
    omega

theorem foldl_add_eq {α : Type} (f : α → Nat) : ∀ (l : List α) (acc : Nat),
    l.foldl (fun a c => a + f c) acc = acc + (l.map f).sum
  | [], acc => by simp
  | a :: l, acc => by
    simp only [List.foldl_cons, List.map_cons, List.sum_cons, foldl_add_eq f l]
    omega

/-! ### the cache -/

/-- cached transitions of one bucket -/
def bucketTrans (b : List Cell) : Nat := (b.map fun c => c.node.trans.length).sum

theorem registry_footprint_eq (r : Registry) :
    r.footprint = (r.table.toList.map bucketTrans).sum := by
  unfold Registry.footprint
  rw [← Array.foldl_toList]
  have : (fun (acc : Nat) (b : List Cell) => b.foldl (fun a c => a + c.node.trans.length) acc)
      = fun acc b => acc + bucketTrans b := by
    funext acc b
    exact foldl_add_eq (fun c : Cell => c.node.trans.length) b acc
  rw [this, foldl_add_eq]
  simp

/-- a bucket of exactly `cols` cells, each holding a node of at most 256 transitions -/
def BucketOK (cols : Nat) (b : List Cell) : Prop :=
  b.length = cols ∧ ∀ c ∈ b, c.node.trans.length ≤ 256

/-- the cache has the geometry it was created with and holds only small nodes -/
structure RegShape (rows cols : Nat) (r : Registry) : Prop where
  rows_eq : r.rows = rows
  cols_eq : r.cols = cols
  size_eq : r.table.size = rows
  buckets : ∀ b ∈ r.table.toList, BucketOK cols b

theorem regShape_new (rows cols : Nat) : RegShape rows cols (Registry.new rows cols) := by
  refine ⟨rfl, rfl, by simp [Registry.new], ?_⟩
  intro b hb
  simp only [Registry.new, Array.toList_replicate] at hb
  have := List.eq_of_mem_replicate hb
  subst this
  refine ⟨by simp, ?_⟩
  intro c hc
  have := List.eq_of_mem_replicate hc
  subst this
  simp [Cell.none, BNode.empty]

theorem promote_length {cells : List Cell} {i : Nat} : (promote cells i).length = cells.length := by
  unfold promote
  split
  · rename_i c hc
    have hlt : i < cells.length := by
      rcases Nat.lt_or_ge i cells.length with h | h
      · exact h
      · rw [List.getElem?_eq_none h] at hc; cases hc
    simp only [List.length_cons, List.length_eraseIdx, hlt, if_true]
    omega
  · rfl

theorem bucketOK_promote {cols : Nat} {cells : List Cell} (i : Nat) (h : BucketOK cols cells) :
    BucketOK cols (promote cells i) :=
  ⟨by rw [promote_length]; exact h.1, fun c hc => h.2 c (promote_mem hc)⟩

/-- `RegistryCache::entry` on one bucket keeps its width; the only node that can enter is `n` -/
theorem bucketEntry_ok {cols : Nat} {cells : List Cell} {n : BNode} (h : BucketOK cols cells)
    (hn : (bucketEntry cells n).2.1 = none → n.trans.length ≤ 256) :
    BucketOK cols (bucketEntry cells n).1 := by
  unfold bucketEntry at hn ⊢
  split
  · exact bucketOK_promote _ h
  · rename_i hfind
    rw [hfind] at hn
    simp only at hn ⊢
    split
    · rename_i c hc
      rw [hc] at hn
      apply bucketOK_promote
      refine ⟨by rw [List.length_set]; exact h.1, ?_⟩
      intro c' hc'
      rcases List.mem_or_eq_of_mem_set hc' with h1 | h1
      · exact h.2 c' h1
      · subst h1; exact hn rfl
    · exact h

theorem mem_setIfInBounds {α : Type} {xs : Array α} {i : Nat} {x y : α}
    (h : y ∈ (xs.setIfInBounds i x).toList) : y ∈ xs.toList ∨ y = x := by
  rw [Array.toList_setIfInBounds] at h
  exact List.mem_or_eq_of_mem_set h

theorem getD_bucketOK {rows cols : Nat} {r : Registry} (h : RegShape rows cols r) (b : Nat)
    (hb : b < rows) : BucketOK cols (r.table.getD b []) := by
  have hlt : b < r.table.size := by rw [h.size_eq]; exact hb
  rw [getD_table, Array.getElem?_eq_getElem hlt]
  exact h.buckets _ (by simp)

/-- `Registry::entry` keeps the geometry; a miss stores `n`, which must be small -/
theorem entry_shape {rows cols : Nat} {r : Registry} {n : BNode} (h : RegShape rows cols r)
    (hn : (∀ a, (r.entry n).2 ≠ .found a) → (r.entry n).2 ≠ .rejected → n.trans.length ≤ 256) :
    RegShape rows cols (r.entry n).1 := by
  rw [entry_eq] at hn ⊢
  split
  · exact h
  · rename_i hz
    have hrows : (fnvNode n).toNat % r.rows < rows := by
      rw [← h.rows_eq]; exact Nat.mod_lt _ (by omega)
    have hcells := getD_bucketOK h _ hrows
    generalize hbe : bucketEntry (r.table.getD ((fnvNode n).toNat % r.rows) []) n = be at hn ⊢
    have hok := bucketEntry_ok (n := n) hcells
    rw [hbe] at hok
    obtain ⟨cells', found, ev⟩ := be
    simp only at hok hn ⊢
    rw [if_neg hz] at hn
    cases found with
    | some a =>
      simp only
      refine ⟨h.rows_eq, h.cols_eq, by simp [h.size_eq], ?_⟩
      intro b hb
      rcases mem_setIfInBounds hb with h1 | h1
      · exact h.buckets b h1
      · subst h1; exact hok (fun e => by cases e)
    | none =>
      simp only at hn ⊢
      refine ⟨h.rows_eq, h.cols_eq, by simp [h.size_eq], ?_⟩
      intro b hb
      rcases mem_setIfInBounds hb with h1 | h1
      · exact h.buckets b h1
      · subst h1
        exact hok (fun _ => hn (fun a e => by cases e) (fun e => by cases e))

/-- `RegistryCell::insert` only writes an address -/
theorem insert_shape {rows cols : Nat} {r : Registry} (h : RegShape rows cols r) (b addr : Nat) :
    RegShape rows cols (r.insert b addr) := by
  unfold Registry.insert
  split
  · rename_i c cs hget
    have hmem : b < r.table.size := by
      rcases Nat.lt_or_ge b r.table.size with h1 | h1
      · exact h1
      · rw [getD_table, Array.getElem?_eq_none h1] at hget; cases hget
    have hold : BucketOK cols (c :: cs) := by
      rw [← hget]; exact getD_bucketOK h b (by rw [← h.size_eq]; exact hmem)
    refine ⟨h.rows_eq, h.cols_eq, by simp [h.size_eq], ?_⟩
    intro b' hb'
    rcases mem_setIfInBounds hb' with h1 | h1
    · exact h.buckets b' h1
    · subst h1
      refine ⟨hold.1, ?_⟩
      intro c' hc'
      simp only [List.mem_cons] at hc'
      rcases hc' with e | e
      · subst e; exact hold.2 c (by simp)
      · exact hold.2 c' (List.mem_cons_of_mem _ e)
  · exact h

theorem compileNodeC_some_le {n : BNode} {l a : Nat} {cs : List (List UInt8)}
    (h : compileNodeC n l a = some cs) : n.trans.length ≤ 256 := by
  unfold compileNodeC at h
  split at h
  · cases h
  · omega

/-! ### the cache through the builder calls -/

/-- `Builder::compile` keeps the cache geometry (no hypothesis on the node: an oversized
node makes `compile` fail before it could stay cached) -/
theorem compile_shape {rows cols : Nat} {s s' : BState} {n : BNode} {a : Nat}
    (h : s.compile n = .ok (s', a)) (hr : RegShape rows cols s.reg) :
    RegShape rows cols s'.reg ∧ s'.stack = s.stack ∧ s'.last = s.last := by
  unfold BState.compile at h
  split at h
  · cases h; exact ⟨hr, rfl, rfl⟩
  · generalize hre : s.reg.entry n = re at h
    obtain ⟨reg', e⟩ := re
    simp only at h
    have hreg' : reg' = (s.reg.entry n).1 := by rw [hre]
    have he : e = (s.reg.entry n).2 := by rw [hre]
    split at h
    · cases h
      refine ⟨?_, rfl, rfl⟩
      simp only
      rw [hreg']
      apply entry_shape hr
      intro hnf
      rw [← he] at hnf
      exact absurd rfl (hnf _)
    · rename_i hnotfound
      split at h
      · cases h
      · rename_i chunks hcs
        cases h
        have hle := compileNodeC_some_le hcs
        have hshape : RegShape rows cols reg' := by
          rw [hreg']; exact entry_shape hr (fun _ _ => hle)
        refine ⟨?_, rfl, rfl⟩
        simp only
        split
        · exact insert_shape hshape _ _
        · exact hshape

theorem compileTail_shape {rows cols : Nat} : ∀ (popped : List UNode) {s s' : BState} {a : Nat},
    s.compileTail popped = .ok (s', a) → RegShape rows cols s.reg →
    RegShape rows cols s'.reg ∧ s'.stack = s.stack ∧ s'.last = s.last
  | [], s, s', a, h, hr => by
    simp only [BState.compileTail] at h
    cases h; exact ⟨hr, rfl, rfl⟩
  | u :: rest, s, s', a, h, hr => by
    rw [BState.compileTail] at h
    split at h
    · cases h
    · rename_i s1 a1 h1
      obtain ⟨i1, i2, i3⟩ := compileTail_shape rest h1 hr
      split at h
      · cases h
      · obtain ⟨j1, j2, j3⟩ := compile_shape h i1
        exact ⟨j1, by rw [j2, i2], by rw [j3, i3]⟩

theorem compileFrom_shape {rows cols : Nat} {s s' : BState} {i : Nat}
    (h : s.compileFrom i = .ok s') (hr : RegShape rows cols s.reg) :
    RegShape rows cols s'.reg ∧ s'.last = s.last := by
  unfold BState.compileFrom at h
  simp only at h
  split at h
  · cases h
  · rename_i s1 a1 h1
    obtain ⟨i1, _, i3⟩ := compileTail_shape _ h1 hr
    split at h
    · cases h
    · cases h; exact ⟨i1, i3⟩

theorem insertOutput_shape {rows cols : Nat} {s s' : BState} {k : Key} {out : Option Nat}
    (h : s.insertOutput k out = .ok s') (hr : RegShape rows cols s.reg) :
    RegShape rows cols s'.reg ∧ s'.last = s.last := by
  unfold BState.insertOutput at h
  split at h
  · cases h; exact ⟨hr, rfl⟩
  · simp only at h
    split at h
    · split at h
      · cases h
      · cases h; exact ⟨hr, rfl⟩
    · split at h
      · cases h
      · rename_i s1 h1
        cases h
        obtain ⟨i1, i2⟩ := compileFrom_shape h1 (by exact hr)
        exact ⟨i1, i2⟩

theorem checkLastKey_shape {s s' : BState} {k : Key} {d : Bool}
    (h : s.checkLastKey k d = .ok s') : s'.reg = s.reg ∧ s'.last = some k := by
  rw [checkLastKey_ok_eq h]; exact ⟨rfl, rfl⟩

theorem insert_shape' {rows cols : Nat} {s s' : BState} {k : Key} {v : Nat}
    (h : s.insert k v = .ok s') (hr : RegShape rows cols s.reg) :
    RegShape rows cols s'.reg ∧ s'.last = some k := by
  unfold BState.insert at h
  split at h
  · cases h
  · rename_i s1 h1
    obtain ⟨e1, e2⟩ := checkLastKey_shape h1
    obtain ⟨i1, i2⟩ := insertOutput_shape h (by rw [e1]; exact hr)
    exact ⟨i1, by rw [i2, e2]⟩

theorem add_shape {rows cols : Nat} {s s' : BState} {k : Key}
    (h : s.add k = .ok s') (hr : RegShape rows cols s.reg) :
    RegShape rows cols s'.reg ∧ s'.last = some k := by
  unfold BState.add at h
  split at h
  · cases h
  · rename_i s1 h1
    obtain ⟨e1, e2⟩ := checkLastKey_shape h1
    obtain ⟨i1, i2⟩ := insertOutput_shape h (by rw [e1]; exact hr)
    exact ⟨i1, by rw [i2, e2]⟩

/-! ### reachable states with their history -/

/-- `s` is reachable from `BState.new rows cols`; `ks` are the keys accepted so far,
newest first (a repeated `add` of the same key is listed each time) -/
inductive ReachableK (rows cols : Nat) : List Key → BState → Prop
  | new : ReachableK rows cols [] (BState.new rows cols)
  | insert {ks : List Key} {s s' : BState} (k : Key) (v : Nat) :
      ReachableK rows cols ks s → s.insert k v = .ok s' → ReachableK rows cols (k :: ks) s'
  | add {ks : List Key} {s s' : BState} (k : Key) :
      ReachableK rows cols ks s → s.add k = .ok s' → ReachableK rows cols (k :: ks) s'

theorem reachableK_reachable {rows cols : Nat} {ks : List Key} {s : BState}
    (h : ReachableK rows cols ks s) : Reachable s := by
  induction h with
  | new => exact .new rows cols
  | insert k v _ hi ih => exact .insert k v ih hi
  | add k _ ha ih => exact .add k ih ha

theorem reachable_reachableK {s : BState} (h : Reachable s) :
    ∃ rows cols ks, ReachableK rows cols ks s := by
  induction h with
  | new rows cols => exact ⟨rows, cols, [], .new⟩
  | insert k v _ hi ih => obtain ⟨r, c, ks, h⟩ := ih; exact ⟨r, c, k :: ks, .insert k v h hi⟩
  | add k _ ha ih => obtain ⟨r, c, ks, h⟩ := ih; exact ⟨r, c, k :: ks, .add k h ha⟩

/-- length of the longest key -/
def maxKeyLen : List Key → Nat
  | [] => 0
  | k :: ks => max k.length (maxKeyLen ks)

theorem le_maxKeyLen : ∀ {ks : List Key} {k : Key}, k ∈ ks → k.length ≤ maxKeyLen ks
  | k' :: ks, k, h => by
    simp only [List.mem_cons] at h
    simp only [maxKeyLen]
    rcases h with e | e
    · subst e; omega
    · have := le_maxKeyLen e; omega

/-- the cache keeps `rows` buckets of exactly `cols` cells, every cached node is small;
`s.last` is the newest accepted key -/
theorem regShape_reachable {rows cols : Nat} {ks : List Key} {s : BState}
    (h : ReachableK rows cols ks s) : RegShape rows cols s.reg ∧ s.last = ks.head? := by
  induction h with
  | new => exact ⟨regShape_new rows cols, rfl⟩
  | insert k v _ hi ih => exact insert_shape' hi ih.1
  | add k _ ha ih => exact add_shape ha ih.1

/-- the unfinished stack is exactly one node longer than the last key -/
theorem stack_length_reachable {s : BState} (h : Reachable s) :
    s.stack.length = (s.last.getD []).length + 1 := by
  obtain ⟨acc, hinv⟩ := reachable_inv h
  have := pathKey_length hinv.core.wf
  rw [hinv.path] at this
  omega

/-- every unfinished node has at most 256 (frozen) transitions -/
theorem stack_trans_reachable {s : BState} (h : Reachable s) :
    ∀ u ∈ s.stack, u.node.trans.length ≤ 256 := by
  obtain ⟨acc, hinv⟩ := reachable_inv h
  exact fun u hu => sortedInputs_length (hinv.core.shape u hu).1

/-! ### C13 -/

/-- everything the builder holds between two calls, in words: the unfinished stack (one
header per node + its frozen transitions), the cache (one header per cell + the cached
transitions), the copy of the last key. `s.out` is NOT counted: it stands for the bytes
already handed to the writer. -/
def footprint (s : BState) : Nat :=
  s.stack.length + (s.stack.map fun u => u.node.trans.length).sum
    + s.reg.table.size * s.reg.cols + s.reg.footprint + (s.last.map List.length).getD 0

theorem registry_footprint_le {rows cols : Nat} {r : Registry} (h : RegShape rows cols r) :
    r.footprint ≤ rows * cols * 256 := by
  rw [registry_footprint_eq]
  have h1 : ∀ b ∈ r.table.toList, bucketTrans b ≤ cols * 256 := by
    intro b hb
    obtain ⟨hl, hc⟩ := h.buckets b hb
    have := sum_map_le (fun c : Cell => c.node.trans.length) 256 b hc
    rw [hl] at this
    exact this
  have h2 := sum_map_le bucketTrans (cols * 256) r.table.toList h1
  rw [Array.length_toList, h.size_eq, ← Nat.mul_assoc] at h2
  exact h2

/-- C13: the builder footprint is bounded by the longest accepted key and the cache
geometry; no term in the number of keys or in the bytes emitted. -/
theorem C13_footprint {rows cols : Nat} {ks : List Key} {s : BState}
    (h : ReachableK rows cols ks s) :
    -- the unfinished stack
    s.stack.length = (s.last.getD []).length + 1 ∧ s.stack.length ≤ maxKeyLen ks + 1 ∧
    (∀ u ∈ s.stack, u.node.trans.length ≤ 256) ∧
    -- the cache
    s.reg.table.size = rows ∧ (∀ b ∈ s.reg.table.toList, b.length = cols) ∧
    (∀ b ∈ s.reg.table.toList, ∀ c ∈ b, c.node.trans.length ≤ 256) ∧
    -- the total
    footprint s ≤ (maxKeyLen ks + 1) * 257 + rows * cols * 257 + maxKeyLen ks := by
  have hr := reachableK_reachable h
  obtain ⟨hreg, hlast⟩ := regShape_reachable h
  have hlen := stack_length_reachable hr
  have htr := stack_trans_reachable hr
  have hL : (s.last.getD []).length ≤ maxKeyLen ks := by
    rw [hlast]
    cases ks with
    | nil => simp
    | cons k ks => simp only [List.head?_cons, Option.getD_some, maxKeyLen]; omega
  have hL' : (s.last.map List.length).getD 0 = (s.last.getD []).length := by
    cases s.last <;> rfl
  have hsum := sum_map_le (fun u : UNode => u.node.trans.length) 256 s.stack htr
  have hfp := registry_footprint_le hreg
  refine ⟨hlen, by omega, htr, hreg.size_eq, fun b hb => (hreg.buckets b hb).1,
    fun b hb => (hreg.buckets b hb).2, ?_⟩
  unfold footprint
  rw [hreg.size_eq, hreg.cols_eq, hL']
  have e1 : s.stack.length * 256 ≤ (maxKeyLen ks + 1) * 256 :=
    Nat.mul_le_mul_right _ (by omega)
  have e2 : (maxKeyLen ks + 1) * 257 = (maxKeyLen ks + 1) * 256 + (maxKeyLen ks + 1) := by omega
  have e3 : rows * cols * 257 = rows * cols * 256 + rows * cols := Nat.mul_succ _ 256
  generalize rows * cols = rc at *
  omega

/-- the same bound for a plain `Reachable` state -/
theorem C13_footprint_reachable {s : BState} (h : Reachable s) :
    ∃ rows cols ks, ReachableK rows cols ks s ∧
      footprint s ≤ (maxKeyLen ks + 1) * 257 + rows * cols * 257 + maxKeyLen ks := by
  obtain ⟨rows, cols, ks, hk⟩ := reachable_reachableK h
  exact ⟨rows, cols, ks, hk, (C13_footprint hk).2.2.2.2.2.2⟩

/-! ### whole builds, examples -/

theorem maxKeyLen_le {L : Nat} : ∀ {ks : List Key}, (∀ k ∈ ks, k.length ≤ L) → maxKeyLen ks ≤ L
  | [], _ => Nat.zero_le _
  | k :: ks, h => by
    have h1 := h k (by simp)
    have h2 := maxKeyLen_le (ks := ks) (fun x hx => h x (List.mem_cons_of_mem _ hx))
    simp only [maxKeyLen]; omega

theorem bound_mono {m L rc : Nat} (h : m ≤ L) :
    (m + 1) * 257 + rc * 257 + m ≤ (L + 1) * 257 + rc * 257 + L := by omega

theorem reachableK_insertAll {rows cols : Nat} : ∀ (kvs : KV) {ks : List Key} {s s' : BState},
    ReachableK rows cols ks s → insertAll s kvs = .ok s' →
    ReachableK rows cols ((kvs.map (·.1)).reverse ++ ks) s'
  | [], ks, s, s', h, e => by cases e; exact h
  | kv :: rest, ks, s, s', h, e => by
    simp only [insertAll] at e
    cases hi : s.insert kv.1 kv.2 with
    | error err => rw [hi] at e; cases e
    | ok s1 =>
      rw [hi] at e
      have := reachableK_insertAll rest (ReachableK.insert kv.1 kv.2 h hi) e
      simpa using this

theorem reachableK_addAll {rows cols : Nat} : ∀ (keys : List Key) {ks : List Key} {s s' : BState},
    ReachableK rows cols ks s → addAll s keys = .ok s' →
    ReachableK rows cols (keys.reverse ++ ks) s'
  | [], ks, s, s', h, e => by cases e; exact h
  | k :: rest, ks, s, s', h, e => by
    simp only [addAll] at e
    cases hi : s.add k with
    | error err => rw [hi] at e; cases e
    | ok s1 =>
      rw [hi] at e
      have := reachableK_addAll rest (ReachableK.add k h hi) e
      simpa using this

/-- C13 for a whole map build: `L` bounds the key lengths; the number of keys does not occur -/
theorem C13_footprint_insertAll {rows cols L : Nat} {kvs : KV} {s : BState}
    (h : insertAll (BState.new rows cols) kvs = .ok s) (hL : ∀ kv ∈ kvs, kv.1.length ≤ L) :
    footprint s ≤ (L + 1) * 257 + rows * cols * 257 + L := by
  have hk := reachableK_insertAll kvs .new h
  have hb := (C13_footprint hk).2.2.2.2.2.2
  have hm : maxKeyLen ((kvs.map (·.1)).reverse ++ []) ≤ L := by
    apply maxKeyLen_le
    intro k hk
    simp only [List.append_nil, List.mem_reverse, List.mem_map] at hk
    obtain ⟨kv, hkv, rfl⟩ := hk
    exact hL kv hkv
  exact Nat.le_trans hb (bound_mono hm)

/-- C13 for a whole set build -/
theorem C13_footprint_addAll {rows cols L : Nat} {keys : List Key} {s : BState}
    (h : addAll (BState.new rows cols) keys = .ok s) (hL : ∀ k ∈ keys, k.length ≤ L) :
    footprint s ≤ (L + 1) * 257 + rows * cols * 257 + L := by
  have hk := reachableK_addAll keys .new h
  have hb := (C13_footprint hk).2.2.2.2.2.2
  have hm : maxKeyLen (keys.reverse ++ []) ≤ L := by
    apply maxKeyLen_le
    intro k hk
    simp only [List.append_nil, List.mem_reverse] at hk
    exact hL k hk
  exact Nat.le_trans hb (bound_mono hm)

def exKeys : KV := [([1, 2, 3], 7), ([1, 2, 4, 5], 1), ([9], 3)]

/-- the hypotheses of `C13_footprint` are satisfiable by a non-trivial state -/
example : ∃ s, insertAll (BState.new 2 2) exKeys = .ok s ∧
    ReachableK 2 2 [[9], [1, 2, 4, 5], [1, 2, 3]] s ∧ footprint s ≤ (4 + 1) * 257 + 2 * 2 * 257 + 4 := by
  obtain ⟨s, _, _, e, _⟩ := build_ok 2 2 exKeys (by simp [exKeys, SortedKV, lexLt])
  have hk := reachableK_insertAll exKeys .new e
  exact ⟨s, e, hk, (C13_footprint hk).2.2.2.2.2.2⟩

/-- measured on the model: footprint, stack depth, cached transitions, and the size of the
part that is NOT counted (`out`, which does grow with the number of keys) -/
def exMeasure (rows cols : Nat) (kvs : KV) : Option (Nat × Nat × Nat × Nat) :=
  match insertAll (BState.new rows cols) kvs with
  | .ok s => some (footprint s, s.stack.length, s.reg.footprint, s.out.length)
  | .error _ => none

/-- info: some (12, 2, 4, 3) -/
#guard_msgs in
#eval exMeasure 2 2 exKeys

end Bounds
end Fst
