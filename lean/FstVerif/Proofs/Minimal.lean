import FstVerif.Proofs.Build
/-
C12 (minimality) on the model of the builder (`Model/Build.lean`, `Model/Registry.lean`).

Main results
* `C12_no_dup`, `C12_no_dup_finish`   in a reachable state (and after `finish`) whose cache never
  rejects (`rows ≥ 1 ∧ cols ≥ 1`) and has `evictions = 0`, the emitted nodes are pairwise
  distinct `BNode`s (any mode: sets and maps);
* `C12_trie_bound_built`, `C12_trie_bound_finish`, `C12_trie_bound`, `C12_trie_bound_set`
  for every geometry and every accepted input, `#emitted nodes ≤ prefixCount keys + 1`
  (`prefixCount` = number of distinct non-empty prefixes = non-root nodes of the prefix trie);
* `C12_minimal_set_of`, `C12_minimal_set`   set mode, no evictions: equal right languages
  (`denOf`) imply equal addresses, among emitted nodes and the address-0 sentinel
  (Myhill–Nerode: the automaton is the minimal acyclic DFA);
* `C12_targets_nonempty`   every transition target has a non-empty right language;
* `evictions_mono_finish`   the eviction counter never decreases.

Structure
* buckets and the table (`bucketEntry_some/none`, `Geo`, `entry_found_shape`, `entry_notFound_shape`);
* `Full`: without evictions every emitted node still sits in a live cell of its bucket, so
  `compile` of an equal node is a cache hit (`compile_full`);
* `EInv`: properties of (out, reg, count, lastAddr) that only `compile` can change, carried
  through every public call once and for all;
* prefixes, `prefixCount`, the counting invariant `TB` (`step_tb`) over `Built s ks`;
* `node_eq_of_den`: with outputs 0, sorted inputs and non-empty targets the right language
  determines the node; `nePass`/`InvNE`: nodes compiled before the root are final or have a
  transition; `minimal_aux`: induction on addresses.
The hypotheses are necessary: see the 1×1 (evictions) and 0×0 (rejecting) runs at the end.
-/
namespace Fst
namespace MinP

/-! ### buckets -/

theorem dropLast_split {α : Type} {l : List α} {c : α} (h : l.getLast? = some c) :
    l = l.dropLast ++ [c] := by
  have hne : l ≠ [] := by intro e; subst e; simp at h
  rw [List.getLast?_eq_some_getLast hne] at h
  have := List.dropLast_concat_getLast hne
  cases h
  exact this.symm

theorem promote_mem_iff {cells : List Cell} {i : Nat} (x : Cell) :
    x ∈ promote cells i ↔ x ∈ cells := by
  unfold promote
  cases h : cells[i]? with
  | none => simp
  | some c =>
    obtain ⟨hlt, hc⟩ := List.getElem?_eq_some_iff.mp h
    have h1 : cells = cells.take i ++ c :: cells.drop (i + 1) := by
      rw [← hc, ← List.drop_eq_getElem_cons hlt, List.take_append_drop]
    simp only [List.eraseIdx_eq_take_drop_succ, List.mem_cons, List.mem_append]
    constructor
    · intro hx; rw [h1]; simp only [List.mem_append, List.mem_cons]; grind
    · intro hx; rw [h1] at hx; simp only [List.mem_append, List.mem_cons] at hx; grind

theorem promote_length {cells : List Cell} {i : Nat} : (promote cells i).length = cells.length := by
  unfold promote
  cases h : cells[i]? with
  | none => rfl
  | some c =>
    obtain ⟨hlt, _⟩ := List.getElem?_eq_some_iff.mp h
    simp only [List.length_cons, List.length_eraseIdx, hlt, if_true]
    omega

/-- hit: same cells in another order, nothing overwritten -/
theorem bucketEntry_some {cells cells' : List Cell} {n : BNode} {a : Nat} {ev : Bool}
    (h : bucketEntry cells n = (cells', some a, ev)) :
    ev = false ∧ cells'.length = cells.length ∧ ∀ x, x ∈ cells' ↔ x ∈ cells := by
  unfold bucketEntry at h
  split at h
  · simp only [Prod.mk.injEq] at h
    obtain ⟨h1, _, h3⟩ := h
    subst h1
    exact ⟨h3.symm, promote_length, promote_mem_iff⟩
  · simp only at h
    split at h <;> simp at h

/-- miss on a non-empty bucket: no live cell holds `n`; the last cell is recycled to the front -/
theorem bucketEntry_none {cells cells' : List Cell} {n : BNode} {ev : Bool}
    (h : bucketEntry cells n = (cells', none, ev)) (hne : cells ≠ []) :
    (∀ x ∈ cells, ¬ (x.isNone = false ∧ x.node = n)) ∧
    ∃ c, cells.getLast? = some c ∧ ev = !c.isNone ∧
      cells' = { c with node := n } :: cells.dropLast := by
  unfold bucketEntry at h
  split at h
  · rename_i i hi
    simp only [Prod.mk.injEq] at h
    obtain ⟨_, h2, _⟩ := h
    unfold bucketFind at hi
    obtain ⟨hlt, _, _⟩ := List.findIdx?_eq_some_iff_getElem.mp hi
    simp [List.getElem?_eq_getElem hlt] at h2
  · rename_i hnf
    constructor
    · unfold bucketFind at hnf
      rw [List.findIdx?_eq_none_iff] at hnf
      intro x hx ⟨h1, h2⟩
      have := hnf x hx
      simp [h1, h2] at this
    · have hlt : cells.length - 1 < cells.length := by
        have := List.length_pos_iff.mpr hne; omega
      simp only [List.getElem?_eq_getElem hlt, Prod.mk.injEq, true_and] at h
      obtain ⟨h1, h2⟩ := h
      refine ⟨cells[cells.length - 1], ?_, h2.symm, ?_⟩
      · rw [List.getLast?_eq_getElem?, List.getElem?_eq_getElem hlt]
      · rw [← h1]
        unfold promote
        rw [List.getElem?_set_self (by simpa using hlt)]
        rw [List.eraseIdx_set_eq, List.eraseIdx_length_sub_one]


/-! ### the table -/

/-- the bucket a node hashes to -/
def bucketOf (r : Registry) (n : BNode) : List Cell :=
  r.table.getD ((fnvNode n).toNat % r.rows) []

/-- geometry of a cache that never rejects -/
structure Geo (r : Registry) : Prop where
  rows_pos : 1 ≤ r.rows
  cols_pos : 1 ≤ r.cols
  size : r.table.size = r.rows
  width : ∀ (b : Nat) (cells : List Cell), r.table[b]? = some cells → cells.length = r.cols

theorem Geo_new (rows cols : Nat) (hr : 1 ≤ rows) (hc : 1 ≤ cols) : Geo (Registry.new rows cols) := by
  refine ⟨hr, hc, by simp [Registry.new], ?_⟩
  intro b cells h
  simp only [Registry.new, Array.getElem?_replicate] at h
  split at h
  · cases h; simp [Registry.new]
  · cases h

theorem getD_set (t : Array (List Cell)) (b b' : Nat) (v : List Cell) (hb : b < t.size) :
    (t.setIfInBounds b v).getD b' [] = if b' = b then v else t.getD b' [] := by
  rw [getD_table, getD_table, Array.getElem?_setIfInBounds]
  by_cases e : b = b'
  · subst e; simp [hb]
  · have : ¬ b' = b := fun h => e h.symm
    simp [e, this]

theorem bucket_lt {r : Registry} (g : Geo r) (n : BNode) : (fnvNode n).toNat % r.rows < r.table.size := by
  rw [g.size]; exact Nat.mod_lt _ g.rows_pos

theorem bucketOf_length {r : Registry} (g : Geo r) (n : BNode) : (bucketOf r n).length = r.cols := by
  have hlt := bucket_lt g n
  unfold bucketOf
  rw [getD_table]
  have : r.table[(fnvNode n).toNat % r.rows]? = some r.table[(fnvNode n).toNat % r.rows] :=
    Array.getElem?_eq_getElem hlt
  rw [this]
  exact g.width _ _ this

theorem Geo_set {r : Registry} (g : Geo r) (b : Nat) (v : List Cell) (hv : v.length = r.cols) (ev : Nat) :
    Geo { r with table := r.table.setIfInBounds b v, evictions := ev } := by
  refine ⟨g.rows_pos, g.cols_pos, by simp [g.size], ?_⟩
  intro b' cells h
  simp only [Array.getElem?_setIfInBounds] at h
  split at h
  · split at h
    · cases h; exact hv
    · cases h
  · exact g.width b' cells h

/-- `entry` on a cache that never rejects: a hit -/
theorem entry_found_shape {r r' : Registry} {n : BNode} {a : Nat} (g : Geo r)
    (h : r.entry n = (r', .found a)) :
    ∃ cells', r' = { r with table := r.table.setIfInBounds ((fnvNode n).toNat % r.rows) cells' } ∧
      cells'.length = r.cols ∧ ∀ x, x ∈ cells' ↔ x ∈ bucketOf r n := by
  rw [entry_eq] at h
  have hrc : ¬ (r.rows = 0 ∨ r.cols = 0) := by have := g.rows_pos; have := g.cols_pos; omega
  rw [if_neg hrc] at h
  generalize hbe : bucketEntry (r.table.getD ((fnvNode n).toNat % r.rows) []) n = be at h
  obtain ⟨cells', found, ev⟩ := be
  simp only at h
  cases found with
  | none => simp at h
  | some a' =>
    simp only [Prod.mk.injEq, REntry.found.injEq] at h
    obtain ⟨h1, _⟩ := h
    obtain ⟨e1, e2, e3⟩ := bucketEntry_some hbe
    subst e1
    refine ⟨cells', by rw [← h1]; simp, ?_, e3⟩
    rw [e2]; exact bucketOf_length g n

/-- `entry` on a cache that never rejects: a miss, completed by `insert` -/
theorem entry_notFound_shape {r r' : Registry} {n : BNode} {b : Nat} (g : Geo r)
    (h : r.entry n = (r', .notFound b)) :
    (∀ x ∈ bucketOf r n, ¬ (x.isNone = false ∧ x.node = n)) ∧
    ∃ c, (bucketOf r n).getLast? = some c ∧ ∀ addr, r'.insert b addr =
      { r with table := r.table.setIfInBounds ((fnvNode n).toNat % r.rows)
                          (⟨addr, n⟩ :: (bucketOf r n).dropLast),
               evictions := r.evictions + (if c.isNone then 0 else 1) } := by
  rw [entry_eq] at h
  have hrc : ¬ (r.rows = 0 ∨ r.cols = 0) := by have := g.rows_pos; have := g.cols_pos; omega
  rw [if_neg hrc] at h
  generalize hbe : bucketEntry (r.table.getD ((fnvNode n).toNat % r.rows) []) n = be at h
  obtain ⟨cells', found, ev⟩ := be
  simp only at h
  cases found with
  | some a' => simp at h
  | none =>
    simp only [Prod.mk.injEq, REntry.notFound.injEq] at h
    obtain ⟨h1, h2⟩ := h
    have hne : bucketOf r n ≠ [] := by
      intro e
      have := bucketOf_length g n
      rw [e] at this
      have := g.cols_pos
      simp at *; omega
    obtain ⟨e1, c, e2, e3, e4⟩ := bucketEntry_none hbe hne
    refine ⟨e1, c, e2, fun addr => ?_⟩
    subst h1 h2 e3 e4
    unfold Registry.insert
    simp only [getD_set _ _ _ _ (bucket_lt g n), if_true]
    cases hc : c.isNone <;> simp [bucketOf]


theorem bucketOf_set {r : Registry} (b : Nat) (v : List Cell) (ev : Nat) (hb : b < r.table.size)
    (m : BNode) :
    bucketOf { r with table := r.table.setIfInBounds b v, evictions := ev } m =
      if (fnvNode m).toNat % r.rows = b then v else bucketOf r m := by
  unfold bucketOf
  exact getD_set _ _ _ _ hb

theorem entry_not_rejected {r r' : Registry} {n : BNode} (g : Geo r) :
    r.entry n ≠ (r', .rejected) := by
  intro h
  rw [entry_eq] at h
  have hrc : ¬ (r.rows = 0 ∨ r.cols = 0) := by have := g.rows_pos; have := g.cols_pos; omega
  rw [if_neg hrc] at h
  generalize bucketEntry (r.table.getD ((fnvNode n).toNat % r.rows) []) n = be at h
  obtain ⟨cells', found, ev⟩ := be
  simp only at h
  cases found <;> simp at h

/-! ### the invariant: without evictions every emitted node is still cached -/

/-- the emitted node sits in a live cell of its bucket -/
def Present (r : Registry) (e : Emit) : Prop :=
  ∃ c ∈ bucketOf r e.node, c.addr = e.addr ∧ c.node = e.node ∧ c.isNone = false

structure Full (s : BState) : Prop where
  geo : Geo s.reg
  count : 16 ≤ s.count
  present : s.reg.evictions = 0 → ∀ e ∈ s.out, Present s.reg e
  nodup : s.reg.evictions = 0 → (s.out.map (·.node)).Nodup

theorem Full_new (rows cols : Nat) (hr : 1 ≤ rows) (hc : 1 ≤ cols) : Full (BState.new rows cols) :=
  ⟨Geo_new rows cols hr hc, by simp [BState.new], fun _ e he => by simp [BState.new] at he,
   fun _ => by simp [BState.new]⟩

theorem compile_full {s s' : BState} {n : BNode} {a : Nat} (h : s.compile n = .ok (s', a))
    (hF : Full s) : Full s' := by
  unfold BState.compile at h
  split at h
  · cases h; exact hF
  · generalize hre : s.reg.entry n = re at h
    obtain ⟨reg', en⟩ := re
    have hlt := bucket_lt hF.geo n
    cases en with
    | found a' =>
      cases h
      obtain ⟨cells', e1, e2, e3⟩ := entry_found_shape hF.geo hre
      subst e1
      refine ⟨Geo_set hF.geo _ _ e2 _, hF.count, ?_, hF.nodup⟩
      intro hev e he
      obtain ⟨c, hc, h1⟩ := hF.present hev e he
      refine ⟨c, ?_, h1⟩
      show c ∈ bucketOf { s.reg with table := _, evictions := s.reg.evictions } e.node
      rw [bucketOf_set _ _ _ hlt]
      split
      · rename_i hb
        rw [e3]
        unfold bucketOf at hc ⊢
        rw [← hb]; exact hc
      · exact hc
    | notFound b =>
      simp only at h
      split at h
      · cases h
      · rename_i cs _
        cases h
        obtain ⟨e1, c, e2, e3⟩ := entry_notFound_shape hF.geo hre
        simp only [e3]
        have hlen : (⟨s.count + (cs.map List.length).sum - 1, n⟩ :: (bucketOf s.reg n).dropLast : List Cell).length
            = s.reg.cols := by
          have := bucketOf_length hF.geo n
          have := hF.geo.cols_pos
          simp only [List.length_cons, List.length_dropLast]; omega
        have h16 := hF.count
        have hsplit : bucketOf s.reg n = (bucketOf s.reg n).dropLast ++ [c] :=
          dropLast_split e2
        refine ⟨Geo_set hF.geo _ _ hlen _, by simp only; omega, ?_, ?_⟩
        · intro hev e he
          simp only at hev
          have hcn : c.isNone = true := by
            cases hc : c.isNone with
            | true => rfl
            | false => rw [hc] at hev; simp at hev
          have hev0 : s.reg.evictions = 0 := by omega
          simp only [List.mem_cons] at he
          unfold Present
          rw [bucketOf_set _ _ _ hlt]
          rcases he with rfl | he
          · refine ⟨⟨s.count + (cs.map List.length).sum - 1, n⟩, by simp, rfl, rfl, ?_⟩
            simp only [Cell.isNone, NONE_ADDRESS, beq_eq_false_iff_ne, ne_eq]
            omega
          · obtain ⟨x, hx, h1, h2, h3⟩ := hF.present hev0 e he
            refine ⟨x, ?_, h1, h2, h3⟩
            split
            · rename_i hb
              have hx' : x ∈ bucketOf s.reg n := by
                unfold bucketOf at hx ⊢; rw [← hb]; exact hx
              rw [hsplit] at hx'
              simp only [List.mem_append, List.mem_singleton] at hx'
              rcases hx' with hx' | rfl
              · exact List.mem_cons_of_mem _ hx'
              · rw [hcn] at h3; cases h3
            · exact hx
        · intro hev
          simp only at hev
          have hev0 : s.reg.evictions = 0 := by omega
          simp only [List.map_cons, List.nodup_cons]
          refine ⟨?_, hF.nodup hev0⟩
          intro hmem
          simp only [List.mem_map] at hmem
          obtain ⟨e, he, hen⟩ := hmem
          obtain ⟨x, hx, _, h2, h3⟩ := hF.present hev0 e he
          rw [hen] at hx h2
          exact e1 x hx ⟨h3, h2⟩
    | rejected => exact absurd hre (entry_not_rejected hF.geo)


/-! ### properties of the emitted part of a state that only `compile` can change -/

structure EInv (I : BState → Prop) : Prop where
  frame : ∀ {s : BState}, I s → ∀ (s' : BState), s'.out = s.out → s'.reg = s.reg →
    s'.count = s.count → s'.lastAddr = s.lastAddr → I s'
  compile : ∀ {s s' : BState} {n : BNode} {a : Nat}, s.compile n = .ok (s', a) → I s → I s'

theorem EInv.compileTail {I : BState → Prop} (hI : EInv I) : ∀ (popped : List UNode) {s s' : BState}
    {a : Nat}, s.compileTail popped = .ok (s', a) → I s → I s'
  | [], s, s', a, h, hs => by
    simp only [BState.compileTail] at h; cases h; exact hs
  | u :: rest, s, s', a, h, hs => by
    rw [BState.compileTail] at h
    cases hr : s.compileTail rest with
    | error e => rw [hr] at h; cases h
    | ok r =>
      obtain ⟨s1, a1⟩ := r
      rw [hr] at h
      simp only at h
      split at h
      · cases h
      · exact hI.compile h (hI.compileTail rest hr hs)

theorem EInv.compileFrom {I : BState → Prop} (hI : EInv I) {s s' : BState} {i : Nat}
    (h : s.compileFrom i = .ok s') (hs : I s) : I s' := by
  unfold BState.compileFrom at h
  simp only at h
  cases hr : s.compileTail (s.stack.drop (i + 1)) with
  | error e => rw [hr] at h; cases h
  | ok r =>
    obtain ⟨s1, a1⟩ := r
    rw [hr] at h
    simp only at h
    split at h
    · cases h
    · cases h
      exact hI.frame (hI.compileTail _ hr hs) _ rfl rfl rfl rfl

theorem EInv.insertOutput {I : BState → Prop} (hI : EInv I) {s s' : BState} {k : Key} {out : Option Nat}
    (h : s.insertOutput k out = .ok s') (hs : I s) : I s' := by
  unfold BState.insertOutput at h
  split at h
  · cases h; exact hI.frame hs _ rfl rfl rfl rfl
  · simp only at h
    split at h
    · split at h
      · cases h
      · cases h; exact hI.frame hs _ rfl rfl rfl rfl
    · split at h
      · cases h
      · rename_i s2 hcf
        cases h
        exact hI.frame (hI.compileFrom hcf (hI.frame hs _ rfl rfl rfl rfl)) _ rfl rfl rfl rfl

theorem EInv.insert {I : BState → Prop} (hI : EInv I) {s s' : BState} {k : Key} {v : Nat}
    (h : s.insert k v = .ok s') (hs : I s) : I s' := by
  unfold BState.insert at h
  cases hck : s.checkLastKey k true with
  | error e => rw [hck] at h; cases h
  | ok t =>
    rw [hck] at h
    have := checkLastKey_ok_eq hck
    subst this
    exact hI.insertOutput h (hI.frame hs _ rfl rfl rfl rfl)

theorem EInv.add {I : BState → Prop} (hI : EInv I) {s s' : BState} {k : Key}
    (h : s.add k = .ok s') (hs : I s) : I s' := by
  unfold BState.add at h
  cases hck : s.checkLastKey k false with
  | error e => rw [hck] at h; cases h
  | ok t =>
    rw [hck] at h
    have := checkLastKey_ok_eq hck
    subst this
    exact hI.insertOutput h (hI.frame hs _ rfl rfl rfl rfl)

theorem EInv.finish {I : BState → Prop} (hI : EInv I) {s s' : BState} {root : Nat}
    (h : s.finish = .ok (s', root)) (hs : I s) : I s' := by
  unfold BState.finish at h
  cases hcf : s.compileFrom 0 with
  | error e => rw [hcf] at h; cases h
  | ok s1 =>
    rw [hcf] at h
    simp only at h
    split at h
    · split at h
      · cases h
      · exact hI.compile h (hI.compileFrom hcf hs)
    · cases h

theorem EInv.insertAll {I : BState → Prop} (hI : EInv I) : ∀ (kvs : KV) {s s' : BState},
    insertAll s kvs = .ok s' → I s → I s'
  | [], s, s', e, hs => by cases e; exact hs
  | kv :: rest, s, s', e, hs => by
    simp only [Fst.insertAll] at e
    cases hi : s.insert kv.1 kv.2 with
    | error err => rw [hi] at e; cases e
    | ok s1 => rw [hi] at e; exact hI.insertAll rest e (hI.insert hi hs)

theorem EInv.addAll {I : BState → Prop} (hI : EInv I) : ∀ (ks : List Key) {s s' : BState},
    addAll s ks = .ok s' → I s → I s'
  | [], s, s', e, hs => by cases e; exact hs
  | k :: rest, s, s', e, hs => by
    simp only [Fst.addAll] at e
    cases hi : s.add k with
    | error err => rw [hi] at e; cases e
    | ok s1 => rw [hi] at e; exact hI.addAll rest e (hI.add hi hs)

theorem Full_einv : EInv Full where
  frame := by
    intro s hF s' h1 h2 h3 _
    exact ⟨h2 ▸ hF.geo, h3 ▸ hF.count, by rw [h1, h2]; exact hF.present, by rw [h1, h2]; exact hF.nodup⟩
  compile := compile_full

theorem entry_geom (r : Registry) (n : BNode) :
    (r.entry n).1.rows = r.rows ∧ (r.entry n).1.cols = r.cols := by
  rw [entry_eq]
  split
  · exact ⟨rfl, rfl⟩
  · generalize bucketEntry (r.table.getD ((fnvNode n).toNat % r.rows) []) n = be
    obtain ⟨cells', found, ev⟩ := be
    cases found <;> exact ⟨rfl, rfl⟩

theorem insert_geom (r : Registry) (b addr : Nat) :
    (r.insert b addr).rows = r.rows ∧ (r.insert b addr).cols = r.cols := by
  unfold Registry.insert
  split <;> exact ⟨rfl, rfl⟩

theorem compile_geom {s s' : BState} {n : BNode} {a : Nat} (h : s.compile n = .ok (s', a)) :
    s'.reg.rows = s.reg.rows ∧ s'.reg.cols = s.reg.cols := by
  unfold BState.compile at h
  split at h
  · cases h; exact ⟨rfl, rfl⟩
  · have hg := entry_geom s.reg n
    generalize s.reg.entry n = re at h hg
    obtain ⟨reg', en⟩ := re
    simp only at hg
    cases en with
    | found a' => cases h; exact hg
    | notFound b =>
      simp only at h
      split at h
      · cases h
      · cases h
        have := insert_geom reg' b
        simp only [this, hg]
        exact ⟨trivial, trivial⟩
    | rejected =>
      simp only at h
      split at h
      · cases h
      · cases h; exact hg

theorem geom_einv (R C : Nat) : EInv fun s => s.reg.rows = R ∧ s.reg.cols = C where
  frame := by intro s h s' _ h2 _ _; rw [h2]; exact h
  compile := by
    intro s s' n a h hs
    obtain ⟨h1, h2⟩ := compile_geom h
    rw [h1, h2]; exact hs

end MinP

open MinP

/-- a cache of at least one row and one column never rejects a node -/
def NeverRejects (s : BState) : Prop := 1 ≤ s.reg.rows ∧ 1 ≤ s.reg.cols

/-- the geometry of the cache never changes; every reachable state with a non-degenerate
cache satisfies `Full` -/
theorem reachable_full {s : BState} (h : Reachable s) : NeverRejects s → Full s := by
  induction h with
  | new rows cols => intro ⟨hr, hc⟩; exact Full_new rows cols hr hc
  | @insert s s' k v _ hi ih =>
    intro hnr
    obtain ⟨h1, h2⟩ := (geom_einv s.reg.rows s.reg.cols).insert hi ⟨rfl, rfl⟩
    exact Full_einv.insert hi (ih (by unfold NeverRejects at *; omega))
  | @add s s' k _ ha ih =>
    intro hnr
    obtain ⟨h1, h2⟩ := (geom_einv s.reg.rows s.reg.cols).add ha ⟨rfl, rfl⟩
    exact Full_einv.add ha (ih (by unfold NeverRejects at *; omega))

/-- C12, no duplicates: in every reachable state whose cache never rejects and has not evicted
an entry, the emitted nodes are pairwise distinct -/
theorem C12_no_dup {s : BState} (h : Reachable s) (hnr : 1 ≤ s.reg.rows ∧ 1 ≤ s.reg.cols)
    (hev : s.reg.evictions = 0) : (s.out.map (·.node)).Nodup :=
  (reachable_full h hnr).nodup hev

/-- C12, no duplicates, after `finish` -/
theorem C12_no_dup_finish {s s' : BState} {root : Nat} (h : Reachable s)
    (hnr : 1 ≤ s.reg.rows ∧ 1 ≤ s.reg.cols) (hf : s.finish = .ok (s', root))
    (hev : s'.reg.evictions = 0) : (s'.out.map (·.node)).Nodup :=
  (Full_einv.finish hf (reachable_full h hnr)).nodup hev

/-! ### C12, trie bound: prefixes of keys -/

/-- the non-empty prefixes of a key longer than `i` bytes -/
def prefixesFrom (k : Key) (i : Nat) : List Key :=
  (List.range (k.length - i)).map fun j => k.take (i + j + 1)

/-- the non-empty prefixes of a key -/
def prefixesOf (k : Key) : List Key := prefixesFrom k 0

def allPrefixes (ks : List Key) : List Key := ks.flatMap prefixesOf

/-- drop repeated elements -/
def distinct : List Key → List Key
  | [] => []
  | a :: l => if a ∈ l then distinct l else a :: distinct l

/-- the number of distinct non-empty prefixes of the keys = the number of non-root nodes
of their prefix trie -/
def prefixCount (ks : List Key) : Nat := (distinct (allPrefixes ks)).length

example : prefixCount [[1, 2, 3], [1, 2, 4], [1, 5], [1, 5]] = 5 := by decide

namespace MinP

theorem mem_distinct {p : Key} : ∀ {l : List Key}, p ∈ distinct l ↔ p ∈ l
  | [] => by simp [distinct]
  | a :: l => by
    simp only [distinct]
    split
    · rename_i h
      rw [mem_distinct (l := l)]
      simp only [List.mem_cons]
      constructor
      · exact Or.inr
      · rintro (rfl | h') <;> assumption
    · simp only [List.mem_cons, mem_distinct (l := l)]

theorem nodup_distinct : ∀ (l : List Key), (distinct l).Nodup
  | [] => by simp [distinct]
  | a :: l => by
    simp only [distinct]
    split
    · exact nodup_distinct l
    · rename_i h
      rw [List.nodup_cons]
      exact ⟨fun hm => h (mem_distinct.mp hm), nodup_distinct l⟩

theorem nodup_subset_length {α : Type} [DecidableEq α] : ∀ (w m : List α), w.Nodup →
    (∀ x ∈ w, x ∈ m) → w.length ≤ m.length
  | [], _, _, _ => Nat.zero_le _
  | a :: w, m, hn, hs => by
    rw [List.nodup_cons] at hn
    have ha : a ∈ m := hs a (by simp)
    have ih := nodup_subset_length w (m.erase a) hn.2 (by
      intro x hx
      have hne : x ≠ a := fun e => hn.1 (e ▸ hx)
      exact (List.mem_erase_of_ne hne).mpr (hs x (by simp [hx])))
    rw [List.length_erase_of_mem ha] at ih
    have := List.length_pos_of_mem ha
    simp only [List.length_cons]
    omega

/-- a duplicate-free list of prefixes of the keys is no longer than `prefixCount` -/
theorem witness_le_prefixCount {w : List Key} {ks : List Key} (hn : w.Nodup)
    (hs : ∀ p ∈ w, p ∈ allPrefixes ks) : w.length ≤ prefixCount ks :=
  nodup_subset_length w _ hn fun p hp => mem_distinct.mpr (hs p hp)

theorem mem_prefixesFrom {k p : Key} {i : Nat} :
    p ∈ prefixesFrom k i ↔ ∃ j, i + j + 1 ≤ k.length ∧ p = k.take (i + j + 1) := by
  simp only [prefixesFrom, List.mem_map, List.mem_range]
  constructor
  · rintro ⟨j, hj, rfl⟩; exact ⟨j, by omega, rfl⟩
  · rintro ⟨j, hj, rfl⟩; exact ⟨j, by omega, rfl⟩

theorem length_prefixesFrom (k : Key) (i : Nat) : (prefixesFrom k i).length = k.length - i := by
  simp [prefixesFrom]

theorem nodup_prefixesFrom (k : Key) (i : Nat) : (prefixesFrom k i).Nodup := by
  unfold prefixesFrom
  rw [List.Nodup, List.pairwise_map]
  refine List.Pairwise.imp_of_mem ?_ (List.nodup_range (n := k.length - i))
  intro a b ha hb hab e
  rw [List.mem_range] at ha hb
  have := congrArg List.length e
  simp only [List.length_take] at this
  omega

theorem prefix_of_mem_prefixesFrom {k p : Key} {i : Nat} (h : p ∈ prefixesFrom k i) :
    p <+: k ∧ i < p.length := by
  obtain ⟨j, hj, rfl⟩ := mem_prefixesFrom.mp h
  refine ⟨List.take_prefix _ _, ?_⟩
  rw [List.length_take]; omega

theorem allPrefixes_append (ks : List Key) (k : Key) :
    allPrefixes (ks ++ [k]) = allPrefixes ks ++ prefixesOf k := by
  simp [allPrefixes]

theorem mem_allPrefixes {ks : List Key} {p : Key} (h : p ∈ allPrefixes ks) :
    ∃ k ∈ ks, p <+: k ∧ 0 < p.length := by
  simp only [allPrefixes, List.mem_flatMap] at h
  obtain ⟨k, hk, hp⟩ := h
  exact ⟨k, hk, prefix_of_mem_prefixesFrom hp⟩

theorem prefixesFrom_subset (k : Key) (i : Nat) : ∀ p ∈ prefixesFrom k i, p ∈ prefixesOf k := by
  intro p hp
  obtain ⟨j, hj, rfl⟩ := mem_prefixesFrom.mp hp
  exact mem_prefixesFrom.mpr ⟨i + j, by omega, by simp⟩

/-- common prefixes are no longer than `lcp` -/
theorem prefix_le_lcp : ∀ (p a b : Key), p <+: a → p <+: b → p.length ≤ lcp a b
  | [], _, _, _, _ => Nat.zero_le _
  | x :: p, a, b, ha, hb => by
    obtain ⟨ta, rfl⟩ := ha
    obtain ⟨tb, rfl⟩ := hb
    simp only [List.cons_append, lcp, if_true, List.length_cons]
    have := prefix_le_lcp p (p ++ ta) (p ++ tb) (List.prefix_append _ _) (List.prefix_append _ _)
    omega

theorem lexLe_cons {x y : UInt8} {a b : Key} (h : lexLe (x :: a) (y :: b) = true) :
    x < y ∨ (x = y ∧ lexLe a b = true) := by
  simp only [lexLe, lexLt, Bool.not_eq_true', Bool.or_eq_false_iff, decide_eq_false_iff_not,
    Bool.and_eq_false_iff, beq_eq_false_iff_ne, ne_eq] at h
  obtain ⟨h1, h2⟩ := h
  by_cases e : x = y
  · right
    refine ⟨e, ?_⟩
    rcases h2 with h2 | h2
    · exact absurd e.symm h2
    · simp [lexLe, h2]
  · left
    rw [UInt8.lt_iff_toNat_lt] at *
    have : x.toNat ≠ y.toNat := fun h => e (UInt8.toNat_inj.mp h)
    omega

/-- keys with a common prefix form an interval of the key order -/
theorem prefix_convex : ∀ (p a b c : Key), lexLe a b = true → lexLe b c = true → p <+: a → p <+: c →
    p <+: b
  | [], _, _, _, _, _, _, _ => List.nil_prefix
  | x :: p, a, b, c, hab, hbc, ha, hc => by
    obtain ⟨ta, rfl⟩ := ha
    obtain ⟨tc, rfl⟩ := hc
    cases b with
    | nil => simp [lexLe, lexLt] at hab
    | cons y b =>
      simp only [List.cons_append] at hab hbc
      have h1 := lexLe_cons hab
      have h2 := lexLe_cons hbc
      have hxy : x = y := by
        rcases h1 with h1 | ⟨h1, _⟩
        · rcases h2 with h2 | ⟨h2, _⟩
          · exact absurd h2 (BuildP.u8_lt_asymm h1)
          · subst h2; exact absurd h1 (BuildP.u8_lt_irrefl _)
        · exact h1
      subst hxy
      have h1' : lexLe (p ++ ta) b = true := by
        rcases h1 with h1 | ⟨_, h1⟩
        · exact absurd h1 (BuildP.u8_lt_irrefl _)
        · exact h1
      have h2' : lexLe b (p ++ tc) = true := by
        rcases h2 with h2 | ⟨_, h2⟩
        · exact absurd h2 (BuildP.u8_lt_irrefl _)
        · exact h2
      have := prefix_convex p _ b _ h1' h2' (List.prefix_append _ _) (List.prefix_append _ _)
      exact (List.cons_prefix_cons).mpr ⟨rfl, this⟩

end MinP

/-! ### C12, trie bound: at most one emitted node per popped stack entry -/

namespace MinP

theorem compile_out_length {s s' : BState} {n : BNode} {a : Nat} (h : s.compile n = .ok (s', a)) :
    s'.out.length ≤ s.out.length + 1 := by
  rcases compile_out h with ho | ⟨e, ho, _⟩
  · rw [ho]; omega
  · rw [ho]; simp

theorem compileTail_out_length : ∀ (popped : List UNode) {s s' : BState} {a : Nat},
    s.compileTail popped = .ok (s', a) → s'.out.length ≤ s.out.length + popped.length
  | [], s, s', a, h => by simp only [BState.compileTail] at h; cases h; simp
  | u :: rest, s, s', a, h => by
    rw [BState.compileTail] at h
    cases hr : s.compileTail rest with
    | error e => rw [hr] at h; cases h
    | ok r =>
      obtain ⟨s1, a1⟩ := r
      rw [hr] at h
      simp only at h
      split at h
      · cases h
      · have h1 := compileTail_out_length rest hr
        have h2 := compile_out_length h
        simp only [List.length_cons]; omega

theorem compileFrom_out_length {s s' : BState} {i : Nat} (h : s.compileFrom i = .ok s') :
    s'.out.length ≤ s.out.length + (s.stack.length - (i + 1)) := by
  unfold BState.compileFrom at h
  simp only at h
  cases hr : s.compileTail (s.stack.drop (i + 1)) with
  | error e => rw [hr] at h; cases h
  | ok r =>
    obtain ⟨s1, a1⟩ := r
    rw [hr] at h
    simp only at h
    split at h
    · cases h
    · cases h
      have := compileTail_out_length _ hr
      simpa using this

theorem chain_length : ∀ bs : Key, (chain bs).length = bs.length + 1
  | [] => rfl
  | b :: bs => by simp [chain, chain_length bs]

/-- emitted nodes plus unfinished nodes above the root -/
def measure (s : BState) : Nat := s.out.length + (s.stack.length - 1)

theorem insertOutput_new_measure {s : BState} {acc : KV} (hc : Core s acc) (b : UInt8) (bt : Key)
    (out : Option Nat) (hlt : lexLt (pathKey s.stack) (b :: bt) = true)
    {s' : BState} (h : s.insertOutput (b :: bt) out = .ok s') :
    measure s' ≤ measure s + ((b :: bt).length - lcp (b :: bt) (pathKey s.stack)) := by
  obtain ⟨i, rem, front, top, popped, s2, a, b2, bs', hcps, hflen, hcf, hs2, hdrop, hins⟩ :=
    insertOutput_new_steps hc b bt out hlt
  rw [hins] at h; cases h
  have hidx := cps_index (b :: bt) s.stack (out.getD 0) hc.wf
  have hlen := cps_length (b :: bt) s.stack (out.getD 0) hc.wf
  rw [hcps] at hidx hlen
  simp only at hidx hlen
  have hol := compileFrom_out_length hcf
  have hd := congrArg List.length hdrop
  simp only [List.length_drop, List.length_cons, List.length_append] at hd hol hlen
  simp only [measure, List.length_append, List.length_cons, chain_length, ← hidx]
  omega

theorem insertOutput_empty_measure {s : BState} (out : Option Nat) {s' : BState}
    (h : s.insertOutput [] out = .ok s') : measure s' = measure s := by
  have : s' = { s with len := 1, stack := setRootOutput s.stack (out.getD 0) } := by
    have : s.insertOutput [] out = .ok { s with len := 1, stack := setRootOutput s.stack (out.getD 0) } := rfl
    rw [this] at h; cases h; rfl
  subst this
  simp only [measure]
  cases s.stack <;> simp [setRootOutput]

theorem insertOutput_dup_measure {s : BState} {acc : KV} (hc : Core s acc) (b : UInt8)
    (bt : Key) (out : Option Nat) (hv : out.getD 0 = 0) (hp : pathKey s.stack = b :: bt)
    {s' : BState} (h : s.insertOutput (b :: bt) out = .ok s') : measure s' = measure s := by
  rw [insertOutput_cons] at h
  have hidx := cps_index (b :: bt) s.stack (out.getD 0) hc.wf
  rw [hp, lcp_self] at hidx
  obtain ⟨_, p2, _⟩ := cps_path (b :: bt) s.stack (out.getD 0) hc.wf
  have hrem : (cps s.stack (b :: bt) (out.getD 0)).2.1 = 0 := by omega
  rw [if_pos hidx, hrem] at h
  simp only [ne_eq, not_true_eq_false, if_false] at h
  cases h
  simp only [measure, cps_length _ _ _ hc.wf]

end MinP

/-- `Built s ks`: `s` is a new builder after the accepted calls `insert`/`add` with keys `ks` -/
inductive Built : BState → List Key → Prop
  | new (rows cols : Nat) : Built (BState.new rows cols) []
  | insert {s s' : BState} {ks : List Key} (k : Key) (v : Nat) :
      Built s ks → s.insert k v = .ok s' → Built s' (ks ++ [k])
  | add {s s' : BState} {ks : List Key} (k : Key) :
      Built s ks → s.add k = .ok s' → Built s' (ks ++ [k])

theorem Built.reachable {s : BState} {ks : List Key} (h : Built s ks) : Reachable s := by
  induction h with
  | new rows cols => exact Reachable.new rows cols
  | insert k v _ hi ih => exact Reachable.insert k v ih hi
  | add k _ ha ih => exact Reachable.add k ih ha

theorem built_insertAll : ∀ (kvs : KV) {s s' : BState} {ks : List Key}, Built s ks →
    insertAll s kvs = .ok s' → Built s' (ks ++ kvs.map (·.1))
  | [], s, s', ks, h, e => by cases e; simpa using h
  | kv :: rest, s, s', ks, h, e => by
    simp only [insertAll] at e
    cases hi : s.insert kv.1 kv.2 with
    | error err => rw [hi] at e; cases e
    | ok s1 =>
      rw [hi] at e
      have := built_insertAll rest (Built.insert kv.1 kv.2 h hi) e
      simpa using this

theorem built_addAll : ∀ (ks' : List Key) {s s' : BState} {ks : List Key}, Built s ks →
    addAll s ks' = .ok s' → Built s' (ks ++ ks')
  | [], s, s', ks, h, e => by cases e; simpa using h
  | k :: rest, s, s', ks, h, e => by
    simp only [addAll] at e
    cases hi : s.add k with
    | error err => rw [hi] at e; cases e
    | ok s1 =>
      rw [hi] at e
      have := built_addAll rest (Built.add k h hi) e
      simpa using this

namespace MinP

theorem lexLe_cons_iff {x y : UInt8} {a b : Key} :
    lexLe (x :: a) (y :: b) = true ↔ x < y ∨ (x = y ∧ lexLe a b = true) := by
  constructor
  · exact lexLe_cons
  · rintro (h | ⟨rfl, h⟩)
    · simp only [lexLe, lexLt, Bool.not_eq_true', Bool.or_eq_false_iff, decide_eq_false_iff_not,
        Bool.and_eq_false_iff, beq_eq_false_iff_ne, ne_eq]
      refine ⟨BuildP.u8_lt_asymm h, Or.inl ?_⟩
      intro e; subst e; exact BuildP.u8_lt_irrefl _ h
    · simp only [lexLe, lexLt, Bool.not_eq_true', Bool.or_eq_false_iff, decide_eq_false_iff_not,
        Bool.and_eq_false_iff, beq_eq_false_iff_ne, ne_eq]
      refine ⟨BuildP.u8_lt_irrefl _, Or.inr ?_⟩
      simpa [lexLe] using h

theorem lexLe_trans : ∀ (a b c : Key), lexLe a b = true → lexLe b c = true → lexLe a c = true
  | [], _, c, _, _ => by cases c <;> simp [lexLe, lexLt]
  | x :: a, [], _, h, _ => by simp [lexLe, lexLt] at h
  | x :: a, y :: b, [], _, h => by simp [lexLe, lexLt] at h
  | x :: a, y :: b, z :: c, h1, h2 => by
    rw [lexLe_cons_iff] at h1 h2 ⊢
    rcases h1 with h1 | ⟨rfl, h1⟩
    · rcases h2 with h2 | ⟨rfl, h2⟩
      · exact Or.inl (UInt8.lt_trans h1 h2)
      · exact Or.inl h1
    · rcases h2 with h2 | ⟨rfl, h2⟩
      · exact Or.inl h2
      · exact Or.inr ⟨rfl, lexLe_trans a b c h1 h2⟩

/-- the counting invariant: a duplicate-free list of prefixes of the accepted keys, one for
every emitted node and every unfinished node above the root -/
structure TB (s : BState) (ks : List Key) : Prop where
  last : s.last = ks.getLast?
  sorted : ∀ k' ∈ ks, ∀ l, s.last = some l → lexLe k' l = true
  wit : ∃ W : List Key, W.Nodup ∧ (∀ p ∈ W, p ∈ allPrefixes ks) ∧ measure s ≤ W.length

theorem TB_new (rows cols : Nat) : TB (BState.new rows cols) [] :=
  ⟨rfl, fun k' hk' => by simp at hk', ⟨[], List.nodup_nil, fun p hp => by simp at hp,
    by simp [measure, BState.new]⟩⟩

theorem step_tb {s s' : BState} {acc : KV} {ks : List Key} (hinv : Inv s acc) (htb : TB s ks)
    (k : Key) (out : Option Nat) (hle : ∀ l, s.last = some l → lexLe l k = true)
    (hdup : s.last = some k → out.getD 0 = 0)
    (h : ({ s with last := some k } : BState).insertOutput k out = .ok s') : TB s' (ks ++ [k]) := by
  have hcore := Core_setLast hinv.core (some k)
  obtain ⟨W, hW1, hW2, hW3⟩ := htb.wit
  have hsub : ∀ p ∈ W, p ∈ allPrefixes (ks ++ [k]) := by
    intro p hp; rw [allPrefixes_append]; exact List.mem_append_left _ (hW2 p hp)
  -- the key order
  have hsorted : ∀ k' ∈ ks ++ [k], lexLe k' k = true := by
    intro k' hk'
    simp only [List.mem_append, List.mem_singleton] at hk'
    rcases hk' with hk' | rfl
    · cases hl : s.last with
      | none =>
        have := htb.last
        rw [hl] at this
        have : ks = [] := List.getLast?_eq_none_iff.mp this.symm
        subst this; simp at hk'
      | some l => exact lexLe_trans _ _ _ (htb.sorted k' hk' l hl) (hle l hl)
    · exact BuildP.lexLe_refl _
  -- `last` and the measure
  have hmain : s'.last = some k ∧ ∃ W' : List Key, W'.Nodup ∧ (∀ p ∈ W', p ∈ allPrefixes (ks ++ [k])) ∧
      measure s' ≤ W'.length := by
    cases k with
    | nil =>
      have hm := insertOutput_empty_measure (s := { s with last := some [] }) out h
      have : s'.last = some [] := by
        have : ({ s with last := some [] } : BState).insertOutput [] out =
          .ok { s with last := some [], len := 1, stack := setRootOutput s.stack (out.getD 0) } := rfl
        rw [this] at h; cases h; rfl
      exact ⟨this, W, hW1, hsub, by rw [hm]; exact hW3⟩
    | cons b bt =>
      by_cases hd : s.last = some (b :: bt)
      · have hp : pathKey s.stack = b :: bt := by rw [hinv.path, hd]; rfl
        obtain ⟨s'', e1, _, _, e4⟩ := insertOutput_dup hcore b bt out (hdup hd) hp
        rw [h] at e1; cases e1
        have hm := insertOutput_dup_measure hcore b bt out (hdup hd) hp h
        exact ⟨e4, W, hW1, hsub, by rw [hm]; exact hW3⟩
      · have hp : lexLt (pathKey s.stack) (b :: bt) = true := by
          rw [hinv.path]
          cases hl : s.last with
          | none => rfl
          | some last =>
            rcases BuildP.lexLe_iff.mp (hle last hl) with h1 | h1
            · exact h1
            · subst h1; exact absurd hl hd
        obtain ⟨s'', e1, _, _, e4⟩ := insertOutput_new hcore b bt out hp
        rw [h] at e1; cases e1
        have hm : measure s' ≤ measure s + ((b :: bt).length - lcp (b :: bt) (pathKey s.stack)) :=
          insertOutput_new_measure hcore b bt out hp h
        refine ⟨e4, W ++ prefixesFrom (b :: bt) (lcp (b :: bt) (pathKey s.stack)), ?_, ?_, ?_⟩
        · rw [List.nodup_append]
          refine ⟨hW1, nodup_prefixesFrom _ _, ?_⟩
          intro p hp1 q hp2 hpq
          subst hpq
          obtain ⟨k', hk', hpk', _⟩ := mem_allPrefixes (hW2 p hp1)
          obtain ⟨hpk, hlen⟩ := prefix_of_mem_prefixesFrom hp2
          cases hl : s.last with
          | none =>
            have := htb.last
            rw [hl] at this
            have : ks = [] := List.getLast?_eq_none_iff.mp this.symm
            subst this; simp at hk'
          | some l =>
            have hpl : pathKey s.stack = l := by rw [hinv.path, hl]; rfl
            have hconv := prefix_convex p k' l (b :: bt) (htb.sorted k' hk' l hl) (hle l hl) hpk' hpk
            have := prefix_le_lcp p (b :: bt) l hpk hconv
            rw [hpl] at hlen
            omega
        · intro p hp
          rw [List.mem_append] at hp
          rcases hp with hp | hp
          · exact hsub p hp
          · rw [allPrefixes_append]
            exact List.mem_append_right _ (prefixesFrom_subset _ _ p hp)
        · rw [List.length_append, length_prefixesFrom]
          show measure s' ≤ _
          omega
  obtain ⟨hlast, hwit⟩ := hmain
  refine ⟨by rw [hlast]; simp, ?_, hwit⟩
  intro k' hk' l hl
  rw [hlast] at hl; cases hl
  exact hsorted k' hk'

theorem built_tb {s : BState} {ks : List Key} (h : Built s ks) : TB s ks := by
  induction h with
  | new rows cols => exact TB_new rows cols
  | @insert s s' ks k v hb hi ih =>
    obtain ⟨acc, hinv⟩ := reachable_inv hb.reachable
    have hlt := insert_ok_lt hi
    have hck : s.checkLastKey k true = .ok { s with last := some k } := by
      cases hl : s.last with
      | none => exact checkLastKey_none k true hl
      | some last => rw [checkLastKey_map k hl, if_pos (hlt last hl)]
    unfold BState.insert at hi
    rw [hck] at hi
    refine step_tb hinv ih k (some v) (fun l hl => BuildP.lexLe_iff.mpr (Or.inl (hlt l hl))) ?_ hi
    intro hl
    have := hlt k hl
    rw [BuildP.lexLt_irrefl] at this; cases this
  | @add s s' ks k hb ha ih =>
    obtain ⟨acc, hinv⟩ := reachable_inv hb.reachable
    have hle := add_ok_le ha
    have hck : s.checkLastKey k false = .ok { s with last := some k } := by
      cases hl : s.last with
      | none => exact checkLastKey_none k false hl
      | some last => rw [checkLastKey_set k hl, if_pos (hle last hl)]
    unfold BState.add at ha
    rw [hck] at ha
    exact step_tb hinv ih k none hle (fun _ => rfl) ha

theorem finish_out_length {s s' : BState} {root : Nat} (h : s.finish = .ok (s', root)) :
    s'.out.length ≤ measure s + 1 := by
  unfold BState.finish at h
  cases hcf : s.compileFrom 0 with
  | error e => rw [hcf] at h; cases h
  | ok s1 =>
    rw [hcf] at h
    simp only at h
    have h1 := compileFrom_out_length hcf
    split at h
    · split at h
      · cases h
      · have h2 := compile_out_length h
        simp only [measure]; omega
    · cases h

end MinP

/-- C12, trie bound, in every state between calls: the emitted nodes and the unfinished nodes
above the root together are at most the distinct non-empty prefixes of the accepted keys -/
theorem C12_trie_bound_built {s : BState} {ks : List Key} (h : Built s ks) :
    s.out.length + (s.stack.length - 1) ≤ prefixCount ks := by
  obtain ⟨W, h1, h2, h3⟩ := (built_tb h).wit
  exact Nat.le_trans h3 (witness_le_prefixCount h1 h2)

/-- C12, trie bound after `finish`: at most one node per trie node (the `+ 1` is the root) -/
theorem C12_trie_bound_finish {s s' : BState} {ks : List Key} {root : Nat} (h : Built s ks)
    (hf : s.finish = .ok (s', root)) : s'.out.length ≤ prefixCount ks + 1 := by
  have h1 := finish_out_length hf
  have h2 := C12_trie_bound_built h
  simp only [MinP.measure] at h1
  omega

/-- C12, trie bound (map mode), for every cache geometry and every accepted input -/
theorem C12_trie_bound (rows cols : Nat) (kvs : KV) {s s' : BState} {root : Nat}
    (hb : insertAll (BState.new rows cols) kvs = .ok s) (hf : s.finish = .ok (s', root)) :
    s.out.length ≤ prefixCount (kvs.map (·.1)) ∧ s'.out.length ≤ prefixCount (kvs.map (·.1)) + 1 := by
  have hB := built_insertAll kvs (Built.new rows cols) hb
  simp only [List.nil_append] at hB
  have := C12_trie_bound_built hB
  exact ⟨by omega, C12_trie_bound_finish hB hf⟩

/-- C12, trie bound (set mode), for every cache geometry and every accepted input -/
theorem C12_trie_bound_set (rows cols : Nat) (ks : List Key) {s s' : BState} {root : Nat}
    (hb : addAll (BState.new rows cols) ks = .ok s) (hf : s.finish = .ok (s', root)) :
    s.out.length ≤ prefixCount ks ∧ s'.out.length ≤ prefixCount ks + 1 := by
  have hB := built_addAll ks (Built.new rows cols) hb
  simp only [List.nil_append] at hB
  have := C12_trie_bound_built hB
  exact ⟨by omega, C12_trie_bound_finish hB hf⟩

/-! ### evictions are counted, never forgotten -/

namespace MinP

theorem entry_evictions (r : Registry) (n : BNode) : r.evictions ≤ (r.entry n).1.evictions := by
  rw [entry_eq]
  split
  · exact Nat.le_refl _
  · generalize bucketEntry (r.table.getD ((fnvNode n).toNat % r.rows) []) n = be
    obtain ⟨cells', found, ev⟩ := be
    cases found <;> exact Nat.le_add_right _ _

theorem insert_evictions (r : Registry) (b addr : Nat) : (r.insert b addr).evictions = r.evictions := by
  unfold Registry.insert
  split <;> rfl

theorem compile_evictions {s s' : BState} {n : BNode} {a : Nat} (h : s.compile n = .ok (s', a)) :
    s.reg.evictions ≤ s'.reg.evictions := by
  unfold BState.compile at h
  split at h
  · cases h; exact Nat.le_refl _
  · have hg := entry_evictions s.reg n
    generalize s.reg.entry n = re at h hg
    obtain ⟨reg', en⟩ := re
    simp only at hg
    cases en with
    | found a' => cases h; exact hg
    | notFound b =>
      simp only at h
      split at h
      · cases h
      · cases h
        simp only [insert_evictions]; exact hg
    | rejected =>
      simp only at h
      split at h
      · cases h
      · cases h; exact hg

theorem evictions_einv (E : Nat) : EInv fun s => E ≤ s.reg.evictions where
  frame := by intro s h s' _ h2 _ _; rw [h2]; exact h
  compile := by intro s s' n a h hs; exact Nat.le_trans hs (compile_evictions h)

end MinP

/-- the eviction counter never decreases: a finished build without evictions had none before -/
theorem evictions_mono_finish {s s' : BState} {root : Nat} (h : s.finish = .ok (s', root)) :
    s.reg.evictions ≤ s'.reg.evictions :=
  (evictions_einv s.reg.evictions).finish h (Nat.le_refl _)

namespace MinP

/-! ### the right language of a node determines the node (all outputs 0) -/

def blocks (d : Nat → KV) (ts : List Tr) : KV := ts.flatMap fun t => lift t.inp t.out (d t.addr)

theorem denNodeWith_eq (d : Nat → KV) (n : BNode) : denNodeWith d n = own n ++ blocks d n.trans := rfl

theorem blocks_cons (d : Nat → KV) (t : Tr) (ts : List Tr) :
    blocks d (t :: ts) = lift t.inp t.out (d t.addr) ++ blocks d ts := rfl

/-- first byte of a key is `b` -/
def startsWith (b : UInt8) (kv : Key × Nat) : Bool := kv.1.head? == some b

theorem lift_startsWith (b : UInt8) (o : Nat) (l : KV) : ∀ kv ∈ lift b o l, startsWith b kv = true := by
  intro kv hkv
  simp only [lift, List.mem_map] at hkv
  obtain ⟨x, _, rfl⟩ := hkv
  simp [startsWith]

theorem blocks_startsWith (d : Nat → KV) (b : UInt8) : ∀ (ts : List Tr), (∀ t ∈ ts, b < t.inp) →
    ∀ kv ∈ blocks d ts, startsWith b kv = false
  | [], _, kv, h => by simp [blocks] at h
  | t :: ts, hlt, kv, h => by
    rw [blocks_cons, List.mem_append] at h
    rcases h with h | h
    · simp only [lift, List.mem_map] at h
      obtain ⟨x, _, rfl⟩ := h
      have := hlt t (by simp)
      simp only [startsWith, List.head?_cons, beq_eq_false_iff_ne, ne_eq, Option.some.injEq]
      intro e; subst e; exact BuildP.u8_lt_irrefl _ this
    · exact blocks_startsWith d b ts (fun t' ht' => hlt t' (by simp [ht'])) kv h

theorem blocks_no_empty_key (d : Nat → KV) (ts : List Tr) (v : Nat) : ([], v) ∉ blocks d ts := by
  intro h
  simp only [blocks, List.mem_flatMap, lift, List.mem_map] at h
  obtain ⟨t, _, x, _, hx⟩ := h
  simp at hx

theorem split_by_pred {α : Type} (P : α → Bool) {A B A' B' : List α} (hA : ∀ x ∈ A, P x = true)
    (hB : ∀ x ∈ B, P x = false) (hA' : ∀ x ∈ A', P x = true) (hB' : ∀ x ∈ B', P x = false)
    (h : A ++ B = A' ++ B') : A = A' ∧ B = B' := by
  have h1 := congrArg (List.filter P) h
  rw [List.filter_append, List.filter_append, List.filter_eq_self.mpr hA, List.filter_eq_self.mpr hA',
    List.filter_eq_nil_iff.mpr (by simpa using hB), List.filter_eq_nil_iff.mpr (by simpa using hB')] at h1
  simp only [List.append_nil] at h1
  subst h1
  exact ⟨rfl, List.append_cancel_left h⟩

theorem lift_injective (b : UInt8) (o : Nat) : ∀ (l l' : KV), lift b o l = lift b o l' → l = l'
  | [], [], _ => rfl
  | [], _ :: _, h => by simp [lift] at h
  | _ :: _, [], h => by simp [lift] at h
  | x :: l, y :: l', h => by
    simp only [lift, List.map_cons, List.cons.injEq, Prod.mk.injEq] at h
    obtain ⟨⟨h1, h2⟩, h3⟩ := h
    have := lift_injective b o l l' h3
    subst this
    have : x = y := Prod.ext h1.2 (by omega)
    rw [this]

theorem lift_ne_nil (b : UInt8) (o : Nat) {l : KV} (h : l ≠ []) : lift b o l ≠ [] := by
  cases l with
  | nil => exact absurd rfl h
  | cons x l => simp [lift]

/-- sorted transition lists with outputs 0 and non-empty targets spelling the same entries
are equal, if equal target languages mean equal target addresses -/
theorem trans_eq_of_blocks (d : Nat → KV) : ∀ (ts ts' : List Tr),
    ts.Pairwise (fun a b => a.inp < b.inp) → ts'.Pairwise (fun a b => a.inp < b.inp) →
    (∀ t ∈ ts, t.out = 0) → (∀ t ∈ ts', t.out = 0) →
    (∀ t ∈ ts, d t.addr ≠ []) → (∀ t ∈ ts', d t.addr ≠ []) →
    (∀ t ∈ ts, ∀ t' ∈ ts', d t.addr = d t'.addr → t.addr = t'.addr) →
    blocks d ts = blocks d ts' → ts = ts'
  | [], [], _, _, _, _, _, _, _, _ => rfl
  | [], t' :: ts', _, _, _, _, _, hne', _, h => by
    have := lift_ne_nil t'.inp t'.out (hne' t' (by simp))
    rw [blocks_cons] at h
    simp only [blocks, List.flatMap_nil] at h
    have h2 := congrArg List.length h
    simp only [List.length_nil, List.length_append] at h2
    have := List.length_pos_iff.mpr this
    omega
  | t :: ts, [], _, _, _, _, hne, _, _, h => by
    have := lift_ne_nil t.inp t.out (hne t (by simp))
    rw [blocks_cons] at h
    simp only [blocks, List.flatMap_nil] at h
    have h2 := congrArg List.length h
    simp only [List.length_nil, List.length_append] at h2
    have := List.length_pos_iff.mpr this
    omega
  | t :: ts, t' :: ts', hs, hs', hz, hz', hne, hne', hinj, h => by
    rw [List.pairwise_cons] at hs hs'
    rw [blocks_cons, blocks_cons] at h
    -- the first bytes agree
    have hinp : t.inp = t'.inp := by
      obtain ⟨x, l, hx⟩ := List.exists_cons_of_ne_nil (hne t (by simp))
      obtain ⟨x', l', hx'⟩ := List.exists_cons_of_ne_nil (hne' t' (by simp))
      rw [hx, hx'] at h
      simp only [lift, List.map_cons, List.cons_append, List.cons.injEq, Prod.mk.injEq] at h
      exact h.1.1.1
    have hout : t.out = t'.out := by rw [hz t (by simp), hz' t' (by simp)]
    obtain ⟨h1, h2⟩ := split_by_pred (startsWith t.inp) (lift_startsWith _ _ _)
      (blocks_startsWith d t.inp ts hs.1) (by rw [hinp]; exact lift_startsWith _ _ _)
      (by rw [hinp]; exact blocks_startsWith d t'.inp ts' hs'.1) h
    rw [← hinp, ← hout] at h1
    have hd := lift_injective _ _ _ _ h1
    have haddr := hinj t (by simp) t' (by simp) hd
    have ih := trans_eq_of_blocks d ts ts' hs.2 hs'.2 (fun x hx => hz x (by simp [hx]))
      (fun x hx => hz' x (by simp [hx])) (fun x hx => hne x (by simp [hx]))
      (fun x hx => hne' x (by simp [hx]))
      (fun x hx y hy => hinj x (by simp [hx]) y (by simp [hy])) h2
    rw [ih]
    congr 1
    cases t; cases t'; simp_all

/-- what a node needs for its right language to determine it -/
structure ZNode (d : Nat → KV) (n : BNode) : Prop where
  sorted : SortedInputs n
  fout : n.fout = 0
  outs : ∀ t ∈ n.trans, t.out = 0
  ne : ∀ t ∈ n.trans, d t.addr ≠ []

theorem fin_of_den (d : Nat → KV) (n : BNode) : (∃ v, ([], v) ∈ denNodeWith d n) ↔ n.fin = true := by
  rw [denNodeWith_eq]
  constructor
  · rintro ⟨v, hv⟩
    rw [List.mem_append] at hv
    rcases hv with hv | hv
    · unfold own at hv
      split at hv
      · assumption
      · simp at hv
    · exact absurd hv (blocks_no_empty_key d _ v)
  · intro hf
    exact ⟨n.fout, List.mem_append_left _ (by simp [own, hf])⟩

theorem node_eq_of_den (d : Nat → KV) {n m : BNode} (hn : ZNode d n) (hm : ZNode d m)
    (hinj : ∀ t ∈ n.trans, ∀ t' ∈ m.trans, d t.addr = d t'.addr → t.addr = t'.addr)
    (h : denNodeWith d n = denNodeWith d m) : n = m := by
  have hfin : n.fin = m.fin := by
    have h1 := fin_of_den d n
    have h2 := fin_of_den d m
    rw [h] at h1
    cases hf : n.fin <;> cases hg : m.fin <;> simp_all
  have hown : own n = own m := by simp [own, hfin, hn.fout, hm.fout]
  rw [denNodeWith_eq, denNodeWith_eq, hown] at h
  have hb := List.append_cancel_left h
  have ht := trans_eq_of_blocks d n.trans m.trans hn.sorted hm.sorted hn.outs hm.outs hn.ne hm.ne hinj hb
  have hfo : n.fout = m.fout := by rw [hn.fout, hm.fout]
  cases n; cases m
  simp only [BNode.mk.injEq]
  exact ⟨hfin, hfo, ht⟩


/-! ### every node compiled before the root is final or has a transition -/

def QUne (u : UNode) : Prop := u.node.fin = true ∨ u.node.trans ≠ [] ∨ u.last.isSome

def nePass : Pass where
  Q _ n := n.fin = true ∨ n.trans ≠ []
  QU _ u _ := QUne u
  Q_mono := fun _ _ h => h
  QU_mono := fun _ _ h => h
  freeze := by
    intro out u a hq
    unfold UNode.freeze
    cases hl : u.last with
    | none =>
      rcases hq with h | h | h
      · exact Or.inl h
      · exact Or.inr h
      · rw [hl] at h; cases h
    | some bo => exact Or.inr (by simp)
  freeze_none := by
    intro out u k hl hq
    rcases hq with h | h | h
    · exact Or.inl h
    · exact Or.inr h
    · rw [hl] at h; cases h

theorem nePass_stackQ (out : List Emit) : ∀ (st : List UNode), (∀ u ∈ st, QUne u) → nePass.StackQ out st
  | [], _ => trivial
  | u :: st, h => ⟨h u (by simp), nePass_stackQ out st fun w hw => h w (by simp [hw])⟩

/-- `compile_from` keeps the emitted nodes non-empty; nothing is asked of the node that stays -/
theorem compileFrom_ne {s s' : BState} {front popped : List UNode} {top : UNode}
    (h : s.compileFrom front.length = .ok s') (hinv : SInv s)
    (hst : s.stack = front ++ top :: popped) (hwf : WFStack (top :: popped))
    (hshape : ∀ u ∈ top :: popped, UShape u) (haddr : ∀ u ∈ top :: popped, UAddr s u)
    (hall : nePass.OutQ s) (hq : ∀ u ∈ popped, QUne u) : nePass.OutQ s' := by
  unfold BState.compileFrom at h
  simp only [hst, take_split, drop_split, List.getLast?_concat, List.dropLast_concat] at h
  cases popped with
  | nil =>
    simp only [BState.compileTail] at h
    cases h
    exact hall
  | cons v rest =>
    obtain ⟨hsome, hwf'⟩ := WFStack_cons_cons.mp hwf
    have hshape' : ∀ w ∈ v :: rest, UShape w := fun w hw => hshape w (List.mem_cons_of_mem _ hw)
    have haddr' : ∀ w ∈ v :: rest, UAddr s w := fun w hw => haddr w (List.mem_cons_of_mem _ hw)
    obtain ⟨s1, a1, i1, i2, i3, _, _, _, i7, i8⟩ := compileTail_spec (v :: rest) s hinv hwf' hshape' haddr'
    rw [i1] at h
    cases h
    exact compileTail_pass nePass (v :: rest) s s1 a1 i1 hinv hwf' hshape' haddr' hall
      (nePass_stackQ _ _ hq)

theorem QUne_addPrefix {v : UNode} (p : Nat) (h : QUne v) : QUne (v.addPrefix p) := by
  rcases h with h | h | h
  · exact Or.inl h
  · refine Or.inr (Or.inl ?_)
    simpa [UNode.addPrefix] using h
  · exact Or.inr (Or.inr (by rw [addPrefix_last_isSome]; exact h))

/-- output pushing keeps the unfinished nodes above the root non-empty -/
theorem cps_ne (key : Key) (stack : List UNode) (out : Nat) (hw : WFStack stack)
    (h : ∀ u ∈ stack.drop 1, QUne u) : ∀ u ∈ (cps stack key out).2.2.drop 1, QUne u := by
  match stack, hw with
  | [u], _ => rw [cps_single]; exact h
  | u :: v :: rest, hw =>
    obtain ⟨hsome, _⟩ := WFStack_cons_cons.mp hw
    have hall : ∀ w ∈ u :: v :: rest, QUne w := by
      intro w hw'
      rcases List.mem_cons.mp hw' with rfl | hw'
      · exact Or.inr (Or.inr hsome)
      · exact h w (by simpa using hw')
    intro w hw'
    exact cps_forall QUne (fun u b o c _ _ => Or.inr (Or.inr rfl)) (fun v p h => QUne_addPrefix p h)
      key _ out hw hall w (List.mem_of_mem_drop hw')

/-- non-emptiness of a state: emitted nodes, and the unfinished nodes above the root -/
def InvNE (s : BState) : Prop := nePass.OutQ s ∧ ∀ u ∈ s.stack.drop 1, QUne u

theorem InvNE_new (rows cols : Nat) : InvNE (BState.new rows cols) :=
  ⟨fun e he => by simp [BState.new] at he, fun u hu => by simp [BState.new] at hu⟩

theorem insertOutput_new_ne {s : BState} {acc : KV} (hc : Core s acc) (b : UInt8) (bt : Key)
    (out : Option Nat) (hlt : lexLt (pathKey s.stack) (b :: bt) = true) (hN : InvNE s)
    {s' : BState} (h : s.insertOutput (b :: bt) out = .ok s') : InvNE s' := by
  obtain ⟨i, rem, front, top, popped, s2, a, b2, bs', hcps, hflen, hcf, hs2, hdrop, hins⟩ :=
    insertOutput_new_steps hc b bt out hlt
  rw [hins] at h; cases h
  have hw1 := cps_wf (b :: bt) s.stack (out.getD 0) hc.wf
  have hshape1 := cps_forall UShape (fun u b o c hl h => UShape_setLast hl h)
    (fun v p h => UShape_addPrefix p h) (b :: bt) s.stack (out.getD 0) hc.wf hc.shape
  have haddr1 := cps_forall (UAddr s) (fun u b o c _ h => h)
    (fun v p h => UAddr_addPrefix p h) (b :: bt) s.stack (out.getD 0) hc.wf hc.addr
  have hne1 := cps_ne (b :: bt) s.stack (out.getD 0) hc.wf hN.2
  rw [hcps] at hw1 hshape1 haddr1 hne1
  simp only at hw1 hshape1 haddr1 hne1
  have hmem : ∀ u, u ∈ front ∨ u ∈ top :: popped → u ∈ front ++ top :: popped := by
    intro u hu; simpa using hu
  obtain ⟨hfsome, hwtp⟩ := WFStack_append.mp hw1
  have hshape' : ∀ u ∈ top :: popped, UShape u := fun u hu => hshape1 u (hmem u (Or.inr hu))
  have haddr' : ∀ u ∈ top :: popped, UAddr s u := fun u hu => haddr1 u (hmem u (Or.inr hu))
  have hpop : ∀ u ∈ popped, QUne u := by
    intro u hu
    apply hne1 u
    cases front with
    | nil => simpa using hu
    | cons f front' => simp only [List.cons_append, List.drop_succ_cons, List.drop_zero]; simp [hu]
  have p1 := compileFrom_ne (s := { s with stack := front ++ top :: popped, len := s.len + 1 })
      hcf ⟨hc.sinv.out, hc.sinv.reg⟩ rfl hwtp hshape' haddr' hN.1 hpop
  refine ⟨p1, ?_⟩
  intro u hu
  have hu' := List.mem_of_mem_drop hu
  simp only [List.mem_append, List.mem_cons] at hu'
  rcases hu' with hu' | rfl | hu'
  · exact Or.inr (Or.inr (hfsome u hu'))
  · exact Or.inr (Or.inr rfl)
  · exact chain_forall QUne (fun b => Or.inr (Or.inr rfl)) (Or.inl rfl) bs' u hu'

theorem insertOutput_empty_ne {s : BState} (out : Option Nat) (hN : InvNE s) {s' : BState}
    (h : s.insertOutput [] out = .ok s') : InvNE s' := by
  have : s' = { s with len := 1, stack := setRootOutput s.stack (out.getD 0) } := by
    have : s.insertOutput [] out = .ok { s with len := 1, stack := setRootOutput s.stack (out.getD 0) } := rfl
    rw [this] at h; cases h; rfl
  subst this
  refine ⟨hN.1, ?_⟩
  have h2 := hN.2
  show ∀ u ∈ (setRootOutput s.stack (out.getD 0)).drop 1, QUne u
  cases hs : s.stack with
  | nil => simp [setRootOutput]
  | cons r rest => rw [hs] at h2; simpa [setRootOutput] using h2

theorem insertOutput_dup_ne {s : BState} {acc : KV} (hc : Core s acc) (b : UInt8)
    (bt : Key) (out : Option Nat) (hv : out.getD 0 = 0) (hp : pathKey s.stack = b :: bt)
    (hN : InvNE s) {s' : BState} (h : s.insertOutput (b :: bt) out = .ok s') : InvNE s' := by
  rw [insertOutput_cons] at h
  have hidx := cps_index (b :: bt) s.stack (out.getD 0) hc.wf
  rw [hp, lcp_self] at hidx
  obtain ⟨_, p2, _⟩ := cps_path (b :: bt) s.stack (out.getD 0) hc.wf
  have hrem : (cps s.stack (b :: bt) (out.getD 0)).2.1 = 0 := by omega
  rw [if_pos hidx, hrem] at h
  simp only [ne_eq, not_true_eq_false, if_false] at h
  cases h
  exact ⟨hN.1, cps_ne (b :: bt) s.stack (out.getD 0) hc.wf hN.2⟩

theorem insert_ne {s s' : BState} {acc : KV} (h : Inv s acc) (hN : InvNE s) {k : Key}
    {v : Nat} (hi : s.insert k v = .ok s') : InvNE s' := by
  have hlt := insert_ok_lt hi
  have hck : s.checkLastKey k true = .ok { s with last := some k } := by
    cases hl : s.last with
    | none => exact checkLastKey_none k true hl
    | some last => rw [checkLastKey_map k hl, if_pos (hlt last hl)]
  unfold BState.insert at hi
  rw [hck] at hi
  have hcore := Core_setLast h.core (some k)
  cases k with
  | nil => exact insertOutput_empty_ne (s := { s with last := some [] }) (some v) hN hi
  | cons b bt =>
    have hp : lexLt (pathKey s.stack) (b :: bt) = true := by
      rw [h.path]
      cases hl : s.last with
      | none => rfl
      | some last => exact hlt last hl
    exact insertOutput_new_ne hcore b bt (some v) hp hN hi

theorem add_ne {s s' : BState} {acc : KV} (h : Inv s acc) (hN : InvNE s) {k : Key}
    (ha : s.add k = .ok s') : InvNE s' := by
  have hle := add_ok_le ha
  have hck : s.checkLastKey k false = .ok { s with last := some k } := by
    cases hl : s.last with
    | none => exact checkLastKey_none k false hl
    | some last => rw [checkLastKey_set k hl, if_pos (hle last hl)]
  unfold BState.add at ha
  rw [hck] at ha
  have hcore := Core_setLast h.core (some k)
  cases k with
  | nil => exact insertOutput_empty_ne (s := { s with last := some [] }) none hN ha
  | cons b bt =>
    by_cases hdup : s.last = some (b :: bt)
    · have hp : pathKey s.stack = b :: bt := by rw [h.path, hdup]; rfl
      exact insertOutput_dup_ne hcore b bt none rfl hp hN ha
    · have hp : lexLt (pathKey s.stack) (b :: bt) = true := by
        rw [h.path]
        cases hl : s.last with
        | none => rfl
        | some last =>
          rcases BuildP.lexLe_iff.mp (hle last hl) with h1 | h1
          · exact h1
          · subst h1; exact absurd hl hdup
      exact insertOutput_new_ne hcore b bt none hp hN ha

theorem reachable_ne {s : BState} (h : Reachable s) : InvNE s := by
  induction h with
  | new rows cols => exact InvNE_new rows cols
  | insert k v hr hi ih =>
    obtain ⟨acc, hinv⟩ := reachable_inv hr
    exact insert_ne hinv ih hi
  | add k hr ha ih =>
    obtain ⟨acc, hinv⟩ := reachable_inv hr
    exact add_ne hinv ih ha


/-- non-empty nodes spell non-empty languages -/
theorem ne_den {s : BState} (hinv : SInv s) (hall : nePass.OutQ s) :
    ∀ (N a : Nat), a < N → AddrOK s a → denR s.out a ≠ [] := by
  intro N
  induction N with
  | zero => intro a h; omega
  | succ N ih =>
    intro a ha hok
    rcases hok.2 with h0 | ⟨m, hm⟩
    · subst h0; rw [denR_zero]; simp
    · rw [denR_unfold hinv.out a m hm, denNodeWith_eq]
      have hq : m.fin = true ∨ m.trans ≠ [] := by
        simp only [rstore, List.mem_map, Prod.mk.injEq] at hm
        obtain ⟨e, he, _, hn⟩ := hm
        subst hn; exact hall e he
      rcases hq with hq | hq
      · simp [own, hq]
      · obtain ⟨t, ts, hts⟩ := List.exists_cons_of_ne_nil hq
        have htgt := (OutOK_node hinv.out a m hm).2.2.2 t (by rw [hts]; simp)
        have hlt2 := (OutOK_addr hinv.out _ hm).2
        simp only at hlt2
        have := ih t.addr (by have := htgt.1; omega)
          ⟨by have := htgt.1; omega, htgt.2⟩
        rw [hts, blocks_cons]
        intro e
        have e1 := List.append_eq_nil_iff.mp e
        exact lift_ne_nil _ _ this (List.append_eq_nil_iff.mp e1.2).1

/-- after `finish` every transition target spells a non-empty language -/
theorem finish_targets_ne {s s' : BState} {acc : KV} {root : Nat} (h : Core s acc) (hN : InvNE s)
    (hf : s.finish = .ok (s', root)) :
    ∀ e ∈ s'.out, ∀ t ∈ e.node.trans, denR s'.out t.addr ≠ [] := by
  obtain ⟨top, popped, hst⟩ : ∃ top popped, s.stack = top :: popped := by
    cases hs : s.stack with
    | nil => have := h.wf; rw [hs] at this; exact absurd this id
    | cons t p => exact ⟨t, p, rfl⟩
  have hwf : WFStack (top :: popped) := hst ▸ h.wf
  have hshape : ∀ u ∈ top :: popped, UShape u := fun u hu => h.shape u (hst ▸ hu)
  have haddr : ∀ u ∈ top :: popped, UAddr s u := fun u hu => h.addr u (hst ▸ hu)
  obtain ⟨s1, a, c1, c2, c3, c4, c5, c6, c7, c8⟩ :=
    compileFrom_spec (s := s) (front := []) (popped := popped) (top := top) h.sinv (by simpa using hst)
      hwf hshape haddr
  have p1 := compileFrom_ne (front := []) c1 h.sinv (by simpa using hst) hwf hshape haddr hN.1
    (by have := hN.2; rw [hst] at this; simpa using this)
  unfold BState.finish at hf
  simp only [List.length_nil] at c1
  rw [c1] at hf
  simp only [c4, List.nil_append, Option.isSome_none, Bool.false_eq_true, if_false] at hf
  obtain ⟨s'', root', d1, d2, d3, _⟩ := compile_spec c2 c7
  rw [hf] at d1; cases d1
  have hden : ∀ x, AddrOK s1 x → denR s'.out x ≠ [] := by
    intro x hx
    rw [d3.2.2 x hx.1]
    exact ne_den c2 p1 (x + 1) x (Nat.lt_succ_self _) hx
  intro e he t ht
  rcases compile_out hf with ho | ⟨e0, ho, hnode⟩
  · rw [ho] at he
    exact hden _ (emitted_addrOK c2 he t ht)
  · rw [ho] at he
    rcases List.mem_cons.mp he with rfl | he
    · rw [hnode] at ht
      exact hden _ (c7.2.2 t ht)
    · exact hden _ (emitted_addrOK c2 he t ht)


/-! ### Myhill–Nerode: equal right languages, equal addresses -/

theorem nodup_map_inj {α β : Type} (f : α → β) : ∀ (l : List α), (l.map f).Nodup →
    ∀ a ∈ l, ∀ b ∈ l, f a = f b → a = b
  | [], _, a, ha, _, _, _ => by simp at ha
  | x :: l, hn, a, ha, b, hb, hab => by
    simp only [List.map_cons, List.nodup_cons, List.mem_map, not_exists, not_and] at hn
    rcases List.mem_cons.mp ha with ha1 | ha1
    · rcases List.mem_cons.mp hb with hb1 | hb1
      · rw [ha1, hb1]
      · rw [ha1] at hab; exact absurd hab.symm (hn.1 b hb1)
    · rcases List.mem_cons.mp hb with hb1 | hb1
      · rw [hb1] at hab; exact absurd hab (hn.1 a ha1)
      · exact nodup_map_inj f l hn.2 a ha1 b hb1 hab

/-- address 0 (the shared empty final node) or an emitted address -/
def Valid (out : List Emit) (a : Nat) : Prop := a = 0 ∨ ∃ n, (a, n) ∈ rstore out

def sentinel : BNode := ⟨true, 0, []⟩

/-- the facts about the emitted nodes of a finished set build that make it minimal -/
structure MinHyp (out : List Emit) : Prop where
  ok : ∃ c l, OutOK out c l
  zero : ∀ e ∈ out, e.node.fout = 0 ∧ ∀ t ∈ e.node.trans, t.out = 0
  nodup : (out.map (·.node)).Nodup
  tne : ∀ e ∈ out, ∀ t ∈ e.node.trans, denR out t.addr ≠ []

theorem nodeFacts {out : List Emit} (H : MinHyp out) {a : Nat} (ha : Valid out a) :
    ∃ n, denR out a = denNodeWith (denR out) n ∧ ZNode (denR out) n ∧
      (∀ t ∈ n.trans, t.addr < a ∧ Valid out t.addr) ∧
      ((a = 0 ∧ n = sentinel) ∨ (a, n) ∈ rstore out) := by
  obtain ⟨c, l, hok⟩ := H.ok
  rcases ha with h0 | ⟨n, hn⟩
  · subst h0
    refine ⟨sentinel, by simp [denR_zero, denNodeWith, own, sentinel],
      ⟨by simp [SortedInputs, sentinel], rfl, by simp [sentinel], by simp [sentinel]⟩,
      by simp [sentinel], Or.inl ⟨rfl, rfl⟩⟩
  · obtain ⟨i1, _, _, i4⟩ := OutOK_node hok a n hn
    have hn' := hn
    simp only [rstore, List.mem_map, Prod.mk.injEq] at hn'
    obtain ⟨e, he, hea, hen⟩ := hn'
    subst hen
    refine ⟨e.node, denR_unfold hok a e.node hn, ⟨i1, (H.zero e he).1, (H.zero e he).2, H.tne e he⟩,
      fun t ht => ⟨(i4 t ht).1, (i4 t ht).2⟩, Or.inr hn⟩

theorem minimal_aux {out : List Emit} (H : MinHyp out) : ∀ (N a b : Nat), a < N → b < N →
    Valid out a → Valid out b → denR out a = denR out b → a = b := by
  intro N
  induction N with
  | zero => intro a b h; omega
  | succ N ih =>
    intro a b haN hbN ha hb hden
    obtain ⟨n, hn1, hn2, hn3, hn4⟩ := nodeFacts H ha
    obtain ⟨m, hm1, hm2, hm3, hm4⟩ := nodeFacts H hb
    have hnm : n = m := by
      apply node_eq_of_den (denR out) hn2 hm2
      · intro t ht t' ht' hd
        exact ih t.addr t'.addr (by have := (hn3 t ht).1; omega) (by have := (hm3 t' ht').1; omega)
          (hn3 t ht).2 (hm3 t' ht').2 hd
      · rw [← hn1, ← hm1, hden]
    subst hnm
    obtain ⟨c, l, hok⟩ := H.ok
    have hsent : ∀ x, (x, sentinel) ∈ rstore out → False := by
      intro x hx
      have := (OutOK_node hok x sentinel hx).2.1
      simp [isEmptyFinal, sentinel] at this
    rcases hn4 with ⟨a0, hs⟩ | hn4
    · rcases hm4 with ⟨b0, _⟩ | hm4
      · rw [a0, b0]
      · subst hs; exact absurd hm4 (hsent b)
    · rcases hm4 with ⟨b0, hs⟩ | hm4
      · subst hs; exact absurd hn4 (hsent a)
      · simp only [rstore, List.mem_map, Prod.mk.injEq] at hn4 hm4
        obtain ⟨e1, he1, ha1, hn1'⟩ := hn4
        obtain ⟨e2, he2, ha2, hn2'⟩ := hm4
        have := nodup_map_inj (·.node) out H.nodup e1 he1 e2 he2 (by show e1.node = e2.node; rw [hn1', hn2'])
        rw [← ha1, ← ha2, this]

theorem minimal_of {out : List Emit} (H : MinHyp out) {a b : Nat} (ha : Valid out a) (hb : Valid out b)
    (hden : denR out a = denR out b) : a = b :=
  minimal_aux H (a + b + 1) a b (by omega) (by omega) ha hb hden

end MinP

open MinP

/-- C12, minimality of sets (Myhill–Nerode), for every accepted input: in a finished set build
whose cache never rejects and has not evicted an entry, two states (emitted nodes or the
address-0 empty final node) with the same right language are the same state -/
theorem C12_minimal_set_of {rows cols : Nat} (hr : 1 ≤ rows) (hc : 1 ≤ cols) {ks : List Key}
    {s s' : BState} {root : Nat} (hb : addAll (BState.new rows cols) ks = .ok s)
    (hf : s.finish = .ok (s', root)) (hev : s'.reg.evictions = 0) :
    ∀ a b, (a = 0 ∨ ∃ n, (a, n) ∈ storeOf s') → (b = 0 ∨ ∃ m, (b, m) ∈ storeOf s') →
      denOf (storeOf s') a = denOf (storeOf s') b → a = b := by
  have hreach := reachable_addAll ks (Reachable.new rows cols) hb
  obtain ⟨acc, hinv⟩ := reachable_inv hreach
  obtain ⟨g1, g2⟩ := (geom_einv rows cols).addAll _ hb ⟨rfl, rfl⟩
  obtain ⟨s'', root', f1, f2, _⟩ := finish_spec hinv.core
  rw [hf] at f1; cases f1
  have hB := addAll_bound (M := 0) ks _ s (Reachable.new rows cols) (InvB_new 0 rows cols) hb
  have hz := finish_bound hinv.core hB hf
  have H : MinHyp s'.out := by
    refine ⟨⟨_, _, f2.out⟩, ?_, C12_no_dup_finish hreach (by rw [g1, g2]; exact ⟨hr, hc⟩) hf hev,
      finish_targets_ne hinv.core (reachable_ne hreach) hf⟩
    intro e he
    obtain ⟨z1, z2⟩ := hz e he
    exact ⟨Nat.le_zero.mp z1, fun t ht => Nat.le_zero.mp (z2 t ht)⟩
  intro a b ha hb' hden
  rw [denOf_storeOf] at hden
  refine minimal_of H ?_ ?_ hden
  · rcases ha with h0 | ⟨n, hn⟩
    · exact Or.inl h0
    · exact Or.inr ⟨n, mem_storeOf.mp hn⟩
  · rcases hb' with h0 | ⟨n, hn⟩
    · exact Or.inl h0
    · exact Or.inr ⟨n, mem_storeOf.mp hn⟩

/-! ### concrete runs -/

namespace MinP

def exKeys : List Key := [[1, 2, 3], [1, 2, 4], [1, 5], [1, 5], [2, 2, 3], [2, 2, 4]]

/-- (evictions, emitted nodes, root address, emitted nodes pairwise distinct) of a set build -/
def runSet (rows cols : Nat) (ks : List Key) : Option (Nat × Nat × Nat × Bool) :=
  match addAll (BState.new rows cols) ks with
  | .ok s =>
    match s.finish with
    | .ok (s', r) => some (s'.reg.evictions, s'.out.length, r, decide (s'.out.map (·.node)).Nodup)
    | .error _ => none
  | .error _ => none

-- the default geometry of the crate: `#eval runSet 10000 2 exKeys = some (0, 4, 37, true)`
/-- no evictions: 4 nodes for a trie of 9 + 1 nodes, all distinct -/
example : runSet 8 2 exKeys = some (0, 4, 37, true) := by decide +kernel
example : prefixCount exKeys = 9 := by decide
/-- a 1×1 cache evicts, and the build then contains a duplicate node -/
example : runSet 1 1 exKeys = some (4, 5, 41, false) := by decide +kernel
/-- a cache without cells rejects everything: no evictions, but duplicates -/
example : runSet 0 0 exKeys = some (0, 5, 41, false) := by decide +kernel

end MinP

/-- C12, every transition of a finished build leads to a state with a non-empty right language
(any mode, any geometry) -/
theorem C12_targets_nonempty {s s' : BState} {root : Nat} (hr : Reachable s)
    (hf : s.finish = .ok (s', root)) :
    ∀ e ∈ s'.out, ∀ t ∈ e.node.trans, denOf (storeOf s') t.addr ≠ [] := by
  obtain ⟨acc, hinv⟩ := reachable_inv hr
  rw [denOf_storeOf]
  exact finish_targets_ne hinv.core (reachable_ne hr) hf

/-- C12, minimality of sets: non-decreasing keys always build; the root spells exactly the
distinct keys; and without evictions the states (emitted nodes and the address-0 empty final
node) correspond one to one to their right languages, i.e. the automaton is the minimal
acyclic DFA of the keys. (Every emitted node is reachable from the root: `finish_reach` in
`Proofs/SpecParseBuild.lean`; every transition target has a non-empty right language:
`C12_targets_nonempty`.) -/
theorem C12_minimal_set (rows cols : Nat) (hr : 1 ≤ rows) (hc : 1 ≤ cols) (ks : List Key)
    (h : SortedKeysLe ks) :
    ∃ s s' root, addAll (BState.new rows cols) ks = .ok s ∧ s.finish = .ok (s', root) ∧
      denOf (storeOf s') root = zeroKV (dedupKeys ks) ∧
      (root = 0 ∨ ∃ n, (root, n) ∈ storeOf s') ∧
      (∀ e ∈ s'.out, ∀ t ∈ e.node.trans, denOf (storeOf s') t.addr ≠ []) ∧
      (s'.reg.evictions = 0 →
        ∀ a b, (a = 0 ∨ ∃ n, (a, n) ∈ storeOf s') → (b = 0 ∨ ∃ m, (b, m) ∈ storeOf s') →
          denOf (storeOf s') a = denOf (storeOf s') b → a = b) := by
  obtain ⟨s, s', root, e1, f1, _, f3, _, f5⟩ := build_ok_set rows cols ks h
  exact ⟨s, s', root, e1, f1, f3, f5,
    C12_targets_nonempty (reachable_addAll ks (Reachable.new rows cols) e1) f1,
    fun hev => C12_minimal_set_of hr hc e1 f1 hev⟩

example : SortedKeysLe MinP.exKeys := by simp [MinP.exKeys, SortedKeysLe, lexLe, lexLt]

/-- a concrete finished set build without evictions (8 rows × 2 columns) -/
theorem MinP.ex_run : ∃ s s' root, Reachable s ∧ (1 ≤ s.reg.rows ∧ 1 ≤ s.reg.cols) ∧
    addAll (BState.new 8 2) MinP.exKeys = .ok s ∧ s.finish = .ok (s', root) ∧
    s'.reg.evictions = 0 ∧ s'.out.length = 4 := by
  have h : MinP.runSet 8 2 MinP.exKeys = some (0, 4, 37, true) := by decide +kernel
  unfold MinP.runSet at h
  cases hs : addAll (BState.new 8 2) MinP.exKeys with
  | error e => rw [hs] at h; cases h
  | ok s =>
    rw [hs] at h
    simp only at h
    cases hf : s.finish with
    | error e => rw [hf] at h; cases h
    | ok r =>
      obtain ⟨s', root⟩ := r
      rw [hf] at h
      simp only [Option.some.injEq, Prod.mk.injEq] at h
      have hr := reachable_addAll _ (Reachable.new 8 2) hs
      obtain ⟨g1, g2⟩ := (geom_einv 8 2).addAll _ hs ⟨rfl, rfl⟩
      exact ⟨s, s', root, hr, by rw [g1, g2]; omega, rfl, hf, h.1, h.2.1⟩

/-- the hypotheses of `C12_no_dup_finish`, `C12_trie_bound_set` and `C12_minimal_set_of` are
satisfiable together, by a build of 5 distinct keys into 4 nodes -/
example : ∃ s s' root, addAll (BState.new 8 2) MinP.exKeys = .ok s ∧ s.finish = .ok (s', root) ∧
    (s'.out.map (·.node)).Nodup ∧ s'.out.length ≤ prefixCount MinP.exKeys + 1 ∧
    (∀ a b, (a = 0 ∨ ∃ n, (a, n) ∈ storeOf s') → (b = 0 ∨ ∃ m, (b, m) ∈ storeOf s') →
      denOf (storeOf s') a = denOf (storeOf s') b → a = b) := by
  obtain ⟨s, s', root, hr, hnr, hb, hf, hev, _⟩ := MinP.ex_run
  exact ⟨s, s', root, hb, hf, C12_no_dup_finish hr hnr hf hev,
    (C12_trie_bound_set 8 2 _ hb hf).2, C12_minimal_set_of (by omega) (by omega) hb hf hev⟩

end Fst
