import FstVerif.Proofs.OldVerFile
import FstVerif.Proofs.Seek
/-
C10 (old format versions), part 4 of 4 — main results.

"Any well-formed FST in format version 1, 2 or 3 opens and answers every query exactly
according to its content", for all maps encoded by the reference encoder
`Spec.encodeFst version ty kvs style share` (the Lean twin of `harness/src/refenc.rs`; the driver
diffs the two byte for byte on every run), for every `style` and `share`.

* `C10_read`      `Fst::new` returns the written metadata; the version-`version` node access over
                  the file represents a good store whose root spells exactly `kvs`; `verify`
* `C10_get`, `C10_contains`, `C10_stream`   the query results, by instantiating
                  `fstGet_correct`, `fstContains_correct`, `stream_correct`
* `C10_verify`    `ChecksumMissing` for versions 1, 2; `Ok` for version 3

Pieces: `Proofs/OldVerCodec.lean` (node codec at every version, `codec_roundtrip_v1`,
`Spec.compileNodeV_ge2`), `Proofs/OldVerTrie.lean` (the trie encoder at the store level),
`Proofs/OldVerFile.lean` (the file: `encode_open`, `encode_represents`).
-/
namespace Fst
namespace OldVer
open Spec

/-- the nodes the reference encoder wrote, in emission order -/
def encStore (version : Nat) (kvs : KV) (style : Nat) (share : Bool) : Store :=
  (rst (encodeState version kvs style share).2.emits).reverse

/-- what every address of that store spells -/
def encDen (version : Nat) (kvs : KV) (style : Nat) (share : Bool) : Nat → KV :=
  denE (encodeState version kvs style share).2.emits

/-- the root address the reference encoder wrote into the footer -/
def encRoot (version : Nat) (kvs : KV) (style : Nat) (share : Bool) : Nat :=
  (encodeState version kvs style share).1

/-- the hypotheses on the input of the reference encoder: format version 1, 2 or 3; keys strictly
ascending; values, type and number of keys are 64-bit; the file is shorter than `2^64` bytes -/
structure Input (version ty : Nat) (kvs : KV) (style : Nat) (share : Bool) : Prop where
  ver : version = 1 ∨ version = 2 ∨ version = 3
  sorted : SortedKV kvs
  values : ∀ kv ∈ kvs, kv.2 < 2^64
  tyLt : ty < 2^64
  lenLt : kvs.length < 2^64
  size : (encodeFst version ty kvs style share).length < 2^64

/-- the store of the reference encoder is good, and its root spells the input (any version) -/
theorem enc_goodStore (version : Nat) (kvs : KV) (style : Nat) (share : Bool)
    (hs : SortedKV kvs) (hval : ∀ kv ∈ kvs, kv.2 < 2^64) :
    GoodStore (encStore version kvs style share) (encDen version kvs style share) ∧
      encDen version kvs style share (encRoot version kvs style share) = kvs ∧
      (encRoot version kvs style share = 0 ∨
        ∃ n, (encRoot version kvs style share, n) ∈ encStore version kvs style share) := by
  obtain ⟨hinv, _, haddr, hden, _⟩ := encode_spec version kvs style share hs hval
  refine ⟨goodStore_of_EmOK hinv.ok, hden, ?_⟩
  rcases haddr.2 with h | ⟨n, hn⟩
  · exact Or.inl h
  · exact Or.inr ⟨n, List.mem_reverse.mpr hn⟩

/-- **C10, read side.** For format version 1, 2 or 3 and a strictly sorted list `kvs` (64-bit
values, type and length; file below `2^64` bytes), with
`bytes := Spec.encodeFst version ty kvs style share`:
`Fst::new bytes` succeeds with exactly the written metadata — version, type, number of keys, root
address, and a checksum iff the version is 3; the node access of a version-`version` reader over
`bytes` returns exactly the nodes of the store `encStore`, which is a `GoodStore` under `encDen`
whose root spells exactly `kvs`; and `Fst::verify` reports `ChecksumMissing` for versions 1 and 2
and succeeds for version 3. -/
theorem C10_read (version ty : Nat) (kvs : KV) (style : Nat) (share : Bool)
    (h : Input version ty kvs style share) :
    let bytes := encodeFst version ty kvs style share
    let st := encStore version kvs style share
    let den := encDen version kvs style share
    ∃ m, fstNew (Src.ofList bytes) = .ok m ∧
      m.version = version ∧ m.ty = ty ∧ m.len = kvs.length ∧
      m.rootAddr = encRoot version kvs style share ∧
      (m.checksum = none ↔ version ≤ 2) ∧
      Represents (byteAccess version (Src.ofList bytes)) st ∧
      GoodStore st den ∧ den m.rootAddr = kvs ∧
      (m.rootAddr = 0 ∨ ∃ n, (m.rootAddr, n) ∈ st) ∧
      fstVerify m (Src.ofList bytes) = (if version ≤ 2 then .err .checksumMissing else .ok ()) := by
  intro bytes st den
  have hv1 : 1 ≤ version := by rcases h.ver with h | h | h <;> omega
  have hv3 : version ≤ 3 := by rcases h.ver with h | h | h <;> omega
  obtain ⟨m, hm, m1, m2, m3, m4, m5, m6⟩ :=
    encode_open version ty kvs style share hv1 hv3 h.sorted h.values h.tyLt h.lenLt h.size
  obtain ⟨g1, g2, g3⟩ := enc_goodStore version kvs style share h.sorted h.values
  have m4' : m.rootAddr = encRoot version kvs style share := m4
  refine ⟨m, hm, m1, m2, m3, m4', m5,
    encode_represents version ty kvs style share h.sorted h.values h.size, g1, ?_, ?_, m6⟩
  · rw [m4']; exact g2
  · rw [m4']; exact g3

/-- **C10, `get`.** Opening the bytes succeeds, and `get` on the opened FST (a reader of the file's
own version) never panics and returns exactly the value `kvs` associates with the key. -/
theorem C10_get (version ty : Nat) (kvs : KV) (style : Nat) (share : Bool)
    (h : Input version ty kvs style share) :
    ∃ m, fstNew (Src.ofList (encodeFst version ty kvs style share)) = .ok m ∧
      ∀ key, fstGet (byteAccess m.version (Src.ofList (encodeFst version ty kvs style share)))
        m.rootAddr key = some (lookupKV kvs key) := by
  obtain ⟨m, hm, hv, _, _, _, _, hrep, hg, hden, hroot, _⟩ := C10_read version ty kvs style share h
  refine ⟨m, hm, fun key => ?_⟩
  rw [hv, fstGet_correct hg hrep m.rootAddr hroot key, hden]

/-- **C10, `contains_key`.** -/
theorem C10_contains (version ty : Nat) (kvs : KV) (style : Nat) (share : Bool)
    (h : Input version ty kvs style share) :
    ∃ m, fstNew (Src.ofList (encodeFst version ty kvs style share)) = .ok m ∧
      ∀ key, fstContains (byteAccess m.version (Src.ofList (encodeFst version ty kvs style share)))
        m.rootAddr key = some (kvs.any fun kv => kv.1 == key) := by
  obtain ⟨m, hm, hv, _, _, _, _, hrep, hg, hden, hroot, _⟩ := C10_read version ty kvs style share h
  refine ⟨m, hm, fun key => ?_⟩
  rw [hv, fstContains_correct hg hrep m.rootAddr hroot key, hden]

/-- **C10, streams.** For every range and every automaton obeying the contract of `stream_correct`,
the stream over the opened FST never panics and yields exactly the entries of `kvs` within the
range that the automaton accepts, in order, each with its value and automaton state, and ends. -/
theorem C10_stream {σ : Type} (version ty : Nat) (kvs : KV) (style : Nat) (share : Bool)
    (h : Input version ty kvs style share) (A : Aut σ)
    (hEof : ∀ x, A.acceptEof x = none)
    (hCan : ∀ x, A.canMatch x = false → ∀ w, A.isMatch (A.run x w) = false)
    (min max : Bound) :
    ∃ m, fstNew (Src.ofList (encodeFst version ty kvs style share)) = .ok m ∧
      ∃ s0, streamNew (byteAccess m.version (Src.ofList (encodeFst version ty kvs style share)))
          A m.rootAddr min max = some s0 ∧
      ∃ N, ∀ fuel, N ≤ fuel →
        streamCollect (byteAccess m.version (Src.ofList (encodeFst version ty kvs style share)))
            A m.rootAddr fuel s0 [] =
          some ((kvs.filter fun kv =>
                  lowerOK min kv.1 && upperOK max kv.1 && A.accepts kv.1).map
                  fun kv => (kv.1, kv.2, A.run A.start kv.1)) := by
  obtain ⟨m, hm, hv, _, _, _, _, hrep, hg, hden, hroot, _⟩ := C10_read version ty kvs style share h
  refine ⟨m, hm, ?_⟩
  have := stream_correct hg hrep m.rootAddr hroot hEof hCan min max
  rw [hden] at this
  rw [hv]
  exact this

/-- **C10, `verify`.** `ChecksumMissing` for versions 1 and 2, success for version 3. -/
theorem C10_verify (version ty : Nat) (kvs : KV) (style : Nat) (share : Bool)
    (h : Input version ty kvs style share) :
    ∃ m, fstNew (Src.ofList (encodeFst version ty kvs style share)) = .ok m ∧
      fstVerify m (Src.ofList (encodeFst version ty kvs style share)) =
        (if version ≤ 2 then .err .checksumMissing else .ok ()) := by
  obtain ⟨m, hm, _, _, _, _, _, _, _, _, _, hver⟩ := C10_read version ty kvs style share h
  exact ⟨m, hm, hver⟩

/-! ### the hypotheses are satisfiable -/

/-- 40 two-byte keys under one 40-way node (above the index threshold) plus a shared tail and
the empty key -/
def ex40 : KV :=
  ([], 3) :: ((List.range 40).map fun i => ([97, UInt8.ofNat (3 * i)], 5 + i)) ++ [([98, 7], 1000)]

theorem ex40_sorted : SortedKV ex40 := by
  apply PSorted.sortedKV
  unfold PSorted ex40
  decide +kernel

/-- version 1 (no index, no checksum), values on the transitions, with sharing -/
theorem ex40_input_v1 : Input 1 7 ex40 1 true where
  ver := Or.inl rfl
  sorted := ex40_sorted
  values := by decide +kernel
  tyLt := by decide
  lenLt := by decide +kernel
  size := by decide +kernel

/-- version 2 (index, no checksum), values on the final outputs, no sharing -/
theorem ex40_input_v2 : Input 2 7 ex40 0 false where
  ver := Or.inr (Or.inl rfl)
  sorted := ex40_sorted
  values := by decide +kernel
  tyLt := by decide
  lenLt := by decide +kernel
  size := by decide +kernel

/-- version 3 (index and checksum), values on the transitions, with sharing -/
theorem ex40_input_v3 : Input 3 0 ex40 1 true where
  ver := Or.inr (Or.inr rfl)
  sorted := ex40_sorted
  values := by decide +kernel
  tyLt := by decide
  lenLt := by decide +kernel
  size := by decide +kernel

example : ∃ m, fstNew (Src.ofList (encodeFst 1 7 ex40 1 true)) = .ok m ∧
    ∀ key, fstGet (byteAccess m.version (Src.ofList (encodeFst 1 7 ex40 1 true))) m.rootAddr key
      = some (lookupKV ex40 key) := C10_get 1 7 ex40 1 true ex40_input_v1

example : ∃ m, fstNew (Src.ofList (encodeFst 2 7 ex40 0 false)) = .ok m ∧
    fstVerify m (Src.ofList (encodeFst 2 7 ex40 0 false)) = .err .checksumMissing :=
  C10_verify 2 7 ex40 0 false ex40_input_v2

example : ∃ m, fstNew (Src.ofList (encodeFst 3 0 ex40 1 true)) = .ok m ∧
    fstVerify m (Src.ofList (encodeFst 3 0 ex40 1 true)) = .ok () :=
  C10_verify 3 0 ex40 1 true ex40_input_v3

/-- the three files differ as the format says: version 2 has the 256-byte index of the 40-way node
(and wider deltas across it), version 3 = version 2 + 4 checksum bytes -/
example : (encodeFst 2 0 ex40 1 true).length ≥ (encodeFst 1 0 ex40 1 true).length + 256 ∧
    (encodeFst 3 0 ex40 1 true).length = (encodeFst 2 0 ex40 1 true).length + 4 := by
  decide +kernel

end OldVer
end Fst

