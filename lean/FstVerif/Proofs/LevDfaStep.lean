import FstVerif.Proofs.LevDfaInv
/-
One iteration of the worklist loop: `levStep` keeps the invariant `Inv`
("every cached row is blank and on the stack exactly once, or fully processed").
`mmPart_inv`: the mismatch transitions; `qBody_inv`: one query character overwrites its own
path and nothing else; `levStep_inv`: the whole step.
-/
namespace Fst
namespace LevDfa
open Spec

/-! ### `levStep` in pieces -/

/-- the body of `for (i, c) in query.chars().enumerate()` -/
def qBody (l : DynLev) (levState : List Nat) (dfaSi : Nat)
    (acc : DfaB × List (List Nat) × List Nat) (ci : Nat × Nat) : DfaB × List (List Nat) × List Nat :=
  let (b, stack, seen) := acc
  let (c, i) := ci
  if levState.getD i 0 > l.dist then acc else
  let nx := l.accept levState (some c)
  let (b, c3) := b.cached l nx
  match c3 with
  | none => (b, stack, seen)
  | some (nextSi, _) =>
    let b := b.addSeq true dfaSi nextSi ((utf8Enc c).map fun x => (x.toNat, x.toNat))
    if seen.contains nextSi then (b, stack, seen) else (b, nx :: stack, nextSi :: seen)

/-- `add_mismatch_utf8_states` and the push that follows it -/
def mmPart (l : DynLev) (full : List (List (Nat × Nat))) (levState : List Nat) (dfaSi : Nat)
    (b : DfaB) (stack : List (List Nat)) (seen : List Nat) : DfaB × List (List Nat) × List Nat :=
  let mm := l.accept levState none
  let (b, c2) := b.cached l mm
  match c2 with
  | none => (b, stack, seen)
  | some (toSi, _) =>
    let b := b.addSeqs false dfaSi toSi full
    if seen.contains toSi then (b, stack, seen)
    else (b, mm :: stack, toSi :: seen)

theorem levStep_eq (l : DynLev) (full : List (List (Nat × Nat))) (w : LevWork) (R : List Nat) :
    levStep l full w R =
      match w.b.cached l R with
      | (b, none) => { w with b := b }
      | (b, some (dfaSi, _)) =>
        let r := (l.query.zipIdx).foldl (qBody l R dfaSi) (mmPart l full R dfaSi b w.stack w.seen)
        { b := r.1, stack := r.2.1, seen := r.2.2 } := by
  unfold levStep
  rcases w.b.cached l R with ⟨b, _ | ⟨dfaSi, fl⟩⟩
  · rfl
  · rfl

/-! ### the row state being processed -/

/-- `c` has not been redirected by the (character, index) pairs handled so far -/
def Pd (l : DynLev) (R : List Nat) (done : List (Nat × Nat)) (c : Nat) : Prop :=
  ∀ p ∈ done, p.1 = c → l.dist < R.getD p.2 0

/-- every character leads from `i` to the state of its successor row — or still to the state of
the mismatch row, if it has not been redirected -/
def CurWalks (l : DynLev) (b : DfaB) (R : List Nat) (i : Nat) (done : List (Nat × Nat)) : Prop :=
  ∀ c, ValidScalar c → ∃ o, WalkTo b i (utf8Enc c) o ∧
    (Tgt l b (l.accept R (some c)) o ∨ (Tgt l b (l.accept R none) o ∧ Pd l R done c))

structure MInv (l : DynLev) (b : DfaB) (stack : List (List Nat)) (seen : List Nat)
    (R : List Nat) (i : Nat) (done : List (Nat × Nat)) : Prop where
  mb : MBase l b stack seen R i
  cw : CurWalks l b R i done

theorem pushSt_eq (b2 : DfaB) (stack : List (List Nat)) (seen : List Nat) (R' : List Nat) (j : Nat) :
    (if seen.contains j then (b2, stack, seen) else (b2, R' :: stack, j :: seen)) =
      (b2, (pushSt stack seen R' j).1, (pushSt stack seen R' j).2) := by
  unfold pushSt
  split <;> rfl

theorem MBase.rne {l b stack seen R i} (h : MBase l b stack seen R i) : R ≠ [] :=
  canMatch_ne_nil l R (h.base.cacheOk R i h.cur).2.1

theorem qBody_inv {l : DynLev} {b : DfaB} {stack : List (List Nat)} {seen : List Nat}
    {R : List Nat} {i : Nat} {done : List (Nat × Nat)} (h : MInv l b stack seen R i done)
    (c idx : Nat) (hc : ValidScalar c) :
    MInv l (qBody l R i (b, stack, seen) (c, idx)).1 (qBody l R i (b, stack, seen) (c, idx)).2.1
      (qBody l R i (b, stack, seen) (c, idx)).2.2 R i (done ++ [(c, idx)]) := by
  unfold qBody
  simp only
  by_cases hskip : R.getD idx 0 > l.dist
  · rw [if_pos hskip]
    refine ⟨h.mb, ?_⟩
    intro c' hc'
    obtain ⟨o, h1, h2⟩ := h.cw c' hc'
    refine ⟨o, h1, ?_⟩
    rcases h2 with h2 | ⟨h2, h3⟩
    · exact Or.inl h2
    · refine Or.inr ⟨h2, ?_⟩
      intro p hp e
      rw [List.mem_append, List.mem_singleton] at hp
      rcases hp with hp | rfl
      · exact h3 p hp e
      · exact hskip
  · rw [if_neg hskip]
    rcases hcd : b.cached l (l.accept R (some c)) with ⟨b1, _ | ⟨j, fl⟩⟩
    · simp only
      obtain ⟨rfl, hcm⟩ := cached_none l b b1 _ hcd
      refine ⟨h.mb, ?_⟩
      intro c' hc'
      obtain ⟨o, h1, h2⟩ := h.cw c' hc'
      refine ⟨o, h1, ?_⟩
      rcases h2 with h2 | ⟨h2, h3⟩
      · exact Or.inl h2
      · by_cases e : c' = c
        · subst e
          left
          rcases h2 with h2 | ⟨t, h4, _⟩
          · exact Or.inl ⟨hcm, h2.2⟩
          · have := (h.mb.base.cacheOk _ t h4).2.1
            rw [canMatch_accept_mono l R c' hcm] at this
            exact absurd this (by simp)
        · refine Or.inr ⟨h2, ?_⟩
          intro p hp e'
          rw [List.mem_append, List.mem_singleton] at hp
          rcases hp with hp | rfl
          · exact h3 p hp e'
          · exact absurd e'.symm e
    · simp only
      rw [pushSt_eq]
      simp only
      obtain ⟨mb1, hext1, hlk1, hji⟩ := cached_some h.mb _ b1 j fl hcd
        (accept_ne_self l R _ h.mb.rne) (accept_ne_start l R _ h.mb.rne)
      generalize (pushSt stack seen (l.accept R (some c)) j).1 = stack' at mb1 ⊢
      generalize (pushSt stack seen (l.accept R (some c)) j).2 = seen' at mb1 ⊢
      have hi : i < b.states.size := (h.mb.base.cacheOk R i h.mb.cur).1
      have hi1 : i < b1.states.size := (mb1.base.cacheOk R i mb1.cur).1
      obtain ⟨x, w, hxw⟩ := List.exists_cons_of_ne_nil (utf8Enc_ne_nil c)
      have hseq : (List.map (fun x : UInt8 => (x.toNat, x.toNat)) (utf8Enc c)) = byteSeq (x :: w) := by
        rw [hxw]; rfl
      rw [hseq]
      obtain ⟨fr, -⟩ := addSeq_frame true j (byteSeq (x :: w)) b1 i mb1.base.allSz hi1 (byteSeq_lt _)
      have mb2 := mb1.ext _ fr.ext fr.cache fr.allSz
      have hfresh : ∀ m, b1.states.size ≤ m →
          m < (b1.addSeq true i j (byteSeq (x :: w))).states.size →
          okI (b1.addSeq true i j (byteSeq (x :: w))) m := by
        intro m h1 h2
        refine ⟨h2, ?_⟩
        intro ⟨R', hR'⟩
        rw [fr.cache] at hR'
        have := (mb1.base.cacheOk R' m hR').1
        omega
      refine ⟨mb2, ?_⟩
      intro c' hc'
      by_cases e : c' = c
      · subst e
        refine ⟨some j, ?_, Or.inl (Or.inr ⟨j, by rw [fr.cache]; exact hlk1, rfl⟩)⟩
        rw [hxw]
        exact addSeq_walk_new true j (byteSeq (x :: w)) b1 i mb1.base.allSz hi1 (byteSeq_lt _) _ hfresh
          x w (byteSeq_matches _) (Or.inl rfl)
      · obtain ⟨o, h1, h2⟩ := h.cw c' hc'
        have h1' : WalkTo b1 i (utf8Enc c') o :=
          hext1.walkTo (fun hk => Nat.lt_irrefl _ hk.1) i (hext1.step i hi (Nat.ne_of_lt hi)) _ _ h1
        have hdiv := utf8Enc_diverge c c' hc hc' (fun e' => e e'.symm)
        obtain ⟨x', w', hxw'⟩ := List.exists_cons_of_ne_nil (utf8Enc_ne_nil c')
        rw [hxw] at hdiv
        rw [hxw'] at hdiv h1' ⊢
        refine ⟨o, ?_, ?_⟩
        · exact addSeq_walk_other j w b1 i x mb1.base.allSz hi1 (okI b1) _ (fun m hm => hm.1)
            mb1.isRow (fun m hm => fr.ext.presOk hm) hfresh x' w' o hdiv h1'
        · rcases h2 with h2 | ⟨h2, h3⟩
          · exact Or.inl (fr.ext.tgt l _ _ (hext1.tgt l _ _ h2))
          · refine Or.inr ⟨fr.ext.tgt l _ _ (hext1.tgt l _ _ h2), ?_⟩
            intro p hp e'
            rw [List.mem_append, List.mem_singleton] at hp
            rcases hp with hp | rfl
            · exact h3 p hp e'
            · exact absurd e'.symm e

theorem mmPart_inv {l : DynLev} {b : DfaB} {stack : List (List Nat)} {seen : List Nat}
    {R : List Nat} {i : Nat} (h : MBase l b stack seen R i) (hblank : Blank b i) :
    MInv l (mmPart l utf8Full R i b stack seen).1 (mmPart l utf8Full R i b stack seen).2.1
      (mmPart l utf8Full R i b stack seen).2.2 R i [] := by
  unfold mmPart
  simp only
  rcases hcd : b.cached l (l.accept R none) with ⟨b1, _ | ⟨j, fl⟩⟩
  · simp only
    obtain ⟨rfl, hcm⟩ := cached_none l b b1 _ hcd
    refine ⟨h, ?_⟩
    intro c hc
    obtain ⟨x, w, hxw⟩ := List.exists_cons_of_ne_nil (utf8Enc_ne_nil c)
    refine ⟨none, ?_, Or.inr ⟨Or.inl ⟨hcm, rfl⟩, fun p hp => by simp at hp⟩⟩
    rw [hxw]
    show Walk _ _ (stepS b1.states i x) w none
    rw [hblank x]
    exact Walk_none _ _ _
  · simp only
    rw [pushSt_eq]
    simp only
    obtain ⟨mb1, hext1, hlk1, hji⟩ := cached_some h _ b1 j fl hcd
      (accept_ne_self l R _ h.rne) (accept_ne_start l R _ h.rne)
    generalize (pushSt stack seen (l.accept R none) j).1 = stack' at mb1 ⊢
    generalize (pushSt stack seen (l.accept R none) j).2 = seen' at mb1 ⊢
    have hi : i < b.states.size := (h.base.cacheOk R i h.cur).1
    have hi1 : i < b1.states.size := (mb1.base.cacheOk R i mb1.cur).1
    have blank1 : Blank b1 i := hext1.blank i hi (Nat.ne_of_lt hi) hblank
    obtain ⟨fr, -, hwalk⟩ := addSeqs_false_walk j utf8Full b1 i mb1.base.allSz hi1 utf8Full_ok
      utf8Full_disj (fun s _ y _ => blank1 y) (IsRow b1)
      (fun m ⟨R', hR'⟩ => (mb1.base.cacheOk R' m hR').1) ⟨R, mb1.cur⟩
    refine ⟨mb1.ext _ fr.ext fr.cache fr.allSz, ?_⟩
    intro c hc
    obtain ⟨s, hs, hm⟩ := utf8Enc_matches c hc
    obtain ⟨x, w, hxw⟩ := List.exists_cons_of_ne_nil (utf8Enc_ne_nil c)
    refine ⟨some j, ?_, Or.inr ⟨Or.inr ⟨j, by rw [fr.cache]; exact hlk1, rfl⟩, fun p hp => by simp at hp⟩⟩
    rw [hxw] at hm ⊢
    refine Walk_frame _ _ _ _ ?_ _ _ _ (hwalk s hs x w hm)
    intro m hm
    refine ⟨⟨hm.1, ?_⟩, fun _ => rfl⟩
    intro ⟨R', hR'⟩
    rw [fr.cache] at hR'
    exact hm.2 ⟨R', hR'⟩

theorem qFold_inv (l : DynLev) (R : List Nat) (i : Nat) (ps : List (Nat × Nat))
    (hps : ∀ p ∈ ps, ValidScalar p.1) :
    ∀ (b : DfaB) (stack : List (List Nat)) (seen : List Nat) (done : List (Nat × Nat)),
    MInv l b stack seen R i done →
    MInv l (ps.foldl (qBody l R i) (b, stack, seen)).1 (ps.foldl (qBody l R i) (b, stack, seen)).2.1
      (ps.foldl (qBody l R i) (b, stack, seen)).2.2 R i (done ++ ps) := by
  induction ps with
  | nil => intro b stack seen done h; simpa using h
  | cons p ps ih =>
    intro b stack seen done h
    obtain ⟨c, idx⟩ := p
    have h1 := qBody_inv h c idx (hps (c, idx) (by simp))
    have h2 := ih (fun p hp => hps p (List.mem_cons_of_mem _ hp)) _ _ _ _ h1
    simpa [List.foldl_cons, List.append_assoc] using h2

/-! ### the worklist invariant -/

structure Inv (l : DynLev) (w : LevWork) : Prop where
  base : Base l w.b w.seen
  nodup : w.stack.Nodup
  stk : ∀ R ∈ w.stack, ∃ i, w.b.cache.lookup R = some i ∧ Blank w.b i
  done : ∀ R i, w.b.cache.lookup R = some i → R ∉ w.stack → Processed l w.b i R

theorem cached_hit (l : DynLev) (b : DfaB) (R : List Nat) (i : Nat)
    (hc : l.canMatch R = true) (hl : b.cache.lookup R = some i) :
    b.cached l R = (b, some (i, true)) := by
  unfold DfaB.cached
  simp [hc, hl]

theorem levStep_inv (l : DynLev) (hq : ∀ c ∈ l.query, ValidScalar c) (b : DfaB)
    (R : List Nat) (rest : List (List Nat)) (seen : List Nat)
    (h : Inv l ⟨b, R :: rest, seen⟩) : Inv l (levStep l utf8Full ⟨b, rest, seen⟩ R) := by
  obtain ⟨i, hl, hblank⟩ := h.stk R List.mem_cons_self
  have hnd := List.nodup_cons.mp h.nodup
  have hcm := (h.base.cacheOk R i hl).2.1
  have mb : MBase l b rest seen R i := by
    refine ⟨h.base, hnd.2, hnd.1, hl, fun R' hR' => h.stk R' (List.mem_cons_of_mem _ hR'), ?_⟩
    intro R' i' hl' hns hne
    refine h.done R' i' hl' ?_
    intro hm
    rcases List.mem_cons.mp hm with e | e
    · exact hne e
    · exact hns e
  rw [levStep_eq]
  simp only [cached_hit l b R i hcm hl]
  have h1 := mmPart_inv mb hblank
  have hps : ∀ p ∈ l.query.zipIdx, ValidScalar p.1 := by
    intro p hp
    rw [List.mem_zipIdx_iff_getElem?] at hp
    exact hq _ (List.mem_of_getElem? hp)
  have h2 := qFold_inv l R i l.query.zipIdx hps _ _ _ _ h1
  simp only [List.nil_append] at h2
  generalize List.foldl (qBody l R i) (mmPart l utf8Full R i b rest seen) l.query.zipIdx = r at h2
  obtain ⟨b', stack', seen'⟩ := r
  simp only at h2 ⊢
  refine ⟨h2.mb.base, h2.mb.nodup, h2.mb.stk, ?_⟩
  intro R' i' hl' hns
  by_cases e : R' = R
  · subst e
    have : i' = i := by
      have := h2.mb.cur
      simp only at hl'
      rw [hl'] at this
      exact Option.some.inj this
    subst this
    intro c hc
    obtain ⟨o, h3, h4⟩ := h2.cw c hc
    refine ⟨o, h3, ?_⟩
    rcases h4 with h4 | ⟨h4, h5⟩
    · exact h4
    · rw [← accept_skip_eq l R' c]
      · exact h4
      · intro idx hidx
        exact h5 (c, idx) (List.mk_mem_zipIdx_iff_getElem?.mpr hidx) rfl
  · exact h2.mb.done R' i' hl' hns e

end LevDfa
end Fst
