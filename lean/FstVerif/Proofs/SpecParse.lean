import FstVerif.Proofs.Codec
import FstVerif.Spec.Format
/-
T-SpecParse, part 1: the independent format parser `Spec.parseNode` (Spec/Format.lean)
inverts the model's node encoder `compileNode`.
-/
namespace Fst

/-! ### A. pinned constants -/

theorem spec_pinned_common_inv : Gen.COMMON_INPUTS_INV = Spec.commonInv := by decide +kernel
theorem spec_pinned_threshold : Gen.TRANS_INDEX_THRESHOLD = Spec.INDEX_THRESHOLD := by decide
theorem spec_pinned_version : Gen.VERSION = Spec.VERSION_MAX := by decide

/-- the node the format description must read back -/
def specOf (n : BNode) (first last : Nat) : Spec.SNode :=
  ⟨n.fin, n.fout, n.trans.map fun t => (t.inp, t.out, t.addr), first, last⟩

/-! helper lemmas live in `Fst.SpecP` to avoid clashes with other proof files -/
namespace SpecP

/-! ### B. reading an `Array UInt8` made from a list -/

theorem arr_getD (l : List UInt8) (i : Nat) : l.toArray.getD i 0 = l[i]?.getD 0 := by
  simp [Array.getD]
  split <;> simp_all

theorem arr_getD_some {l : List UInt8} {i : Nat} {b : UInt8} (h : l[i]? = some b) :
    l.toArray.getD i 0 = b := by
  rw [arr_getD, h]; rfl

theorem le_foldr_seg {l : List UInt8} {off : Nat} {xs : List UInt8} (h : Seg l off xs) :
    (List.range xs.length).foldr (fun k acc => (l.toArray.getD (off + k) 0).toNat + 256 * acc) 0
      = unpack xs := by
  induction xs generalizing off with
  | nil => rfl
  | cons x xs ih =>
    obtain ⟨h1, h2⟩ := seg_cons h
    rw [List.length_cons, List.range_succ_eq_map, List.foldr_cons, List.foldr_map]
    simp only [Nat.add_zero, arr_getD_some h1, unpack]
    have := ih h2
    simp only [Nat.add_assoc, Nat.add_comm 1] at this ⊢
    rw [this]

theorem le_seg {l : List UInt8} {off k x : Nat} (h : Seg l off (packIn x k)) (hx : x < 256 ^ k) :
    Spec.le l.toArray off k = some x := by
  have hl := seg_len h
  rw [packIn_length] at hl
  have := le_foldr_seg h
  rw [packIn_length, unpack_packIn x k hx] at this
  simp only [Spec.le, List.size_toArray, hl, if_true, this]

theorem le_zero (a : Array UInt8) (i : Nat) (h : i ≤ a.size) : Spec.le a i 0 = some 0 := by
  simp [Spec.le, h]

/-! ### C. the common-input table of the format description -/

theorem commonByte_eq (idx : Nat) (h : idx < 64) : Spec.commonByte idx = commonInput idx := by
  unfold Spec.commonByte commonInput
  split
  · rfl
  · rw [← spec_pinned_common_inv, commonInputsInvA_getD]
    have : idx - 1 < Gen.COMMON_INPUTS_INV.length := by
      have : Gen.COMMON_INPUTS_INV.length = 256 := by decide +kernel
      omega
    simp [List.getD, this]

/-! ### D. unfoldings of `Spec.parseNode` with the bytes read as hypotheses -/

theorem parse_otn_common {v : Nat} {a : Array UInt8} {addr s : Nat} {b : UInt8}
    (h0 : addr ≠ 0) (hsz : addr < a.size) (hs : (a.getD addr 0).toNat = s) (h192 : 192 ≤ s)
    (hc : Spec.commonByte (s % 64) = some b) :
    Spec.parseNode v a addr = some ⟨false, 0, [(b, 0, addr - 1)], addr, addr⟩ := by
  unfold Spec.parseNode
  simp only [h0, if_false, hs, ge_iff_le, h192, if_true, hc, show ¬ a.size ≤ addr by omega,
    show ¬ addr < 1 by omega]

theorem parse_otn_explicit {v : Nat} {a : Array UInt8} {addr s : Nat}
    (h0 : 2 ≤ addr) (hsz : addr < a.size) (hs : (a.getD addr 0).toNat = s) (h192 : 192 ≤ s)
    (hc : Spec.commonByte (s % 64) = none) :
    Spec.parseNode v a addr = some ⟨false, 0, [(a.getD (addr - 1) 0, 0, addr - 2)], addr - 1, addr⟩ := by
  unfold Spec.parseNode
  simp only [show addr ≠ 0 by omega, if_false, hs, ge_iff_le, h192, if_true, hc, show ¬ a.size ≤ addr by omega,
    show ¬ addr < 2 by omega]

theorem parse_ot {v : Nat} {a : Array UInt8} {addr s p sizes delta out : Nat} {inp : UInt8}
    (h0 : addr ≠ 0) (hsz : addr < a.size) (hs : (a.getD addr 0).toNat = s) (h192 : s < 192) (h128 : 128 ≤ s)
    (hc : (Spec.commonByte (s % 64) = some inp ∧ p = addr) ∨
          (Spec.commonByte (s % 64) = none ∧ inp = a.getD (addr - 1) 0 ∧ p = addr - 1))
    (hp : 1 ≤ p) (hsizes : (a.getD (p - 1) 0).toNat = sizes)
    (hfit : 1 + sizes / 16 + sizes % 16 ≤ p)
    (hd : Spec.le a (p - 1 - sizes / 16 - sizes % 16 + sizes % 16) (sizes / 16) = some delta)
    (ho : Spec.le a (p - 1 - sizes / 16 - sizes % 16) (sizes % 16) = some out) :
    Spec.parseNode v a addr = some ⟨false, 0,
      [(inp, out, Spec.target (p - 1 - sizes / 16 - sizes % 16) delta)], p - 1 - sizes / 16 - sizes % 16, addr⟩ := by
  unfold Spec.parseNode
  simp only [h0, if_false, hs, ge_iff_le, show ¬ 192 ≤ s by omega, h128, if_true, show ¬ a.size ≤ addr by omega]
  rcases hc with ⟨hc, rfl⟩ | ⟨hc, rfl, rfl⟩
  · simp only [hc, show ¬ p < 1 by omega, if_false, hsizes, show ¬ p < 1 + sizes / 16 + sizes % 16 by omega, hd, ho]
  · simp only [hc, show ¬ addr - 1 < 1 by omega, if_false, hsizes, show ¬ addr - 1 < 1 + sizes / 16 + sizes % 16 by omega, hd, ho]

/-- transition `j` as read by the format description -/
def specTr (a : Array UInt8) (first K tsize osize finO : Nat) (j : Nat) : Option (UInt8 × Nat × Nat) :=
  match Spec.le a (first + finO + K * osize + (K - 1 - j) * tsize) tsize with
  | none => none
  | some delta =>
    some (a.getD (first + finO + K * osize + K * tsize + (K - 1 - j)) 0,
      if osize = 0 then 0 else (Spec.le a (first + finO + (K - 1 - j) * osize) osize).getD 0,
      Spec.target first delta)

theorem parse_any {v : Nat} {a : Array UInt8} {addr s K p sizes finO body : Nat} {ts : List (UInt8 × Nat × Nat)}
    (h0 : addr ≠ 0) (hsz : addr < a.size) (hs : (a.getD addr 0).toNat = s) (h128 : s < 128)
    (hK : (s % 64 ≠ 0 ∧ K = s % 64 ∧ p = addr) ∨
          (s % 64 = 0 ∧ K = (if (a.getD (addr - 1) 0).toNat = 1 then 256 else (a.getD (addr - 1) 0).toNat)
            ∧ p = addr - 1))
    (hp : 1 ≤ p) (hsizes : (a.getD (p - 1) 0).toNat = sizes)
    (hfinO : (if 64 ≤ s then sizes % 16 else 0) = finO)
    (hbody : (if 2 ≤ v ∧ K > Spec.INDEX_THRESHOLD then 256 else 0) + K + K * (sizes / 16)
      + K * (sizes % 16) + finO = body)
    (hfit : 1 + body ≤ p)
    (hts : (List.range K).filterMap (specTr a (p - 1 - body) K (sizes / 16) (sizes % 16) finO) = ts)
    (hlen : ts.length = K) :
    Spec.parseNode v a addr = some ⟨decide (64 ≤ s),
      if 64 ≤ s ∧ sizes % 16 ≠ 0 then (Spec.le a (p - 1 - body) (sizes % 16)).getD 0 else 0,
      ts, p - 1 - body, addr⟩ := by
  unfold Spec.parseNode
  simp only [h0, if_false, hs, ge_iff_le, show ¬ 192 ≤ s by omega, show ¬ 128 ≤ s by omega,
    show ¬ a.size ≤ addr by omega]
  rcases hK with ⟨hc, rfl, rfl⟩ | ⟨hc, rfl, rfl⟩
  · simp only [hc, ne_eq, not_false_eq_true, if_true, show ¬ p < 1 by omega, if_false, hsizes, hfinO, hbody,
      show ¬ p < 1 + body by omega]
    change (if ¬ (List.filterMap (specTr a (p - 1 - body) (s % 64) (sizes / 16) (sizes % 16) finO)
      (List.range (s % 64))).length = s % 64 then none else some (Spec.SNode.mk _ _ (List.filterMap
        (specTr a (p - 1 - body) (s % 64) (sizes / 16) (sizes % 16) finO) (List.range (s % 64))) _ _)) = _
    rw [hts, if_neg (fun h => h hlen)]
  · generalize hKK : (if (a.getD (addr - 1) 0).toNat = 1 then 256 else (a.getD (addr - 1) 0).toNat) = K
      at hbody hts hlen
    simp only [hc, ne_eq, not_true_eq_false, show ¬ addr - 1 < 1 by omega, if_false, hsizes, hfinO,
      hbody, show ¬ addr - 1 < 1 + body by omega]
    change (if ¬ (List.filterMap (specTr a (addr - 1 - 1 - body) K (sizes / 16) (sizes % 16) finO)
      (List.range K)).length = K then none else some (Spec.SNode.mk _ _ (List.filterMap
        (specTr a (addr - 1 - 1 - body) K (sizes / 16) (sizes % 16) finO) (List.range K)) _ _)) = _
    rw [hts, if_neg (fun h => h hlen)]

/-! ### E. the three node forms -/

theorem target_back {start a : Nat} (h : a = 0 ∨ a < start) :
    Spec.target start (deltaVal start a) = a := by
  unfold Spec.target
  exact delta_back h

theorem commonByte_zero : Spec.commonByte 0 = none := by
  unfold Spec.commonByte; rw [if_pos rfl]

theorem spec_otn (v : Nat) (l : List UInt8) (start : Nat) (t : Tr) (hpos : 0 < start)
    (hout : t.out = 0) (haddr : t.addr = start - 1)
    (hseg : Seg l start (compileOTN t.inp)) :
    Spec.parseNode v l.toArray (start + (compileOTN t.inp).length - 1)
      = some (specOf ⟨false, 0, [t]⟩ start (start + (compileOTN t.inp).length - 1)) := by
  have hci := commonIdx_lt t.inp
  have hsb : (UInt8.ofNat (0b11000000 + commonIdx t.inp 63)).toNat = 192 + commonIdx t.inp 63 :=
    toNat_ofNat_lt (by omega)
  have hmod : (192 + commonIdx t.inp 63) % 64 = commonIdx t.inp 63 := by omega
  have hlen := seg_len hseg
  simp only [compileOTN] at hseg hlen ⊢
  obtain ⟨h1, h2⟩ := seg_append hseg
  have h2 := seg_single h2
  rcases commonInput_cases t.inp with ⟨hc, hn⟩ | ⟨hc, hn⟩
  · simp only [hc, if_true, List.length_cons, List.length_nil, List.length_append] at h1 h2 hlen ⊢
    have h1 := seg_single h1
    rw [parse_otn_explicit (s := 192) (by omega) (by rw [List.size_toArray]; omega)
      (by rw [arr_getD_some (idx_cast h2 (by omega))]; rw [hc] at hsb; exact hsb) (by omega) commonByte_zero]
    simp only [specOf, List.map_cons, List.map_nil, hout, haddr,
      show start + (0 + 1 + (0 + 1)) - 1 - 1 = start by omega, arr_getD_some h1]
    congr 4
  · simp only [hc, if_false, List.length_cons, List.length_nil, List.length_append] at h1 h2 hlen ⊢
    rw [parse_otn_common (s := 192 + commonIdx t.inp 63) (b := t.inp) (by omega) (by rw [List.size_toArray]; omega)
      (by rw [arr_getD_some (idx_cast h2 (by omega))]; exact hsb) (by omega)
      (by rw [hmod, commonByte_eq _ hci, hn])]
    simp only [specOf, List.map_cons, List.map_nil, hout, haddr]
    congr 1


theorem spec_ot (v : Nat) (l : List UInt8) (start : Nat) (t : Tr) (hpos : 0 < start)
    (hsmall : start < 2 ^ 64) (hout : t.out < 2 ^ 64) (htgt : t.addr = 0 ∨ t.addr < start)
    (hseg : Seg l start (compileOT start t)) :
    Spec.parseNode v l.toArray (start + (compileOT start t).length - 1)
      = some (specOf ⟨false, 0, [t]⟩ start (start + (compileOT start t).length - 1)) := by
  have hci := commonIdx_lt t.inp
  have hsb : (UInt8.ofNat (0b10000000 + commonIdx t.inp 63)).toNat = 128 + commonIdx t.inp 63 :=
    toNat_ofNat_lt (by omega)
  have hmod : (128 + commonIdx t.inp 63) % 64 = commonIdx t.inp 63 := by omega
  have hlen := seg_len hseg
  simp only [compileOT] at hseg hlen ⊢
  generalize hO : (if t.out = 0 then 0 else packSize t.out) = osize at hseg hlen ⊢
  generalize hT : packSize (deltaVal start t.addr) = tsize at hseg hlen ⊢
  have ht8 : tsize ≤ 8 := hT ▸ packSize_le _
  have hdv : deltaVal start t.addr < 256 ^ tsize := hT ▸ lt_pow_packSize _ (deltaVal_lt hsmall)
  have ho8 : osize ≤ 8 := by
    rw [← hO]; split
    · omega
    · exact packSize_le _
  have hov : t.out < 256 ^ osize := by
    rw [← hO]; split
    · rename_i h; rw [h]; decide
    · exact lt_pow_packSize _ hout
  have hszb : (UInt8.ofNat (tsize * 16 + osize)).toNat = tsize * 16 + osize :=
    toNat_ofNat_lt (by omega)
  have hd : (tsize * 16 + osize) / 16 = tsize := by omega
  have hm : (tsize * 16 + osize) % 16 = osize := by omega
  obtain ⟨h1, h5⟩ := seg_append hseg
  obtain ⟨h1, h4⟩ := seg_append h1
  obtain ⟨h1, h3⟩ := seg_append h1
  obtain ⟨h1, h2⟩ := seg_append h1
  simp only [List.length_append, packIn_length, List.length_cons, List.length_nil] at h2 h3 h4 h5 hlen ⊢
  have h3 := seg_single h3
  have h5 := seg_single h5
  have hres : ∀ il, some (Spec.SNode.mk false 0 [(t.inp, t.out, Spec.target start (deltaVal start t.addr))]
      start (start + osize + tsize + 1 + il)) = some (specOf ⟨false, 0, [t]⟩ start (start + osize + tsize + 1 + il)) := by
    intro il; rw [target_back htgt]; rfl
  rcases commonInput_cases t.inp with ⟨hc, hn⟩ | ⟨hc, hn⟩
  · simp only [hc, if_true, List.length_cons, List.length_nil] at h4 h5 hlen ⊢
    have h4 := seg_single h4
    rw [show start + (osize + tsize + (0 + 1) + (0 + 1) + (0 + 1)) - 1 = start + osize + tsize + 1 + 1 by omega,
      ← hres]
    have := parse_ot (v := v) (a := l.toArray) (addr := start + osize + tsize + 1 + 1) (s := 128)
      (p := start + osize + tsize + 1) (sizes := tsize * 16 + osize) (delta := deltaVal start t.addr)
      (out := t.out) (inp := t.inp) (by omega) (by rw [List.size_toArray]; omega)
      (by rw [arr_getD_some (idx_cast h5 (by omega))]; rw [hc] at hsb; exact hsb) (by omega) (by omega)
      (Or.inr ⟨commonByte_zero, (arr_getD_some (idx_cast h4 (by omega))).symm, by omega⟩) (by omega)
      (by rw [arr_getD_some (idx_cast h3 (by omega))]; exact hszb)
      (by rw [hd, hm]; omega)
      (by rw [hd, hm]; exact le_seg (seg_cast h2 (by omega)) hdv)
      (by rw [hd, hm]; exact le_seg (seg_cast h1 (by omega)) hov)
    rw [hd, hm, show start + osize + tsize + 1 - 1 - tsize - osize = start by omega] at this
    exact this
  · simp only [hc, if_false, List.length_nil] at h4 h5 hlen ⊢
    rw [show start + (osize + tsize + (0 + 1) + 0 + (0 + 1)) - 1 = start + osize + tsize + 1 + 0 by omega,
      ← hres]
    have := parse_ot (v := v) (a := l.toArray) (addr := start + osize + tsize + 1 + 0)
      (s := 128 + commonIdx t.inp 63)
      (p := start + osize + tsize + 1) (sizes := tsize * 16 + osize) (delta := deltaVal start t.addr)
      (out := t.out) (inp := t.inp) (by omega) (by rw [List.size_toArray]; omega)
      (by rw [arr_getD_some (idx_cast h5 (by omega))]; exact hsb) (by omega) (by omega)
      (Or.inl ⟨by rw [hmod, commonByte_eq _ hci, hn], by omega⟩) (by omega)
      (by rw [arr_getD_some (idx_cast h3 (by omega))]; exact hszb)
      (by rw [hd, hm]; omega)
      (by rw [hd, hm]; exact le_seg (seg_cast h2 (by omega)) hdv)
      (by rw [hd, hm]; exact le_seg (seg_cast h1 (by omega)) hov)
    rw [hd, hm, show start + osize + tsize + 1 - 1 - tsize - osize = start by omega] at this
    exact this


theorem filterMap_range_map {α β : Type} (l : List α) (f : Nat → Option β) (g : α → β)
    (h : ∀ j (hj : j < l.length), f j = some (g l[j])) :
    (List.range l.length).filterMap f = l.map g := by
  induction l generalizing f with
  | nil => rfl
  | cons x xs ih =>
    rw [List.length_cons, List.range_succ_eq_map, List.filterMap_cons, h 0 (by simp),
      List.filterMap_map, List.map_cons]
    simp only [List.getElem_cons_zero]
    congr 1
    exact ih (f ∘ Nat.succ) (fun j hj => h (j + 1) (by simpa using hj))

theorem spec_any_tr {l : List UInt8} {start : Nat} {n : BNode} (L : AnyLay l start n)
    (hsmall : start < 2 ^ 64) (htgt : ∀ t ∈ n.trans, t.addr = 0 ∨ t.addr < start)
    (houts : ∀ t ∈ n.trans, t.out < 2 ^ 64) (j : Nat) (hj : j < n.trans.length) :
    specTr l.toArray start n.trans.length (anyTsize start n) (aO n) (if n.fin then aO n else 0) j
      = some (n.trans[j].inp, n.trans[j].out, n.trans[j].addr) := by
  have hmem : n.trans[j] ∈ n.trans := List.getElem_mem hj
  have hsA := seg_flatMap_rev L.sAddrs
    (fun t _ => packIn_length (deltaVal start t.addr) (anyTsize start n)) j hj
  have hle := le_anyTsize start n _ hmem
  have hdelta := le_seg hsA
    (Nat.lt_of_lt_of_le (lt_pow_packSize _ (deltaVal_lt hsmall)) (pow256_mono hle))
  have hinp := seg_get L.sInps (n.trans.length - 1 - j) (by simp; omega)
  simp only [List.getElem_map, rev_get n.trans j hj] at hinp
  unfold specTr
  simp only [hdelta, arr_getD_some hinp, target_back (htgt _ hmem)]
  by_cases h0 : aO n = 0
  · simp only [h0, if_true, (aO_zero h0).2 _ hmem]
  · have hsO := seg_flatMap_rev L.sOuts (fun t _ => packIn_length t.out (aO n)) j hj
    simp only [h0, if_false, le_seg hsO (aO_out hmem (houts _ hmem)), Option.getD_some]



theorem spec_idx_eq {v : Nat} {n : BNode}
    (hv : 2 ≤ v ∨ n.trans.length ≤ Gen.TRANS_INDEX_THRESHOLD) :
    (if 2 ≤ v ∧ n.trans.length > Spec.INDEX_THRESHOLD then 256 else 0) = (aIdx n).length := by
  rw [← spec_pinned_threshold]
  have := indexSize_eq hv
  simpa [indexSize] using this

theorem spec_any (v : Nat) (l : List UInt8) (start : Nat) (n : BNode)
    (hv : 2 ≤ v ∨ n.trans.length ≤ Gen.TRANS_INDEX_THRESHOLD) (hpos : 0 < start)
    (hsmall : start < 2 ^ 64) (h256 : n.trans.length ≤ 256)
    (htgt : ∀ t ∈ n.trans, t.addr = 0 ∨ t.addr < start)
    (hfo : n.fout < 2 ^ 64) (houts : ∀ t ∈ n.trans, t.out < 2 ^ 64)
    (hfin : n.fin = false → n.fout = 0)
    (hseg : Seg l start (compileAny start n)) :
    Spec.parseNode v l.toArray (start + (compileAny start n).length - 1)
      = some (specOf n start (start + (compileAny start n).length - 1)) := by
  have L := any_lay hseg
  have hlen := seg_len hseg
  have haddr : start + (compileAny start n).length - 1 = anyAddr start n := by
    rw [compileAny_length]; simp only [anyAddr, anyP]; omega
  rw [compileAny_length] at hlen
  rw [haddr]
  have hT := anyTsize_le start n
  have hO := aO_le n
  have hd : (anyTsize start n * 16 + aO n) / 16 = anyTsize start n := by omega
  have hm : (anyTsize start n * 16 + aO n) % 16 = aO n := by omega
  have hS := anyS_lt n
  have hSm := anyS_mod n
  have hnl := aNb_length n
  have h64 : (64 ≤ anyS n) ↔ n.fin = true := by
    have := anyS_div n
    cases hf : n.fin with
    | false =>
      simp only [hf, Bool.false_eq_true, if_false] at this
      simp only [Bool.false_eq_true, iff_false]; omega
    | true =>
      simp only [hf, if_true] at this
      simp only [iff_true]; omega
  have hK : (anyS n % 64 ≠ 0 ∧ n.trans.length = anyS n % 64 ∧ anyP start n + 1 = anyAddr start n) ∨
      (anyS n % 64 = 0 ∧ n.trans.length = (if (l.toArray.getD (anyAddr start n - 1) 0).toNat = 1 then 256
        else (l.toArray.getD (anyAddr start n - 1) 0).toNat) ∧ anyP start n + 1 = anyAddr start n - 1) := by
    rcases any_ntrans L h256 with ⟨h1, h2⟩ | ⟨h1, nb, h2, h3⟩
    · refine Or.inl ⟨h1, h2, ?_⟩
      simp only [anyAddr]; rw [hnl, if_neg (by omega)]
    · refine Or.inr ⟨h1, ?_, ?_⟩
      · rw [arr_getD_some (by simpa [get_ofList] using h2)]; exact h3
      · simp only [anyAddr]; rw [hnl, if_pos (by omega)]; omega
  have hmain := parse_any (v := v) (a := l.toArray) (addr := anyAddr start n) (s := anyS n)
    (K := n.trans.length) (p := anyP start n + 1) (sizes := anyTsize start n * 16 + aO n)
    (finO := if n.fin then aO n else 0)
    (body := (aIdx n).length + n.trans.length + n.trans.length * anyTsize start n
      + n.trans.length * aO n + (if n.fin then aO n else 0))
    (ts := n.trans.map fun t => (t.inp, t.out, t.addr))
    (by simp only [anyAddr]; omega) (by rw [List.size_toArray]; simp only [anyAddr, anyP] at hlen ⊢; omega)
    (by rw [arr_getD_some L.sSb]; exact toNat_ofNat_lt (by omega)) hS hK (by omega)
    (by rw [arr_getD_some (idx_cast L.sSz (by omega))]; exact toNat_ofNat_lt (by omega))
    (by rw [hm]; by_cases hf : n.fin = true
        · rw [if_pos (h64.mpr hf), if_pos hf]
        · rw [if_neg (fun h => hf (h64.mp h)), if_neg hf])
    (by rw [hd, hm, spec_idx_eq hv])
    (by simp only [anyP]; omega)
    (by
      rw [hd, hm, show anyP start n + 1 - 1 - ((aIdx n).length + n.trans.length
        + n.trans.length * anyTsize start n + n.trans.length * aO n + (if n.fin then aO n else 0)) = start by
          simp only [anyP]; omega]
      exact filterMap_range_map n.trans _ _ (fun j hj => spec_any_tr L hsmall htgt houts j hj))
    (by simp)
  rw [hmain, hm, show anyP start n + 1 - 1 - ((aIdx n).length + n.trans.length
        + n.trans.length * anyTsize start n + n.trans.length * aO n + (if n.fin then aO n else 0)) = start by
          simp only [anyP]; omega]
  simp only [specOf, Option.some.injEq, Spec.SNode.mk.injEq, and_true]
  refine ⟨by cases hf : n.fin <;> simp [h64, hf], ?_⟩
  by_cases hf : n.fin = true
  · by_cases h0 : aO n = 0
    · simp [h0, (aO_zero h0).1]
    · have hs := L.sFout
      rw [if_pos hf] at hs
      rw [if_pos ⟨h64.mpr hf, h0⟩, le_seg hs (aO_fout hfo)]; rfl
  · rw [if_neg (fun h => hf (h64.mp h.1)), hfin (by simpa using hf)]



end SpecP
open SpecP

/-! ### F. the node round trip for the independent parser -/

/-- over any byte list that contains the encoding at offset `start` -/
theorem spec_parseNode_seg (v : Nat) (n : BNode) (lastAddr start : Nat) (enc l : List UInt8)
    (hv : 2 ≤ v ∨ n.trans.length ≤ Gen.TRANS_INDEX_THRESHOLD)
    (wf : WFNode n lastAddr start) (henc : compileNode n lastAddr start = some enc)
    (hseg : Seg l start enc) :
    enc ≠ [] ∧ Spec.parseNode v l.toArray (start + enc.length - 1)
      = some (specOf n start (start + enc.length - 1)) := by
  unfold compileNode at henc
  rw [if_neg (by have := wf.ntrans; omega), wf.notEmpty] at henc
  simp only [Bool.false_eq_true, if_false] at henc
  split at henc
  · injection henc with henc
    subst henc
    refine ⟨?_, spec_any v l start n hv wf.pos wf.small wf.ntrans wf.targets
      wf.outs.1 wf.outs.2 wf.finOut hseg⟩
    intro h
    have := compileAny_length start n
    rw [h] at this
    simp only [anyAddr, anyP, List.length_nil] at this
    omega
  · rename_i hne
    simp only [bne_iff_ne, ne_eq, Bool.or_eq_true, not_or, Decidable.not_not,
      Bool.not_eq_true] at hne
    obtain ⟨hlen, hfin⟩ := hne
    obtain ⟨f, fo, ts⟩ := n
    simp only at hlen hfin henc hv
    subst hfin
    have hfo : fo = 0 := wf.finOut rfl
    subst hfo
    match ts, hlen with
    | [t], _ =>
      simp only at henc
      have htgt := wf.targets t List.mem_cons_self
      split at henc
      · rename_i hc
        simp only [Bool.and_eq_true, decide_eq_true_eq] at hc
        injection henc with henc
        subst henc
        have hla : lastAddr = start - 1 := by
          rcases wf.next with h | h
          · exact h
          · exact absurd hc.1 (h t List.mem_cons_self)
        exact ⟨by simp [compileOTN], spec_otn v l start t wf.pos hc.2 (hc.1.trans hla) hseg⟩
      · injection henc with henc
        subst henc
        exact ⟨by simp [compileOT], spec_ot v l start t wf.pos wf.small
          (wf.outs.2 t List.mem_cons_self) htgt hseg⟩

/-- the empty-final sentinel (address 0) -/
theorem spec_parseNode_zero (v : Nat) (a : Array UInt8) :
    Spec.parseNode v a 0 = some ⟨true, 0, [], 0, 0⟩ := rfl

/-- **Main theorem (node round trip, independent parser).** For every well-formed node `n`
written at byte offset `start` (= `pre.length`) by `compileNode`, and any surrounding bytes,
the parser written from the format description reads back exactly `n` and its extent. -/
theorem spec_parseNode_roundtrip (v : Nat) (n : BNode) (lastAddr start : Nat) (enc pre post : List UInt8)
    (hv : 2 ≤ v ∨ n.trans.length ≤ Gen.TRANS_INDEX_THRESHOLD)
    (wf : WFNode n lastAddr start) (henc : compileNode n lastAddr start = some enc)
    (hpre : pre.length = start) (a : Array UInt8) (ha : a = (pre ++ enc ++ post).toArray)
    (addr : Nat) (haddr : addr = start + enc.length - 1) :
    ∃ sn, Spec.parseNode v a addr = some sn ∧
      sn.fin = n.fin ∧ sn.fout = n.fout ∧
      sn.trans = (n.trans.map fun t => (t.inp, t.out, t.addr)) ∧
      sn.first = start ∧ sn.last = addr := by
  subst ha haddr
  obtain ⟨_, h⟩ := spec_parseNode_seg v n lastAddr start enc (pre ++ enc ++ post) hv wf henc
    (hpre ▸ seg_mid pre enc post)
  exact ⟨_, h, rfl, rfl, rfl, rfl, rfl⟩

/-! examples: the statement on concrete nodes (also run with `#eval` while writing this file) -/

example : WFNode exBig 99999 100000 ∧ (2 ≤ 3 ∨ exBig.trans.length ≤ Gen.TRANS_INDEX_THRESHOLD) ∧
    ∃ enc, compileNode exBig 99999 100000 = some enc :=
  ⟨exBig_wf, Or.inl (by decide), compileNode_isSome exBig 99999 100000 (by decide)⟩

/-- a `StateOneTransNext` node, a `StateOneTrans` node and a final leaf with output, at offset 100 -/
example :
    Spec.parseNode 3 ((List.replicate 100 (0 : UInt8) ++ [5, 192] ++ [7]).toArray) 101
      = some ⟨false, 0, [(5, 0, 99)], 100, 101⟩ ∧
    Spec.parseNode 1 ((List.replicate 100 (0 : UInt8) ++ [44, 1, 80, 18, 129] ++ []).toArray) 104
      = some ⟨false, 0, [(116, 300, 20)], 100, 104⟩ ∧
    Spec.parseNode 2 ((List.replicate 100 (0 : UInt8) ++ [5, 1, 0, 64] ++ [9, 9]).toArray) 103
      = some ⟨true, 5, [], 100, 103⟩ := by
  refine ⟨?_, ?_, ?_⟩
  · obtain ⟨_, h⟩ := spec_parseNode_seg 3 ⟨false, 0, [⟨5, 0, 99⟩]⟩ 99 100 [5, 192]
      (List.replicate 100 (0 : UInt8) ++ [5, 192] ++ [7]) (Or.inl (by decide))
      ⟨by decide, by unfold SortedInputs; decide, by decide, by decide, by decide, by decide,
        by decide, Or.inl rfl, by decide⟩ (by decide +kernel) ⟨_, _, rfl, by simp⟩
    exact h
  · obtain ⟨_, h⟩ := spec_parseNode_seg 1 ⟨false, 0, [⟨116, 300, 20⟩]⟩ 99 100 [44, 1, 80, 18, 129]
      (List.replicate 100 (0 : UInt8) ++ [44, 1, 80, 18, 129] ++ []) (Or.inr (by decide))
      ⟨by decide, by unfold SortedInputs; decide, by decide, by decide, by decide, by decide,
        by decide, Or.inl rfl, by decide⟩ (by decide +kernel) ⟨_, _, rfl, by simp⟩
    exact h
  · obtain ⟨_, h⟩ := spec_parseNode_seg 2 ⟨true, 5, []⟩ 1 100 [5, 1, 0, 64]
      (List.replicate 100 (0 : UInt8) ++ [5, 1, 0, 64] ++ [9, 9]) (Or.inl (by decide))
      ⟨by decide, by unfold SortedInputs; decide, by decide, by decide, by decide, by decide,
        by decide, Or.inr (by decide), by decide⟩ (by decide +kernel) ⟨_, _, rfl, by simp⟩
    exact h

/- `#eval` check of the version guard `hv`: with `exBig` (40 transitions, so the writer emits the
256-byte index) a version-1 parse of the same bytes returns `first = 100256 ≠ 100000` and different
transitions, while versions 2 and 3 return `exBig` — the guard cannot be dropped. -/

end Fst
