import FstVerif.Proofs.Den
import FstVerif.Model.Stream
/-
T-Stream: the explicit-stack stream of the model (`streamNew`, `streamStep`,
`streamCollect`) yields exactly the in-range, automaton-accepted entries of the
store denotation, in order, and then ends.

This file holds the machine part (frames, pruning, upper bound); the lower
bound (`seek_min`) is in `Proofs/Seek.lean`, which also states the main theorem
`stream_correct` in full. Helper lemmas live in the namespace `Fst.StreamP`.
-/
namespace Fst

/-- a key satisfies the lower bound of a range -/
def lowerOK (min : Bound) (k : Key) : Bool :=
  match min with
  | .unbounded => true
  | .included b => !lexLt k b
  | .excluded b => lexLt b k

/-- a key satisfies the upper bound of a range -/
def upperOK (max : Bound) (k : Key) : Bool := !max.exceededBy k

namespace StreamP

/-! ### key order -/

theorem lexLt_irrefl (a : Key) : lexLt a a = false := by
  induction a with
  | nil => rfl
  | cons x xs ih => simp [lexLt, ih]

theorem lexLt_append_left (p x y : Key) : lexLt (p ++ x) (p ++ y) = lexLt x y := by
  induction p with
  | nil => rfl
  | cons a p ih => simp [lexLt, ih]

theorem lexLt_trans : ∀ (a b c : Key), lexLt a b = true → lexLt b c = true → lexLt a c = true := by
  intro a
  induction a with
  | nil => intro b c h1 h2; cases b <;> cases c <;> simp_all [lexLt]
  | cons x xs ih =>
    intro b c h1 h2
    cases b with
    | nil => simp [lexLt] at h1
    | cons y ys =>
      cases c with
      | nil => simp [lexLt] at h2
      | cons z zs =>
        simp only [lexLt, Bool.or_eq_true, decide_eq_true_eq, Bool.and_eq_true, beq_iff_eq] at *
        rcases h1 with h1 | ⟨h1, h1'⟩ <;> rcases h2 with h2 | ⟨h2, h2'⟩
        · exact Or.inl (UInt8.lt_trans h1 h2)
        · subst h2; exact Or.inl h1
        · subst h1; exact Or.inl h2
        · subst h1; subst h2; exact Or.inr ⟨rfl, ih _ _ h1' h2'⟩

theorem lexLt_nil_left (k : Key) : lexLt [] k = !k.isEmpty := by
  cases k <;> rfl

theorem lexLt_nil_right (k : Key) : lexLt k [] = false := by
  cases k <;> rfl

theorem lexLt_self_append (p r : Key) : lexLt p (p ++ r) = !r.isEmpty := by
  have := lexLt_append_left p [] r
  rw [List.append_nil] at this
  rw [this, lexLt_nil_left]

/-- siblings: a smaller byte after a common prefix gives a smaller key -/
theorem lexLt_sibling (p : Key) (b b' : UInt8) (r r' : Key) (h : b < b') :
    lexLt (p ++ b :: r) (p ++ b' :: r') = true := by
  rw [lexLt_append_left]
  simp [lexLt, h]

/-- `exceeded_by` is upward closed -/
theorem exceeded_mono (e : Bound) (q k : Key) (h : e.exceededBy q = true) (hlt : lexLt q k = true) :
    e.exceededBy k = true := by
  cases e with
  | unbounded => simp [Bound.exceededBy] at h
  | included v =>
    simp only [Bound.exceededBy] at *
    exact lexLt_trans _ _ _ h hlt
  | excluded v =>
    simp only [Bound.exceededBy, Bool.not_eq_eq_eq_not, Bool.not_true] at *
    cases hkv : lexLt k v with
    | false => rfl
    | true => rw [lexLt_trans _ _ _ hlt hkv] at h; exact absurd h (by simp)

theorem exceeded_ext (e : Bound) (q r : Key) (h : e.exceededBy q = true) :
    e.exceededBy (q ++ r) = true := by
  cases r with
  | nil => simpa using h
  | cons b r => exact exceeded_mono e q _ h (by rw [lexLt_self_append]; rfl)

/-! ### the store -/

/-- a reachable address: the empty final node or a node of the store -/
def Valid (s : Store) (a : Nat) : Prop := a = 0 ∨ ∃ n, (a, n) ∈ s

theorem lookup_of_mem {s : Store} {a : Nat} {n : BNode} (hm : (a, n) ∈ s)
    (hf : ∀ m, (a, m) ∈ s → m = n) : s.lookup a = some n := by
  induction s with
  | nil => simp at hm
  | cons e es ih =>
    obtain ⟨k, v⟩ := e
    rw [List.lookup_cons]
    by_cases hk : a = k
    · subst hk
      have : v = n := hf v (by simp)
      simp [this]
    · have hne : (a == k) = false := by simpa using hk
      rw [hne]
      have hm' : (a, n) ∈ es := by
        rcases List.mem_cons.1 hm with h | h
        · exact absurd (congrArg Prod.fst h) hk
        · exact h
      exact ih hm' (fun m hm => hf m (List.mem_cons_of_mem _ hm))

variable {N σ : Type}

/-- everything the proofs use about a node `x` of the access layer standing for
the store node `n` at address `a` -/
structure NodeRep (acc : NodeAccess N) (s : Store) (den : Nat → KV) (x : N) (a : Nat) (n : BNode) :
    Prop where
  node : acc.node a = some x
  addr : acc.addr x = a
  fin : acc.isFinal x = n.fin
  fout : acc.finalOutput x = n.fout
  len : acc.len x = n.trans.length
  trans : ∀ i (h : i < n.trans.length), acc.transition x i = some n.trans[i]
  find : ∀ b, acc.findInput x b = some (transIdx n b)
  den_eq : den a = denNodeWith den n
  sorted : SortedInputs n
  child : ∀ t ∈ n.trans, t.addr < a ∧ Valid s t.addr

theorem valid_rep {acc : NodeAccess N} {s : Store} {den : Nat → KV}
    (hg : GoodStore s den) (hr : Represents acc s) {a : Nat} (hv : Valid s a) :
    ∃ n x, NodeRep acc s den x a n := by
  rcases hv with h0 | ⟨n, hn⟩
  · subst h0
    obtain ⟨x, h1, h2, h3, h4, h5, h6, h7⟩ := hr.node 0 ⟨true, 0, []⟩ (by simp [nodeAt])
    refine ⟨⟨true, 0, []⟩, x, ⟨h1, h2, h3, h4, h5, fun i h => (h6 i h).1, h7, ?_, ?_, ?_⟩⟩
    · rw [hg.den_zero]; simp [denNodeWith, own]
    · simp [SortedInputs]
    · intro t ht; simp at ht
  · have hpos := hg.addr_pos a n hn
    have hl : nodeAt s a = some n := by
      have : a ≠ 0 := by omega
      simp only [nodeAt, this, if_false]
      exact lookup_of_mem hn (fun m hm => hg.functional a m n hm hn)
    obtain ⟨x, h1, h2, h3, h4, h5, h6, h7⟩ := hr.node a n hl
    exact ⟨n, x, ⟨h1, h2, h3, h4, h5, fun i h => (h6 i h).1, h7, hg.unfold a n hn,
      hg.sorted a n hn, fun t ht => hg.acyclic a n hn t ht⟩⟩

/-! ### continuations -/

/-- the entries below transitions `i, i+1, …` of a node, relative to the node -/
def contRel (den : Nat → KV) (n : BNode) (i : Nat) : KV :=
  (n.trans.drop i).flatMap fun t => lift t.inp t.out (den t.addr)

/-- entries relative to a node reached with path `p` and output `o`, made absolute -/
def pre (p : Key) (o : Nat) (l : KV) : KV := l.map fun kv => (p ++ kv.1, o + kv.2)

/-- what the machine lets through: not beyond the upper bound and accepted -/
def good (A : Aut σ) (e : Bound) (k : Key) : Bool := !e.exceededBy k && A.accepts k

/-- the items the stream returns for a list of entries -/
def F (A : Aut σ) (e : Bound) (l : KV) : List (Key × Nat × σ) :=
  (l.filter fun kv => good A e kv.1).map fun kv => (kv.1, kv.2, A.run A.start kv.1)

theorem F_append (A : Aut σ) (e : Bound) (l1 l2 : KV) : F A e (l1 ++ l2) = F A e l1 ++ F A e l2 := by
  simp [F]

theorem F_nil_of (A : Aut σ) (e : Bound) (l : KV) (h : ∀ kv ∈ l, good A e kv.1 = false) :
    F A e l = [] := by
  simp only [F, List.map_eq_nil_iff, List.filter_eq_nil_iff]
  intro kv hkv; simp [h kv hkv]

theorem pre_lift (p : Key) (o : Nat) (b : UInt8) (o' : Nat) (l : KV) :
    pre p o (lift b o' l) = pre (p ++ [b]) (o + o') l := by
  simp [pre, lift, Function.comp_def, Nat.add_assoc]

theorem pre_append (p : Key) (o : Nat) (l1 l2 : KV) : pre p o (l1 ++ l2) = pre p o l1 ++ pre p o l2 := by
  simp [pre]

theorem pre_nil_zero (l : KV) : pre [] 0 l = l := by
  simp [pre]

theorem mem_pre {p : Key} {o : Nat} {l : KV} {kv : Key × Nat} (h : kv ∈ pre p o l) :
    ∃ kv' ∈ l, kv.1 = p ++ kv'.1 := by
  simp only [pre, List.mem_map] at h
  obtain ⟨kv', h1, h2⟩ := h
  exact ⟨kv', h1, by rw [← h2]⟩

theorem contRel_cons (den : Nat → KV) (n : BNode) (i : Nat) (hi : i < n.trans.length) :
    contRel den n i =
      lift n.trans[i].inp n.trans[i].out (den n.trans[i].addr) ++ contRel den n (i + 1) := by
  simp only [contRel, List.drop_eq_getElem_cons hi, List.flatMap_cons]

theorem contRel_nil (den : Nat → KV) (n : BNode) (i : Nat) (hi : n.trans.length ≤ i) :
    contRel den n i = [] := by
  simp [contRel, List.drop_eq_nil_of_le hi]

theorem denNodeWith_eq (den : Nat → KV) (n : BNode) : denNodeWith den n = own n ++ contRel den n 0 := by
  simp [denNodeWith, contRel]

/-- keys below later transitions start with a greater byte -/
theorem mem_contRel_succ {den : Nat → KV} {n : BNode} (hs : SortedInputs n) {i : Nat}
    (hi : i < n.trans.length) {kv : Key × Nat} (h : kv ∈ contRel den n (i + 1)) :
    ∃ b' r, kv.1 = b' :: r ∧ n.trans[i].inp < b' := by
  simp only [contRel, List.mem_flatMap, lift, List.mem_map] at h
  obtain ⟨t, ht, kv', _, hkv⟩ := h
  obtain ⟨j, hj, hjt⟩ := List.mem_iff_getElem.1 ht
  rw [List.length_drop] at hj
  rw [List.getElem_drop] at hjt
  refine ⟨t.inp, kv'.1, by rw [← hkv], ?_⟩
  rw [← hjt]
  exact (List.pairwise_iff_getElem.1 hs) i (i + 1 + j) hi (by omega) (by omega)

theorem run_append (A : Aut σ) (x : σ) (p q : Key) : A.run x (p ++ q) = A.run (A.run x p) q := by
  simp [Aut.run, List.foldl_append]

theorem run_snoc (A : Aut σ) (x : σ) (p : Key) (b : UInt8) :
    A.run x (p ++ [b]) = A.accept (A.run x p) b := by
  simp [Aut.run, List.foldl_append]

/-! ### the machine -/

/-- from `⟨inp, none, stack, e⟩` the stream returns exactly `X` and ends -/
def Runs (acc : NodeAccess N) (A : Aut σ) (root : Nat) (e : Bound)
    (stack : List (Frame N σ)) (inp : Key) (X : List (Key × Nat × σ)) : Prop :=
  ∃ M, ∀ m accum, streamCollect acc A root (M + m) ⟨inp, none, stack, e⟩ accum =
    some (accum.reverse ++ X)

/-- once a path extending `p` exceeds the upper bound, nothing of `X` is left -/
def Closed {α : Type} (e : Bound) (p : Key) (X : List α) : Prop :=
  ∀ q, e.exceededBy (p ++ q) = true → X = []

theorem runs_nil (acc : NodeAccess N) (A : Aut σ) (root : Nat) (e : Bound) (inp : Key) :
    Runs acc A root e [] inp [] := by
  refine ⟨1, fun m accum => ?_⟩
  rw [Nat.add_comm]
  simp [streamCollect, streamStep]

theorem closed_nil {α : Type} (e : Bound) (p : Key) : Closed e p ([] : List α) := fun _ _ => rfl

/-- the automaton contract and the store hypotheses -/
structure Ctx (acc : NodeAccess N) (A : Aut σ) (s : Store) (den : Nat → KV) : Prop where
  hg : GoodStore s den
  hr : Represents acc s
  hEof : ∀ x, A.acceptEof x = none
  hCan : ∀ p, A.canMatch (A.run A.start p) = false → ∀ w, A.isMatch (A.run (A.run A.start p) w) = false

/-- how the path of the frame below relates to the path `p` of a frame at address `a` -/
def RestPath (root a : Nat) (p p' : Key) : Prop :=
  (a = root ∧ p' = p) ∨ (a ≠ root ∧ ∃ b, p = p' ++ [b])

theorem step_pop (acc : NodeAccess N) (A : Aut σ) (root : Nat) (e : Bound)
    (x : N) (i o : Nat) (st : σ) (rest : List (Frame N σ)) (p p' : Key)
    (h : acc.len x ≤ i ∨ A.canMatch st = false) (hp : RestPath root (acc.addr x) p p') :
    streamStep acc A root ⟨p, none, ⟨x, i, o, st⟩ :: rest, e⟩ = .cont ⟨p', none, rest, e⟩ := by
  have hc : (decide (i ≥ acc.len x) || !A.canMatch st) = true := by
    rcases h with h | h
    · simp [h]
    · simp [h]
  simp only [streamStep, hc, if_true]
  rcases hp with ⟨h1, h2⟩ | ⟨h1, b, h2⟩
  · simp [h1, h2]
  · subst h2
    simp [h1]

theorem step_push (acc : NodeAccess N) (A : Aut σ) (root : Nat) (e : Bound)
    (hEof : ∀ x, A.acceptEof x = none)
    (x : N) (i o : Nat) (st : σ) (rest : List (Frame N σ)) (p : Key) (t : Tr) (x' : N)
    (hi : i < acc.len x) (hc : A.canMatch st = true) (ht : acc.transition x i = some t)
    (hx' : acc.node t.addr = some x') :
    streamStep acc A root ⟨p, none, ⟨x, i, o, st⟩ :: rest, e⟩ =
      if e.exceededBy (p ++ [t.inp]) then .done ⟨p ++ [t.inp], none, [], e⟩
      else if acc.isFinal x' && A.isMatch (A.accept st t.inp) then
        .emit (p ++ [t.inp]) (o + t.out + acc.finalOutput x') (A.accept st t.inp)
          ⟨p ++ [t.inp], none, ⟨x', 0, o + t.out, A.accept st t.inp⟩ :: ⟨x, i + 1, o, st⟩ :: rest, e⟩
      else .cont
          ⟨p ++ [t.inp], none, ⟨x', 0, o + t.out, A.accept st t.inp⟩ :: ⟨x, i + 1, o, st⟩ :: rest, e⟩ := by
  have hc' : (decide (i ≥ acc.len x) || !A.canMatch st) = false := by
    simp [hc]; omega
  simp only [streamStep, hc', ht, hx', hEof]
  simp

/-- nothing below a frame whose automaton state cannot match is accepted -/
theorem F_pruned {A : Aut σ}
    (hCan : ∀ p, A.canMatch (A.run A.start p) = false → ∀ w, A.isMatch (A.run (A.run A.start p) w) = false)
    (e : Bound) (p : Key) (o : Nat) (l : KV) (h : A.canMatch (A.run A.start p) = false) :
    F A e (pre p o l) = [] := by
  apply F_nil_of
  intro kv hkv
  obtain ⟨kv', _, hk⟩ := mem_pre hkv
  simp [good, hk, Aut.accepts, run_append, hCan p h]

/-- nothing at or after an exceeded path is let through -/
theorem F_exceeded_ext (A : Aut σ) (e : Bound) (p : Key) (o : Nat) (l : KV)
    (h : e.exceededBy p = true) : F A e (pre p o l) = [] := by
  apply F_nil_of
  intro kv hkv
  obtain ⟨kv', _, hk⟩ := mem_pre hkv
  simp [good, hk, exceeded_ext e p kv'.1 h]

theorem F_exceeded_later (A : Aut σ) (e : Bound) (den : Nat → KV) (n : BNode) (hs : SortedInputs n)
    (i : Nat) (hi : i < n.trans.length) (p q : Key) (o : Nat)
    (h : e.exceededBy (p ++ n.trans[i].inp :: q) = true) :
    F A e (pre p o (contRel den n (i + 1))) = [] := by
  apply F_nil_of
  intro kv hkv
  obtain ⟨kv', hkv', hk⟩ := mem_pre hkv
  obtain ⟨b', r, hk', hlt⟩ := mem_contRel_succ hs hi hkv'
  have := exceeded_mono e _ (p ++ b' :: r) h (lexLt_sibling p _ b' q r hlt)
  simp [good, hk, hk', this]

/-- the output after a pushed child is closed under that child's path -/
theorem closed_step (A : Aut σ) (e : Bound) (den : Nat → KV) (n : BNode) (hs : SortedInputs n)
    (i : Nat) (hi : i < n.trans.length) (p : Key) (o : Nat) (X : List (Key × Nat × σ))
    (hX : Closed e p X) :
    Closed e (p ++ [n.trans[i].inp]) (F A e (pre p o (contRel den n (i + 1))) ++ X) := by
  intro q hq
  rw [List.append_assoc] at hq
  rw [F_exceeded_later A e den n hs i hi p q o hq, hX _ hq]
  rfl

theorem F_own (A : Aut σ) (e : Bound) (p : Key) (o : Nat) (n : BNode) :
    F A e (pre p o (own n)) =
      if n.fin && good A e p then [(p, o + n.fout, A.run A.start p)] else [] := by
  cases hf : n.fin <;> cases hgd : good A e p <;> simp [F, pre, own, hf, hgd]

/-- the work of one frame: explicit stack = recursive denotation (`run_frame` of the probe,
with pruning, the upper bound and the continuation of the rest of the stack) -/
theorem run_frame {acc : NodeAccess N} {A : Aut σ} {s : Store} {den : Nat → KV}
    (C : Ctx acc A s den) (root : Nat) (e : Bound) :
    ∀ a, a ≤ root → ∀ k i n x, NodeRep acc s den x a n → n.trans.length = i + k →
      ∀ o p p' rest X, RestPath root a p p' → Runs acc A root e rest p' X → Closed e p X →
        Runs acc A root e (⟨x, i, o, A.run A.start p⟩ :: rest) p
          (F A e (pre p o (contRel den n i)) ++ X) := by
  intro a
  induction a using Nat.strongRecOn with
  | _ a iha =>
    intro hle k
    induction k with
    | zero =>
      intro i n x R hlen o p p' rest X hp hrest _
      obtain ⟨M, hM⟩ := hrest
      refine ⟨M + 1, fun m accum => ?_⟩
      have e1 : M + 1 + m = (M + m) + 1 := by omega
      rw [e1]
      simp only [streamCollect]
      rw [step_pop acc A root e x i o _ rest p p' (Or.inl (by rw [R.len]; omega))
        (by rw [R.addr]; exact hp)]
      simp only []
      rw [hM, contRel_nil den n i (by omega)]
      simp [pre, F]
    | succ k ihk =>
      intro i n x R hlen o p p' rest X hp hrest hcl
      cases hcan : A.canMatch (A.run A.start p) with
      | false =>
        obtain ⟨M, hM⟩ := hrest
        refine ⟨M + 1, fun m accum => ?_⟩
        have e1 : M + 1 + m = (M + m) + 1 := by omega
        rw [e1]
        simp only [streamCollect]
        rw [step_pop acc A root e x i o _ rest p p' (Or.inr hcan) (by rw [R.addr]; exact hp)]
        simp only []
        rw [hM, F_pruned C.hCan e p o _ hcan]
        simp
      | true =>
        have hi : i < n.trans.length := by omega
        have htm : n.trans[i] ∈ n.trans := List.getElem_mem hi
        obtain ⟨hlt, hval⟩ := R.child _ htm
        obtain ⟨n', x', R'⟩ := valid_rep C.hg C.hr hval
        -- the frame after the child returns
        have h2 := ihk (i + 1) n x R (by omega) o p p' rest X hp hrest hcl
        have hcl2 := closed_step A e den n R.sorted i hi p o X hcl
        -- the child frame
        have h1 := iha _ hlt (by omega) n'.trans.length 0 n' x' R' (by omega)
          (o + n.trans[i].out) (p ++ [n.trans[i].inp]) p (⟨x, i + 1, o, A.run A.start p⟩ :: rest)
          _ (Or.inr ⟨by omega, _, rfl⟩) h2 hcl2
        obtain ⟨M1, hM1⟩ := h1
        refine ⟨M1 + 1, fun m accum => ?_⟩
        have e1 : M1 + 1 + m = (M1 + m) + 1 := by omega
        rw [e1]
        simp only [streamCollect]
        rw [step_push acc A root e C.hEof x i o _ rest p n.trans[i] x' (by rw [R.len]; exact hi) hcan
          (R.trans i hi) R'.node]
        rw [contRel_cons den n i hi, pre_append, F_append, pre_lift, R'.den_eq, denNodeWith_eq,
          pre_append, F_append, F_own]
        cases hex : e.exceededBy (p ++ [n.trans[i].inp]) with
        | true =>
          simp only [if_true]
          have hX : X = [] := hcl _ hex
          have h3 := F_exceeded_later A e den n R.sorted i hi p [] o hex
          have h4 := F_exceeded_ext A e (p ++ [n.trans[i].inp]) (o + n.trans[i].out)
            (contRel den n' 0) hex
          simp [good, hex, h3, h4, hX]
        | false =>
          rw [← run_snoc]
          simp only [Bool.false_eq_true, if_false, R'.fin, R'.fout, good, hex, Bool.not_false,
            Bool.true_and, Aut.accepts]
          cases hfm : (n'.fin && A.isMatch (A.run A.start (p ++ [n.trans[i].inp]))) with
          | true =>
            simp only [if_true]
            rw [hM1]
            simp [List.append_assoc]
          | false =>
            simp only [Bool.false_eq_true, if_false]
            rw [hM1]
            simp [List.append_assoc]

/-! ### the whole stream from the root -/

theorem run_root {acc : NodeAccess N} {A : Aut σ} {s : Store} {den : Nat → KV}
    (C : Ctx acc A s den) (root : Nat) (e : Bound) (nr : BNode) (r : N)
    (R : NodeRep acc s den r root nr) :
    Runs acc A root e [⟨r, 0, 0, A.start⟩] [] (F A e (contRel den nr 0)) := by
  have h := run_frame C root e root (Nat.le_refl _) nr.trans.length 0 nr r R (by omega) 0 [] [] [] []
    (Or.inl ⟨rfl, rfl⟩) (runs_nil acc A root e []) (closed_nil e [])
  rw [pre_nil_zero, List.append_nil] at h
  exact h

/-- the `empty_output` prologue of `next_with` -/
theorem run_emptyOutput (acc : NodeAccess N) (A : Aut σ) (root : Nat) (e : Bound) (v : Nat)
    (stack : List (Frame N σ)) (X : List (Key × Nat × σ))
    (h : Runs acc A root e stack [] X) (hc : e.exceededBy [] = true → X = []) :
    ∃ M, ∀ m, streamCollect acc A root (M + m) ⟨[], some v, stack, e⟩ [] =
      some (F A e [([], v)] ++ X) := by
  obtain ⟨M, hM⟩ := h
  refine ⟨M + 1, fun m => ?_⟩
  have e1 : M + 1 + m = (M + m) + 1 := by omega
  rw [e1]
  simp only [streamCollect, streamStep]
  cases hex : e.exceededBy [] with
  | true =>
    have hX : X = [] := hc hex
    simp [F, good, hex, hX]
  | false =>
    cases hm : A.isMatch A.start with
    | true =>
      simp only [Bool.false_eq_true, if_false, if_true]
      rw [hM]
      simp [F, good, hex, Aut.accepts, Aut.run, hm]
    | false =>
      simp only [Bool.false_eq_true, if_false]
      rw [hM]
      simp [F, good, hex, Aut.accepts, Aut.run, hm]

theorem runs_fuel {acc : NodeAccess N} {A : Aut σ} {root : Nat} {s0 : SState N σ}
    {Y : List (Key × Nat × σ)}
    (h : ∃ M, ∀ m, streamCollect acc A root (M + m) s0 [] = some Y) :
    ∃ N, ∀ fuel, N ≤ fuel → streamCollect acc A root fuel s0 [] = some Y := by
  obtain ⟨M, hM⟩ := h
  refine ⟨M, fun fuel hf => ?_⟩
  have : fuel = M + (fuel - M) := by omega
  rw [this]; exact hM _

/-- the form of the result used in the main theorems -/
theorem final_form (A : Aut σ) (min max : Bound) (l : KV) :
    ((l.filter fun kv => lowerOK min kv.1 && upperOK max kv.1 && A.accepts kv.1).map
        fun kv => (kv.1, kv.2, A.run A.start kv.1)) =
      F A max (l.filter fun kv => lowerOK min kv.1) := by
  simp only [F, List.filter_filter, good, upperOK]
  congr 1
  apply List.filter_congr
  intro kv _
  cases lowerOK min kv.1 <;> simp

theorem mem_contRel_ne_nil {den : Nat → KV} {n : BNode} {i : Nat} {kv : Key × Nat}
    (h : kv ∈ contRel den n i) : ∃ b r, kv.1 = b :: r := by
  simp only [contRel, List.mem_flatMap, lift, List.mem_map] at h
  obtain ⟨t, _, kv', _, hkv⟩ := h
  exact ⟨t.inp, kv'.1, by rw [← hkv]⟩

/-- an empty lower bound keeps everything, except the empty key if exclusive -/
theorem filter_lower_empty (den : Nat → KV) (n : BNode) (min : Bound) (hmin : min.isEmpty = true) :
    ((denNodeWith den n).filter fun kv => lowerOK min kv.1) =
      (if min.isInclusive then own n else []) ++ contRel den n 0 := by
  rw [denNodeWith_eq, List.filter_append]
  have hc : ((contRel den n 0).filter fun kv => lowerOK min kv.1) = contRel den n 0 := by
    rw [List.filter_eq_self]
    intro kv hkv
    obtain ⟨b, r, hk⟩ := mem_contRel_ne_nil hkv
    cases min with
    | unbounded => rfl
    | included k =>
      have : k = [] := by simpa [Bound.isEmpty] using hmin
      subst this
      simp [lowerOK, lexLt_nil_right]
    | excluded k =>
      have : k = [] := by simpa [Bound.isEmpty] using hmin
      subst this
      simp [lowerOK, hk, lexLt]
  rw [hc]
  congr 1
  cases min with
  | unbounded => simp [lowerOK, Bound.isInclusive]
  | included k =>
    have : k = [] := by simpa [Bound.isEmpty] using hmin
    subst this
    simp [lowerOK, lexLt_nil_right, Bound.isInclusive]
  | excluded k =>
    have : k = [] := by simpa [Bound.isEmpty] using hmin
    subst this
    cases hf : n.fin <;> simp [lowerOK, Bound.isInclusive, own, hf, lexLt]

end StreamP

open StreamP

variable {N σ : Type}

/-- T-Stream with an empty lower bound (`Unbounded`, `Included []`, `Excluded []`), any
upper bound and any automaton obeying the contract (the `canMatch` hint is only required to
be sound in states reachable from the start state): the stream never panics and yields
exactly the in-range accepted entries of `den root`, in the order of `den root`, with the
automaton state reached after each key, and then ends. -/
theorem stream_correct_emptymin {acc : NodeAccess N} {A : Aut σ} {s : Store} {den : Nat → KV}
    (hg : GoodStore s den) (hr : Represents acc s) (root : Nat)
    (hroot : root = 0 ∨ ∃ n, (root, n) ∈ s)
    (hEof : ∀ x, A.acceptEof x = none)
    (hCan : ∀ p, A.canMatch (A.run A.start p) = false →
      ∀ w, A.isMatch (A.run (A.run A.start p) w) = false)
    (min max : Bound) (hmin : min.isEmpty = true) :
    ∃ s0, streamNew acc A root min max = some s0 ∧
    ∃ N, ∀ fuel, N ≤ fuel →
      streamCollect acc A root fuel s0 [] =
        some (((den root).filter fun kv =>
                lowerOK min kv.1 && upperOK max kv.1 && A.accepts kv.1).map
                fun kv => (kv.1, kv.2, A.run A.start kv.1)) := by
  have C : Ctx acc A s den := ⟨hg, hr, hEof, hCan⟩
  obtain ⟨nr, r, R⟩ := valid_rep hg hr (show Valid s root from hroot)
  have hroot_run := run_root C root max nr r R
  rw [final_form, R.den_eq, filter_lower_empty den nr min hmin]
  simp only [streamNew, R.node, hmin, if_true, R.fin, R.fout]
  refine ⟨_, rfl, ?_⟩
  apply runs_fuel
  cases hincl : min.isInclusive with
  | false =>
    obtain ⟨M, hM⟩ := hroot_run
    refine ⟨M, fun m => ?_⟩
    simp only [Bool.false_eq_true, if_false, List.nil_append]
    have := hM m []
    simpa using this
  | true =>
    cases hf : nr.fin with
    | false =>
      obtain ⟨M, hM⟩ := hroot_run
      refine ⟨M, fun m => ?_⟩
      simp only [Bool.false_eq_true, if_false, if_true, own, hf, List.nil_append]
      have := hM m []
      simpa using this
    | true =>
      simp only [if_true, own, hf]
      have hcl : max.exceededBy [] = true → F A max (contRel den nr 0) = [] := by
        intro hq
        have := F_exceeded_ext A max [] 0 (contRel den nr 0) hq
        rwa [pre_nil_zero] at this
      obtain ⟨M, hM⟩ := run_emptyOutput acc A root max nr.fout _ _ hroot_run hcl
      refine ⟨M, fun m => ?_⟩
      rw [hM m, F_append]

/-- T-Stream without a lower bound (delivery item (1)) -/
theorem stream_correct_nomin {acc : NodeAccess N} {A : Aut σ} {s : Store} {den : Nat → KV}
    (hg : GoodStore s den) (hr : Represents acc s) (root : Nat)
    (hroot : root = 0 ∨ ∃ n, (root, n) ∈ s)
    (hEof : ∀ x, A.acceptEof x = none)
    (hCan : ∀ x, A.canMatch x = false → ∀ w, A.isMatch (A.run x w) = false)
    (max : Bound) :
    ∃ s0, streamNew acc A root .unbounded max = some s0 ∧
    ∃ N, ∀ fuel, N ≤ fuel →
      streamCollect acc A root fuel s0 [] =
        some (((den root).filter fun kv => upperOK max kv.1 && A.accepts kv.1).map
                fun kv => (kv.1, kv.2, A.run A.start kv.1)) := by
  have := stream_correct_emptymin hg hr root hroot hEof (fun p => hCan _) .unbounded max rfl
  simpa [lowerOK] using this

/-! ### the hypotheses are satisfiable -/

/-- `AlwaysMatch` obeys the automaton contract -/
theorem autAlways_contract :
    (∀ x, autAlways.acceptEof x = none) ∧
    (∀ x, autAlways.canMatch x = false → ∀ w, autAlways.isMatch (autAlways.run x w) = false) :=
  ⟨fun _ => rfl, fun x h => by simp [autAlways] at h⟩

namespace StreamExample

/-- the trivial node access of a store -/
def storeAccess (s : Store) : NodeAccess (Nat × BNode) where
  node := fun a => (nodeAt s a).map fun n => (a, n)
  addr := fun x => x.1
  isFinal := fun x => x.2.fin
  finalOutput := fun x => x.2.fout
  len := fun x => x.2.trans.length
  transition := fun x i => x.2.trans[i]?
  transitionAddr := fun x i => x.2.trans[i]?.map (·.addr)
  findInput := fun x b => some (transIdx x.2 b)

theorem storeAccess_represents (s : Store) : Represents (storeAccess s) s := by
  refine ⟨fun a n h => ⟨(a, n), ?_, rfl, rfl, rfl, rfl, ?_, fun _ => rfl⟩⟩
  · simp [storeAccess, h]
  · intro i hi
    simp [storeAccess, hi]

/-- keys `a ↦ 1`, `ab ↦ 2`, `b ↦ 3`; root at address 5 -/
def exStore : Store :=
  [(2, ⟨true, 0, [⟨98, 1, 0⟩]⟩), (5, ⟨false, 0, [⟨97, 1, 2⟩, ⟨98, 3, 0⟩]⟩)]

def exDen (a : Nat) : KV :=
  if a = 0 then [([], 0)]
  else if a = 2 then [([], 0), ([98], 1)]
  else if a = 5 then [([97], 1), ([97, 98], 2), ([98], 3)]
  else []

theorem exGood : GoodStore exStore exDen := by
  refine ⟨rfl, ?_, ?_, ?_, ?_, ?_⟩
  · intro a n h
    simp only [exStore, List.mem_cons, Prod.mk.injEq, List.mem_nil_iff, or_false] at h
    rcases h with ⟨rfl, rfl⟩ | ⟨rfl, rfl⟩ <;> decide
  · intro a n h
    simp only [exStore, List.mem_cons, Prod.mk.injEq, List.mem_nil_iff, or_false] at h
    rcases h with ⟨rfl, rfl⟩ | ⟨rfl, rfl⟩ <;> decide
  · intro a n m h1 h2
    simp only [exStore, List.mem_cons, Prod.mk.injEq, List.mem_nil_iff, or_false] at h1 h2
    rcases h1 with ⟨rfl, rfl⟩ | ⟨rfl, rfl⟩ <;> rcases h2 with ⟨h, rfl⟩ | ⟨h, rfl⟩ <;> first | rfl | omega
  · intro a n h t ht
    simp only [exStore, List.mem_cons, Prod.mk.injEq, List.mem_nil_iff, or_false] at h
    rcases h with ⟨rfl, rfl⟩ | ⟨rfl, rfl⟩
    · simp only [List.mem_cons, List.mem_nil_iff, or_false] at ht
      subst ht; exact ⟨by decide, Or.inl rfl⟩
    · simp only [List.mem_cons, List.mem_nil_iff, or_false] at ht
      rcases ht with rfl | rfl
      · exact ⟨by decide, Or.inr ⟨⟨true, 0, [⟨98, 1, 0⟩]⟩, by decide⟩⟩
      · exact ⟨by decide, Or.inl rfl⟩
  · intro a n h
    simp only [exStore, List.mem_cons, Prod.mk.injEq, List.mem_nil_iff, or_false] at h
    rcases h with ⟨rfl, rfl⟩ | ⟨rfl, rfl⟩ <;> simp [SortedInputs] <;> decide

theorem exRoot : (5 : Nat) = 0 ∨ ∃ n, (5, n) ∈ exStore :=
  Or.inr ⟨⟨false, 0, [⟨97, 1, 2⟩, ⟨98, 3, 0⟩]⟩, by decide⟩

example : ∃ s0, streamNew (storeAccess exStore) autAlways 5 .unbounded (.included [97, 98]) = some s0 ∧
    ∃ N, ∀ fuel, N ≤ fuel →
      streamCollect (storeAccess exStore) autAlways 5 fuel s0 [] =
        some [([97], 1, ()), ([97, 98], 2, ())] :=
  stream_correct_nomin exGood (storeAccess_represents exStore) 5 exRoot
    autAlways_contract.1 autAlways_contract.2 (.included [97, 98])

end StreamExample

end Fst
